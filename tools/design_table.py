#!/usr/bin/env python3
"""Regenerates the "Theorems as built" table and the theorem count in DESIGN.md section 0 from
lean/HttpServeModel/Theorems/INDEX.json (run after ./check --relock)."""
import json, re, os
root = os.path.dirname(os.path.dirname(os.path.abspath(__file__)))
idx = json.load(open(os.path.join(root, "lean/HttpServeModel/Theorems/INDEX.json")))
rows, tot = [], 0
for p in sorted(idx):
    names = [n[len(p) + 1:] for n in idx[p]]
    tot += len(names)
    src = open(os.path.join(root, f"lean/HttpServeModel/Theorems/{p}.lean")).read()
    lem = sorted(set(re.findall(r"import HttpServeModel\.Lemmas\.(\w+)", src)))
    rows.append(f"| {p} | " + ", ".join(f"`{n}`" for n in names) + " | " + (", ".join(lem) or "—") + " |")
path = os.path.join(root, "DESIGN.md")
s = open(path).read()
i = s.index("| C01 | `")
j = s.index("**Deviations from the plan")
s = s[:i] + "\n".join(rows) + "\n\n" + s[j:]
s = re.sub(r"20 theorem files, \d+ property theorems", f"20 theorem files, {tot} property theorems", s)
open(path, "w").write(s)
print(tot, "theorems")
