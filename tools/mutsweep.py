#!/usr/bin/env python3
"""tools/mutsweep.py <mirror-dir> <shard i/k> [max] — a syntactic mutation sweep of /repo/src against the checks.

Complements the sub-agent-seeded changes (DESIGN section 15) with the dumb kind: one token changed
(comparison, arithmetic, boolean operator, a constant off by one, `true`/`false`, a `!` dropped or
added, `min`/`max`, `checked_`/`saturating_`). A mutant counts only if it COMPILES and PASSES the
crate's own tests (the brief's "realistic change that still compiles and passes the existing
tests"); each such survivor is run against the checks of the properties anchored in the file it
touches (all quick, proof gate skipped: the Lean side does not depend on /repo). Output: one TSV
row per candidate: file, line, operator, original -> mutated, status (nocompile | killed-by-tests |
DETECTED <checks> | UNDETECTED), so that undetected survivors can be looked at by hand (equivalent
mutant, or a gap in the suites).

Works in a throw-away mirror (<mirror-dir>/repo = clone of /repo's HEAD, <mirror-dir>/verif = copy
of /verif with the harness pointed at it); /repo and /verif are not touched.
"""
import hashlib, os, re, subprocess, sys, random

MIRROR = sys.argv[1]
SH_I, SH_K = (int(x) for x in sys.argv[2].split("/"))
MAXN = int(sys.argv[3]) if len(sys.argv) > 3 else 10 ** 9
REPO, VERIF = MIRROR + "/repo", MIRROR + "/verif"
ENV = dict(os.environ, CARGO_NET_OFFLINE="true", HS_DEV_SKIP_PROOF="1", HS_NO_SEARCH="1")

CHECKS = {
    "range.rs": ["C03", "C02", "C13", "C15"],
    "etag.rs": ["C04", "C05", "C14", "C13"],
    "serving.rs": ["C01", "C02", "C03", "C04", "C05", "C06", "C07", "C12", "C13", "C14", "C15", "C20"],
    "body.rs": ["C01", "C07", "C12", "C20", "C02"],
    "chunker.rs": ["C08", "C09", "C10", "C11", "C12", "C20"],
    "gzip.rs": ["C09", "C11", "C17", "C08", "C20"],
    "lib.rs": ["C16", "C17", "C15"],
    "file.rs": ["C18", "C02", "C20"],
    "platform.rs": ["C18", "C02"],
    "dir.rs": ["C19"],
}

OPS = [
    (r"<=", ["<", "=="]), (r">=", [">", "=="]), (r"(?<![<>=!-])<(?![<=])", ["<="]), (r"(?<![<>=!-])>(?![>=])", [">="]),
    (r"==", ["!="]), (r"!=", ["=="]), (r"&&", ["||"]), (r"\|\|", ["&&"]),
    (r"(?<![+\w])\+(?![+=])", ["-"]), (r"(?<![-\w(,=\s])\s-\s", [" + "]), (r"\+=", ["-="]), (r"-=", ["+="]),
    (r"\btrue\b", ["false"]), (r"\bfalse\b", ["true"]),
    (r"\b(\d+)\b", ["+1", "-1"]),
    (r"\bmin\(", ["max("]), (r"\bmax\(", ["min("]),
    (r"checked_add", ["saturating_add", "wrapping_add"]), (r"checked_sub", ["saturating_sub"]),
    (r"saturating_sub", ["wrapping_sub"]), (r"\.is_some\(\)", [".is_none()"]), (r"\.is_none\(\)", [".is_some()"]),
    (r"\.is_empty\(\)", [".is_empty() == false"]),
    (r"if !", ["if "]), (r"\bSome\(true\)", ["Some(false)"]), (r"\bSome\(false\)", ["Some(true)"]),
    (r"\.take\(\)", [".clone()"]), (r"\bOk\(true\)", ["Ok(false)"]), (r"\bOk\(false\)", ["Ok(true)"]),
]


def sh(cmd, cwd, timeout=1800):
    try:
        p = subprocess.run(cmd, cwd=cwd, shell=True, env=ENV, stdout=subprocess.PIPE, stderr=subprocess.STDOUT, text=True, timeout=timeout)
        return p.returncode, p.stdout
    except subprocess.TimeoutExpired:
        return 124, "timeout"


def setup():
    os.makedirs(MIRROR, exist_ok=True)
    sh(f"rm -rf {REPO} {VERIF}; git clone -q /repo {REPO}; rsync -a --exclude replays --exclude .git /verif/ {VERIF}/", "/")
    sh(f"sed -i 's#path = \"/repo\"#path = \"{REPO}\"#' {VERIF}/harness/Cargo.toml", "/")
    sh("cp /repo/Cargo.lock . 2>/dev/null; cargo test --offline --features dir --no-run", REPO)


def candidates():
    out = []
    for name in sorted(CHECKS):
        path = f"{REPO}/src/{name}"
        lines = open(path).read().split("\n")
        if name == "platform.rs":
            # only the unix half is compiled here
            cut = next((k for k, l in enumerate(lines) if "cfg(windows)" in l), len(lines))
            lines = lines[:cut]
        in_block = False
        for i, line in enumerate(lines):
            if line.strip().startswith("#[cfg(test)]"):
                break
            code = line
            if in_block:
                if "*/" in code:
                    in_block = False
                continue
            if "/*" in code and "*/" not in code:
                in_block = True
                continue
            stripped = code.strip()
            if not stripped or stripped.startswith("//") or stripped.startswith("#[") or stripped.startswith("use "):
                continue
            # lines that are type-level only (generic bounds, signatures, impl headers): `<`, `>`
            # and `+` there are not operators
            if re.match(r"^(pub(\([a-z]+\))?\s+)?(impl\b|fn\b|struct\b|enum\b|trait\b|type\b|where\b)", stripped) or \
                    re.match(r"^[A-Z]\w*\s*:\s", stripped) or re.match(r"^\+\s", stripped) or \
                    re.match(r"^\)\s*->", stripped) or re.match(r"^\w+\s*:\s*[&A-Za-z_:]+[<(]", stripped) and stripped.endswith(","):
                continue
            cpos = code.find("//")
            body = code if cpos < 0 else code[:cpos]
            # leave string literals alone
            spans = [(m.start(), m.end()) for m in re.finditer(r'"(?:[^"\\]|\\.)*"', body)]
            # statement deletion (HS_SWEEP_SDL=1: only these)
            if os.environ.get("HS_SWEEP_SDL"):
                if stripped.endswith(";") and not re.match(r"^(let |return\b|use |pub |const |static |type |break|continue)", stripped) \
                        and stripped.count("(") == stripped.count(")") and stripped.count("{") == stripped.count("}"):
                    out.append((name, i, "SDL", line, re.sub(r"\S.*$", "/* deleted */", line)))
                continue
            # condition negation and match-arm / early-return tampering (HS_SWEEP_COND=1: only these)
            if os.environ.get("HS_SWEEP_COND"):
                m = re.match(r"^(\s*)(\} else )?if (?!let )(.+) \{\s*$", body)
                if m:
                    out.append((name, i, "NEG", line, f"{m.group(1)}{m.group(2) or ''}if !({m.group(3)}) {{"))
                m = re.match(r"^(\s*)(\} else )?if let (.+) \{\s*$", body)
                if m and False:
                    pass
                m = re.match(r"^(\s*)while (?!let )(.+) \{\s*$", body)
                if m:
                    out.append((name, i, "NEGW", line, f"{m.group(1)}while !({m.group(2)}) {{"))
                if re.match(r"^\s*return;\s*$", body) or re.match(r"^\s*continue;\s*$", body) or re.match(r"^\s*break;\s*$", body):
                    out.append((name, i, "DELJ", line, re.sub(r"\S.*$", "/* deleted */", line)))
                continue
            for pat, repls in OPS:
                for m in re.finditer(pat, body):
                    if any(a <= m.start() < b for a, b in spans):
                        continue
                    for r in repls:
                        if r in ("+1", "-1"):
                            n = int(m.group(1))
                            if n > 100000 and r == "-1":
                                pass
                            new = str(n + 1 if r == "+1" else max(n - 1, 0))
                            if new == m.group(0):
                                continue
                        else:
                            new = r
                        mutated = body[:m.start()] + new + body[m.end():] + ("" if cpos < 0 else code[cpos:])
                        out.append((name, i, pat, line, mutated))
    return out


def main():
    setup()
    cands = candidates()
    rnd = random.Random(20261001)
    rnd.shuffle(cands)
    mine = [c for j, c in enumerate(cands) if j % SH_K == SH_I][:MAXN]
    print(f"# {len(cands)} candidates, this shard {len(mine)}", flush=True)
    for name, i, pat, orig, mutated in mine:
        path = f"{REPO}/src/{name}"
        sh("git checkout -q -- .", REPO)
        lines = open(path).read().split("\n")
        lines[i] = mutated
        open(path, "w").write("\n".join(lines))
        desc = f"{name}\t{i + 1}\t{orig.strip()[:90]}\t{mutated.strip()[:90]}"
        rc, out = sh("cargo check --offline --features dir,verif-hooks", REPO, 300)
        if rc != 0:
            print(f"{desc}\tnocompile", flush=True)
            continue
        rc, out = sh("cargo test --offline --features dir 2>&1", REPO, 600)
        if rc != 0:
            print(f"{desc}\tkilled-by-tests", flush=True)
            continue
        hits = []
        for c in CHECKS[name]:
            rc, out = sh(f"./check {c} 2>&1 | grep -m1 VIOLATION", VERIF, 1200)
            if "VIOLATION" in out:
                hits.append(c + ("(corr)" if "no-failing-input-found" in out else ""))
                if "no-failing-input-found" not in out:
                    break           # one check with a failing input is enough
        print(f"{desc}\t{'DETECTED ' + ' '.join(hits) if hits else 'UNDETECTED'}", flush=True)
    sh("git checkout -q -- .", REPO)
    print("# SWEEP-DONE", flush=True)


if __name__ == "__main__":
    main()
