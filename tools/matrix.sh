#!/bin/bash
# For every seeded change: apply it to /repo, run every property's quick check, record which
# checks report a violation (and whether with a failing input), undo it. Writes seeded/MATRIX.tsv.
cd /verif
out=${MATRIX_OUT:-seeded/MATRIX.tsv}
echo -e "mutant\ttarget\tcheck\tresult" > $out
for d in ${MATRIX_ONLY:-seeded/M-* seeded/B?}; do
  m=$(basename $d); target=$(python3 -c "import json;print(json.load(open('$d/meta.json')).get('property','benign'))")
  git -C /repo checkout -q -- . ; git -C /repo apply /verif/$d/patch.diff || { echo -e "$m\t$target\t-\tPATCH-FAILED" >> $out; continue; }
  for p in C01 C02 C03 C04 C05 C06 C07 C08 C09 C10 C11 C12 C13 C14 C15 C16 C17 C18 C19 C20; do
    r=$(./check $p 2>&1 | grep VIOLATION | head -1)
    if [ -z "$r" ]; then res="quiet"; elif echo "$r" | grep -q no-failing-input-found; then res="ALARM-no-input"; else res="VIOLATION-with-input"; fi
    echo -e "$m\t$target\t$p\t$res" >> $out
  done
  git -C /repo checkout -q -- .
done
git -C /repo status --short | head
echo MATRIX-DONE
