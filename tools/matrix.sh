#!/bin/bash
# For every seeded change: apply it to the repository, run every property's quick check, record
# which checks report a violation (and whether with a failing input), undo it.
# Writes seeded/MATRIX.tsv (or $MATRIX_OUT).
# Regression test of the checks: MATRIX_TARGET_ONLY=1 MATRIX_MIRROR=/tmp/mx MATRIX_SKIP_PROOF=1
#   MATRIX_OUT=/tmp/selftest.tsv tools/matrix.sh; every M-* row must say VIOLATION-with-input,
#   every B* row quiet.
#
# Default: works on /repo and /verif (nothing else may use /repo meanwhile). With MATRIX_MIRROR=<dir>
# it works on a throw-away mirror instead (<dir>/repo = clone of /repo's HEAD, <dir>/verif = copy of
# /verif whose harness depends on <dir>/repo), so /repo stays free; remove <dir> afterwards.
set -u
REPO=/repo; VERIF=/verif
if [ -n "${MATRIX_MIRROR:-}" ]; then
  mkdir -p "$MATRIX_MIRROR"
  REPO=$MATRIX_MIRROR/repo; VERIF=$MATRIX_MIRROR/verif
  rm -rf "$REPO" "$VERIF"
  git clone -q /repo "$REPO"
  rsync -a --exclude replays --exclude .git /verif/ "$VERIF"/
  sed -i "s#path = \"/repo\"#path = \"$REPO\"#" "$VERIF/harness/Cargo.toml"
fi
cd "$VERIF"
out=${MATRIX_OUT:-/verif/seeded/MATRIX.tsv}
echo -e "mutant\ttarget\tcheck\tresult" > $out
for d in ${MATRIX_ONLY:-seeded/M-* seeded/B*}; do
  m=$(basename $d); target=$(python3 -c "import json;print(json.load(open('$d/meta.json')).get('property','benign'))")
  git -C $REPO checkout -q -- . ; git -C $REPO apply $VERIF/$d/patch.diff || { echo -e "$m\t$target\t-\tPATCH-FAILED" >> $out; continue; }
  checks=${MATRIX_CHECKS:-C01 C02 C03 C04 C05 C06 C07 C08 C09 C10 C11 C12 C13 C14 C15 C16 C17 C18 C19 C20}
  # MATRIX_TARGET_ONLY=1: a seeded change is only run against the check of the property it was aimed
  # at (the regression test of the checks themselves: each must still answer VIOLATION-with-input)
  if [ -n "${MATRIX_TARGET_ONLY:-}" ] && [ "$target" != "benign" ]; then checks=$target; fi
  for p in $checks; do
    r=$(HS_DEV_SKIP_PROOF=${MATRIX_SKIP_PROOF:-} HS_NO_SEARCH=1 ./check $p 2>&1 | grep VIOLATION | head -1)
    if [ -z "$r" ]; then res="quiet"; elif echo "$r" | grep -q no-failing-input-found; then res="ALARM-no-input"; else res="VIOLATION-with-input"; fi
    echo -e "$m\t$target\t$p\t$res" >> $out
  done
  git -C $REPO checkout -q -- .
done
git -C $REPO status --short | head
echo MATRIX-DONE
