#!/usr/bin/env python3
"""Regenerates the table and the counts of DESIGN.md section 17 from seeded/MATRIX.tsv."""
import csv, os, re, collections
root = os.path.dirname(os.path.dirname(os.path.abspath(__file__)))
rows = list(csv.reader(open(os.path.join(root, "seeded/MATRIX.tsv")), delimiter="\t"))[1:]
by = collections.OrderedDict()
for m, target, check, res in rows:
    by.setdefault(m, {"target": target, "own": "—", "with": [], "corr": []})
    d = by[m]
    if check == target:
        d["own"] = {"VIOLATION-with-input": "with input", "ALARM-no-input": "correspondence only", "quiet": "quiet"}.get(res, res)
    elif res == "VIOLATION-with-input":
        d["with"].append(check)
    elif res == "ALARM-no-input":
        d["corr"].append(check)
def key(m):
    return (0 if m.startswith("M-") else 1, m.split("-")[1] if "-" in m else m, int(m.split("-")[-1]) if m.startswith("M-") else int(m[1:]))
lines = ["| change | aimed at | its own check | other checks: violation with input | other checks: correspondence only |", "|---|---|---|---|---|"]
for m in sorted(by, key=key):
    d = by[m]
    own = d["own"] if d["target"] != "benign" else ("all quiet" if not d["with"] and not d["corr"] else "ALARM")
    lines.append(f"| {m} | {d['target']} | {own} | {' '.join(d['with']) or '—'} | {' '.join(d['corr']) or '—'} |")
mut = [m for m in by if m.startswith("M-")]
ben = [m for m in by if not m.startswith("M-")]
n_with = sum(len(by[m]["with"]) for m in mut)
n_corr = sum(len(by[m]["corr"]) for m in mut)
n_ben_alarm = sum(len(by[m]["with"]) + len(by[m]["corr"]) for m in ben)
path = os.path.join(root, "DESIGN.md")
s = open(path).read()
a = s.index("| change | aimed at | its own check |")
b = s.index("\n\n", a)
s = s[:a] + "\n".join(lines) + s[b:]
open(path, "w").write(s)
print(f"{len(mut)} seeded changes, {len(ben)} benign; other checks with input: {n_with}; correspondence only: {n_corr}; benign alarms: {n_ben_alarm}; own-check not with input: {[m for m in mut if by[m]['own'] != 'with input']}")
