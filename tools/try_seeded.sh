#!/bin/bash
# tools/try_seeded.sh <ID> <worktree> <check ids...>
# 1. re-confirms the seeded change in its scratch worktree (existing tests pass with it, the
#    demonstration fails with it and passes without it),
# 2. stores it as /verif/seeded/<ID>/,
# 3. applies it to /repo, runs the named checks, and undoes it straight afterwards.
set -u
ID=$1; WT=$2; shift 2
FEAT=""
grep -q 'feature = "dir"' "$WT/seeded/seeded_demo.rs" 2>/dev/null && FEAT="--features dir"
export CARGO_NET_OFFLINE=true
cd "$WT" || exit 2
git diff -- src/ > /tmp/try_$ID.diff
if ! diff -q <(cat /tmp/try_$ID.diff) seeded/patch.diff >/dev/null; then echo "NOTE: worktree diff differs from seeded/patch.diff (using patch.diff)"; fi
git checkout -q -- src/ ; git apply seeded/patch.diff || { echo "patch does not apply"; exit 2; }
cp seeded/seeded_demo.rs tests/seeded_demo.rs
echo "== with patch: existing tests"
cargo test --offline $FEAT --lib --test entity-acceptance --test chunked-acceptance 2>&1 | grep -E "^test result|FAILED|panicked" | head -8
echo "== with patch: demo (must FAIL)"
cargo test --offline $FEAT --test seeded_demo 2>&1 | grep -E "^test result|FAILED" | head -3
git checkout -q -- src/
echo "== without patch: demo (must PASS)"
cargo test --offline $FEAT --test seeded_demo 2>&1 | grep -E "^test result|FAILED" | head -3
git apply seeded/patch.diff
mkdir -p /verif/seeded/$ID && cp seeded/patch.diff seeded/seeded_demo.rs seeded/meta.json /verif/seeded/$ID/
cd /verif
git -C /repo apply /verif/seeded/$ID/patch.diff || { echo "patch does not apply to /repo"; exit 2; }
for c in "$@"; do
  echo "== check $c on the mutated tree"
  ./check $c 2>&1 | grep -E "VIOLATION|KNOWN|quick:" 
done
git -C /repo checkout -- .
git -C /repo status --short | head -3
