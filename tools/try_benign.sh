#!/bin/bash
# tools/try_benign.sh <ID> <worktree>: stores a behaviour-preserving refactoring as seeded/<ID>/,
# applies it to /repo, runs all 20 quick checks (no alarm is the expected result), undoes it.
set -u
ID=$1; WT=$2
mkdir -p /verif/seeded/$ID && cp $WT/seeded/patch.diff $WT/seeded/meta.json /verif/seeded/$ID/
cd /verif
git -C /repo apply /verif/seeded/$ID/patch.diff || { echo "patch does not apply to /repo"; exit 2; }
(cd /repo && CARGO_NET_OFFLINE=true cargo test --offline --features dir 2>&1 | grep -E "^test result|FAILED" | head -5)
for c in C01 C02 C03 C04 C05 C06 C07 C08 C09 C10 C11 C12 C13 C14 C15 C16 C17 C18 C19 C20; do
  HS_DEV_SKIP_PROOF=1 ./check $c 2>&1 | grep -E "VIOLATION" | sed "s/^/ALARM $ID $c: /"
done
echo "benign $ID done"
git -C /repo checkout -- .
git -C /repo status --short | head -3
