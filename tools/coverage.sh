#!/bin/bash
# Which lines of /repo/src do the correspondence suites execute? Builds a copy of the harness with
# -C instrument-coverage in a scratch directory, runs every property's quick suite, and prints the
# llvm-cov report plus the lines never executed. Not part of any registered check; the scratch
# directory is removed at the end. Needs the nightly toolchain's llvm-tools (installed here).
set -eu
S=${COV_SCRATCH:-/tmp/hs-cov-$$}
B=$(dirname "$(rustc +nightly --print target-libdir)")/bin
mkdir -p "$S"; rsync -a --exclude target /verif/harness/ "$S/h/"
cd "$S/h"
LLVM_PROFILE_FILE="$S/build-%p.profraw" RUSTFLAGS="-C instrument-coverage" CARGO_NET_OFFLINE=true cargo build --offline 2>&1 | tail -1
for i in $(seq -w 1 20); do
  LLVM_PROFILE_FILE="$S/C$i-%p.profraw" ./target/debug/hsharness gen C$i ${COV_TIER:-quick} 1 > /dev/null 2>&1 &
done
wait
"$B/llvm-profdata" merge -sparse "$S"/C*.profraw -o "$S/all.profdata"
"$B/llvm-cov" report ./target/debug/hsharness -instr-profile="$S/all.profdata" --sources /repo/src 2>/dev/null | cut -c1-30,95-150
echo
echo "lines never executed:"
"$B/llvm-cov" show ./target/debug/hsharness -instr-profile="$S/all.profdata" --sources /repo/src 2>/dev/null \
  | awk '/^\/repo\/src\//{f=$0} /^ +[0-9]+\| +0\|/{print f " " $0}' | sed 's/^\/repo\/src\///' | cut -c1-150
cd /; rm -rf "$S"; rm -f /repo/default_*.profraw
