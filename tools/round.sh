#!/bin/bash
# tools/round.sh <suffix>: for every scratch worktree /tmp/mut_Cxx<suffix> that has deliverables,
# store the seeded change under the next free id M-Cxx-n, confirm it (tools/try_seeded.sh), run the
# check of its property on the mutated /repo, remove the worktree, and print one summary line.
SUF=$1
for i in ${2:-$(seq -w 1 20)}; do
  p=C$i; wt=/tmp/mut_${p}${SUF}
  [ -f $wt/seeded/patch.diff ] || { [ -d $wt ] && echo "$p: no deliverables yet"; continue; }
  n=1; while [ -d /verif/seeded/M-$p-$n ]; do n=$((n+1)); done
  id=M-$p-$n
  out=$(timeout 1800 /verif/tools/try_seeded.sh $id $wt $p 2>&1)
  demo=$(echo "$out" | grep -A2 "demo (must FAIL)" | grep -c "FAILED")
  demo2=$(echo "$out" | grep -A2 "demo (must PASS)" | grep -c "test result: ok")
  v=$(echo "$out" | grep -E "^VIOLATION" | head -1 | grep -c "no-failing-input-found")
  has=$(echo "$out" | grep -c "^VIOLATION")
  q=$(echo "$out" | grep "quick:" | tail -1 | sed 's/.*disagreements/disagreements/')
  if [ $has -eq 0 ]; then res="MISSED"; elif [ $v -eq 1 ]; then res="corr-only"; else res="with-input"; fi
  echo "$id demo_fails=$demo demo_passes_without=$demo2 -> $res ($q)"
  git -C /repo worktree remove --force $wt 2>/dev/null
done
git -C /repo worktree prune; git -C /repo status --short | head -3
