import HttpServeModel.Theorems.C01
open HS
#print axioms C01_never_more_than_announced
#check @C01_never_more_than_announced
#print axioms C01_clean_end_exact
#check @C01_clean_end_exact
#print axioms C01_content_length_is_hint
#check @C01_content_length_is_hint
#print axioms C01_no_content_length_otherwise
#check @C01_no_content_length_otherwise
#print axioms C01_honest_ends_cleanly
#check @C01_honest_ends_cleanly
