/-
C05 — If-Range: partial content only against an identical strong validator.

Property statements only; proofs in `Lemmas/CondLemmas.lean`.
-/
import HttpServeModel.Lemmas.CondLemmas

namespace HS

/-- When a request carries If-Range, a partial answer (206 single or multipart, or 416) is given
only if the If-Range value is byte-identical to the entity's current ETag and that tag is
strong. (So a client can never splice ranges of two different versions.) -/
theorem C05_partial_only_identical_strong (q : Req) (e : Ent) (now : Nat) (r : Resp) (v : Bytes)
    (hv : q.ifRange = some v) (h : serve q e now = .ok r) (hs : r.status = 206 ∨ r.status = 416) :
    e.etag = some v ∧ startsWith kWeak v = false :=
  ifrange_partial_only_identical_strong q e now r v hv h hs

/-- For every other If-Range value — weak on either side, different bytes (prefix, suffix, case
variants are just different bytes), an entity without ETag, any date, garbage — the response is
exactly the response to the same request with neither Range nor If-Range: the complete
representation, entity headers included, no Content-Range. -/
theorem C05_otherwise_complete (q : Req) (e : Ent) (now : Nat) (v : Bytes)
    (hv : q.ifRange = some v) (hne : ¬ (e.etag = some v ∧ startsWith kWeak v = false)) :
    serve q e now = serve { q with range := none, ifRange := none } e now :=
  ifrange_mismatch_ignores_range q e now v hv hne

/-- With the matching strong tag the Range header is still honoured: same status, same
Content-Range, same ranges as without If-Range (only the entity's headers are omitted) —
unless the response WITHOUT If-Range is a 413 (see `C05_still_honoured_full_false`). -/
theorem C05_still_honoured_partial (q : Req) (e : Ent) (now : Nat) (v : Bytes) (r r' : Resp)
    (hv : q.ifRange = some v) (he : e.etag = some v) (hs : startsWith kWeak v = false)
    (hq : startsWith [34] v = true)
    (h : serve q e now = .ok r) (h' : serve { q with ifRange := none } e now = .ok r')
    (h413 : r'.status ≠ 413) :
    r.status = r'.status ∧ r.header' .contentRange = r'.header' .contentRange ∧
    r.plan.ranges = r'.plan.ranges :=
  ifrange_match_honours_range_no413 q e now v r r' hv he hs hq h h' h413

/-- The same statement without the 413 proviso is FALSE — and harmlessly so: omitting the
entity's headers from the parts can make a multipart body representable (206) that with them is
not (413): entity of 2^64-1 bytes, `Range: bytes=0-0,1-18446744073709551452`. The partial
answer WITH If-Range is the more useful one; the property's clause "a Range sent ... with the
matching strong tag is still honoured" holds. -/
theorem C05_still_honoured_full_false :
    ¬ (∀ (q : Req) (e : Ent) (now : Nat) (v : Bytes) (r r' : Resp),
        q.ifRange = some v → e.etag = some v → startsWith kWeak v = false →
        startsWith [34] v = true →
        serve q e now = .ok r → serve { q with ifRange := none } e now = .ok r' →
        r.status = r'.status ∧ r.header' .contentRange = r'.header' .contentRange ∧
        r.plan.ranges = r'.plan.ranges) :=
  ifrange_match_honours_range_false

end HS
