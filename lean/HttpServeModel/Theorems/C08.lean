/-
C08 — `streaming_body` (identity): the client gets exactly the written bytes, once, in order.

Property statements only; proofs in `Lemmas/Pipe.lean`. Vocabulary: `Spec/Pipe.lean` —
`(Hist.init cap .raw).run ops` is the history of ANY sequence `ops` of `write` / `flush` / drop
of the writer and polls / hint queries of the body (`AnyOp.rawPlain`), of any length, with any
chunk size `cap ≥ 1`; `accepted` is the concatenation of the prefixes `write` reported as
accepted, `delivered` the concatenation of the frames the consumer received.
-/
import HttpServeModel.Lemmas.Pipe
import HttpServeModel.Lemmas.WriteAll

namespace HS

/-- Refinement to a FIFO byte pipe: at every point of every history, delivered ++ queued ++
still buffered by the writer = accepted. Nothing is lost, duplicated or reordered. -/
theorem C08_fifo (cap : Nat) (hc : 0 < cap) (ops : List AnyOp) (hops : ∀ op ∈ ops, op.rawPlain) :
    let h := (Hist.init cap .raw).run ops
    h.delivered ++ h.sys.inflight ++ h.sys.buf = h.accepted :=
  pipe_invariant cap hc ops hops

/-- Every frame is non-empty (and at most one chunk long). -/
theorem C08_frames_nonempty (cap : Nat) (hc : 0 < cap) (ops : List AnyOp)
    (hops : ∀ op ∈ ops, op.rawPlain) :
    ∀ f ∈ ((Hist.init cap .raw).run ops).frames, f ≠ [] ∧ f.length ≤ cap :=
  pipe_frames cap hc ops hops

/-- The body then ends cleanly: a clean end means the writer was dropped and the concatenation
of the frames equals the concatenation of the accepted prefixes. -/
theorem C08_clean_end_complete (cap : Nat) (hc : 0 < cap) (ops : List AnyOp)
    (hops : ∀ op ∈ ops, op.rawPlain) :
    let h := (Hist.init cap .raw).run ops
    ROut.end_ ∈ h.polls → h.sys.bw = .gone ∧ h.delivered = h.accepted :=
  pipe_clean_end_complete cap hc ops hops

/-- ... and it does end: once the writer is dropped, polling drains the queue and reports the
end within (queued chunks + 1) polls; no operation and no poll of such a history ever fails. -/
theorem C08_ends_after_drop (cap : Nat) (hc : 0 < cap) (ops : List AnyOp)
    (hops : ∀ op ∈ ops, op.rawPlain) (w : Nat) (k : Nat) :
    let h := (Hist.init cap .raw).run ops
    h.sys.bw = .gone →
    (match h.sys.sh.state with | .ok ready _ _ => ready.length < k | _ => 0 < k) →
    ROut.end_ ∈ (h.run (List.replicate k (.c (.poll w)))).polls :=
  pipe_drain_bounded cap hc ops hops w k

theorem C08_no_errors (cap : Nat) (hc : 0 < cap) (ops : List AnyOp) (hops : ∀ op ∈ ops, op.rawPlain) :
    let h := (Hist.init cap .raw).run ops
    POut.err ∉ h.pouts ∧ ROut.err ∉ h.polls ∧ ROut.panic ∉ h.polls :=
  pipe_no_errors cap hc ops hops

/-- After `flush` returns, every byte accepted so far is delivered or queued — available to the
consumer without any further producer action. -/
theorem C08_flush_publishes (cap : Nat) (hc : 0 < cap) (ops : List AnyOp)
    (hops : ∀ op ∈ ops, op.rawPlain) :
    let h := (Hist.init cap .raw).run (ops ++ [.p .flush])
    h.sys.bw = .raw → h.delivered ++ h.sys.inflight = h.accepted :=
  pipe_flush_publishes cap hc ops hops

/-- A `write` of a non-empty buffer to a live body always accepts at least one byte. -/
theorem C08_write_progress (cap : Nat) (hc : 0 < cap) (ops : List AnyOp)
    (hops : ∀ op ∈ ops, op.rawPlain) (bs : Bytes) (hbs : bs ≠ []) :
    let h := (Hist.init cap .raw).run ops
    h.sys.bw = .raw → ∃ n, (h.sys.pop (.write bs)).2.1 = .wrote n ∧ 1 ≤ n ∧ n ≤ bs.length :=
  pipe_write_progress cap hc ops hops bs hbs

/-- `write_vectored` (std's default: a `write` of the first non-empty slice) is covered by all of
the above, being a `write`; and whatever number of bytes it reports, those bytes are the first
so many of the slices' concatenation — the contract a caller re-offering the rest relies on. -/
theorem C08_write_vectored_accepts_a_prefix (s : Sys) (slices : List Bytes) (n : Nat)
    (hn : n ≤ (firstNonEmpty slices).length) :
    s.writeVectored slices = s.pop (.write (firstNonEmpty slices)) ∧
    (firstNonEmpty slices).take n = slices.flatten.take n := by
  refine ⟨rfl, ?_⟩
  induction slices with
  | nil => simp [firstNonEmpty]
  | cons a rest ih =>
    by_cases ha : a = []
    · subst ha
      simp only [firstNonEmpty, if_true, List.flatten_cons, List.nil_append] at hn ⊢
      exact ih hn
    · simp only [firstNonEmpty, ha, if_false, List.flatten_cons] at hn ⊢
      rw [List.take_append_of_le_length hn]

/-- `write_all` (std's loop over `write`, which `BodyWriter` inherits) on a live identity body
never fails and never reports `WriteZero`: it accepts the whole buffer, through a sequence of
non-empty `write` calls — so everything above about histories of writes covers it. -/
theorem C08_write_all_accepts_everything (cap : Nat) (hc : 0 < cap) (ops : List AnyOp)
    (hops : ∀ op ∈ ops, op.rawPlain) (bs : Bytes) :
    let h := (Hist.init cap .raw).run ops
    h.sys.bw = .raw →
      (h.sys.writeAll bs).2.1 = .wrote bs.length ∧
      ∃ ws : List Bytes, (∀ w ∈ ws, w ≠ []) ∧
        (h.sys.writeAll bs).1 = ((Hist.init cap .raw).run (ops ++ ws.map fun w => .p (.write w))).sys :=
  write_all_accepts_everything cap hc ops hops bs

/-- Non-vacuity: chunk size 4, write 5 bytes (4 accepted), poll, write the fifth, flush, drop,
drain. -/
example :
    let h := (Hist.init 4 .raw).run
      [.p (.write [1, 2, 3, 4, 5]), .c (.poll 1), .p (.write [5]), .p .flush, .p .drop,
       .c (.poll 1), .c (.poll 1)]
    h.frames = [[1, 2, 3, 4], [5]] ∧ h.accepted = [1, 2, 3, 4, 5] ∧ h.polls.getLast? = some .end_ := by
  decide

end HS
