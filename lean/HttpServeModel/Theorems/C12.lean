/-
C12 — body size hints and the end-of-stream flag are truthful at every step.

Property statements only; proofs in `Lemmas/Layout.lean`, `Lemmas/Body.lean`, `Lemmas/Pipe.lean`.
-/
import HttpServeModel.Lemmas.ServeLemmas
import HttpServeModel.Lemmas.Layout
import HttpServeModel.Lemmas.Pipe

namespace HS

/-- Bodies from `serve` always give an exact hint (`BodyS.sizeHint` is a single number used as
both bounds), and at every step of a run that ends cleanly it equals the number of bytes still
to be delivered: hint after `k` polls + delivered in the first `k` polls = initial hint =
total delivered (by `C01_clean_end_exact`). -/
theorem C12_hint_exact_at_every_step (b : BodyS) (hinv : BInv b) (n : Nat)
    (hne : ∀ o ∈ outs (b.run n), o.isErr = false) (hend : PollOut.end_ ∈ outs (b.run n))
    (k : Nat) (hk : k ≤ n) :
    (BodyS.after k b).sizeHint + delivered (b.run k) = b.sizeHint ∧
    delivered (b.run n) = b.sizeHint :=
  ⟨hint_exact_at_every_step b hinv n hne hend k hk, run_clean_end_exact n b hinv hne hend⟩

/-- The hint is never below what is still delivered, whatever the entity does. -/
theorem C12_hint_upper_bound (b : BodyS) (hinv : BInv b) (n : Nat) :
    delivered (b.run n) ≤ b.sizeHint :=
  run_delivered_le n b hinv

/-- `Body::empty` / `Body::from(..)` (the `Once` bodies): exact hint, end-of-stream exactly when
nothing is left. -/
theorem C12_once (p : Option Nat) :
    (BodyS.once p).sizeHint = p.getD 0 ∧ ((BodyS.once p).isEndStream = true ↔ p = none) := by
  cases p <;> simp [BodyS.sizeHint, BodyS.isEndStream]

/-- Multipart body says end-of-stream ⇒ every further poll reports the end (no data, no error) —
unconditionally. -/
theorem C12_multipart_eos (m : Multipart) (hinv : MInv m)
    (h : (BodyS.multi m).isEndStream = true) (n : Nat) :
    ∀ o ∈ outs (BodyS.run n (.multi m)), o = .end_ :=
  multi_eos_truthful m hinv (by simpa [BodyS.isEndStream] using h) n

/-- Single-stream body says end-of-stream, and the entity honours its contract (after its whole
range only empty chunks / `Pending` may follow) ⇒ no data byte and no error follows. -/
theorem C12_single_eos (e : ExactLen) (h : (BodyS.exact e).isEndStream = true)
    (hq : QuietScript e.stream) (n : Nat) :
    ∀ o ∈ outs (BodyS.run n (.exact e)), o = .end_ ∨ o = .pending ∨ o = .data [] :=
  exact_eos_truthful e (by simpa [BodyS.isEndStream] using h) hq n

/-- Streaming body: in every reachable state the lower bound is exactly the queued bytes (so it
never exceeds what will still be delivered), and an upper bound is given only once the writer
is gone — then it is exactly the queued bytes, all that will ever come. -/
theorem C12_streaming_hint (cap : Nat) (hc : 0 < cap) (ops : List AnyOp)
    (hops : ∀ op ∈ ops, op.rawPlain) :
    let h := (Hist.init cap .raw).run ops
    let (lo, up) := readerSizeHint h.sys.sh
    lo = h.sys.inflight.length ∧
      (∀ u, up = some u → u = h.sys.inflight.length ∧ h.sys.bw = .gone ∧ h.sys.buf = []) :=
  pipe_size_hint cap hc ops hops

/-- Streaming body: it never says end-of-stream while chunks are undelivered, and once it says
so every further poll — whatever else happens, aborts included — reports the end. -/
theorem C12_streaming_eos (cap : Nat) (hc : 0 < cap) (ops : List AnyOp)
    (hops : ∀ op ∈ ops, op.rawPlain) (more : List AnyOp) (hmore : ∀ op ∈ more, op.rawAny) :
    let h := (Hist.init cap .raw).run ops
    readerIsEndStream h.sys.sh = true →
    h.sys.inflight = [] ∧ ∀ r ∈ ((h.run more).polls.drop h.polls.length), r = ROut.end_ :=
  pipe_eos_truthful cap hc ops hops more hmore

/-- ... nor while an abort error is pending. -/
theorem C12_not_eos_while_error_pending (w : Option Nat) :
    readerIsEndStream { state := .err, waker := w } = false := rfl

end HS
