/-
C16 — `should_gzip` implements the RFC 7231 section 5.3.4 preference of gzip vs identity.

Property statements only (proofs are one-line references into `Lemmas/AcceptEncoding.lean`).
Specification: `Spec/Rfc7231.lean` (`AeElem`, `renderAe`, `specGzip`).
-/
import HttpServeModel.Lemmas.AcceptEncoding
import HttpServeModel.Lemmas.QvalueSound

namespace HS

/-- For every grammatical Accept-Encoding value — any number of elements, any codings, any
qvalues of the grammar, any optional whitespace around `,` and `;` — `should_gzip` is exactly the
RFC's rule: gzip acceptable (listed or covered by `*`, non-zero quality) and not less preferred
than identity (own quality, else `*`'s, else least-preferred acceptable). -/
theorem C16_decision (l : List AeElem) (h : ∀ e ∈ l, e.wf) :
    shouldGzip (some (renderAe l)) = .ok (specGzip l) :=
  shouldGzip_render l h

/-- False when the header is absent. -/
theorem C16_absent : shouldGzip none = .ok false := rfl

/-- False when the header is empty. -/
theorem C16_empty : shouldGzip (some []) = .ok false := by decide

/-- False when the header names only other codings: gzip is never chosen for a client that did
not allow it. -/
theorem C16_only_other_codings (l : List AeElem) (h : ∀ e ∈ l, e.wf)
    (hg : ∀ e ∈ l, e.coding ≠ [103, 122, 105, 112] ∧ e.coding ≠ [42]) :
    shouldGzip (some (renderAe l)) = .ok false := by
  rw [shouldGzip_render l h]
  have hq : ∀ name, (∀ e ∈ l, e.coding ≠ name) → qualityOf name l = none := by
    intro name hn
    unfold qualityOf
    have : (l.reverse.find? fun e => e.coding == name) = none := by
      rw [List.find?_eq_none]
      intro e he
      have := hn e (List.mem_reverse.mp he)
      simpa using this
    simp [this]
  have h1 := hq [103, 122, 105, 112] (fun e he => (hg e he).1)
  have h2 := hq [42] (fun e he => (hg e he).2)
  simp [specGzip, prefGzip, h1, h2]

/-- The qvalue grammar is parsed exactly. -/
theorem C16_qvalue (q : QVal) (h : q.wf) : parseQvalue q.render = .ok (some q.value) :=
  parseQvalue_render q h

/-- ... and conversely: whatever the qvalue parser accepts is a grammatical qvalue with exactly
that weight — except for the one leniency that `u16::from_str` admits a `+` sign after `0.`
(`0.+5`), which can only make an UNgrammatical header parse. Every accepted weight is ≤ 1000. -/
theorem C16_qvalue_sound (s : Bytes) (v : Nat) (h : parseQvalue s = .ok (some v)) :
    ((∃ q : QVal, q.wf ∧ s = q.render ∧ v = q.value) ∨
     (∃ ds : Bytes, s = [48, 46, 43] ++ ds ∧ 1 ≤ ds.length ∧ ds.length ≤ 2 ∧ allDigits ds = true)) ∧
    v ≤ 1000 :=
  ⟨parseQvalue_sound s v h, parseQvalue_range s v h⟩

/-- No header value — any bytes at all — makes `should_gzip` panic. -/
theorem C16_total (ae : Option Bytes) : shouldGzip ae ≠ .panic := shouldGzip_total ae

/-- Non-vacuity: `gzip;q=0.5, identity;q=0.4` with whitespace is a well-formed list, and the
rule says gzip. -/
example :
    let l : List AeElem :=
      [{ coding := [103, 122, 105, 112], weight := some ⟨false, true, [5]⟩, owsAfterSemi := [32] },
       { coding := [105, 100, 101, 110, 116, 105, 116, 121], weight := some ⟨false, true, [4]⟩,
         owsBefore := [32] }]
    specGzip l = true ∧ shouldGzip (some (renderAe l)) = .ok true := by decide

/-- "gzip is never chosen for a client that did not allow it", in full: whenever `should_gzip`
answers true for a grammatical header, some element grants gzip a NON-ZERO quality — a `gzip`
element itself, or, when no element names gzip, a `*` element — and that quality is at least the
one identity gets. An explicit `gzip;q=0` is never overridden by `*`, and `*;q=0` alone never
yields gzip. -/
theorem C16_true_only_if_allowed (l : List AeElem) (h : ∀ e ∈ l, e.wf)
    (ht : shouldGzip (some (renderAe l)) = .ok true) :
    ∃ q, 0 < q ∧
      (qualityOf [103, 122, 105, 112] l = some q ∨
       (qualityOf [103, 122, 105, 112] l = none ∧ qualityOf [42] l = some q)) ∧
      prefIdentity l ≤ 1 + q := by
  rw [C16_decision l h] at ht
  have hs : specGzip l = true := by simpa using ht
  unfold specGzip prefGzip at hs
  cases hg : qualityOf [103, 122, 105, 112] l with
  | some q =>
    simp only [hg] at hs
    cases q with
    | zero => simp at hs
    | succ n => exact ⟨n + 1, by omega, Or.inl rfl, by simp at hs; omega⟩
  | none =>
    simp only [hg, Option.none_or] at hs
    cases hst : qualityOf [42] l with
    | none => simp [hst] at hs
    | some q =>
      simp only [hst] at hs
      cases q with
      | zero => simp at hs
      | succ n => exact ⟨n + 1, by omega, Or.inr ⟨rfl, rfl⟩, by simp at hs; omega⟩

end HS
