/-
C17 — `streaming_body`: coding headers agree with negotiation and with the body.

Property statements only.  `streamingBuild isHead ae chunk level` is the model of
`streaming_body(req).with_chunk_size(chunk).with_gzip_level(level).build()`; the two request
representations (`Request`, `Parts`) are both projections onto `(method, headers)`, which is
all the model's function takes.
-/
import HttpServeModel.Model.Negotiate
import HttpServeModel.Lemmas.Builder

namespace HS

/-- `Vary: accept-encoding` is always present, for every method, header and level. -/
theorem C17_vary_always (isHead : Bool) (ae : Option Bytes) (chunk level : Nat)
    (r : StreamingResp) (h : streamingBuild isHead ae chunk level = .ok r) : r.vary = true := by
  unfold streamingBuild at h
  cases hs : shouldGzip ae with
  | panic => simp [hs] at h
  | ok sg =>
    simp only [hs] at h
    split at h
    · cases h
    · cases h; rfl

/-- `Content-Encoding: gzip` exactly when negotiation prefers gzip and the level is above 0. -/
theorem C17_content_encoding_iff (isHead : Bool) (ae : Option Bytes) (chunk level : Nat)
    (r : StreamingResp) (sg : Bool) (hs : shouldGzip ae = .ok sg)
    (h : streamingBuild isHead ae chunk level = .ok r) :
    r.contentEncodingGzip = true ↔ (sg = true ∧ level > 0) := by
  unfold streamingBuild at h
  simp only [hs] at h
  split at h
  · cases h
  · cases h; simp

/-- The writer's kind always matches the header: a gzip writer iff the header says gzip, the
raw writer otherwise, and no writer at all iff the method is HEAD. -/
theorem C17_writer_matches_header (isHead : Bool) (ae : Option Bytes) (chunk level : Nat)
    (r : StreamingResp) (h : streamingBuild isHead ae chunk level = .ok r) :
    (r.writer = .none ↔ isHead = true) ∧
    (r.writer = .gzip ↔ (isHead = false ∧ r.contentEncodingGzip = true)) ∧
    (r.writer = .raw ↔ (isHead = false ∧ r.contentEncodingGzip = false)) := by
  unfold streamingBuild at h
  cases hs : shouldGzip ae with
  | panic => simp [hs] at h
  | ok sg =>
    simp only [hs] at h
    split at h
    · cases h
    · cases h
      cases isHead <;> cases hg : (sg && decide (level > 0)) <;> simp [hg]

/-- The headers do not depend on the method (C15: HEAD gets the same headers, no writer). -/
theorem C17_headers_method_independent (ae : Option Bytes) (chunk level : Nat)
    (r1 r2 : StreamingResp) (h1 : streamingBuild true ae chunk level = .ok r1)
    (h2 : streamingBuild false ae chunk level = .ok r2) :
    r1.vary = r2.vary ∧ r1.contentEncodingGzip = r2.contentEncodingGzip ∧ r1.writer = .none := by
  unfold streamingBuild at h1 h2
  cases hs : shouldGzip ae with
  | panic => simp [hs] at h1
  | ok sg =>
    simp only [hs] at h1 h2
    split at h1
    · cases h1
    · rename_i hc
      simp only [hc] at h2
      cases h1; cases h2; simp

/-- `build` only panics for a zero chunk size (an undocumented precondition) — never because
of the request. -/
theorem C17_total (isHead : Bool) (ae : Option Bytes) (chunk level : Nat) (hc : chunk ≠ 0)
    (hs : shouldGzip ae ≠ .panic) : streamingBuild isHead ae chunk level ≠ .panic := by
  unfold streamingBuild
  cases h : shouldGzip ae with
  | panic => exact absurd h hs
  | ok sg =>
    simp only
    split
    · rename_i hz; simp at hz; exact absurd hz hc
    · simp

/-- Non-vacuity: a concrete request for which the gzip writer is chosen. -/
example : streamingBuild false (some kGzip) 4096 6 =
    .ok { vary := true, contentEncodingGzip := true, writer := .gzip } := by decide

/-- Whatever builder calls precede `build()` and in whatever order, only the last
`with_gzip_level` and the last `with_chunk_size` count (defaults 6 and 4096): the response is the
one all theorems above describe for those two values. In particular a level set to 0 earlier
and raised later, or the reverse, leaves header and writer in agreement. -/
theorem C17_builder_calls (isHead : Bool) (ae : Option Bytes) (calls : List BCall) :
    streamingBuildCalls isHead ae calls =
      streamingBuild isHead ae ((lastChunk calls).getD 4096) ((lastLevel calls).getD 6) := by
  obtain ⟨h1, h2⟩ := foldl_call_fields calls {}
  simp only [streamingBuildCalls, h1, h2]

/-- Non-vacuity: level 0, then 6, for a client that prefers gzip. -/
example : streamingBuildCalls false (some [103, 122, 105, 112]) [.gzipLevel 0, .gzipLevel 6] =
    .ok { vary := true, contentEncodingGzip := true, writer := .gzip } := by decide

end HS
