/-
C07 — a short, long or failing entity stream never yields a complete-looking body.

Property statements only; proofs in `Lemmas/Layout.lean`, `Lemmas/Body.lean`,
`Lemmas/ServeLemmas.lean`. The theorems quantify over ARBITRARY scripts, so the fault's kind
(early end, error, extra byte, extra chunk), its chunk index and byte offset, empty chunks and
`Pending`s before it are all universally quantified, not enumerated.
-/
import HttpServeModel.Lemmas.ServeLemmas
import HttpServeModel.Lemmas.Layout

namespace HS

/-- Single stream (200 and single-range 206): if the body ends cleanly, the stream did not fail
and delivered exactly the announced number of bytes. Contrapositive: a stream that ends early,
fails, or delivers too much never produces a clean end. -/
theorem C07_clean_end_only_if_honest (e : ExactLen) (hf : e.finished = false) (n : Nat)
    (hne : ∀ o ∈ outs (BodyS.run n (.exact e)), o.isErr = false)
    (hend : PollOut.end_ ∈ outs (BodyS.run n (.exact e))) :
    Ev.err ∉ e.stream ∧ (scriptBytes e.stream).length = e.remaining :=
  exact_clean_end_honest e hf n hne hend

/-- Multipart: if the body ends cleanly, EVERY part's stream — whatever its position — did not
fail and delivered exactly its range's length. -/
theorem C07_multipart_clean_end_only_if_honest (rs : List (Nat × Nat)) (len : Nat) (eh : Bytes)
    (phs : List Bytes) (total : Nat) (scripts : List (List Ev))
    (hrs : ∀ r ∈ rs, r.1 < r.2)
    (hprep : prepareMultipart rs len eh = .ok (some (phs, total))) (n : Nat)
    (hne : ∀ o ∈ outs (BodyS.run n (.multi (Multipart.new phs rs total scripts))), o.isErr = false)
    (hend : PollOut.end_ ∈ outs (BodyS.run n (.multi (Multipart.new phs rs total scripts)))) :
    ∀ i (hi : i < rs.length),
      Ev.err ∉ scripts.getD i [] ∧ (scriptBytes (scripts.getD i [])).length = (rs[i]).2 - (rs[i]).1 :=
  multipart_clean_end_honest rs len eh phs total scripts hrs hprep n hne hend

/-- Nothing beyond the announced length is ever passed on, whatever the entity does. -/
theorem C07_nothing_beyond_announced (q : Req) (e : Ent) (now : Nat) (r : Resp)
    (hlen : e.len < U64) (h : serve q e now = .ok r) (scripts : List (List Ev)) (n : Nat) :
    ∃ b, BodyS.ofPlan r.plan scripts = .ok b ∧ delivered (b.run n) ≤ b.sizeHint := by
  obtain ⟨b, hb, hinv⟩ := serve_body_inv q e now r hlen h scripts
  exact ⟨b, hb, run_delivered_le n b hinv⟩

/-- A consumer that polls past the announced length receives an error rather than more data. -/
theorem C07_poll_past_announced (rest : List Ev) (bs : Bytes) (hbs : bs ≠ []) :
    (({ stream := .chunk bs :: rest, remaining := 0 } : ExactLen).poll).2 = .errLong bs.length :=
  exact_poll_past_announced rest bs hbs

/-- No livelock: a terminal event (end or error) occurs within a number of polls bounded by the
script events plus two per part plus two. -/
theorem C07_terminates (rs : List (Nat × Nat)) (len : Nat) (eh : Bytes)
    (phs : List Bytes) (total : Nat) (scripts : List (List Ev))
    (hrs : ∀ r ∈ rs, r.1 < r.2)
    (hprep : prepareMultipart rs len eh = .ok (some (phs, total)))
    (n : Nat) (hn : (scripts.map List.length).sum + 2 * rs.length + 2 ≤ n) :
    ∃ o ∈ outs (BodyS.run n (.multi (Multipart.new phs rs total scripts))), o.isTerminal = true :=
  multipart_terminates rs len eh phs total scripts hrs hprep n hn

/-- Non-vacuity / the fault kinds concretely: early end, error after all bytes, one extra byte. -/
example :
    (outs (BodyS.run 3 (.exact { stream := [.chunk [1, 2]], remaining := 3 }))) =
      [.data [1, 2], .errShort 1, .end_] ∧
    (outs (BodyS.run 3 (.exact { stream := [.chunk [1, 2, 3], .err], remaining := 3 }))) =
      [.data [1, 2, 3], .errEntity, .end_] ∧
    (outs (BodyS.run 2 (.exact { stream := [.chunk [1, 2, 3, 4]], remaining := 3 }))) =
      [.errLong 1, .end_] := by decide

end HS
