/-
C15 — HEAD mirrors GET without touching entity data.

Property statements only; proofs in `Lemmas/ServeLemmas.lean` and `Theorems/C17.lean`.
-/
import HttpServeModel.Lemmas.ServeLemmas
import HttpServeModel.Theorems.C17
import HttpServeModel.Lemmas.ServeCalls

namespace HS

/-- For any request, the response to the same request sent with HEAD has the same status and the
same header list as the GET response (the clock being the same parameter) — including
Content-Length, Content-Range and the multipart Content-Type; it never asks the entity for body
bytes; its body is empty for 2xx/3xx/416 and the same fixed text for 400/412/413. -/
theorem C15_head_mirrors_get (q : Req) (e : Ent) (now : Nat) (rg rh : Resp)
    (hg : serve { q with method := .get } e now = .ok rg)
    (hh : serve { q with method := .head } e now = .ok rh) :
    rh.status = rg.status ∧ rh.headers = rg.headers ∧
    (∀ a b, EntCall.getRange a b ∉ rh.calls) ∧
    (rg.status ∈ [200, 206, 304, 416] → rh.plan = .empty) ∧
    (rg.status ∈ [400, 412, 413] → rh.plan = rg.plan) :=
  head_mirrors_get q e now rg rh hg hh

/-- An empty plan is an empty body: it ends at once, delivers nothing, fetches nothing. -/
theorem C15_empty_body (scripts : List (List Ev)) (n : Nat) :
    ∃ b, BodyS.ofPlan .empty scripts = .ok b ∧ b.sizeHint = 0 ∧ b.isEndStream = true ∧
      ∀ o ∈ outs (b.run n), o = .end_ := by
  refine ⟨.once none, rfl, rfl, rfl, ?_⟩
  induction n with
  | zero => simp [BodyS.run, outs]
  | succ n ih =>
    intro o ho
    simp only [BodyS.run, outs, List.map_cons, List.mem_cons, BodyS.poll] at ho
    rcases ho with rfl | ho
    · rfl
    · exact ih o ho

/-- `streaming_body` likewise returns the same headers but no writer for HEAD. -/
theorem C15_streaming (ae : Option Bytes) (chunk level : Nat)
    (r1 r2 : StreamingResp) (h1 : streamingBuild true ae chunk level = .ok r1)
    (h2 : streamingBuild false ae chunk level = .ok r2) :
    r1.vary = r2.vary ∧ r1.contentEncodingGzip = r2.contentEncodingGzip ∧ r1.writer = .none :=
  C17_headers_method_independent ae chunk level r1 r2 h1 h2

/-- HEAD consults the entity exactly as GET does — the same `Entity` methods in the same order
(validators, length, `add_headers`) — minus the one `get_range` call: nothing else is skipped,
nothing extra is asked. -/
theorem C15_head_calls_are_get_calls_minus_fetch (q : Req) (e : Ent) (now : Nat) (rg rh : Resp)
    (hg : serve { q with method := .get } e now = .ok rg)
    (hh : serve { q with method := .head } e now = .ok rh) :
    rh.calls = rg.calls.filter (fun c => !c.isGetRange) :=
  head_calls_eq_get_calls_sans_fetch q e now rg rh hg hh

/-- Non-vacuity of `C15_head_calls_are_get_calls_minus_fetch`: a single-range GET asks for
validators, length, the range and the headers; the HEAD asks the same minus the range. -/
example :
    ∃ rg rh,
      serve { method := .get, range := some [98, 121, 116, 101, 115, 61, 49, 45, 50] }
            { len := 10 } 0 = .ok rg ∧
      serve { method := .head, range := some [98, 121, 116, 101, 115, 61, 49, 45, 50] }
            { len := 10 } 0 = .ok rh ∧
      rg.calls = [.lastModified, .etag, .len, .getRange 1 3, .addHeaders] ∧
      rh.calls = [.lastModified, .etag, .len, .addHeaders] := by
  refine ⟨_, _, rfl, rfl, ?_, ?_⟩ <;> decide

end HS
