/-
C19 — `FsDir::get` never leaves the base directory and opens exactly the right file.

Property statements only; proofs in `Lemmas/DirLemmas.lean`. The file system is a parameter:
an arbitrary symlink-free tree `FsNode` with POSIX-style resolution (`walk`, `openAt`), and
arbitrary ancestors above the base (`stack`) — e.g. a parent directory holding a secret.
-/
import HttpServeModel.Lemmas.DirLemmas

namespace HS

/-- An error for exactly the paths that are absolute, contain a NUL byte or have a `..` segment. -/
theorem C19_validate (p : Bytes) : (validatePath p).isSome = true ↔ pathUnsafe p :=
  validatePath_unsafe_iff p

/-- Names that merely contain dots are not rejected. -/
theorem C19_dots_are_fine : validatePath [46, 46, 46] = none ∧ validatePath [46, 46, 97] = none ∧
    validatePath [97, 46, 46] = none ∧ validatePath [97, 47, 46, 46] = some .dotdot := by decide

/-- Every unsafe path is refused with `InvalidInput`, whatever the tree and the headers. -/
theorem C19_rejects_unsafe (stack : List FsNode) (base : FsNode) (p : Bytes) (auto : Bool)
    (ae : Option Bytes) (h : pathUnsafe p) :
    ∃ e, dirGetIn stack base p auto ae = .ok (.invalid e) :=
  dirGet_rejects_unsafe stack base p auto ae h

/-- Containment: whatever node `get` returns — for any path, header, tree and ancestors — is
the base directory or a descendant of it. -/
theorem C19_contained (stack : List FsNode) (base : FsNode) (p : Bytes) (auto : Bool)
    (ae : Option Bytes) (id : Nat) (gz ce vary : Bool)
    (h : dirGetIn stack base p auto ae = .ok (.node id gz ce vary)) :
    ∃ n, Within base n ∧ n.id = id :=
  dirGet_contained stack base p auto ae id gz ce vary h

/-- Exactly the right file: the `.gz` sibling iff automatic gzip is on, the request prefers gzip
(`should_gzip`) and the sibling opens and is not a directory — then `encoding()` and
`Content-Encoding` say gzip; otherwise exactly what opening the path itself gives (the node, or
*its* error), not gzip. `Vary: accept-encoding` exactly when automatic gzip is on. -/
theorem C19_get (stack : List FsNode) (base : FsNode) (p : Bytes) (auto : Bool)
    (ae : Option Bytes) (sg : Bool) (hsafe : ¬ pathUnsafe p) (hsg : shouldGzip ae = .ok sg) :
    dirGetIn stack base p auto ae = .ok
      (match (if auto && sg then
                (match openAt stack base (p ++ kDotGz) with
                 | .ok (_, n) => if n.isDir then none else some n
                 | .error _ => none)
              else none) with
       | some n => .node n.id true true auto
       | none =>
         match openAt stack base p with
         | .ok (_, n) => .node n.id false false auto
         | .error k => .osErr k) :=
  dirGet_spec stack base p auto ae sg hsafe hsg

/-- Only `/` separates segments: a path without one — whatever else it contains, backslashes
included — is ONE name, looked up as it stands in the base directory (not `.`, not `..`, at most
255 bytes, in a base that is a directory). -/
theorem C19_no_slash_is_one_name (stack : List FsNode) (base : FsNode) (p : Bytes)
    (h1 : cSlash ∉ p) (h2 : p ≠ []) (h3 : p.length ≤ 255) (h4 : p ≠ [cDot]) (h5 : p ≠ kDotDot)
    (hd : base.isDir = true) :
    openAt stack base p =
      (match base.lookup p with
       | none => .error .notFound
       | some (.blocked _) => .error .other
       | some child => .ok (base :: stack, child)) := by
  have hl : ¬ (p.length ≥ 4096) := by omega
  have hne : p.isEmpty = false := by cases p <;> simp_all
  have hl2 : ¬ (p.length > 255) := by omega
  have hsp : splitOn cSlash p = [p] := DirLemmas.splitOn_no_sep cSlash p h1
  unfold openAt
  rw [hsp]
  simp only [hne, hl, Bool.false_eq_true, if_false, walk, hd, Bool.not_true, hl2,
    Bool.false_or, beq_iff_eq, h4, h5]
  cases hlk : base.lookup p with
  | none => simp
  | some child => cases child <;> simp [walk]

theorem C19_total (stack : List FsNode) (base : FsNode) (p : Bytes) (auto : Bool)
    (ae : Option Bytes) : dirGetIn stack base p auto ae ≠ .panic :=
  dirGet_total stack base p auto ae

end HS
