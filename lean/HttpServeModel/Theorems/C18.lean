/-
C18 — `ChunkedReadFile`: exact file bytes and stable, change-sensitive validators.

Property statements only; proofs in `Lemmas/FileLemmas.lean` and `Lemmas/Hex.lean`.
The operating system is a parameter of the model: `filePoll a b size k` is one poll when the file
currently has `size` bytes and `pread` returns `k` bytes; `AdmRun` admits every resolution of
short reads (1 ≤ k ≤ min(cs, remaining), k ≤ bytes available). The read size `cs` (`CHUNK_SIZE`
in the crate, 65536 in the pinned version: `kChunkSize`) is a parameter too: every statement holds
for every `cs`; `0 < cs` is assumed only where the proof needs it (for `cs = 0` no read of an
available byte is admissible).
-/
import HttpServeModel.Lemmas.FileLemmas
import HttpServeModel.Lemmas.Hex

namespace HS

/-- Unchanged file, any range within it, any admissible read sizes: the stream yields non-empty
chunks of at most `cs` bytes that tile exactly `a..b` (each chunk starts where the previous
ended), then ends — within `(b - a) + 1` polls. -/
theorem C18_exact_bytes (cs : Nat) (a b : Nat) (hab : a ≤ b) (steps : List (Nat × Nat))
    (hsize : ∀ p ∈ steps, b ≤ p.1) (hadm : AdmRun cs a b steps) (hlen : b - a < steps.length) :
    (fileRunK a b steps).getLast? = some .end_ ∧ coverage cs a (fileRunK a b steps) = some b :=
  file_exact_bytes cs a b hab steps hsize hadm hlen

/-- Whatever happens to the file's size between polls, the stream never ends cleanly short: if
it reports the end, the chunks it delivered tiled exactly `a..b`. -/
theorem C18_never_ends_short (cs : Nat) (a b : Nat) (hab : a ≤ b) (steps : List (Nat × Nat))
    (hadm : AdmRun cs a b steps) (hend : FOut.end_ ∈ fileRunK a b steps) :
    coverageSkip cs a (fileRunK a b steps) = some b :=
  file_never_ends_short cs a b hab steps hadm hend

/-- A poll made while the file is truncated to or below the current offset, with bytes still
owed, fails with `UnexpectedEof`. -/
theorem C18_truncated_poll_fails (a b size k : Nat) (hab : a < b) (hsz : size ≤ a) :
    (filePoll a b size k).2 = .eof :=
  file_truncated_poll_fails a b size k hab hsz

/-- No looping: within `(b - a) + 1` polls the stream has ended or failed. -/
theorem C18_bounded (cs : Nat) (a b : Nat) (hab : a ≤ b) (steps : List (Nat × Nat))
    (hadm : AdmRun cs a b steps) (hlen : b - a < steps.length) :
    FOut.end_ ∈ fileRunK a b steps ∨ FOut.eof ∈ fileRunK a b steps :=
  file_bounded cs a b hab steps hadm hlen

/-- The run the correspondence check exercises (`fileRun`, full reads) is one admissible run. -/
theorem C18_checked_run_is_admissible (cs : Nat) (hcs : 0 < cs) (a b : Nat) (sizes : List Nat) :
    ∃ ks : List Nat, ks.length = sizes.length ∧ fileRun cs a b sizes = fileRunK a b (sizes.zip ks) ∧
      (a ≤ b → AdmRun cs a b (sizes.zip ks)) :=
  fileRun_eq_fileRunK cs hcs a b sizes

/-- The ETag is a syntactically valid strong entity-tag: DQUOTE, only hex digits and colons,
DQUOTE (so it does not start with `W/` and has no DQUOTE inside). -/
theorem C18_etag_wellformed (i l s n : Nat) :
    ∃ body : Bytes, fileEtag i l s n = [34] ++ body ++ [34] ∧
      (∀ c ∈ body, isLowerHex c = true ∨ c = 58) ∧ 34 ∉ body ∧
      (fileEtag i l s n).head? = some 34 :=
  fileEtag_wellformed i l s n

/-- Identical for every instance opened on an unmodified file (it is a function of inode,
length and modification time only), and different as soon as any of them differs. -/
theorem C18_etag_changes_iff (i l s n i' l' s' n' : Nat) :
    fileEtag i l s n = fileEtag i' l' s' n' ↔ (i = i' ∧ l = l' ∧ s = s' ∧ n = n') := by
  constructor
  · exact fileEtag_injective i l s n i' l' s' n'
  · rintro ⟨rfl, rfl, rfl, rfl⟩; rfl

/-- The same for every modification time, before the epoch included (`fileEtagS`; `b` says the
time precedes the epoch, `s`, `n` are then its distance from it): a valid strong entity-tag made
of hex digits, colons and `-`. -/
theorem C18_etag_wellformed_any_time (i l : Nat) (b : Bool) (s n : Nat) :
    ∃ body : Bytes, fileEtagS i l b s n = [34] ++ body ++ [34] ∧
      (∀ c ∈ body, isLowerHex c = true ∨ c = 58 ∨ c = 45) ∧ 34 ∉ body ∧
      (fileEtagS i l b s n).head? = some 34 :=
  fileEtagS_wellformed i l b s n

/-- ... and it differs as soon as inode, length or the modification time (its side of the epoch,
seconds or nanoseconds) differs; for times at or after the epoch it is `fileEtag`. -/
theorem C18_etag_changes_iff_any_time (i l : Nat) (b : Bool) (s n i' l' : Nat) (b' : Bool)
    (s' n' : Nat) :
    (fileEtagS i l b s n = fileEtagS i' l' b' s' n' ↔
      (i = i' ∧ l = l' ∧ b = b' ∧ s = s' ∧ n = n')) ∧
    fileEtagS i l false s n = fileEtag i l s n := by
  refine ⟨⟨fileEtagS_injective i l b s n i' l' b' s' n', ?_⟩, fileEtagS_false i l s n⟩
  rintro ⟨rfl, rfl, rfl, rfl, rfl⟩; rfl

/-- Constructing it on a non-regular file is refused: accepted exactly for regular files. -/
theorem C18_refuses_non_regular (k : FileKind) : newWithMetadata k = true ↔ k = .regular := by
  cases k <;> simp [newWithMetadata]

/-- Non-vacuity: a 100000-byte range of an unchanged 200000-byte file with full reads. -/
example : AdmRun kChunkSize 0 100000 [(200000, 65536), (200000, 34464), (200000, 0)] ∧
    fileRunK 0 100000 [(200000, 65536), (200000, 34464), (200000, 0)] =
      [.chunk 0 65536, .chunk 65536 34464, .end_] := by
  refine ⟨?_, by decide⟩
  simp [AdmRun, kChunkSize]

/-- Non-vacuity at another read size (`cs = 3`): a 7-byte range of an unchanged 10-byte file, full
reads; `fileRun 3` is that run, it tiles `0..7` in chunks of at most 3 bytes and ends. -/
example : AdmRun 3 0 7 [(10, 3), (10, 3), (10, 1), (10, 0)] ∧
    fileRunK 0 7 [(10, 3), (10, 3), (10, 1), (10, 0)] = [.chunk 0 3, .chunk 3 3, .chunk 6 1, .end_] ∧
    fileRun 3 0 7 [10, 10, 10, 10] = [.chunk 0 3, .chunk 3 3, .chunk 6 1, .end_] ∧
    coverage 3 0 [.chunk 0 3, .chunk 3 3, .chunk 6 1, .end_] = some 7 ∧
    coverage 2 0 [.chunk 0 3, .chunk 3 3, .chunk 6 1, .end_] = none := by
  refine ⟨?_, by decide, by decide, by decide, by decide⟩
  simp [AdmRun]

end HS
