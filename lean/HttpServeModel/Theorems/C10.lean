/-
C10 — streaming bodies make progress under every producer/consumer interleaving.

Property statements only; proofs in `Lemmas/Wakeup.lean`. Model: `Model/Sched.lean` — a
producer thread running ANY program of write / flush / abort / drop on a raw `BodyWriter`, a
consumer polling with ANY waker identities (same or fresh per poll, spurious polls included),
interleaved by ANY schedule at lock-acquisition and `wake()` granularity. `Spec/Wakeup.lean` adds
the consumer's ghost state (`parked` on which waker, `woken` since). All theorems are by
induction over schedule steps: no bound on program or schedule length.

Scope notes. (1) A gzip `BodyWriter` reaches the chunker only through `Writer::write`,
`Writer::flush`, `Writer::abort` and the writer's drop — each gzip operation is some finite
sequence of those (the encoder's `write_all` loops, then a flush / the drop), i.e. an instance
of a raw program; since the theorems hold for EVERY program, they cover gzip writers' traffic
through the chunker. The harness checks that instantiation on the real code (`run_gz_suite`:
gzip producers under the scheduler, model run on the chunker-level writes obtained from a
reference encoder). (2) The quantifier's "wait-until-delivered" producer operation only
RESTRICTS the interleavings (the producer is not scheduled until the consumer has drained the
queue); theorems over all schedules include those.

Assumed (DESIGN section 7): `std::sync::Mutex` mutual exclusion (a critical section is one atomic
step), thread-local work commutes with the other thread's steps, a woken task is eventually
polled by the executor.
-/
import HttpServeModel.Lemmas.Wakeup
import HttpServeModel.Lemmas.Consistency

namespace HS

/-- No lost wakeup: whenever the consumer is parked on waker `w` and has not been woken, either
`w` is the waker registered in the shared state and there is nothing for the consumer to see
yet, or the producer has taken exactly `w` and is about to call `wake()` on it. -/
theorem C10_no_lost_wakeup (cap : Nat) (hc : 0 < cap) (prog : List PCmd) (sched : List SStep) (w : Nat) :
    let c := (Conc.init cap prog).run sched
    c.parked = some w → c.woken = false →
      (c.s.sh.waker = some w ∧ ¬ deliverable c.s.sh) ∨ (∃ nx, c.s.stage = .wake w nx) :=
  no_lost_wakeup cap hc prog sched w

/-- The consumer is woken after every flush that makes data available, after the writer is
dropped and after an abort: if it is parked un-woken while something is deliverable, the
producer is at the `wake()` call for that very waker. -/
theorem C10_wake_after_publish (cap : Nat) (hc : 0 < cap) (prog : List PCmd) (sched : List SStep) (w : Nat) :
    let c := (Conc.init cap prog).run sched
    c.parked = some w → c.woken = false → deliverable c.s.sh → ∃ nx, c.s.stage = .wake w nx :=
  wake_after_publish cap hc prog sched w

/-- The wait-until-delivered producer operation cannot deadlock: a producer that waits sits at
a point other than a `wake()` call (between commands, before a critical section, or finished);
at every such point, under every interleaving, a consumer that is parked and un-woken has nothing
to receive — so a producer never waits for bytes whose consumer sleeps. -/
theorem C10_wait_until_delivered_cannot_deadlock (cap : Nat) (hc : 0 < cap) (prog : List PCmd)
    (sched : List SStep) (w : Nat) :
    let c := (Conc.init cap prog).run sched
    (∀ w' nx, c.s.stage ≠ .wake w' nx) → c.parked = some w → c.woken = false →
      ¬ deliverable c.s.sh := by
  intro c hs hp hw hd
  obtain ⟨nx, h⟩ := wake_after_publish cap hc prog sched w hp hw hd
  exact hs w nx h

/-- It never sleeps forever while the termination is pending: when the producer has finished a
program ending with `drop` (nothing will ever call `wake()` again), a parked consumer has been
woken. -/
theorem C10_no_deadlock (cap : Nat) (hc : 0 < cap) (prog : List PCmd) (sched : List SStep) (w : Nat) :
    let c := (Conc.init cap (prog ++ [.drop])).run sched
    c.s.stage = .done → c.parked = some w → c.woken = true :=
  no_deadlock cap hc prog sched w

/-- It receives everything flushed before a clean end: under every interleaving, a clean end
means the consumer received exactly the bytes `write` accepted. -/
theorem C10_complete (cap : Nat) (hc : 0 < cap) (prog : List PCmd) (hna : PCmd.abort ∉ prog)
    (sched : List SStep) (hnd : SStep.dropBody ∉ sched) :
    let c := (Conc.init cap prog).run sched
    c.terminal = some .end_ → c.delivered = acceptedBytes prog c.s.results :=
  interleaved_complete cap hc prog hna sched hnd

/-- It observes the end or the error within a bounded number of polls once the writer is gone:
more polls than queued chunks suffice. -/
theorem C10_bounded_after_writer_gone (cap : Nat) (hc : 0 < cap) (prog : List PCmd)
    (sched : List SStep) (hnd : SStep.dropBody ∉ sched) (ws : List Nat) :
    let c := (Conc.init cap (prog ++ [.drop])).run sched
    c.s.stage = .done →
    (match c.s.sh.state with | .ok ready _ _ => ready.length < ws.length | _ => 0 < ws.length) →
    (c.run (ws.map SStep.poll)).terminal.isSome = true :=
  bounded_after_writer_gone cap hc prog sched hnd ws

/-- The 0.4.0-rc.2 regression: two consecutive `Pending` polls with the same waker leave the
body usable — data written afterwards is delivered and the end observed (any chunk size). -/
theorem C10_same_waker_twice (cap : Nat) (hc : 0 < cap) (w : Nat) :
    let c := (Conc.init cap [.write [1], .drop]).run
      [.poll w, .poll w, .prod, .wake, .prod, .wake, .poll w, .poll w]
    c.delivered = [1] ∧ c.terminal = some .end_ :=
  same_waker_twice_all cap hc w

/-- The two models of the chunker agree: the interleaving model, scheduled so that the producer
runs alone to completion, computes exactly what the sequential model (C08, C11) computes for the
same commands — same shared state, buffer, `BodyWriter` state and results, for every program.
(Each model is tied to the code by its own correspondence suite; this ties them to each other.) -/
theorem C10_interleaving_model_extends_sequential (cap : Nat) (hc : 0 < cap) (prog : List PCmd) :
    let s := eagerRun (4 * prog.length + 4) (SSys.init cap prog)
    let h := (Hist.init cap .raw).run (prog.map fun c => AnyOp.p c.toPOp)
    s.stage = .done ∧ s.sh = h.sys.sh ∧ s.buf = h.sys.buf ∧ s.bw = h.sys.bw ∧
    s.results = h.pouts :=
  eager_matches_sequential cap hc prog

end HS
