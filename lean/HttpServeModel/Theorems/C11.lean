/-
C11 — abort and disconnect are signalled to the other side, never swallowed.

Property statements only; proofs in `Lemmas/PipeFaults.lean`, `Lemmas/Wakeup.lean`.
Histories are arbitrary sequences of write / flush / abort / drop on a raw `BodyWriter` and of
polls / hint queries / dropping of the body (`AnyOp.rawAny`), any length, any chunk size; the
interleaved part is C10's model (every schedule).
-/
import HttpServeModel.Lemmas.PipeFaults
import HttpServeModel.Lemmas.Wakeup
import HttpServeModel.Lemmas.PipeFaultsGz

namespace HS

/-- The bytes delivered are always a prefix of the bytes written — aborts and body drops
anywhere in the history. -/
theorem C11_delivered_prefix (cap : Nat) (hc : 0 < cap) (ops : List AnyOp)
    (hops : ∀ op ∈ ops, op.rawAny) :
    let h := (Hist.init cap .raw).run ops
    h.delivered <+: h.accepted :=
  abort_prefix cap hc ops hops

/-- After `abort` (at any position of any history, the body alive and not yet terminated): the
body does not claim end-of-stream while the error is pending; the next terminal event is an
error, never a clean end; then the end. -/
theorem C11_abort_error_next (cap : Nat) (hc : 0 < cap) (ops : List AnyOp)
    (hops : ∀ op ∈ ops, op.rawAny) (w : Nat) :
    let h := (Hist.init cap .raw).run ops
    h.sys.bw = .raw → h.sys.readerAlive = true → (∀ r ∈ h.polls, r.isTerminal = false) →
    let h1 := h.step (.p .abort)
    readerIsEndStream h1.sys.sh = false ∧
    (h1.sys.cop (.poll w)).2 = .polled .err ∧
    ((h1.sys.cop (.poll w)).1.cop (.poll w)).2 = .polled .end_ :=
  abort_error_next cap hc ops hops w

/-- After `abort`, every later `write` and `flush` fails, whatever else happens in between. -/
theorem C11_abort_dead (cap : Nat) (hc : 0 < cap) (ops more : List AnyOp)
    (hops : ∀ op ∈ ops, op.rawAny) (hmore : ∀ op ∈ more, op.rawAny) (bs : Bytes) :
    let h := ((Hist.init cap .raw).run (ops ++ [.p .abort])).run more
    (h.sys.pop (.write bs)).2.1 ≠ .ok ∧ (∀ n, (h.sys.pop (.write bs)).2.1 ≠ .wrote n) ∧
    (h.sys.pop .flush).2.1 ≠ .ok :=
  abort_dead cap hc ops more hops hmore bs

/-- Once the response body has been dropped (client gone) — at any position — what was queued is
released and the queue never grows again; the writer never holds more than one chunk; every
`flush` fails; every chunk-completing `write` fails; after the first failure every operation
fails. -/
theorem C11_disconnect_signalled (cap : Nat) (hc : 0 < cap) (ops more : List AnyOp)
    (hops : ∀ op ∈ ops, op.rawAny) (hmore : ∀ op ∈ more, op.rawAny) (bs : Bytes) :
    let h := ((Hist.init cap .raw).run (ops ++ [.c .drop])).run more
    h.sys.inflight = [] ∧ h.sys.buf.length ≤ cap ∧
    (h.sys.bw = .raw → (h.sys.pop .flush).2.1 = .err) ∧
    (h.sys.bw = .raw → cap - h.sys.buf.length ≤ bs.length → (h.sys.pop (.write bs)).2.1 = .err) ∧
    (h.sys.bw = .dead → (h.sys.pop .flush).2.1 = .err ∧ (h.sys.pop (.write bs)).2.1 = .err) :=
  disconnect_signalled cap hc ops more hops hmore bs

/-- Under every interleaving with a concurrently polling consumer, the consumer parked while an
abort error (or anything else deliverable) is pending is being woken: the abort is never
swallowed. (`deliverable` includes the `Err` state.) -/
theorem C11_abort_wakes_consumer (cap : Nat) (hc : 0 < cap) (prog : List PCmd) (sched : List SStep) (w : Nat) :
    let c := (Conc.init cap prog).run sched
    c.parked = some w → c.woken = false → deliverable c.s.sh → ∃ nx, c.s.stage = .wake w nx :=
  wake_after_publish cap hc prog sched w

/-- The same four clauses for GZIP writers (the encoder's pushed bytes being a parameter of each
operation): delivered is a prefix of what the encoder pushed in successful operations; ... -/
theorem C11_gz_delivered_prefix (cap : Nat) (hc : 0 < cap) (ops : List AnyOp)
    (hops : ∀ op ∈ ops, op.gzAny) :
    let h := (Hist.init cap .gz).run ops
    h.delivered <+: h.accepted :=
  gz_abort_prefix cap hc ops hops

/-- ... after `abort` the next terminal event is an error, not end-of-stream, then the end; ... -/
theorem C11_gz_abort_error_next (cap : Nat) (hc : 0 < cap) (ops : List AnyOp)
    (hops : ∀ op ∈ ops, op.gzAny) (w : Nat) :
    let h := (Hist.init cap .gz).run ops
    h.sys.bw = .gz → h.sys.readerAlive = true → (∀ r ∈ h.polls, r.isTerminal = false) →
    let h1 := h.step (.p .abort)
    readerIsEndStream h1.sys.sh = false ∧
    (h1.sys.cop (.poll w)).2 = .polled .err ∧
    ((h1.sys.cop (.poll w)).1.cop (.poll w)).2 = .polled .end_ :=
  gz_abort_error_next cap hc ops hops w

/-- ... every later write and flush fails; ... -/
theorem C11_gz_abort_dead (cap : Nat) (hc : 0 < cap) (ops more : List AnyOp)
    (hops : ∀ op ∈ ops, op.gzAny) (hmore : ∀ op ∈ more, op.gzAny) (pushed : Bytes) (acc : Nat) :
    let h := ((Hist.init cap .gz).run (ops ++ [.p .abort])).run more
    (h.sys.pop (.gzWrite pushed acc)).2.1 ≠ .ok ∧ (∀ n, (h.sys.pop (.gzWrite pushed acc)).2.1 ≠ .wrote n) ∧
    (h.sys.pop (.gzFlush pushed)).2.1 ≠ .ok :=
  gz_abort_dead cap hc ops more hops hmore pushed acc

/-- ... and once the body has been dropped the queue is released, the writer holds at most one
chunk, every flush fails and after the first failure everything fails. -/
theorem C11_gz_disconnect_signalled (cap : Nat) (hc : 0 < cap) (ops more : List AnyOp)
    (hops : ∀ op ∈ ops, op.gzAny) (hmore : ∀ op ∈ more, op.gzAny) (pushed : Bytes) (acc : Nat) :
    let h := ((Hist.init cap .gz).run (ops ++ [.c .drop])).run more
    h.sys.inflight = [] ∧ h.sys.buf.length ≤ cap ∧
    (h.sys.bw = .gz → (h.sys.pop (.gzFlush pushed)).2.1 = .err) ∧
    (h.sys.bw = .dead → (h.sys.pop (.gzFlush pushed)).2.1 = .err ∧
       (h.sys.pop (.gzWrite pushed acc)).2.1 = .err) :=
  gz_disconnect_signalled cap hc ops more hops hmore pushed acc

/-- Non-vacuity: F8's scenario on the repaired tree — body dropped, then write + flush fail. -/
example :
    let h := (Hist.init 4 .raw).run [.c .drop, .p (.write [1, 2]), .p .flush, .p (.write [3])]
    h.pouts = [.wrote 2, .err, .err] ∧ h.sys.inflight = [] := by decide

end HS
