/-
C20 — terminated bodies stay terminated.

Property statements only; proofs in `Lemmas/Body.lean`, `Lemmas/ServeLemmas.lean`,
`Lemmas/Pipe.lean`. Entity streams are scripts; a script stays finished once exhausted, and the
property's proviso "stays failed once failed" is the explicit hypothesis `StaysFailed` (the model
of `ExactLenStream` does not enforce it).
"Further data" means data bytes: an entity stream that keeps yielding EMPTY chunks after the body
has errored gets them passed through as empty frames (`PollOut.quiet` allows a zero-length
frame); no data byte and no panic ever follows a terminal event (DESIGN section 9).
-/
import HttpServeModel.Lemmas.ServeLemmas
import HttpServeModel.Lemmas.Pipe
import HttpServeModel.Lemmas.PipeFaultsGz

namespace HS

/-- Bodies made by `serve` (Once, single stream, multipart), any request, any entity behaviour,
any number of polls, provided the entity's streams stay failed once they have failed: once an
outcome is terminal (end or error), every later outcome is quiet — not a panic, and carrying no
data bytes. -/
theorem C20_serve_bodies_stay_terminated (q : Req) (e : Ent) (now : Nat) (r : Resp)
    (hlen : e.len < U64) (h : serve q e now = .ok r) (scripts : List (List Ev))
    (hsf : ∀ s ∈ scripts, StaysFailed s) (n : Nat) :
    ∃ b, BodyS.ofPlan r.plan scripts = .ok b ∧ quietAfterTerminal (outs (b.run n)) := by
  obtain ⟨b, hb, hinv⟩ := serve_body_inv q e now r hlen h scripts
  exact ⟨b, hb, run_quiet_after_terminal n b hinv (BodyS.ofPlan_staysFailed hsf hb)⟩

/-- The proviso is necessary: a single-stream body whose entity stream yields data after its
error (as `ChunkedReadFile`'s does) passes that data through after the error. -/
example :
    outs (BodyS.run 3 (.exact { stream := [.err, .chunk [7]], remaining := 1 })) =
      [.errEntity, .data [7], .end_] := by decide

/-- (F13) Bodies made by `serve`, any request, any entity behaviour (no proviso), any number of
polls: the body never polls an entity's stream again after that stream has reported its end. An
entity stream that panics when polled after its end — `futures::stream::unfold`, hence
`ChunkedReadFile` — is therefore never given the chance: the "stays finished" half of C20's
proviso is not needed. (`overpolls` is a ghost counter of exactly those polls, `Model/Body.lean`.) -/
theorem C20_finished_stream_is_never_polled_again (q : Req) (e : Ent) (now : Nat) (r : Resp)
    (hlen : e.len < U64) (h : serve q e now = .ok r) (scripts : List (List Ev)) (n : Nat) :
    ∃ b, BodyS.ofPlan r.plan scripts = .ok b ∧ (BodyS.after n b).overpolls = 0 := by
  obtain ⟨b, hb, _⟩ := serve_body_inv q e now r hlen h scripts
  exact ⟨b, hb, after_overpolls_zero hb n⟩

/-- Non-vacuity: the end of the entity's stream is reached and polled past. -/
example :
    let b := BodyS.after 5 (.exact { stream := [.chunk [1]], remaining := 1 })
    b.overpolls = 0 ∧ (match b with | .exact e => e.innerEnded | _ => false) = true := by decide

/-- Stronger for multipart bodies: after a terminal event the state is the end state, and every
later poll reports the end — whatever the parts' streams do afterwards (the current part's stream
is dropped on its first error), so no `StaysFailed` proviso is needed here. -/
theorem C20_multipart_fused (m : Multipart) (hinv : MInv m) (ht : m.poll.2.isTerminal = true) :
    Fused (.multi m.poll.1) := by
  have := BodyS.terminal_fuses (.multi m) hinv trivial (by simpa [BodyS.poll] using ht)
  simpa [BodyS.poll] using this

/-- Streaming bodies, ANY history of writes, flushes, aborts, drops, polls (any length, any chunk
size): once a poll has reported the end or an error, every later poll reports the end — never
data, never an error, never a panic. -/
theorem C20_streaming_bodies_stay_terminated (cap : Nat) (hc : 0 < cap) (ops more : List AnyOp)
    (hops : ∀ op ∈ ops, op.rawAny) (hmore : ∀ op ∈ more, op.rawAny) :
    let h := (Hist.init cap .raw).run ops
    (∃ r ∈ h.polls, r.isTerminal = true) →
    ∀ r ∈ ((h.run more).polls.drop h.polls.length), r = ROut.end_ :=
  pipe_fused cap hc ops more hops hmore

/-- The same for gzip streaming bodies. -/
theorem C20_gz_streaming_bodies_stay_terminated (cap : Nat) (hc : 0 < cap) (ops more : List AnyOp)
    (hops : ∀ op ∈ ops, op.gzAny) (hmore : ∀ op ∈ more, op.gzAny) :
    let h := (Hist.init cap .gz).run ops
    (∃ r ∈ h.polls, r.isTerminal = true) →
    ∀ r ∈ ((h.run more).polls.drop h.polls.length), r = ROut.end_ :=
  gz_pipe_fused cap hc ops more hops hmore

/-- The F9 scenario (pinned tree: second error, then an out-of-bounds panic): part 1's stream
fails; afterwards only the end is reported. -/
example :
    outs (BodyS.run 5 (.multi (Multipart.new [[1], [2]] [(0, 2), (5, 7)] 15 [[.err]]))) =
      [.data [1], .errEntity, .end_, .end_, .end_] := by decide

end HS
