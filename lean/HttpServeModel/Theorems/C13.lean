/-
C13 — `serve` is total on untrusted request input.

Property statements only; proofs in `Lemmas/ServeLemmas.lean`, `Lemmas/Body.lean`.
The model's `serve` takes the six header values as arbitrary byte strings (or absent), any
method class, any entity; every Rust panic site on the path (checked arithmetic, slicing,
`unwrap`, `debug_assert`) is an explicit `.panic` outcome in the model — these theorems show
none is reachable.
-/
import HttpServeModel.Lemmas.ServeLemmas
import HttpServeModel.Lemmas.ServeCalls

namespace HS

/-- `serve` returns for every request and entity: no panic site is reachable. -/
theorem C13_total (q : Req) (e : Ent) (now : Nat) (hlen : e.len < U64) : serve q e now ≠ .panic :=
  serve_total q e now hlen

/-- ... whatever `Entity::last_modified` returns — nothing, a time at or after the epoch, or a time
before it, which `serve_inner` filters out first (`usableMtime`) and serves exactly like an
entity without a modification time. -/
theorem C13_total_any_mtime (q : Req) (len : Nat) (etag : Option Bytes) (m : MTime)
    (hs : List (Bytes × Bytes)) (now : Nat) (hlen : len < U64) :
    serve q { len := len, etag := etag, mtime := usableMtime m, headers := hs } now ≠ .panic ∧
    serve q { len := len, etag := etag, mtime := usableMtime .preEpoch, headers := hs } now =
      serve q { len := len, etag := etag, mtime := none, headers := hs } now :=
  ⟨serve_total q _ now hlen, rfl⟩

/-- The status is one of 200, 206, 304, 400, 405, 412, 413, 416. -/
theorem C13_status_set (q : Req) (e : Ent) (now : Nat) (r : Resp) (h : serve q e now = .ok r) :
    r.status ∈ [200, 206, 304, 400, 405, 412, 413, 416] :=
  serve_status_set q e now r h

/-- Any method other than GET or HEAD gets 405 with an Allow header naming GET and HEAD, and the
entity is not touched at all (empty call log). -/
theorem C13_method_gate (q : Req) (e : Ent) (now : Nat) (hm : q.method = .other) :
    serve q e now = .ok { status := 405, headers := [(.allow, .bytes kGetHead)], plan := .once 41,
                          calls := [] } :=
  serve_method_gate q e now hm

/-- Draining the body never panics: for any entity stream behaviour (any scripts, honest or not)
and any number of polls, no poll outcome is a panic (nor is the model's fuel ever exhausted). -/
theorem C13_drain_never_panics (q : Req) (e : Ent) (now : Nat) (r : Resp) (hlen : e.len < U64)
    (h : serve q e now = .ok r) (scripts : List (List Ev)) (n : Nat) :
    ∃ b, BodyS.ofPlan r.plan scripts = .ok b ∧
      ∀ o ∈ outs (b.run n), o ≠ .panic ∧ o ≠ .diverge := by
  obtain ⟨b, hb, hinv⟩ := serve_body_inv q e now r hlen h scripts
  exact ⟨b, hb, run_no_panic n b hinv⟩

/-- Whatever the request, `serve` consults the entity in one fixed order — nothing (405);
validators only (400/412/304); or validators, length, then at most one `get_range(a..b)` with
`a ≤ b`, then at most one `add_headers` — so no input makes it fetch twice or fetch before the
preconditions and the length are known. -/
theorem C13_entity_call_order (q : Req) (e : Ent) (now : Nat) (r : Resp)
    (h : serve q e now = .ok r) :
    r.calls = [] ∨ r.calls = [.lastModified, .etag] ∨
    ∃ tail, r.calls = [.lastModified, .etag, .len] ++ tail ∧
      (tail = [] ∨ tail = [.addHeaders] ∨
       ∃ a b, a < b + 1 ∧ (tail = [.getRange a b] ∨ tail = [.getRange a b, .addHeaders])) :=
  calls_shape q e now r h

end HS
