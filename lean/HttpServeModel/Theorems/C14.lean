/-
C14 — validators and entity metadata are exposed faithfully and round-trip.

Property statements only; proofs in `Lemmas/CondLemmas.lean`. The clock is a parameter `now`
(whole seconds); `fmt_http_date` floors to the second (DESIGN section 7).
The round-trip clause is proved for modification times not in the future at the first request
(`C14_roundtrip_partial`); the full clause is kept as `roundtrip_full : Prop` and proved FALSE
(`C14_roundtrip_full_false`): that is known finding K1.
-/
import HttpServeModel.Lemmas.CondLemmas
import HttpServeModel.Lemmas.ServeCalls

namespace HS

/-- Every 200, 206, 304, 412 and 416 carries `Accept-Ranges: bytes`, the entity's ETag
unchanged, and — when the entity has a modification time — `Date` = the clock and
`Last-Modified` = min(modification time truncated to the second, clock). -/
theorem C14_common_headers (q : Req) (e : Ent) (now : Nat) (r : Resp) (h : serve q e now = .ok r)
    (hs : r.status ∈ [200, 206, 304, 412, 416]) :
    r.header' .acceptRanges = some (.bytes kBytes) ∧
    r.header' .etag = e.etag.map HVal.bytes ∧
    (∀ m, e.mtime = some m →
       r.header' .date = some (.httpDate now) ∧
       r.header' .lastModified = some (.httpDate (min m.1 now))) ∧
    (e.mtime = none → r.header' .date = none ∧ r.header' .lastModified = none) :=
  common_headers q e now r h hs

/-- ... so Last-Modified never exceeds Date, and equals the truncated modification time unless
that lies in the future. -/
theorem C14_last_modified_bounds (m now : Nat) :
    min m now ≤ now ∧ (m ≤ now → min m now = m) := by omega

/-- 304, 412 and 416 carry none of the entity's headers; a 200, and a single-range 206 to a
request without If-Range, carry all of them; in a multipart 206 without If-Range every part
carries them. -/
theorem C14_entity_headers_placement (q : Req) (e : Ent) (now : Nat) (r : Resp)
    (h : serve q e now = .ok r) :
    ((r.status = 304 ∨ r.status = 412 ∨ r.status = 416) → ∀ k v, (HName.ent k, v) ∉ r.headers) ∧
    (r.status = 200 → ∀ kv ∈ e.headers, (HName.ent kv.1, HVal.bytes kv.2) ∈ r.headers) ∧
    (r.status = 206 → q.ifRange = none → (r.header' .contentRange).isSome = true →
       ∀ kv ∈ e.headers, (HName.ent kv.1, HVal.bytes kv.2) ∈ r.headers) ∧
    (r.status = 206 → q.ifRange = none → ∀ phs rs total, r.plan = .multipart phs rs total →
       ∀ ph ∈ phs, ∃ pre, ph = pre ++ eachPartHeaders e.headers ++ kCRLF) :=
  entity_headers_placement q e now r h

/-- ... and nothing else: in every response the header lines with an entity-supplied name are
either exactly the entity's own — same lines, same order, same multiplicity — or absent. No header
of another origin (another entity, an earlier response) can appear under such a name. -/
theorem C14_only_this_entitys_headers (q : Req) (e : Ent) (now : Nat) (r : Resp)
    (h : serve q e now = .ok r) :
    r.headers.filter isEntHeader = e.headers.map (fun kv => (HName.ent kv.1, HVal.bytes kv.2)) ∨
    r.headers.filter isEntHeader = [] :=
  entity_headers_exact q e now r h

/-- Round trip, for every subset of echoed validators, GET or HEAD, any later clock: echoing the
served ETag in If-None-Match, or the served Last-Modified in If-Modified-Since, yields 304;
echoing a served strong ETag in If-Match, or the served Last-Modified in If-Unmodified-Since,
never yields 412 — provided the modification time was not in the future when served. -/
theorem C14_roundtrip_partial (t : Option Tag) (e : Ent) (now1 now2 : Nat) (m : Method)
    (hm : m ≠ .other) (he : e.etag = t.map Tag.render) (ht : ∀ x, t = some x → x.wf)
    (hnow : now1 ≤ now2) (hpast : ∀ mt, e.mtime = some mt → mt.1 ≤ now1) (hlen : e.len < U64)
    (inm im ims ius : Bool) (r : Resp)
    (hinm : inm = true → t.isSome = true) (him : im = true → ∃ x, t = some x ∧ x.weak = false)
    (hims : ims = true → e.mtime.isSome = true) (hius : ius = true → e.mtime.isSome = true)
    (h : serve (echoReq m e.etag (e.mtime.map fun mt => min mt.1 now1) inm im ims ius) e now2 = .ok r) :
    r.status ≠ 412 ∧ ((inm = true ∨ ims = true) → r.status = 304) :=
  roundtrip_partial t e now1 now2 m hm he ht hnow hpast hlen inm im ims ius r hinm him hims hius h

/-- If-Range with a served strong ETag yields the requested 206. -/
theorem C14_roundtrip_if_range (x : Tag) (hx : x.wf) (hs : x.weak = false) (e : Ent) (now : Nat)
    (he : e.etag = some x.render) (hlen : 3 ≤ e.len) (hlen2 : e.len < U64) :
    ∃ r, serve { method := .get, range := some [98, 121, 116, 101, 115, 61, 49, 45, 50],
                 ifRange := some x.render } e now = .ok r ∧
      r.status = 206 ∧ r.plan = .exact 1 3 :=
  roundtrip_if_range x hx hs e now he hlen hlen2

/-- K1: the full round-trip clause (also for modification times in the future) is false of the
code: the served Last-Modified is clamped to Date, so the validator moves with the clock.
Witness: mtime = 100 s, clock = 50 s, echoed If-Modified-Since: 50 → 200, not 304. -/
theorem C14_roundtrip_full_false : ¬ roundtrip_full := roundtrip_full_false

/-- An entity without a usable modification time (none, or one before the Unix epoch) is served
without the clock having any influence: the whole response — status, every header, plan, entity
calls — is the same whenever it is served (no Date is invented for it). -/
theorem C14_no_mtime_no_clock (q : Req) (e : Ent) (now now' : Nat) (h : e.mtime = none) :
    serve q e now = serve q e now' :=
  no_mtime_no_clock q e now now' h

end HS
