/-
C03 — Range headers resolve as RFC 7233 prescribes: 200/206/416 and which bytes.

Property statements only; proofs in `Lemmas/RangeParse.lean` and `Lemmas/ServeLemmas.lean`.
Specification: `Spec/Rfc7233.lean` — `RangeElem` (AST of one list element: spec, optional
whitespace on both sides, leading zeros), `renderRange`, `RangeSpec.resolve`, `satisfiable`.
Ranges inside the implementation are half-open; `toHalfOpen` converts the RFC's inclusive pairs.
-/
import HttpServeModel.Lemmas.RangeParse
import HttpServeModel.Lemmas.ServeLemmas
import HttpServeModel.Lemmas.Misc
import HttpServeModel.Lemmas.ServeCalls

namespace HS

/-- For any grammatical `bytes=` range set — any number of specs of the three forms, any optional
whitespace, any leading zeros, numbers below 2^64 — and any entity length below 2^64:
`first-last` selects first..=min(last, L-1), `first-` selects first..=L-1, `-n` the final
min(n, L) bytes, specs that select nothing are dropped; nothing left = unsatisfiable. -/
theorem C03_parse_render (es : List RangeElem) (L : Nat) (hne : es ≠ [])
    (hwf : ∀ e ∈ es, e.wf) (hfit : ∀ e ∈ es, e.spec.fits) (hL : L < U64) :
    parseRange (some (renderRange es)) L =
      .ok (if satisfiable L es = [] then Resolved.unsat
           else Resolved.sat ((satisfiable L es).map toHalfOpen)) :=
  parseRange_render es L hne hwf hfit hL

/-- A grammatical header in which some number does not fit in 64 bits is ignored. -/
theorem C03_too_big_ignored (es : List RangeElem) (L : Nat) (hne : es ≠ [])
    (hwf : ∀ e ∈ es, e.wf) (hbig : ∃ e ∈ es, ¬ e.spec.fits) :
    parseRange (some (renderRange es)) L = .ok Resolved.none :=
  parseRange_render_too_big es L hne hwf hbig

/-- A Range header in another unit or outside the grammar is ignored: whatever is NOT ignored is
the rendering of a well-formed element list with 64-bit numbers. Together with
`C03_parse_render` the accepted language is exactly the grammar. -/
theorem C03_outside_grammar_ignored (v : Bytes) (L : Nat)
    (h : parseRange (some v) L ≠ .ok Resolved.none) :
    ∃ es : List RangeElem, es ≠ [] ∧ (∀ e ∈ es, e.wf) ∧ (∀ e ∈ es, e.spec.fits) ∧
      v = renderRange es :=
  parseRange_complete v L h

/-- No Range value, however large its numbers, makes the parser fail. -/
theorem C03_total (v : Option Bytes) (L : Nat) : parseRange v L ≠ .panic := parseRange_total v L

/-- Every range the parser returns is non-empty and within the entity. -/
theorem C03_ranges_within (v : Option Bytes) (L : Nat) (rs : List (Nat × Nat))
    (h : parseRange v L = .ok (.sat rs)) : rs ≠ [] ∧ ∀ r ∈ rs, r.1 < r.2 ∧ r.2 ≤ L :=
  parseRange_sat_bounds v L rs h

/-- Ignored header: complete 200 without Content-Range. -/
theorem C03_dispatch_ignored (m : Method) (hm : m ≠ .other) (hdr : Option Bytes) (e : Ent)
    (now : Nat) (hp : parseRange hdr e.len = .ok .none) :
    ∃ r, serve (rangeOnly m hdr) e now = .ok r ∧ r.status = 200 ∧ r.header .contentRange = none ∧
      (m = .get → r.plan = .exact 0 e.len) :=
  dispatch_none m hm hdr e now hp

/-- Nothing remains: 416 with `Content-Range: bytes */L`. -/
theorem C03_dispatch_unsat (m : Method) (hm : m ≠ .other) (hdr : Option Bytes) (e : Ent)
    (now : Nat) (hp : parseRange hdr e.len = .ok .unsat) :
    ∃ r, serve (rangeOnly m hdr) e now = .ok r ∧ r.status = 416 ∧
      r.header .contentRange = some (.bytes (kBytesStar ++ dec e.len)) ∧ r.plan = .empty :=
  dispatch_unsat m hm hdr e now hp

/-- One range remains: a 206 of exactly that range. -/
theorem C03_dispatch_single (m : Method) (hm : m ≠ .other) (hdr : Option Bytes) (e : Ent)
    (now : Nat) (a b : Nat) (hab : a < b) (hp : parseRange hdr e.len = .ok (.sat [(a, b)])) :
    ∃ r, serve (rangeOnly m hdr) e now = .ok r ∧ r.status = 206 ∧
      r.header .contentRange =
        some (.bytes (kBytesSp ++ dec a ++ [45] ++ dec (b - 1) ++ [47] ++ dec e.len)) ∧
      (m = .get → r.plan = .exact a b) :=
  dispatch_single m hm hdr e now a b hab hp

/-- Several remain: a multipart 206 of exactly those ranges in request order whenever the ranges
plus 80 bytes of overhead each total under the entity length (in particular whenever they total
under half of it) — or 413 exactly when the multipart body's length cannot be represented —
and a complete 200 otherwise (in particular whenever the ranges alone total L or more). -/
theorem C03_dispatch_multi (m : Method) (hm : m ≠ .other) (hdr : Option Bytes) (e : Ent)
    (now : Nat) (hlen : e.len < U64) (rs : List (Nat × Nat)) (h2 : 2 ≤ rs.length)
    (hp : parseRange hdr e.len = .ok (.sat rs)) :
    ∃ r, serve (rangeOnly m hdr) e now = .ok r ∧
      (if (rs.map fun x => 80 + (x.2 - x.1)).sum < e.len then
         (r.status = 206 ∧ r.header .contentRange = none ∧
            r.header .contentType = some (.bytes kMultipartCT) ∧
            (m = .get → ∃ phs total, r.plan = .multipart phs rs total))
         ∨ (r.status = 413 ∧
            prepareMultipart rs e.len (eachPartHeaders e.headers) = .ok none)
       else
         r.status = 200 ∧ r.header .contentRange = none ∧ (m = .get → r.plan = .exact 0 e.len)) :=
  dispatch_multi m hm hdr e now hlen rs h2 hp

/-- Non-vacuity: `bytes= -3,0-18446744073709551615` against L = 10 is well-formed, fits, and
resolves to the last three bytes and the whole entity. -/
example :
    let es : List RangeElem := [{ spec := .suffix 3, owsBefore := [32] }, { spec := .fromTo 0 (U64 - 1) }]
    (∀ e ∈ es, e.spec.fits) ∧ satisfiable 10 es = [(7, 9), (0, 9)] := by
  decide

end HS

namespace HS

/-- In the property's words: multipart whenever the ranges plus 80 bytes of overhead each total
under half the entity (unless the exact multipart length is not representable in 64 bits). -/
theorem C03_multipart_when_under_half (m : Method) (hm : m ≠ .other) (hdr : Option Bytes) (e : Ent)
    (now : Nat) (hlen : e.len < U64) (rs : List (Nat × Nat)) (h2 : 2 ≤ rs.length)
    (hp : parseRange hdr e.len = .ok (.sat rs))
    (hhalf : 2 * (rs.map fun x => 80 + (x.2 - x.1)).sum < e.len) :
    ∃ r, serve (rangeOnly m hdr) e now = .ok r ∧ (r.status = 206 ∨ r.status = 413) := by
  obtain ⟨r, hr, hcase⟩ := dispatch_multi m hm hdr e now hlen rs h2 hp
  refine ⟨r, hr, ?_⟩
  rw [if_pos (by omega)] at hcase
  rcases hcase with ⟨h, _⟩ | ⟨h, _⟩
  · exact Or.inl h
  · exact Or.inr h

/-- ... and never multipart when the ranges alone total L or more: a complete 200. -/
theorem C03_complete_when_ranges_total_ge_L (m : Method) (hm : m ≠ .other) (hdr : Option Bytes)
    (e : Ent) (now : Nat) (hlen : e.len < U64) (rs : List (Nat × Nat)) (h2 : 2 ≤ rs.length)
    (hp : parseRange hdr e.len = .ok (.sat rs))
    (htot : e.len ≤ (rs.map fun x => x.2 - x.1).sum) :
    ∃ r, serve (rangeOnly m hdr) e now = .ok r ∧ r.status = 200 ∧ r.header .contentRange = none := by
  obtain ⟨r, hr, hcase⟩ := dispatch_multi m hm hdr e now hlen rs h2 hp
  refine ⟨r, hr, ?_⟩
  have := sum_sizes_le_est rs
  rw [if_neg (by omega)] at hcase
  exact ⟨hcase.1, hcase.2.1⟩

/-- Without a Range header there is never a partial answer: whatever the other headers say
(If-Range, the four conditionals, any bytes), the status is not 206, 413 or 416 and no
Content-Range is sent. -/
theorem C03_no_range_no_partial (q : Req) (e : Ent) (now : Nat) (r : Resp)
    (hr : q.range = none) (h : serve q e now = .ok r) :
    r.status ∉ [206, 413, 416] ∧ r.header .contentRange = none :=
  no_range_no_partial q e now r hr h

end HS
