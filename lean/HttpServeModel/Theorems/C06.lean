/-
C06 — multipart/byteranges bodies are well-formed, complete and in request order.

Property statements only; proofs in `Lemmas/Layout.lean`, `Lemmas/ServeLemmas.lean`.
Specification: `Spec/Multipart.lean` — `specLayout c L eh rs` is, for each inclusive range in
request order, CRLF "--B" CRLF, "Content-Range: bytes a-b/L" CRLF, the entity's headers (`eh`),
CRLF, exactly entity bytes a..=b; then CRLF "--B--" CRLF.
-/
import HttpServeModel.Lemmas.ServeLemmas
import HttpServeModel.Lemmas.Layout
import HttpServeModel.Lemmas.EndToEnd
import HttpServeModel.Lemmas.ServeCalls

namespace HS

/-- What `prepare_multipart` computes: the part heads are the specified ones, and the announced
length (the top-level Content-Length) is exactly the length of the specified body — whatever
headers the entity adds and however many digits the numbers have. -/
theorem C06_length_and_heads (c : Content) (rs : List (Nat × Nat)) (len : Nat) (eh : Bytes)
    (phs : List Bytes) (total : Nat) (hrs : ∀ r ∈ rs, r.1 < r.2)
    (h : prepareMultipart rs len eh = .ok (some (phs, total))) :
    phs = rs.map (fun r => specPartHead len eh r.1 (r.2 - 1)) ∧
    total = (specLayout c len eh (rs.map toInclusive)).length :=
  prepareMultipart_layout c rs len eh phs total hrs h

/-- The entity's own headers are rendered as `name ": " value CRLF` each. -/
theorem C06_entity_headers (hs : List (Bytes × Bytes)) :
    eachPartHeaders hs = specEntityHeaders hs :=
  eachPartHeaders_spec hs

/-- The body over honest entity streams is, byte for byte, the specified layout of the ranges in
request order; the entity is asked for exactly those ranges in that order; the body ends
cleanly. Any chunking of any part. -/
theorem C06_body_is_layout (c : Content) (len : Nat) (eh : Bytes) (rs : List (Nat × Nat))
    (phs : List Bytes) (total : Nat) (scripts : List (List Ev))
    (hrs : ∀ r ∈ rs, r.1 < r.2)
    (hprep : prepareMultipart rs len eh = .ok (some (phs, total)))
    (hlen : scripts.length = rs.length)
    (hhon : ∀ i (hi : i < rs.length), HonestScript c (rs[i]).1 (rs[i]).2 (scripts.getD i []))
    (n : Nat) (hn : (scripts.map List.length).sum + 2 * rs.length + 2 ≤ n) :
    let b0 := BodyS.multi (Multipart.new phs rs total scripts)
    let tr := outs (BodyS.run n b0)
    concatData tr = specLayout c len eh (rs.map toInclusive) ∧ PollOut.end_ ∈ tr ∧
    (∀ o ∈ tr, o.isErr = false) ∧
    (match BodyS.after n b0 with | .multi m => m.calls = rs | _ => False) :=
  multipart_body_is_layout c len eh rs phs total scripts hrs hprep hlen hhon n hn

/-- A multi-range 206 declares `multipart/byteranges; boundary=B`, has no top-level
Content-Range, and its ranges are the satisfiable ranges in request order (or the answer is a
complete 200 / a 413 as C03 states). -/
theorem C06_top_level_headers (m : Method) (hm : m ≠ .other) (hdr : Option Bytes) (e : Ent)
    (now : Nat) (hlen : e.len < U64) (rs : List (Nat × Nat)) (h2 : 2 ≤ rs.length)
    (hp : parseRange hdr e.len = .ok (.sat rs)) :
    ∃ r, serve (rangeOnly m hdr) e now = .ok r ∧
      (r.status = 206 → r.header .contentRange = none ∧
        r.header .contentType = some (.bytes kMultipartCT) ∧
        (m = .get → ∃ phs total, r.plan = .multipart phs rs total)) := by
  obtain ⟨r, hr, hcase⟩ := dispatch_multi m hm hdr e now hlen rs h2 hp
  refine ⟨r, hr, fun h206 => ?_⟩
  split at hcase
  · rcases hcase with ⟨_, h2, h3, h4⟩ | ⟨h413, _⟩
    · exact ⟨h2, h3, h4⟩
    · omega
  · omega

/-- The 413 branch is taken only when the exact body length does not fit in 64 bits (no correct
Content-Length exists). -/
theorem C06_413_only_on_overflow (c : Content) (rs : List (Nat × Nat)) (len : Nat) (eh : Bytes)
    (hrs : ∀ r ∈ rs, r.1 < r.2) (h : prepareMultipart rs len eh = .ok none) :
    U64 ≤ (specLayout c len eh (rs.map toInclusive)).length :=
  prepareMultipart_overflow c rs len eh hrs h

/-- End to end (C03 + C06): for every grammatical range set (any whitespace, leading zeros) with
at least two satisfiable ranges whose estimate is below the entity length, a GET carrying only
that Range header is answered either by 413 or by a multipart 206 whose Content-Length is the
length of the specified layout of exactly the satisfiable ranges in request order, and whose
body — over any honest streams, however chunked — is that layout byte for byte. -/
theorem C06_end_to_end (c : Content) (es : List RangeElem) (e : Ent) (now : Nat)
    (hne : es ≠ []) (hwf : ∀ x ∈ es, x.wf) (hfit : ∀ x ∈ es, x.spec.fits) (hlen : e.len < U64)
    (h2 : 2 ≤ (satisfiable e.len es).length)
    (hest : ((satisfiable e.len es).map fun r => 80 + (r.2 + 1 - r.1)).sum < e.len) :
    ∃ r, serve (rangeOnly .get (some (renderRange es))) e now = .ok r ∧
      (r.status = 413 ∨
       (r.status = 206 ∧
        r.header .contentLength = some (.bytes (dec
          (specLayout c e.len (specEntityHeaders e.headers) (satisfiable e.len es)).length)) ∧
        ∀ scripts : List (List Ev), scripts.length = (satisfiable e.len es).length →
          (∀ i (hi : i < (satisfiable e.len es).length),
             HonestScript c ((satisfiable e.len es)[i]).1 (((satisfiable e.len es)[i]).2 + 1)
               (scripts.getD i [])) →
          ∀ n, (scripts.map List.length).sum + 2 * (satisfiable e.len es).length + 2 ≤ n →
            ∃ body, BodyS.ofPlan r.plan scripts = .ok body ∧
              concatData (outs (body.run n)) =
                specLayout c e.len (specEntityHeaders e.headers) (satisfiable e.len es) ∧
              PollOut.end_ ∈ outs (body.run n) ∧ ∀ o ∈ outs (body.run n), o.isErr = false)) :=
  multipart_end_to_end c es e now hne hwf hfit hlen h2 hest

/-- A multipart body is sent only for at least two satisfiable ranges — a single range is never
wrapped in multipart/byteranges (RFC 7233 section 4.1) — only with status 206, only when the
ranges' estimated total (80 bytes of framing per part plus the data) is below the entity's
length, and its parts are exactly the ranges the Range header resolves to, in request order. -/
theorem C06_multipart_only_for_two_or_more (q : Req) (e : Ent) (now : Nat) (r : Resp)
    (phs : List Bytes) (rs : List (Nat × Nat)) (total : Nat)
    (h : serve q e now = .ok r) (hp : r.plan = .multipart phs rs total) :
    2 ≤ rs.length ∧ ServeLemmas.small rs e.len = true ∧ r.status = 206 ∧
    parseRange (if (ifRangeGate e.etag q.ifRange).1 then q.range else none) e.len = .ok (.sat rs) :=
  multipart_only_for_two_or_more q e now r phs rs total h hp

end HS
