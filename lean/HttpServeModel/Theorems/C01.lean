/-
C01 — `serve`: the announced length equals the bytes actually delivered.

Property statements only; proofs in `Lemmas/Body.lean`, `Lemmas/ServeLemmas.lean`,
`Lemmas/Layout.lean`. `BodyS.run n b` is the trace of `n` polls of a body; `delivered` sums the
data frame lengths; `BodyS.sizeHint` is the body's (exact) size hint; an entity's streams are
arbitrary scripts (`List Ev`: chunks of any size incl. empty, `Pending`, errors, early end).
-/
import HttpServeModel.Lemmas.ServeLemmas
import HttpServeModel.Lemmas.Layout

namespace HS

/-- No body ever delivers more than was announced — for every request, every entity behaviour
(honest or not), every number of polls. -/
theorem C01_never_more_than_announced (q : Req) (e : Ent) (now : Nat) (r : Resp)
    (hlen : e.len < U64) (h : serve q e now = .ok r) (scripts : List (List Ev)) (n : Nat) :
    ∃ b, BodyS.ofPlan r.plan scripts = .ok b ∧ delivered (b.run n) ≤ b.sizeHint := by
  obtain ⟨b, hb, hinv⟩ := serve_body_inv q e now r hlen h scripts
  exact ⟨b, hb, run_delivered_le n b hinv⟩

/-- A body that ends cleanly (no error before the end) has delivered exactly the number of bytes
its size hint announced. -/
theorem C01_clean_end_exact (q : Req) (e : Ent) (now : Nat) (r : Resp)
    (hlen : e.len < U64) (h : serve q e now = .ok r) (scripts : List (List Ev)) (n : Nat) :
    ∃ b, BodyS.ofPlan r.plan scripts = .ok b ∧
      ((∀ o ∈ outs (b.run n), o.isErr = false) → PollOut.end_ ∈ outs (b.run n) →
        delivered (b.run n) = b.sizeHint) := by
  obtain ⟨b, hb, hinv⟩ := serve_body_inv q e now r hlen h scripts
  exact ⟨b, hb, run_clean_end_exact n b hinv⟩

/-- Every 200 and 206 carries a Content-Length: a number below 2^64 that — for GET — is exactly
the body's initial size hint. With the two theorems above: Content-Length = hint = delivered. -/
theorem C01_content_length_is_hint (q : Req) (e : Ent) (now : Nat) (r : Resp) (hlen : e.len < U64)
    (h : serve q e now = .ok r) (hs : r.status = 200 ∨ r.status = 206) :
    ∃ n, n < U64 ∧ r.header .contentLength = some (.bytes (dec n)) ∧
      (q.method = .get → ∀ scripts b, BodyS.ofPlan r.plan scripts = .ok b → b.sizeHint = n) :=
  content_length_announces q e now r hlen h hs

/-- Responses without a Content-Length (304, 400, 405, 412, 413, 416) have a fixed body whose
exact size is its hint. -/
theorem C01_no_content_length_otherwise (q : Req) (e : Ent) (now : Nat) (r : Resp)
    (h : serve q e now = .ok r) (hs : r.status ≠ 200 ∧ r.status ≠ 206) :
    r.header .contentLength = none ∧ (r.plan = .empty ∨ ∃ n, r.plan = .once n) :=
  no_content_length_otherwise q e now r h hs

/-- An entity that honours its contract does get a clean end: a body over an honest stream for
`a..b` (any chunking) ends without error. (Multipart: `C06_body_is_layout`.) -/
theorem C01_honest_ends_cleanly (c : Content) (a b : Nat) (hab : a ≤ b) (script : List Ev)
    (hhon : HonestScript c a b script) (n : Nat) (hn : script.length + 1 ≤ n) :
    let tr := outs (BodyS.run n (.exact { stream := script, remaining := b - a }))
    concatData tr = c.slice a b ∧ PollOut.end_ ∈ tr ∧ ∀ o ∈ tr, o.isErr = false :=
  exact_body_is_slice c a b hab script hhon n hn

/-- Non-vacuity: an honest 7-byte stream in three chunks with an empty chunk and a Pending. -/
example : HonestScript (fun i => i) 3 10
    [.chunk [3, 4], .pending, .chunk [], .chunk [5, 6, 7, 8, 9]] := by
  refine ⟨by decide, by decide⟩

end HS
