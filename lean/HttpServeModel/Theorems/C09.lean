/-
C09 — `streaming_body` (gzip): one valid gzip member; flush makes data decodable.

PARTIAL in a stated way. Proved here: the TRANSPORT — for any history of writes and flushes
followed by the drop, any chunk size, the consumer receives exactly the bytes the encoder
produced: every byte, once, in order, nothing after them, and after every `flush` everything the
encoder has pushed so far is delivered or queued. The encoder itself (flate2/miniz_oxide:
DEFLATE, CRC-32, ISIZE) is a PARAMETER of the model: each gzip operation carries the bytes the
encoder pushes into the chunk writer during that call (`gzWrite pushed _`, `gzFlush pushed`,
`gzDrop pushed`). That the concatenation of those bytes is one well-formed gzip member whose
decompression equals the input — and that the output up to a sync flush decodes to the input up
to that flush — is ASSUMED (hypothesis `GzipContract` below) and TESTED on every run with
Python's zlib (not the Rust inflater). Known finding K2 is a violation of exactly that assumed
flush clause by flate2 when more than 32 KiB of output is pending.

Proofs in `Lemmas/PipeFaults.lean`.
-/
import HttpServeModel.Lemmas.PipeFaults

namespace HS

/-- Transport: every operation succeeds; delivered ++ queued ++ buffered = everything the encoder
pushed; frames are non-empty and at most one chunk long; a clean end means the writer was
dropped and the consumer holds the encoder's complete output. -/
theorem C09_transport (cap : Nat) (hc : 0 < cap) (ops : List AnyOp) (hops : ∀ op ∈ ops, op.gzPlain) :
    let h := (Hist.init cap .gz).run ops
    POut.err ∉ h.pouts ∧ h.delivered ++ h.sys.inflight ++ h.sys.buf = h.accepted ∧
    (∀ f ∈ h.frames, f ≠ [] ∧ f.length ≤ cap) ∧
    (ROut.end_ ∈ h.polls → h.sys.bw = .gone ∧ h.delivered = h.accepted) :=
  gz_transport cap hc ops hops

/-- After `flush` returns, everything the encoder has pushed so far (including its sync-flush
output) is delivered or queued: available to a streaming decoder without further producer
action. -/
theorem C09_flush_available (cap : Nat) (hc : 0 < cap) (ops : List AnyOp)
    (hops : ∀ op ∈ ops, op.gzPlain) (pushed : Bytes) :
    let h := (Hist.init cap .gz).run (ops ++ [.p (.gzFlush pushed)])
    h.sys.bw = .gz → h.delivered ++ h.sys.inflight = h.accepted :=
  gz_flush_publishes cap hc ops hops pushed

/-- The assumed contract of the encoder, for a decoder `decode : Bytes → Option Bytes`
(`none` = not a complete valid member): the complete output decodes to the input. -/
def GzipContract (decode : Bytes → Option Bytes) (encoderOutput input : Bytes) : Prop :=
  decode encoderOutput = some input

/-- Under the encoder's contract, the body delivered after the writer is dropped IS the valid
member: what the consumer holds at the clean end decodes to the bytes written. -/
theorem C09_member (decode : Bytes → Option Bytes) (input : Bytes)
    (cap : Nat) (hc : 0 < cap) (ops : List AnyOp) (hops : ∀ op ∈ ops, op.gzPlain) :
    let h := (Hist.init cap .gz).run ops
    GzipContract decode h.accepted input → ROut.end_ ∈ h.polls → decode h.delivered = some input := by
  intro h hcontract hend
  have := (gz_transport cap hc ops hops).2.2.2 hend
  rw [this.2]; exact hcontract

/-- Under the encoder's contract for sync flushes — a streaming decoder `sdecode` fed the
encoder's output up to and including a sync flush reproduces the input written so far — the
frames available to the consumer after `flush` returns (delivered or queued, no further
producer action needed) decode to every byte written before that flush. (K2 is flate2 breaking
exactly this contract when more than 32 KiB of output is pending.) -/
theorem C09_flush_decodable (sdecode : Bytes → Bytes) (inputSoFar : Bytes)
    (cap : Nat) (hc : 0 < cap) (ops : List AnyOp) (hops : ∀ op ∈ ops, op.gzPlain) (pushed : Bytes) :
    let h := (Hist.init cap .gz).run (ops ++ [.p (.gzFlush pushed)])
    h.sys.bw = .gz → sdecode h.accepted = inputSoFar →
    sdecode (h.delivered ++ h.sys.inflight) = inputSoFar := by
  intro h hbw hc'
  have := gz_flush_publishes cap hc ops hops pushed hbw
  rw [this]; exact hc'

/-- Non-vacuity: chunk size 1 (every byte of the encoder's output in its own frame). -/
example :
    let h := (Hist.init 1 .gz).run
      [.p (.gzWrite [31, 139] 5), .p (.gzFlush [8, 0]), .c (.poll 1), .c (.poll 1), .c (.poll 1),
       .c (.poll 1), .p (.gzDrop [3, 0]), .c (.poll 1), .c (.poll 1), .c (.poll 1)]
    h.frames = [[31], [139], [8], [0], [3], [0]] ∧ h.polls.getLast? = some .end_ := by decide

end HS
