/-
C09 — `streaming_body` (gzip): one valid gzip member; flush makes data decodable.

PARTIAL in a stated way. Proved here: the TRANSPORT — for any history of writes and flushes
followed by the drop, any chunk size, the consumer receives exactly the bytes the encoder
produced: every byte, once, in order, nothing after them, and after every `flush` everything the
encoder has pushed so far is delivered or queued. The encoder itself (flate2/miniz_oxide:
DEFLATE, CRC-32, ISIZE) is a PARAMETER of the model: each gzip operation carries the bytes the
encoder pushes into the chunk writer during that call (`gzWrite pushed _`, `gzFlush pushed`,
`gzDrop pushed`). That the concatenation of those bytes is one well-formed gzip member whose
decompression equals the input — and that the output up to a sync flush decodes to the input up
to that flush — is ASSUMED (hypothesis `GzipContract` below) and CHECKED on every run, per case,
by the decoder of `Model/Inflate.lean` (`Inflate.gunzip`, `Inflate.gunzipAvail`: RFC 1951 / 1952
as total Lean functions, run by the model driver on the real encoder's bytes) and, independently,
by Python's zlib (neither is the Rust inflater). What is proved about that decoder is below
(`C09_decoder_*`): it accepts and returns the content of every stored-block member of every
length, whatever it accepts has the gzip framing with the CRC-32 and the length of its OUTPUT, its
streaming view agrees with its one-shot view and never takes output back. Known finding K2 is a
violation of exactly the assumed flush clause by flate2 when more than 32 KiB of output is pending.

Proofs in `Lemmas/PipeFaults.lean`, `Lemmas/Inflate.lean`.
-/
import HttpServeModel.Lemmas.PipeFaults
import HttpServeModel.Lemmas.Inflate

namespace HS

/-- Transport: every operation succeeds; delivered ++ queued ++ buffered = everything the encoder
pushed; frames are non-empty and at most one chunk long; a clean end means the writer was
dropped and the consumer holds the encoder's complete output. -/
theorem C09_transport (cap : Nat) (hc : 0 < cap) (ops : List AnyOp) (hops : ∀ op ∈ ops, op.gzPlain) :
    let h := (Hist.init cap .gz).run ops
    POut.err ∉ h.pouts ∧ h.delivered ++ h.sys.inflight ++ h.sys.buf = h.accepted ∧
    (∀ f ∈ h.frames, f ≠ [] ∧ f.length ≤ cap) ∧
    (ROut.end_ ∈ h.polls → h.sys.bw = .gone ∧ h.delivered = h.accepted) :=
  gz_transport cap hc ops hops

/-- After `flush` returns, everything the encoder has pushed so far (including its sync-flush
output) is delivered or queued: available to a streaming decoder without further producer
action. -/
theorem C09_flush_available (cap : Nat) (hc : 0 < cap) (ops : List AnyOp)
    (hops : ∀ op ∈ ops, op.gzPlain) (pushed : Bytes) :
    let h := (Hist.init cap .gz).run (ops ++ [.p (.gzFlush pushed)])
    h.sys.bw = .gz → h.delivered ++ h.sys.inflight = h.accepted :=
  gz_flush_publishes cap hc ops hops pushed

/-- The assumed contract of the encoder, for a decoder `decode : Bytes → Option Bytes`
(`none` = not a complete valid member): the complete output decodes to the input. -/
def GzipContract (decode : Bytes → Option Bytes) (encoderOutput input : Bytes) : Prop :=
  decode encoderOutput = some input

/-- Under the encoder's contract, the body delivered after the writer is dropped IS the valid
member: what the consumer holds at the clean end decodes to the bytes written. -/
theorem C09_member (decode : Bytes → Option Bytes) (input : Bytes)
    (cap : Nat) (hc : 0 < cap) (ops : List AnyOp) (hops : ∀ op ∈ ops, op.gzPlain) :
    let h := (Hist.init cap .gz).run ops
    GzipContract decode h.accepted input → ROut.end_ ∈ h.polls → decode h.delivered = some input := by
  intro h hcontract hend
  have := (gz_transport cap hc ops hops).2.2.2 hend
  rw [this.2]; exact hcontract

/-- Under the encoder's contract for sync flushes — a streaming decoder `sdecode` fed the
encoder's output up to and including a sync flush reproduces the input written so far — the
frames available to the consumer after `flush` returns (delivered or queued, no further
producer action needed) decode to every byte written before that flush. (K2 is flate2 breaking
exactly this contract when more than 32 KiB of output is pending.) -/
theorem C09_flush_decodable (sdecode : Bytes → Bytes) (inputSoFar : Bytes)
    (cap : Nat) (hc : 0 < cap) (ops : List AnyOp) (hops : ∀ op ∈ ops, op.gzPlain) (pushed : Bytes) :
    let h := (Hist.init cap .gz).run (ops ++ [.p (.gzFlush pushed)])
    h.sys.bw = .gz → sdecode h.accepted = inputSoFar →
    sdecode (h.delivered ++ h.sys.inflight) = inputSoFar := by
  intro h hbw hc'
  have := gz_flush_publishes cap hc ops hops pushed hbw
  rw [this]; exact hc'

/-! ### The decoder the assumption is checked with -/

/-- The decoder accepts every gzip member whose DEFLATE stream consists of stored blocks, of
every content and every length, and returns exactly the content. -/
theorem C09_decoder_accepts_stored_members (bs : Bytes) (h : Inflate.IsBytes bs) :
    Inflate.gunzip (Inflate.gzipStored bs) = some bs :=
  Inflate.gunzip_gzipStored bs h

/-- Whatever the decoder accepts has the gzip framing: magic and method, and its last eight
bytes are the CRC-32 and the length (mod 2^32) of the decoder's OUTPUT, little endian. -/
theorem C09_decoder_sound (input out : Bytes) (h : Inflate.gunzip input = some out) :
    input.take 3 = [31, 139, 8] ∧ 18 ≤ input.length ∧
    input.drop (input.length - 8) =
      Inflate.le32 (Inflate.crc32 out) ++ Inflate.le32 (out.length % 4294967296) :=
  Inflate.gunzip_sound input out h

/-- The streaming view agrees with the one-shot view on a complete member. -/
theorem C09_decoder_views_agree (input out : Bytes) (h : Inflate.gunzip input = some out) :
    Inflate.gunzipAvail input = (true, out) :=
  Inflate.gunzipAvail_of_gunzip input out h

/-- The streaming decoder never takes output back: more input only extends what it has produced
(as long as no defect is reported). -/
theorem C09_decoder_never_takes_output_back (a b : Bytes)
    (h : (Inflate.gunzipAvail (a ++ b)).1 = true) :
    (Inflate.gunzipAvail a).1 = true ∧
    (Inflate.gunzipAvail a).2 <+: (Inflate.gunzipAvail (a ++ b)).2 :=
  Inflate.gunzipAvail_mono a b h

/-- C09's first clause with the concrete decoder: if what the encoder pushed is one member of the
input (checked per case on the real encoder's bytes), then what the consumer holds at the clean
end is that member: it decodes to the input, begins with the gzip magic and method, and ends
with the CRC-32 and the length of the input. -/
theorem C09_member_gunzip (input : Bytes)
    (cap : Nat) (hc : 0 < cap) (ops : List AnyOp) (hops : ∀ op ∈ ops, op.gzPlain) :
    let h := (Hist.init cap .gz).run ops
    Inflate.gunzip h.accepted = some input → ROut.end_ ∈ h.polls →
    Inflate.gunzip h.delivered = some input ∧ h.delivered.take 3 = [31, 139, 8] ∧
    h.delivered.drop (h.delivered.length - 8) =
      Inflate.le32 (Inflate.crc32 input) ++ Inflate.le32 (input.length % 4294967296) := by
  intro h hdec hend
  have hd := C09_member Inflate.gunzip input cap hc ops hops hdec hend
  have hs := Inflate.gunzip_sound _ _ hd
  exact ⟨hd, hs.1, hs.2.2⟩

/-- C09's second clause with the concrete streaming decoder: if the encoder's output up to and
including a sync flush decodes to the input written so far (checked per case), then so do the
frames available to the consumer when `flush` returns; and every shorter prefix of them decodes
to a prefix of that (nothing is produced that later has to be taken back). -/
theorem C09_flush_decodable_gunzip (inputSoFar : Bytes)
    (cap : Nat) (hc : 0 < cap) (ops : List AnyOp) (hops : ∀ op ∈ ops, op.gzPlain) (pushed : Bytes) :
    let h := (Hist.init cap .gz).run (ops ++ [.p (.gzFlush pushed)])
    h.sys.bw = .gz → Inflate.gunzipAvail h.accepted = (true, inputSoFar) →
    Inflate.gunzipAvail (h.delivered ++ h.sys.inflight) = (true, inputSoFar) ∧
    ∀ a b, a ++ b = h.delivered ++ h.sys.inflight →
      (Inflate.gunzipAvail a).1 = true ∧ (Inflate.gunzipAvail a).2 <+: inputSoFar := by
  intro h hbw hdec
  have hpub := gz_flush_publishes cap hc ops hops pushed hbw
  have hall : Inflate.gunzipAvail (h.delivered ++ h.sys.inflight) = (true, inputSoFar) := by
    rw [hpub]; exact hdec
  refine ⟨hall, ?_⟩
  intro a b hab
  have hm := Inflate.gunzipAvail_mono a b (by rw [hab, hall])
  rw [hab, hall] at hm
  exact hm

/-- Non-vacuity: chunk size 1 (every byte of the encoder's output in its own frame). -/
example :
    let h := (Hist.init 1 .gz).run
      [.p (.gzWrite [31, 139] 5), .p (.gzFlush [8, 0]), .c (.poll 1), .c (.poll 1), .c (.poll 1),
       .c (.poll 1), .p (.gzDrop [3, 0]), .c (.poll 1), .c (.poll 1), .c (.poll 1)]
    h.frames = [[31], [139], [8], [0], [3], [0]] ∧ h.polls.getLast? = some .end_ := by decide

end HS
