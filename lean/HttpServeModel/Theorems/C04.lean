/-
C04 — conditional headers follow RFC 7232 precedence and comparison functions.

Property statements only; proofs in `Lemmas/CondLemmas.lean`, `Lemmas/EtagList.lean`.
Specification: `Spec/Rfc7232.lean` — `Tag` (weak flag + opaque bytes, anything but DQUOTE:
commas and spaces allowed), `TagHdr` (absent | `*` | list of tags each followed by "," and
optional whitespace), `spec412`, `spec304`. Dates are whole seconds as `httpdate` parses them
(a parameter of the model); an entity modification time is `(secs, nanos)`.
-/
import HttpServeModel.Lemmas.CondLemmas
import HttpServeModel.Lemmas.Clock
import HttpServeModel.Lemmas.ServeCalls

namespace HS

/-- With well-formed validators, `serve` answers 412 exactly when If-Match is present and none of
its tags strongly equals the entity's ETag (`*` always passes), or If-Match is absent and
If-Unmodified-Since is earlier than the last-modified second; otherwise 304 exactly when
If-None-Match is `*` or one of its tags weakly equals the ETag, or If-None-Match is absent and
the last-modified second is not later than If-Modified-Since; and never 400. For every method
GET/HEAD, every Range / If-Range, any number of tags. -/
theorem C04_status (etag : Option Tag) (im inm : TagHdr) (ius ims : Option Nat)
    (q : Req) (e : Ent) (now : Nat) (r : Resp)
    (hwf : im.wf ∧ inm.wf) (hm : q.method ≠ .other)
    (hq : q.ifMatch = im.render ∧ q.ifNoneMatch = inm.render ∧ q.ius = dateOf ius ∧ q.ims = dateOf ims)
    (he : e.etag = etag.map Tag.render) (hlen : e.len < U64) (h : serve q e now = .ok r) :
    (r.status = 412 ↔ spec412 etag e.mtime im ius = true) ∧
    (r.status = 304 ↔ (spec412 etag e.mtime im ius = false ∧ spec304 etag e.mtime inm ims = true)) ∧
    r.status ≠ 400 :=
  cond_status etag im inm ius ims q e now r hwf hm hq he hlen h

/-- "Otherwise processing continues to range selection": when neither rule fires, the response
is exactly the response to the same request without the four conditional headers. -/
theorem C04_pass_through (etag : Option Tag) (im inm : TagHdr) (ius ims : Option Nat)
    (q : Req) (e : Ent) (now : Nat)
    (hwf : im.wf ∧ inm.wf) (hm : q.method ≠ .other)
    (hq : q.ifMatch = im.render ∧ q.ifNoneMatch = inm.render ∧ q.ius = dateOf ius ∧ q.ims = dateOf ims)
    (he : e.etag = etag.map Tag.render)
    (h412 : spec412 etag e.mtime im ius = false) (h304 : spec304 etag e.mtime inm ims = false) :
    serve q e now =
      serve { q with ifMatch := none, ifNoneMatch := none, ius := .absent, ims := .absent } e now :=
  cond_pass_through etag im inm ius ims q e now hwf hm hq he h412 h304

/-- If-Modified-Since is ignored whenever If-None-Match is present, If-Unmodified-Since whenever
If-Match is present, and date conditions whenever the entity has no modification time — by the
very shape of the rule. -/
theorem C04_ignored_headers (etag : Option Tag) (mtime : Option (Nat × Nat)) (im inm : TagHdr)
    (ius ius' ims ims' : Option Nat) :
    (inm ≠ .absent → spec304 etag mtime inm ims = spec304 etag mtime inm ims') ∧
    (im ≠ .absent → spec412 etag mtime im ius = spec412 etag mtime im ius') ∧
    (spec412 etag none im ius = spec412 etag none im ius' ∧
     spec304 etag none inm ims = spec304 etag none inm ims') := by
  refine ⟨?_, ?_, ?_, ?_⟩
  · intro h; cases inm <;> simp_all [spec304]
  · intro h; cases im <;> simp_all [spec412]
  · cases im <;> cases ius <;> cases ius' <;> simp [spec412]
  · cases inm <;> cases ims <;> cases ims' <;> simp [spec304]

/-- Sub-second modification times are compared truncated to the second. -/
theorem C04_subsecond_truncated (etag : Option Tag) (im inm : TagHdr) (ius ims : Option Nat)
    (secs n1 n2 : Nat) :
    spec412 etag (some (secs, n1)) im ius = spec412 etag (some (secs, n2)) im ius ∧
    spec304 etag (some (secs, n1)) inm ims = spec304 etag (some (secs, n2)) inm ims :=
  cond_subsecond_truncated etag im inm ius ims secs n1 n2

/-- Tag lists are matched element by element even when tags contain commas or spaces: the list
iterator yields exactly the rendered tags, in order, and is not corrupt. -/
theorem C04_list_iteration (ts : List (Tag × Bytes)) (h : TagsWf ts) :
    etagItems (renderTags ts) = (ts.map fun p => p.1.render, false) :=
  etagItems_render ts h

/-- The byte-level comparison functions are the RFC's. -/
theorem C04_comparison_functions (a b : Tag) :
    strongEq a.render b.render = a.strongEq b ∧ weakEq a.render b.render = a.weakEq b :=
  ⟨strongEq_render a b, weakEq_render a b⟩

/-- The conditions are evaluated against the entity, never against the clock: status, body plan,
entity calls and every header other than Date and Last-Modified are the same whenever the request
is served — also for an entity whose modification time lies in the future, where a date
condition between now and that time is still compared with the modification time itself. -/
theorem C04_independent_of_the_clock (q : Req) (e : Ent) (now1 now2 : Nat) :
    stripClockR (serve q e now1) = stripClockR (serve q e now2) :=
  serve_clock_independent q e now1 now2

/-- Non-vacuity: a weak entity tag containing ", ", a two-element If-None-Match list, sub-second
mtime: well-formed, and the rule says 304. -/
example :
    TagHdr.wf (.list [(⟨false, [120]⟩, [32]), (⟨true, [97, 44, 32, 98]⟩, [])]) ∧
    spec304 (some ⟨true, [97, 44, 32, 98]⟩) (some (784111777, 500000000))
      (.list [(⟨false, [120]⟩, [32]), (⟨true, [97, 44, 32, 98]⟩, [])]) none = true := by
  refine ⟨⟨by simp, ?_⟩, by decide⟩
  intro p hp
  simp at hp
  rcases hp with rfl | rfl <;> simp [Tag.wf]

/-- A response decided by the conditional headers alone — 304, 412, or the 400 for an unparseable
one — is decided from the two validators only: the entity is asked for its modification time and
its ETag and for nothing else (not its length, not its headers, not a byte of data). -/
theorem C04_decided_from_validators_only (q : Req) (e : Ent) (now : Nat) (r : Resp)
    (h : serve q e now = .ok r) (hs : r.status ∈ [304, 400, 412]) :
    r.calls = [.lastModified, .etag] :=
  precondition_outcomes_touch_validators_only q e now r h hs

/-- `C04_pass_through` for ARBITRARY header bytes (grammatical or not, any method): a response
that is not 304, 400 or 412 is exactly the response to the same request with the four conditional
headers removed. Once the preconditions have passed they leave no trace — in particular a passing
If-Match cannot influence what If-Range and Range decide. -/
theorem C04_passed_preconditions_leave_no_trace (q : Req) (e : Ent) (now : Nat) (r : Resp)
    (h : serve q e now = .ok r) (hs : r.status ∉ [304, 400, 412]) :
    serve { q with ifMatch := none, ifNoneMatch := none, ius := .absent, ims := .absent } e now
      = .ok r :=
  passed_preconditions_leave_no_trace q e now r h hs

/-- Non-vacuity of `C04_passed_preconditions_leave_no_trace`: `If-Match: *`, a stale If-Range tag
and `Range: bytes=1-2` on a 10-byte entity with ETag `"a"` pass the preconditions (status 200, not
304/400/412). -/
example :
    ∃ r, serve { method := .get, range := some [98, 121, 116, 101, 115, 61, 49, 45, 50],
                 ifRange := some [34, 98, 34], ifMatch := some [42] }
               { len := 10, etag := some [34, 97, 34] } 0 = .ok r ∧
      r.status = 200 ∧ r.status ∉ [304, 400, 412] := by
  refine ⟨_, rfl, ?_, ?_⟩ <;> decide

end HS
