/-
C02 — `serve`: body bytes are exactly the entity bytes the headers denote.

Property statements only; proofs in `Lemmas/ServeLemmas.lean`, `Lemmas/Layout.lean`.
Entity content is an arbitrary function `Content := Nat → Nat`; `HonestScript c a b s` says the
stream `s` never fails and its chunks (any number, any sizes, empty ones, `Pending`s)
concatenate to entity bytes `a..b`.
-/
import HttpServeModel.Lemmas.ServeLemmas
import HttpServeModel.Lemmas.Layout
import HttpServeModel.Lemmas.EndToEnd

namespace HS

/-- A 200 to GET fetches the complete entity, once, and has no Content-Range. -/
theorem C02_full_200 (q : Req) (e : Ent) (now : Nat) (r : Resp)
    (h : serve q e now = .ok r) (hget : q.method = .get) (hs : r.status = 200) :
    r.plan = .exact 0 e.len ∧ r.calls.filter EntCall.isGetRange = [.getRange 0 e.len] ∧
    r.header .contentRange = none :=
  full_200_shape q e now r h hget hs

/-- A single-range 206 carries `Content-Range: bytes a-b/L` with a ≤ b < L = entity length, and
`get_range` is called exactly once, with exactly that range. -/
theorem C02_single_206 (q : Req) (e : Ent) (now : Nat) (r : Resp) (hlen : e.len < U64)
    (h : serve q e now = .ok r) (hget : q.method = .get) (hs : r.status = 206)
    (cr : HVal) (hcr : r.header .contentRange = some cr) :
    ∃ a b', a < b' ∧ b' ≤ e.len ∧
      cr = .bytes (kBytesSp ++ dec a ++ [45] ++ dec (b' - 1) ++ [47] ++ dec e.len) ∧
      r.plan = .exact a b' ∧ r.calls.filter EntCall.isGetRange = [.getRange a b'] :=
  single_range_shape q e now r hlen h hget hs cr hcr

/-- The body over the fetched stream is exactly entity bytes a..b, however the entity chunks its
stream — nothing reordered, duplicated or missing — and then ends cleanly. -/
theorem C02_body_is_slice (c : Content) (a b : Nat) (hab : a ≤ b) (script : List Ev)
    (hhon : HonestScript c a b script) (n : Nat) (hn : script.length + 1 ≤ n) :
    let tr := outs (BodyS.run n (.exact { stream := script, remaining := b - a }))
    concatData tr = c.slice a b ∧ PollOut.end_ ∈ tr ∧ ∀ o ∈ tr, o.isErr = false :=
  exact_body_is_slice c a b hab script hhon n hn

/-- No other response fetches entity bytes at `serve` time: only 200 and single-range 206 do.
(Multipart bodies fetch while being polled — exactly the named ranges, in order:
`C06_body_is_layout`.) -/
theorem C02_no_fetch_otherwise (q : Req) (e : Ent) (now : Nat) (r : Resp)
    (h : serve q e now = .ok r) (hs : r.status ≠ 200) (hcr : r.header .contentRange = none) :
    ∀ a b, EntCall.getRange a b ∉ r.calls :=
  no_fetch_otherwise q e now r h hs hcr

/-- End to end, single range: the response names `bytes a-b/L` (a ≤ b < L = entity length),
announces `Content-Length: b-a+1`, and for ANY honest stream for that range — any chunking — the
body built from the response delivers exactly entity bytes a..=b, exactly as many as announced,
and ends cleanly. -/
theorem C02_single_range_end_to_end (c : Content) (q : Req) (e : Ent) (now : Nat) (r : Resp)
    (hlen : e.len < U64) (h : serve q e now = .ok r) (hget : q.method = .get) (hs : r.status = 206)
    (cr : HVal) (hcr : r.header .contentRange = some cr) :
    ∃ a b', a < b' ∧ b' ≤ e.len ∧
      cr = .bytes (kBytesSp ++ dec a ++ [45] ++ dec (b' - 1) ++ [47] ++ dec e.len) ∧
      r.header .contentLength = some (.bytes (dec (b' - a))) ∧
      ∀ script, HonestScript c a b' script → ∀ n, script.length + 1 ≤ n →
        ∃ body, BodyS.ofPlan r.plan [script] = .ok body ∧
          concatData (outs (body.run n)) = c.slice a b' ∧ PollOut.end_ ∈ outs (body.run n) ∧
          (∀ o ∈ outs (body.run n), o.isErr = false) ∧ delivered (body.run n) = b' - a :=
  single_range_end_to_end c q e now r hlen h hget hs cr hcr

/-- End to end, complete 200: Content-Length = L and the body is the entity's complete byte
sequence for any honest stream. -/
theorem C02_full_200_end_to_end (c : Content) (q : Req) (e : Ent) (now : Nat) (r : Resp)
    (h : serve q e now = .ok r) (hget : q.method = .get) (hs : r.status = 200) :
    r.header .contentLength = some (.bytes (dec e.len)) ∧
    ∀ script, HonestScript c 0 e.len script → ∀ n, script.length + 1 ≤ n →
      ∃ body, BodyS.ofPlan r.plan [script] = .ok body ∧
        concatData (outs (body.run n)) = c.slice 0 e.len ∧ PollOut.end_ ∈ outs (body.run n) ∧
        (∀ o ∈ outs (body.run n), o.isErr = false) :=
  full_200_end_to_end c q e now r h hget hs

end HS
