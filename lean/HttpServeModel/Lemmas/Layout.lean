import HttpServeModel.Spec.Multipart
import HttpServeModel.Lemmas.Body
import HttpServeModel.Lemmas.Digits
namespace HS

/-- inclusive form of a half-open range, as the headers show it -/
def toInclusive (r : Nat × Nat) : Nat × Nat := (r.1, r.2 - 1)

/-- what an honest stream may still do after it has delivered its whole range -/
def QuietScript (evs : List Ev) : Prop := ∀ ev ∈ evs, ev = .pending ∨ ev = .chunk []

end HS

namespace HS

/-- C07: a consumer that polls past the announced length gets an error, never more data. -/
theorem exact_poll_past_announced (rest : List Ev) (bs : Bytes) (hbs : bs ≠ []) :
    (({ stream := .chunk bs :: rest, remaining := 0 } : ExactLen).poll).2 = .errLong bs.length := by
  have : bs.length ≠ 0 := by
    intro h; exact hbs (List.length_eq_zero_iff.mp h)
  simp [ExactLen.poll, this]

/-- `eachPartHeaders` renders the entity's headers as specified. -/
theorem eachPartHeaders_spec (hs : List (Bytes × Bytes)) :
    eachPartHeaders hs = specEntityHeaders hs := by
  simp [eachPartHeaders, specEntityHeaders, kColonSp, kCRLF]

/-- The part header `prepare_multipart` renders is exactly the specified head of a part. -/
theorem partHeader_spec (a b len : Nat) (eh : Bytes) (hb : 1 ≤ b) :
    partHeader a b len eh = .ok (specPartHead len eh a (b - 1)) := by
  simp [partHeader, subChk, hb, specPartHead, kPartPre, kCRLF, cHyphen, cSlash, bind, R.bind, pure]

end HS

namespace HS.Layout

/-! ### generic facts about runs -/

theorem outs_run_succ (n : Nat) (b : BodyS) :
    outs (BodyS.run (n + 1) b) = b.poll.2 :: outs (BodyS.run n b.poll.1) := by
  simp [BodyS.run, outs]

theorem outs_run_zero (b : BodyS) : outs (BodyS.run 0 b) = [] := by
  simp [BodyS.run, outs]

theorem outs_run_length (n : Nat) (b : BodyS) : (outs (BodyS.run n b)).length = n := by
  induction n generalizing b with
  | zero => simp [outs_run_zero]
  | succ n ih => simp [outs_run_succ, ih]

theorem after_succ (n : Nat) (b : BodyS) : BodyS.after (n + 1) b = BodyS.after n b.poll.1 := rfl

theorem outs_run_add (a k : Nat) (b : BodyS) :
    outs (BodyS.run (a + k) b) = outs (BodyS.run a b) ++ outs (BodyS.run k (BodyS.after a b)) := by
  induction a generalizing b with
  | zero => simp [outs_run_zero, BodyS.after]
  | succ a ih =>
    have : a + 1 + k = (a + k) + 1 := by omega
    rw [this, outs_run_succ, outs_run_succ, after_succ, ih]; simp

theorem after_add (a k : Nat) (b : BodyS) :
    BodyS.after (a + k) b = BodyS.after k (BodyS.after a b) := by
  induction a generalizing b with
  | zero => simp [BodyS.after]
  | succ a ih =>
    have : a + 1 + k = (a + k) + 1 := by omega
    rw [this, after_succ, after_succ, ih]

theorem exact_poll (e : ExactLen) : (BodyS.exact e).poll = (.exact e.poll.1, e.poll.2) := rfl
theorem multi_poll (m : Multipart) : (BodyS.multi m).poll = (.multi m.poll.1, m.poll.2) := rfl

/-- the ended multipart stays put and says `end_` -/
theorem poll_ended (m : Multipart) (h : MInvAt m .ended) (k : Nat) :
    Multipart.pollF (k + 1) m = (m, .end_) := by
  obtain ⟨hc, hs, hr⟩ := h
  simp only [Multipart.pollF, hc, hs]
  have : (2 * m.ranges.length + 1) / 2 = m.ranges.length := by omega
  have h2 : (2 * m.ranges.length + 1) % 2 = 1 := by omega
  simp [this, h2, hr]

theorem run_ended (m : Multipart) (h : MInvAt m .ended) (n : Nat) :
    outs (BodyS.run n (.multi m)) = List.replicate n .end_ ∧ BodyS.after n (.multi m) = .multi m := by
  have hp : m.poll = (m, .end_) := poll_ended m h 3
  induction n with
  | zero => simp [outs_run_zero, BodyS.after]
  | succ n ih =>
    rw [outs_run_succ, after_succ, multi_poll, hp]
    simp [ih, List.replicate_succ]

theorem rem_zero_ended (m : Multipart) (hinv : MInv m) (h0 : m.remaining = 0) : MInvAt m .ended := by
  obtain ⟨_, _, ph, hph⟩ := hinv
  cases ph with
  | header i => obtain ⟨_, _, _, hr⟩ := hph; simp [Multipart.rest, kTrailer] at hr; omega
  | open_ i => obtain ⟨_, _, _, r, _, hr⟩ := hph; simp [Multipart.rest, kTrailer] at hr; omega
  | body i => obtain ⟨c, _, _, _, hr⟩ := hph; simp [Multipart.rest, kTrailer] at hr; omega
  | trailer => obtain ⟨_, _, hr⟩ := hph; simp [kTrailer] at hr; omega
  | ended => exact hph

end HS.Layout

namespace HS
open HS.Layout

theorem exact_quiet_poll (e : ExactLen) (h0 : e.remaining = 0) (hq : QuietScript e.stream) :
    e.poll.2 = .end_ ∨ e.poll.2 = .pending ∨ e.poll.2 = .data [] := by
  cases hf : e.finished
  case true => rw [ExactLen.poll_finished e hf]; simp
  unfold ExactLen.poll
  simp only [hf, Bool.false_eq_true, if_false]
  split
  · simp [h0]
  · simp
  · rename_i rest hs
    have := hq .err (by simp [hs]); simp at this
  · rename_i bs rest hs
    have := hq (.chunk bs) (by simp [hs])
    simp at this; subst this; simp

/-- C12: when a single-stream body says end-of-stream and the entity honours its contract (the
stream has nothing but empty chunks / Pending left), no data and no error follow. -/
theorem exact_eos_truthful (e : ExactLen) (h0 : e.remaining = 0) (hq : QuietScript e.stream) (n : Nat) :
    ∀ o ∈ outs (BodyS.run n (.exact e)), o = .end_ ∨ o = .pending ∨ o = .data [] := by
  induction n generalizing e with
  | zero => simp [outs_run_zero]
  | succ n ih =>
    rw [outs_run_succ, exact_poll]
    intro o ho
    simp only [List.mem_cons] at ho
    rcases ho with rfl | ho
    · exact exact_quiet_poll e h0 hq
    · refine ih e.poll.1 ?_ ?_ o ho
      · have := ExactLen.poll_remaining_le e; omega
      · rcases ExactLen.poll_stream e with hp | hp
        · rw [hp]; intro ev hev; exact hq ev (List.mem_of_mem_tail hev)
        · rw [hp]; exact hq

/-- C12: when a multipart body says end-of-stream, every further poll reports the end —
unconditionally. -/
theorem multi_eos_truthful (m : Multipart) (hinv : MInv m) (h0 : m.remaining = 0) (n : Nat) :
    ∀ o ∈ outs (BodyS.run n (.multi m)), o = .end_ := by
  rw [(run_ended m (rem_zero_ended m hinv h0) n).1]
  intro o ho
  exact (List.mem_replicate.mp ho).2

end HS

namespace HS.Layout

theorem hint_aux (k : Nat) (b : BodyS) (hinv : BInv b)
    (hne : ∀ o ∈ outs (b.run k), o.isErr = false) :
    (BodyS.after k b).sizeHint + delivered (b.run k) = b.sizeHint := by
  induction k generalizing b with
  | zero => simp [BodyS.after, BodyS.run, delivered]
  | succ k ih =>
    have st := b.poll_ok hinv
    rw [outs_run_succ] at hne
    have h1 := ih b.poll.1 st.inv (fun o ho => hne o (List.mem_cons_of_mem _ ho))
    have h0 := hne b.poll.2 List.mem_cons_self
    rw [after_succ]
    simp only [BodyS.run, delivered]
    cases ho : b.poll.2 with
    | data d => have := st.data d ho; simp [PollOut.dataLen]; omega
    | pending => have := st.pend ho; simp [PollOut.dataLen]; omega
    | end_ =>
      have := st.end_ ho
      simp [PollOut.dataLen]; omega
    | errEntity | errShort _ | errLong _ => rw [ho] at h0; simp [PollOut.isErr] at h0
    | panic => exact absurd ho st.noPanic.1
    | diverge => exact absurd ho st.noPanic.2

end HS.Layout

namespace HS
open HS.Layout

/-- C12: at every step of a run that ends cleanly, the (exact) size hint equals the number of
bytes still delivered from that step on. -/
theorem hint_exact_at_every_step (b : BodyS) (hinv : BInv b) (n : Nat)
    (hne : ∀ o ∈ outs (b.run n), o.isErr = false) (hend : PollOut.end_ ∈ outs (b.run n))
    (k : Nat) (hk : k ≤ n) :
    (BodyS.after k b).sizeHint + delivered (b.run k) = b.sizeHint := by
  have _ := hend
  apply hint_aux k b hinv
  intro o ho
  apply hne
  have : n = k + (n - k) := by omega
  rw [this, outs_run_add]
  exact List.mem_append_left _ ho

end HS

namespace HS.Layout

theorem slice_length (c : Content) (a b : Nat) : (c.slice a b).length = b - a := by
  simp [Content.slice]

theorem concatData_append (xs ys : List PollOut) :
    concatData (xs ++ ys) = concatData xs ++ concatData ys := by
  induction xs with
  | nil => simp [concatData]
  | cons x xs ih => cases x <;> simp [concatData, ih]

theorem concatData_replicate_end (n : Nat) : concatData (List.replicate n .end_) = [] := by
  induction n with
  | zero => simp [concatData]
  | succ n ih => simp [List.replicate_succ, concatData, ih]

theorem exact_done_run' (e : ExactLen) (h0 : e.remaining = 0) (hs : e.stream = []) (n : Nat) :
    outs (BodyS.run n (.exact e)) = List.replicate n .end_ := by
  induction n generalizing e with
  | zero => simp [outs_run_zero]
  | succ n ih =>
    rw [outs_run_succ, exact_poll]
    have h2 : e.poll.2 = .end_ := by
      cases hf : e.finished
      · simp [ExactLen.poll, hf, hs, h0]
      · rw [ExactLen.poll_finished e hf]
    have h1 : e.poll.1.remaining = 0 := by have := ExactLen.poll_remaining_le e; omega
    have h3 : e.poll.1.stream = [] := by
      rcases ExactLen.poll_stream e with hp | hp <;> simp [hp, hs]
    simp [h2, ih e.poll.1 h1 h3, List.replicate_succ]

theorem exact_done_run (n : Nat) :
    outs (BodyS.run n (.exact { stream := [], remaining := 0 })) = List.replicate n .end_ :=
  exact_done_run' _ rfl rfl n

theorem exact_honest_run (script : List Ev) (rem : Nat) (hne : Ev.err ∉ script)
    (hlen : (scriptBytes script).length = rem) (n : Nat) (hn : script.length + 1 ≤ n) :
    concatData (outs (BodyS.run n (.exact { stream := script, remaining := rem }))) = scriptBytes script ∧
    PollOut.end_ ∈ outs (BodyS.run n (.exact { stream := script, remaining := rem })) ∧
    ∀ o ∈ outs (BodyS.run n (.exact { stream := script, remaining := rem })), o.isErr = false := by
  induction script generalizing rem n with
  | nil =>
    simp [scriptBytes] at hlen; subst hlen
    rw [exact_done_run]
    refine ⟨by simp [concatData_replicate_end, scriptBytes], ?_, ?_⟩
    · exact List.mem_replicate.mpr ⟨by omega, rfl⟩
    · intro o ho; rw [(List.mem_replicate.mp ho).2]; rfl
  | cons ev rest ih =>
    obtain ⟨n, rfl⟩ : ∃ n', n = n' + 1 := ⟨n - 1, by omega⟩
    have hn' : rest.length + 1 ≤ n := by simp at hn; omega
    have hne' : Ev.err ∉ rest := fun h => hne (List.mem_cons_of_mem _ h)
    rw [outs_run_succ, exact_poll]
    cases ev with
    | err => exact absurd List.mem_cons_self hne
    | pending =>
      simp only [scriptBytes] at hlen ⊢
      obtain ⟨h1, h2, h3⟩ := ih rem hne' hlen n hn'
      simp only [ExactLen.poll, Bool.false_eq_true, if_false]
      refine ⟨by simpa [concatData] using h1, List.mem_cons_of_mem _ h2, ?_⟩
      intro o ho
      rcases List.mem_cons.mp ho with rfl | ho
      · rfl
      · exact h3 o ho
    | chunk bs =>
      simp only [scriptBytes, List.length_append] at hlen ⊢
      have hle : bs.length ≤ rem := by omega
      obtain ⟨h1, h2, h3⟩ := ih (rem - bs.length) hne' (by omega) n hn'
      simp only [ExactLen.poll, hle, if_true, Bool.false_eq_true, if_false]
      refine ⟨by simp [concatData, h1], List.mem_cons_of_mem _ h2, ?_⟩
      intro o ho
      rcases List.mem_cons.mp ho with rfl | ho
      · rfl
      · exact h3 o ho

end HS.Layout

namespace HS
open HS.Layout

/-- C02: a body over an honest stream for `a..b` delivers exactly entity bytes `a..b`, however
the stream is chunked (empty chunks and Pending polls included), then ends cleanly. -/
theorem exact_body_is_slice (c : Content) (a b : Nat) (hab : a ≤ b) (script : List Ev)
    (hhon : HonestScript c a b script) (n : Nat) (hn : script.length + 1 ≤ n) :
    let tr := outs (BodyS.run n (.exact { stream := script, remaining := b - a }))
    concatData tr = c.slice a b ∧ PollOut.end_ ∈ tr ∧ ∀ o ∈ tr, o.isErr = false := by
  have _ := hab
  obtain ⟨h1, h2⟩ := hhon
  have := exact_honest_run script (b - a) h1 (by rw [h2, slice_length]) n hn
  rw [h2] at this
  exact this

/-- C07: if a body over one stream ends cleanly, the stream did not fail and delivered exactly
the announced number of bytes. (Contrapositive: a short, long or failing stream never yields a
clean end.) -/
theorem exact_clean_end_honest (e : ExactLen) (hf : e.finished = false) (n : Nat)
    (hne : ∀ o ∈ outs (BodyS.run n (.exact e)), o.isErr = false)
    (hend : PollOut.end_ ∈ outs (BodyS.run n (.exact e))) :
    Ev.err ∉ e.stream ∧ (scriptBytes e.stream).length = e.remaining := by
  induction n generalizing e with
  | zero => simp [outs_run_zero] at hend
  | succ n ih =>
    rw [outs_run_succ, exact_poll] at hne hend
    have h0 := hne _ List.mem_cons_self
    have hne' := fun o ho => hne o (List.mem_cons_of_mem _ ho)
    cases ho : e.poll.2 with
    | end_ =>
      obtain ⟨hz, _, _, hs⟩ := ExactLen.poll_end (ExactLen.ok_of_not_finished hf) ho
      simp [hs hf, hz, scriptBytes]
    | data d =>
      obtain ⟨hle, hrem, ⟨rest, hs, hs'⟩, _, hf'⟩ := ExactLen.poll_data ho
      have hend' : PollOut.end_ ∈ outs (BodyS.run n (.exact e.poll.1)) := by
        rcases List.mem_cons.mp hend with h | h
        · rw [ho] at h; cases h
        · exact h
      obtain ⟨h1, h2⟩ := ih _ hf' hne' hend'
      rw [hs'] at h1 h2
      rw [hs]
      exact ⟨by simp [h1], by simp [scriptBytes]; omega⟩
    | pending =>
      obtain ⟨hrem, ⟨rest, hs, hs'⟩, _, hf'⟩ := ExactLen.poll_pending ho
      have hend' : PollOut.end_ ∈ outs (BodyS.run n (.exact e.poll.1)) := by
        rcases List.mem_cons.mp hend with h | h
        · rw [ho] at h; cases h
        · exact h
      obtain ⟨h1, h2⟩ := ih _ hf' hne' hend'
      rw [hs'] at h1 h2
      rw [hs]
      exact ⟨by simp [h1], by simp [scriptBytes]; omega⟩
    | errEntity | errShort _ | errLong _ => rw [ho] at h0; simp [PollOut.isErr] at h0
    | panic => exact absurd ho (ExactLen.poll_not_panic e).1
    | diverge => exact absurd ho (ExactLen.poll_not_panic e).2

end HS

namespace HS.Layout

/-- the specified heads for half-open ranges -/
def heads (len : Nat) (eh : Bytes) (rs : List (Nat × Nat)) : List Bytes :=
  rs.map (fun r => specPartHead len eh r.1 (r.2 - 1))

def layCost (len : Nat) (eh : Bytes) : List (Nat × Nat) → Nat
  | [] => 0
  | r :: rs => (specPartHead len eh r.1 (r.2 - 1)).length + (r.2 - r.1) + layCost len eh rs

theorem checkedAdd2 (acc x y : Nat) :
    (checkedAdd acc x).bind (fun l => checkedAdd l y) =
      if acc + x + y < U64 then some (acc + x + y) else none := by
  unfold checkedAdd
  by_cases h1 : acc + x < U64
  · simp [h1]
  · have : ¬ (acc + x + y < U64) := by omega
    simp [h1, this]

theorem prepareParts_eq (len : Nat) (eh : Bytes) (rs : List (Nat × Nat)) (acc : Nat)
    (hrs : ∀ r ∈ rs, r.1 < r.2) (hacc : acc < U64) :
    prepareParts len eh rs acc =
      .ok (if acc + layCost len eh rs < U64 then some (heads len eh rs, acc + layCost len eh rs)
           else none) := by
  induction rs generalizing acc with
  | nil =>
    simp [prepareParts, layCost, heads, hacc]
  | cons r rs ih =>
    obtain ⟨a, b⟩ := r
    have hab : a < b := hrs (a, b) List.mem_cons_self
    have hrs' : ∀ r ∈ rs, r.1 < r.2 := fun r hr => hrs r (List.mem_cons_of_mem _ hr)
    have hsub : subChk b a = .ok (b - a) := by simp [subChk]; omega
    simp only [prepareParts, partHeader_spec a b len eh (by omega), hsub, bind, R.bind, checkedAdd2]
    by_cases h1 : acc + (specPartHead len eh a (b - 1)).length + (b - a) < U64
    · simp only [h1, if_true]
      rw [ih _ hrs' h1]
      simp only [layCost]
      by_cases h2 : acc + (specPartHead len eh a (b - 1)).length + (b - a) + layCost len eh rs < U64
      · have h3 : acc + ((specPartHead len eh a (b - 1)).length + (b - a) + layCost len eh rs) < U64 := by omega
        simp [h2, h3, heads, pure]; omega
      · have h3 : ¬ acc + ((specPartHead len eh a (b - 1)).length + (b - a) + layCost len eh rs) < U64 := by omega
        simp [h2, h3, pure]
    · have h3 : ¬ acc + layCost len eh ((a, b) :: rs) < U64 := by simp only [layCost]; omega
      simp [h1, h3, pure]

end HS.Layout

namespace HS.Layout

theorem prepareMultipart_eq (len : Nat) (eh : Bytes) (rs : List (Nat × Nat))
    (hrs : ∀ r ∈ rs, r.1 < r.2) :
    prepareMultipart rs len eh =
      .ok (if layCost len eh rs + kTrailer.length < U64
           then some (heads len eh rs, layCost len eh rs + kTrailer.length) else none) := by
  simp only [prepareMultipart, bind, R.bind]
  rw [prepareParts_eq len eh rs 0 hrs (by simp [U64])]
  simp only [Nat.zero_add]
  by_cases h1 : layCost len eh rs < U64
  · simp only [h1, if_true, checkedAdd]
    by_cases h2 : layCost len eh rs + kTrailer.length < U64
    · simp [h2, pure]
    · simp [h2, pure]
  · have h2 : ¬ layCost len eh rs + kTrailer.length < U64 := by omega
    simp [h1, h2, pure]

theorem specLayout_length (c : Content) (len : Nat) (eh : Bytes) (rs : List (Nat × Nat))
    (hrs : ∀ r ∈ rs, r.1 < r.2) :
    (specLayout c len eh (rs.map toInclusive)).length = layCost len eh rs + kTrailer.length := by
  unfold specLayout
  simp only [List.length_append, kTrailer, List.length_cons, List.length_nil]
  congr 1
  induction rs with
  | nil => simp [layCost]
  | cons r rs ih =>
    have hr : r.1 < r.2 := hrs r List.mem_cons_self
    have := ih (fun r hr => hrs r (List.mem_cons_of_mem _ hr))
    simp only [specPart] at this
    simp only [List.map_cons, List.flatMap_cons, List.length_append, layCost, specPart,
      toInclusive, slice_length]
    omega

theorem partCost_heads (len : Nat) (eh : Bytes) (rs : List (Nat × Nat)) :
    partCost (heads len eh rs) rs = layCost len eh rs := by
  induction rs with
  | nil => simp [heads, partCost, layCost]
  | cons r rs ih => simp only [heads, List.map_cons, partCost, layCost] at ih ⊢; rw [ih]

end HS.Layout

namespace HS
open HS.Layout

/-- C06: what `prepare_multipart` computes — the part heads are the specified ones and the
announced length is exactly the length of the specified body layout, whatever headers the
entity adds and however many digits the numbers have. -/
theorem prepareMultipart_layout (c : Content) (rs : List (Nat × Nat)) (len : Nat) (eh : Bytes)
    (phs : List Bytes) (total : Nat) (hrs : ∀ r ∈ rs, r.1 < r.2)
    (h : prepareMultipart rs len eh = .ok (some (phs, total))) :
    phs = rs.map (fun r => specPartHead len eh r.1 (r.2 - 1)) ∧
    total = (specLayout c len eh (rs.map toInclusive)).length := by
  rw [prepareMultipart_eq len eh rs hrs] at h
  rw [specLayout_length c len eh rs hrs]
  by_cases h1 : layCost len eh rs + kTrailer.length < U64
  · simp only [h1, if_true, R.ok.injEq, Option.some.injEq, Prod.mk.injEq] at h
    exact ⟨h.1.symm, h.2.symm⟩
  · simp [h1] at h

/-- The 413 branch is taken only when the exact body length does not fit in 64 bits. -/
theorem prepareMultipart_overflow (c : Content) (rs : List (Nat × Nat)) (len : Nat) (eh : Bytes)
    (hrs : ∀ r ∈ rs, r.1 < r.2) (h : prepareMultipart rs len eh = .ok none) :
    U64 ≤ (specLayout c len eh (rs.map toInclusive)).length := by
  rw [prepareMultipart_eq len eh rs hrs] at h
  rw [specLayout_length c len eh rs hrs]
  by_cases h1 : layCost len eh rs + kTrailer.length < U64
  · simp [h1] at h
  · omega

end HS

namespace HS.Layout

/-! ### one-step equations of the multipart machine -/

theorem body_pending (m : Multipart) (rest : List Ev) (rem k : Nat)
    (hc : m.cur = some { stream := .pending :: rest, remaining := rem }) :
    Multipart.pollF (k + 1) m = ({ m with cur := some { stream := rest, remaining := rem } }, .pending) := by
  simp only [Multipart.pollF, hc, ExactLen.poll, Bool.false_eq_true, if_false]

theorem body_err (m : Multipart) (rest : List Ev) (rem k : Nat)
    (hc : m.cur = some { stream := .err :: rest, remaining := rem }) :
    Multipart.pollF (k + 1) m =
      ({ m with cur := none, remaining := 0, state := 2 * m.ranges.length + 1 }, .errEntity) := by
  simp only [Multipart.pollF, hc, ExactLen.poll, Bool.false_eq_true, if_false]

theorem body_short (m : Multipart) (rem k : Nat) (hr : rem ≠ 0)
    (hc : m.cur = some { stream := [], remaining := rem }) :
    Multipart.pollF (k + 1) m =
      ({ m with cur := none, remaining := 0, state := 2 * m.ranges.length + 1 }, .errShort rem) := by
  simp only [Multipart.pollF, hc, ExactLen.poll]
  simp [hr]

theorem body_done (m : Multipart) (k : Nat)
    (hc : m.cur = some { stream := [], remaining := 0 }) :
    Multipart.pollF (k + 1) m = Multipart.pollF k { m with cur := none, state := m.state + 1 } := by
  simp only [Multipart.pollF, hc, ExactLen.poll]
  simp

theorem body_chunk (m : Multipart) (bs : Bytes) (rest : List Ev) (rem k : Nat)
    (hle : bs.length ≤ rem) (hle2 : bs.length ≤ m.remaining)
    (hc : m.cur = some { stream := .chunk bs :: rest, remaining := rem }) :
    Multipart.pollF (k + 1) m =
      ({ m with cur := some { stream := rest, remaining := rem - bs.length },
                remaining := m.remaining - bs.length }, .data bs) := by
  simp only [Multipart.pollF, hc, ExactLen.poll, hle]
  simp [subChk, hle2]

theorem body_long (m : Multipart) (bs : Bytes) (rest : List Ev) (rem k : Nat)
    (hle : ¬ bs.length ≤ rem)
    (hc : m.cur = some { stream := .chunk bs :: rest, remaining := rem }) :
    Multipart.pollF (k + 1) m =
      ({ m with cur := none, remaining := 0, state := 2 * m.ranges.length + 1 },
        .errLong (bs.length - rem)) := by
  simp only [Multipart.pollF, hc, ExactLen.poll, hle]
  simp

theorem step_open_eq (m : Multipart) (i k : Nat) (r : Nat × Nat) (hc : m.cur = none)
    (hs : m.state = 2 * i + 1) (hi : i < m.ranges.length) (hrg : m.ranges[i]? = some r)
    (hle : r.1 ≤ r.2) :
    Multipart.pollF (k + 1) m = Multipart.pollF k
      { m with cur := some { stream := m.scripts.headD [], remaining := r.2 - r.1 },
               scripts := m.scripts.tail, calls := m.calls ++ [(r.1, r.2)] } := by
  conv => lhs; unfold Multipart.pollF
  simp only [hc, hs]
  have h1 : (2 * i + 1) / 2 = i := by omega
  have h2 : (2 * i + 1) % 2 = 1 := by omega
  have hne : ¬ (i = m.ranges.length) := by omega
  simp [h1, h2, hne, hrg, subChk, hle]

theorem step_header_eq (m : Multipart) (i k : Nat) (ph : Bytes) (hc : m.cur = none)
    (hs : m.state = 2 * i) (hi : i < m.ranges.length) (hph : m.partHeaders[i]? = some ph)
    (hle : ph.length ≤ m.remaining) :
    Multipart.pollF (k + 1) m =
      ({ m with state := m.state + 1, remaining := m.remaining - ph.length,
                partHeaders := m.partHeaders.set i [] }, .data ph) := by
  simp only [Multipart.pollF, hc, hs]
  have : (2 * i) / 2 = i := by omega
  have h2 : (2 * i) % 2 = 0 := by omega
  have hne : ¬ (i = m.ranges.length) := by omega
  simp [this, h2, hne, hph, subChk, hle]

theorem step_trailer_eq (m : Multipart) (k : Nat) (hc : m.cur = none)
    (hs : m.state = 2 * m.ranges.length) (hr : m.remaining = kTrailer.length) :
    Multipart.pollF (k + 1) m =
      ({ m with state := m.state + 1, remaining := 0 }, .data kTrailer) := by
  simp only [Multipart.pollF, hc, hs]
  have : (2 * m.ranges.length) / 2 = m.ranges.length := by omega
  have h2 : (2 * m.ranges.length) % 2 = 0 := by omega
  simp [this, h2, hr, subChk]

end HS.Layout

namespace HS.Layout

/-! ### the complete outcome sequence of a multipart body -/

/-- outcomes while streaming one part over `stream` with `rem` bytes outstanding; `K` is what
follows a clean end of the part (the poll that sees the inner end emits the head of `K`) -/
def bodyOuts : List Ev → Nat → List PollOut → List PollOut
  | [], rem, K => if rem ≠ 0 then [.errShort rem] else K
  | .pending :: rest, rem, K => .pending :: bodyOuts rest rem K
  | .err :: _, _, _ => [.errEntity]
  | .chunk bs :: rest, rem, K =>
    if bs.length ≤ rem then .data bs :: bodyOuts rest (rem - bs.length) K
    else [.errLong (bs.length - rem)]

/-- every outcome up to (excluding) the terminal one -/
def expOuts : List Bytes → List (Nat × Nat) → List (List Ev) → List PollOut
  | ph :: phs, r :: rs, scripts =>
    .data ph :: bodyOuts (scripts.headD []) (r.2 - r.1) (expOuts phs rs scripts.tail)
  | _, _, _ => [.data kTrailer]

theorem bodyOuts_ne_nil (s : List Ev) (rem : Nat) (K : List PollOut) (hK : K ≠ []) :
    bodyOuts s rem K ≠ [] := by
  induction s generalizing rem with
  | nil => simp only [bodyOuts]; split <;> simp [hK]
  | cons ev rest ih =>
    cases ev with
    | pending => simp [bodyOuts]
    | err => simp [bodyOuts]
    | chunk bs => simp only [bodyOuts]; split <;> simp

theorem expOuts_ne_nil (phs : List Bytes) (rs : List (Nat × Nat)) (scripts : List (List Ev)) :
    expOuts phs rs scripts ≠ [] := by
  unfold expOuts
  split <;> simp

structure Trk (phs : List Bytes) (rs : List (Nat × Nat)) (i : Nat) (m : Multipart) : Prop where
  ranges : m.ranges = rs
  phlen : m.partHeaders.length = rs.length
  plen : phs.length = rs.length
  hsz : ∀ r ∈ rs, r.1 ≤ r.2
  phget : ∀ j, i ≤ j → m.partHeaders[j]? = phs[j]?

structure Bnd (phs : List Bytes) (rs : List (Nat × Nat)) (scripts : List (List Ev)) (i : Nat)
    (m : Multipart) : Prop where
  trk : Trk phs rs i m
  cur : m.cur = none
  state : m.state = 2 * i
  le : i ≤ rs.length
  scripts : m.scripts = scripts.drop i
  calls : m.calls = rs.take i
  rem : m.remaining = partCost (phs.drop i) (rs.drop i) + kTrailer.length

structure Bdy (phs : List Bytes) (rs : List (Nat × Nat)) (scripts : List (List Ev)) (i : Nat)
    (c : ExactLen) (m : Multipart) : Prop where
  trk : Trk phs rs (i + 1) m
  cur : m.cur = some c
  state : m.state = 2 * i + 1
  lt : i < rs.length
  scripts : m.scripts = scripts.drop (i + 1)
  calls : m.calls = rs.take (i + 1)
  rem : m.remaining = c.remaining + (partCost (phs.drop (i + 1)) (rs.drop (i + 1)) + kTrailer.length)

/-- polling `m` `E.length` times yields exactly `E` and leaves the machine ended (and, if `E` is
error-free, having fetched exactly `rs`) -/
def Goal (rs : List (Nat × Nat)) (m : Multipart) (E : List PollOut) : Prop :=
  ∃ m', outs (BodyS.run E.length (.multi m)) = E ∧ BodyS.after E.length (.multi m) = .multi m' ∧
    MInv m' ∧ MInvAt m' .ended ∧ ((∀ o ∈ E, o.isErr = false) → m'.calls = rs)

theorem Goal.cons {rs : List (Nat × Nat)} {m m1 : Multipart} {o : PollOut} {E : List PollOut}
    (hp : m.poll = (m1, o)) (h : Goal rs m1 E) : Goal rs m (o :: E) := by
  obtain ⟨m', h1, h2, h3, h4, h5⟩ := h
  refine ⟨m', ?_, ?_, h3, h4, fun hne => h5 (fun o ho => hne o (List.mem_cons_of_mem _ ho))⟩
  · simp only [List.length_cons]
    rw [outs_run_succ, multi_poll, hp, h1]
  · simp only [List.length_cons]
    rw [after_succ, multi_poll, hp, h2]

theorem Goal.final {rs : List (Nat × Nat)} {m : Multipart} (h1 : MInv m) (h2 : MInvAt m .ended)
    (h3 : m.calls = rs) : Goal rs m [] :=
  ⟨m, by simp [outs_run_zero], rfl, h1, h2, fun _ => h3⟩

theorem Goal.pollEq {rs : List (Nat × Nat)} {m m2 : Multipart} {E : List PollOut}
    (hp : m.poll = m2.poll) (hE : E ≠ []) (h : Goal rs m2 E) : Goal rs m E := by
  obtain ⟨m', h1, h2, h3, h4, h5⟩ := h
  cases E with
  | nil => exact absurd rfl hE
  | cons o E =>
    refine ⟨m', ?_, ?_, h3, h4, h5⟩
    · simp only [List.length_cons] at h1 ⊢
      rw [outs_run_succ, multi_poll] at h1 ⊢
      rw [hp]; exact h1
    · simp only [List.length_cons] at h2 ⊢
      rw [after_succ, multi_poll] at h2 ⊢
      rw [hp]; exact h2

/-- an error outcome ends everything: one more outcome, then the ended state -/
theorem Goal.err {rs : List (Nat × Nat)} {m0 m : Multipart} {o : PollOut}
    (hp : m0.poll = ({ m with cur := none, remaining := 0, state := 2 * m.ranges.length + 1 }, o))
    (ho : o.isErr = true) (hlen : m.partHeaders.length = m.ranges.length)
    (hsz : ∀ r ∈ m.ranges, r.1 ≤ r.2) : Goal rs m0 [o] := by
  refine ⟨{ m with cur := none, remaining := 0, state := 2 * m.ranges.length + 1 }, ?_, ?_,
    ⟨hlen, hsz, .ended, rfl, rfl, rfl⟩, ⟨rfl, rfl, rfl⟩, ?_⟩
  · simp only [List.length_cons, List.length_nil]
    rw [outs_run_succ, multi_poll, hp]; simp [outs_run_zero]
  · simp only [List.length_cons, List.length_nil]
    rw [after_succ, multi_poll, hp]; rfl
  · intro h; have := h o List.mem_cons_self; rw [ho] at this; cases this

end HS.Layout

namespace HS.Layout

theorem bnd_step_last {phs : List Bytes} {rs : List (Nat × Nat)} {scripts : List (List Ev)}
    {m : Multipart} (h : Bnd phs rs scripts rs.length m) :
    ∃ mE, (∀ k, Multipart.pollF (k + 1) m = (mE, .data kTrailer)) ∧ MInv mE ∧ MInvAt mE .ended ∧
      mE.calls = rs := by
  have hrg := h.trk.ranges
  have hrem : m.remaining = kTrailer.length := by
    rw [h.rem, List.drop_length]; simp [partCost]
  refine ⟨{ m with state := m.state + 1, remaining := 0 }, ?_, ?_, ?_, ?_⟩
  · intro k
    exact step_trailer_eq m k h.cur (by rw [h.state, hrg]) hrem
  · refine ⟨by simp only [h.trk.phlen, hrg], by simp only [hrg]; exact h.trk.hsz, .ended, ?_⟩
    exact ⟨h.cur, by simp only [h.state, hrg], rfl⟩
  · exact ⟨h.cur, by simp only [h.state, hrg], rfl⟩
  · simp only [h.calls, List.take_length]

theorem bnd_step_lt {phs : List Bytes} {rs : List (Nat × Nat)} {scripts : List (List Ev)}
    {i : Nat} {m : Multipart} (h : Bnd phs rs scripts i m) (hi : i < rs.length) :
    ∃ ph r mO mB, phs[i]? = some ph ∧ rs[i]? = some r ∧
      (∀ k, Multipart.pollF (k + 1) m = (mO, .data ph)) ∧
      (∀ k, Multipart.pollF (k + 1) mO = Multipart.pollF k mB) ∧
      Bdy phs rs scripts i { stream := (scripts.drop i).headD [], remaining := r.2 - r.1 } mB := by
  have hrg := h.trk.ranges
  have hi' : i < phs.length := by rw [h.trk.plen]; exact hi
  have hph : phs[i]? = some phs[i] := by simp [hi']
  have hr : rs[i]? = some rs[i] := by simp [hi]
  have hmph : m.partHeaders[i]? = some phs[i] := by rw [h.trk.phget i (Nat.le_refl _)]; exact hph
  have hcost := partCost_drop_cons phs rs i phs[i] rs[i] hph hr
  have hle : rs[i].1 ≤ rs[i].2 := h.trk.hsz _ (List.getElem_mem hi)
  have hrem := h.rem
  rw [hcost] at hrem
  refine ⟨phs[i], rs[i],
    { m with state := m.state + 1, remaining := m.remaining - phs[i].length,
             partHeaders := m.partHeaders.set i [] },
    { m with state := m.state + 1, remaining := m.remaining - phs[i].length,
             partHeaders := m.partHeaders.set i [],
             cur := some { stream := m.scripts.headD [], remaining := rs[i].2 - rs[i].1 },
             scripts := m.scripts.tail, calls := m.calls ++ [(rs[i].1, rs[i].2)] },
    hph, hr, ?_, ?_, ?_⟩
  · intro k
    exact step_header_eq m i k phs[i] h.cur h.state (by rw [hrg]; exact hi) hmph (by omega)
  · intro k
    exact step_open_eq _ i k rs[i] h.cur (by simp only [h.state]) (by simp only [hrg]; exact hi)
      (by simp only [hrg]; exact hr) hle
  · refine ⟨⟨hrg, by simp [h.trk.phlen], h.trk.plen, h.trk.hsz, ?_⟩, by simp only [h.scripts],
      by simp only [h.state], hi, ?_, ?_, ?_⟩
    · intro j hj
      simp only
      rw [List.getElem?_set_ne (by omega)]
      exact h.trk.phget j (by omega)
    · simp only [h.scripts, List.tail_drop]
    · simp only [h.calls, List.take_add_one, hr, Option.toList]
    · simp only [hrem]; omega

theorem bnd_fuel {phs : List Bytes} {rs : List (Nat × Nat)} {scripts : List (List Ev)}
    {i : Nat} {m : Multipart} (h : Bnd phs rs scripts i m) (k j : Nat) :
    Multipart.pollF (k + 1) m = Multipart.pollF (j + 1) m := by
  by_cases hi : i < rs.length
  · obtain ⟨ph, r, mO, mB, _, _, h3, _⟩ := bnd_step_lt h hi
    rw [h3 k, h3 j]
  · have : i = rs.length := by have := h.le; omega
    subst this
    obtain ⟨mE, h1, _⟩ := bnd_step_last h
    rw [h1 k, h1 j]

end HS.Layout

namespace HS.Layout

theorem body_goal {phs : List Bytes} {rs : List (Nat × Nat)} {scripts : List (List Ev)} {i : Nat}
    (K : List PollOut) (hK : K ≠ [])
    (hnext : ∀ m3, Bnd phs rs scripts (i + 1) m3 → Goal rs m3 K)
    (stream : List Ev) (rem : Nat) (m0 m : Multipart) (k : Nat)
    (hp : m0.poll = Multipart.pollF (k + 2) m)
    (h : Bdy phs rs scripts i { stream := stream, remaining := rem } m) :
    Goal rs m0 (bodyOuts stream rem K) := by
  have hlen : m.partHeaders.length = m.ranges.length := by rw [h.trk.phlen, h.trk.ranges]
  have hsz : ∀ r ∈ m.ranges, r.1 ≤ r.2 := by rw [h.trk.ranges]; exact h.trk.hsz
  induction stream generalizing rem m0 m k with
  | nil =>
    by_cases hr : rem = 0
    · subst hr
      simp only [bodyOuts, ne_eq, not_true_eq_false, if_false]
      rw [body_done m (k + 1) h.cur] at hp
      have hb : Bnd phs rs scripts (i + 1) { m with cur := none, state := m.state + 1 } := by
        refine ⟨⟨h.trk.ranges, h.trk.phlen, h.trk.plen, h.trk.hsz, h.trk.phget⟩, rfl, ?_, h.lt,
          h.scripts, h.calls, ?_⟩
        · simp only [h.state]; omega
        · simp only [h.rem]; omega
      refine Goal.pollEq ?_ hK (hnext _ hb)
      rw [hp]; exact bnd_fuel hb k 3
    · simp only [bodyOuts, ne_eq, hr, not_false_eq_true, if_true]
      rw [body_short m rem (k + 1) hr h.cur] at hp
      exact Goal.err hp rfl hlen hsz
  | cons ev rest ih =>
    cases ev with
    | pending =>
      simp only [bodyOuts]
      rw [body_pending m rest rem (k + 1) h.cur] at hp
      refine Goal.cons hp (ih rem _ _ 2 rfl ?_ hlen hsz)
      exact ⟨⟨h.trk.ranges, h.trk.phlen, h.trk.plen, h.trk.hsz, h.trk.phget⟩, rfl, h.state, h.lt,
        h.scripts, h.calls, h.rem⟩
    | err =>
      simp only [bodyOuts]
      rw [body_err m rest rem (k + 1) h.cur] at hp
      exact Goal.err hp rfl hlen hsz
    | chunk bs =>
      by_cases hle : bs.length ≤ rem
      · simp only [bodyOuts, hle, if_true]
        have hrem := h.rem
        simp only at hrem
        rw [body_chunk m bs rest rem (k + 1) hle (by omega) h.cur] at hp
        refine Goal.cons hp (ih (rem - bs.length) _ _ 2 rfl ?_ hlen hsz)
        refine ⟨⟨h.trk.ranges, h.trk.phlen, h.trk.plen, h.trk.hsz, h.trk.phget⟩, rfl, h.state, h.lt,
          h.scripts, h.calls, ?_⟩
        simp only [hrem]; omega
      · simp only [bodyOuts, hle, if_false]
        rw [body_long m bs rest rem (k + 1) hle h.cur] at hp
        exact Goal.err hp rfl hlen hsz

theorem bnd_goal (phs : List Bytes) (rs : List (Nat × Nat)) (scripts : List (List Ev)) (d : Nat) :
    ∀ i m, i + d = rs.length → Bnd phs rs scripts i m →
      Goal rs m (expOuts (phs.drop i) (rs.drop i) (scripts.drop i)) := by
  induction d with
  | zero =>
    intro i m hi h
    have : i = rs.length := by omega
    subst this
    obtain ⟨mE, h1, h2, h3, h4⟩ := bnd_step_last h
    have : expOuts (phs.drop rs.length) (rs.drop rs.length) (scripts.drop rs.length) = [.data kTrailer] := by
      rw [List.drop_length]; unfold expOuts; split
      · rename_i heq; simp at heq
      · rfl
    rw [this]
    exact Goal.cons (h1 3) (Goal.final h2 h3 h4)
  | succ d ih =>
    intro i m hi h
    have hlt : i < rs.length := by omega
    obtain ⟨ph, r, mO, mB, hph, hr, h3, h4, h5⟩ := bnd_step_lt h hlt
    obtain ⟨hlt1, hget1⟩ := List.getElem?_eq_some_iff.mp hph
    obtain ⟨hlt2, hget2⟩ := List.getElem?_eq_some_iff.mp hr
    rw [List.drop_eq_getElem_cons hlt1, List.drop_eq_getElem_cons hlt2, hget1, hget2]
    simp only [expOuts, List.tail_drop]
    refine Goal.cons (h3 3) ?_
    exact body_goal _ (expOuts_ne_nil _ _ _) (fun m3 hm3 => ih (i + 1) m3 (by omega) hm3)
      _ _ mO mB 1 (h4 3) h5

end HS.Layout

namespace HS.Layout

/-! ### from `Goal` to statements about arbitrary run lengths -/

theorem goal_outs {rs : List (Nat × Nat)} {m : Multipart} {E : List PollOut} (h : Goal rs m E)
    (n : Nat) : outs (BodyS.run n (.multi m)) = (E ++ List.replicate n PollOut.end_).take n := by
  obtain ⟨m', h1, h2, _, h4, _⟩ := h
  by_cases hn : E.length ≤ n
  · obtain ⟨j, rfl⟩ : ∃ j, n = E.length + j := ⟨n - E.length, by omega⟩
    rw [outs_run_add, h1, h2, (run_ended m' h4 j).1, List.take_append]
    simp [List.take_replicate, List.take_of_length_le]
  · obtain ⟨j, hj⟩ : ∃ j, E.length = n + j := ⟨E.length - n, by omega⟩
    rw [hj, outs_run_add] at h1
    have hl := outs_run_length n (.multi m)
    have : (E ++ List.replicate n PollOut.end_).take n = E.take n := by
      rw [List.take_append]; simp; omega
    rw [this, ← h1]; exact (List.take_left' hl).symm

theorem goal_after {rs : List (Nat × Nat)} {m : Multipart} {E : List PollOut} (h : Goal rs m E) :
    ∃ m', (∀ n, E.length ≤ n → BodyS.after n (.multi m) = .multi m') ∧
      ((∀ o ∈ E, o.isErr = false) → m'.calls = rs) := by
  obtain ⟨m', h1, h2, _, h4, h5⟩ := h
  refine ⟨m', ?_, h5⟩
  intro n hn
  obtain ⟨j, rfl⟩ : ∃ j, n = E.length + j := ⟨n - E.length, by omega⟩
  rw [after_add, h2, (run_ended m' h4 j).2]

theorem new_bnd (phs : List Bytes) (rs : List (Nat × Nat)) (total : Nat) (scripts : List (List Ev))
    (hlen : phs.length = rs.length) (htot : total = partCost phs rs + kTrailer.length)
    (hsz : ∀ r ∈ rs, r.1 ≤ r.2) : Bnd phs rs scripts 0 (Multipart.new phs rs total scripts) := by
  refine ⟨⟨rfl, hlen, hlen, hsz, fun _ _ => rfl⟩, rfl, rfl, by omega, by simp [Multipart.new],
    by simp [Multipart.new], by simp [Multipart.new, htot]⟩

theorem new_goal (phs : List Bytes) (rs : List (Nat × Nat)) (total : Nat) (scripts : List (List Ev))
    (hlen : phs.length = rs.length) (htot : total = partCost phs rs + kTrailer.length)
    (hsz : ∀ r ∈ rs, r.1 ≤ r.2) :
    Goal rs (Multipart.new phs rs total scripts) (expOuts phs rs scripts) := by
  have := bnd_goal phs rs scripts rs.length 0 _ (by omega) (new_bnd phs rs total scripts hlen htot hsz)
  simpa using this

end HS.Layout

namespace HS.Layout

/-! ### properties of the outcome sequence -/

def NoErr (E : List PollOut) : Prop := ∀ o ∈ E, o.isErr = false

theorem NoErr.cons_iff (o : PollOut) (E : List PollOut) :
    NoErr (o :: E) ↔ o.isErr = false ∧ NoErr E := by
  simp [NoErr]

theorem bodyOuts_length (s : List Ev) (rem : Nat) (K : List PollOut) (hK : K ≠ []) :
    (bodyOuts s rem K).length ≤ s.length + K.length := by
  have hK' : 1 ≤ K.length := by
    cases K with
    | nil => exact absurd rfl hK
    | cons _ _ => simp
  induction s generalizing rem with
  | nil => simp only [bodyOuts]; split <;> simp <;> omega
  | cons ev rest ih =>
    cases ev with
    | pending => simp only [bodyOuts, List.length_cons]; have := ih rem; omega
    | err => simp only [bodyOuts, List.length_cons, List.length_nil]; omega
    | chunk bs =>
      simp only [bodyOuts]; split
      · simp only [List.length_cons]; have := ih (rem - bs.length); omega
      · simp only [List.length_cons, List.length_nil]; omega

theorem expOuts_length (phs : List Bytes) (rs : List (Nat × Nat)) (scripts : List (List Ev)) :
    (expOuts phs rs scripts).length ≤ (scripts.map List.length).sum + 2 * rs.length + 1 := by
  induction rs generalizing phs scripts with
  | nil => unfold expOuts; split <;> simp_all
  | cons r rs ih =>
    cases phs with
    | nil => simp [expOuts]
    | cons ph phs =>
      simp only [expOuts, List.length_cons]
      have h1 := bodyOuts_length (scripts.headD []) (r.2 - r.1) _ (expOuts_ne_nil phs rs scripts.tail)
      have h2 := ih phs scripts.tail
      cases scripts with
      | nil => simp at h1 h2 ⊢; omega
      | cons s ss => simp at h1 h2 ⊢; omega

theorem bodyOuts_no_end (s : List Ev) (rem : Nat) (K : List PollOut) (hK : PollOut.end_ ∉ K) :
    PollOut.end_ ∉ bodyOuts s rem K := by
  induction s generalizing rem with
  | nil => simp only [bodyOuts]; split <;> simp [hK]
  | cons ev rest ih =>
    cases ev with
    | pending => simp [bodyOuts, ih]
    | err => simp [bodyOuts]
    | chunk bs => simp only [bodyOuts]; split <;> simp [ih]

theorem expOuts_no_end (phs : List Bytes) (rs : List (Nat × Nat)) (scripts : List (List Ev)) :
    PollOut.end_ ∉ expOuts phs rs scripts := by
  induction rs generalizing phs scripts with
  | nil => unfold expOuts; split <;> simp_all
  | cons r rs ih =>
    cases phs with
    | nil => simp [expOuts]
    | cons ph phs =>
      simp only [expOuts, List.mem_cons, not_or]
      exact ⟨by simp, bodyOuts_no_end _ _ _ (ih phs scripts.tail)⟩

theorem bodyOuts_noErr (s : List Ev) (rem : Nat) (K : List PollOut) (h : NoErr (bodyOuts s rem K)) :
    Ev.err ∉ s ∧ (scriptBytes s).length = rem ∧ NoErr K := by
  induction s generalizing rem with
  | nil =>
    simp only [bodyOuts] at h
    by_cases hr : rem = 0
    · simpa [hr, scriptBytes] using h
    · simp [hr, NoErr, PollOut.isErr] at h
  | cons ev rest ih =>
    cases ev with
    | pending =>
      simp only [bodyOuts, NoErr.cons_iff] at h
      obtain ⟨h1, h2, h3⟩ := ih rem h.2
      exact ⟨by simp [h1], by simpa [scriptBytes] using h2, h3⟩
    | err => simp [bodyOuts, NoErr, PollOut.isErr] at h
    | chunk bs =>
      simp only [bodyOuts] at h
      by_cases hle : bs.length ≤ rem
      · simp only [hle, if_true, NoErr.cons_iff] at h
        obtain ⟨h1, h2, h3⟩ := ih (rem - bs.length) h.2
        exact ⟨by simp [h1], by simp [scriptBytes]; omega, h3⟩
      · simp [hle, NoErr, PollOut.isErr] at h

theorem expOuts_noErr (phs : List Bytes) (rs : List (Nat × Nat)) (scripts : List (List Ev))
    (hlen : phs.length = rs.length) (h : NoErr (expOuts phs rs scripts)) :
    ∀ i (hi : i < rs.length), Ev.err ∉ scripts.getD i [] ∧
      (scriptBytes (scripts.getD i [])).length = (rs[i]).2 - (rs[i]).1 := by
  induction rs generalizing phs scripts with
  | nil => intro i hi; simp at hi
  | cons r rs ih =>
    cases phs with
    | nil => simp at hlen
    | cons ph phs =>
      simp only [expOuts, NoErr.cons_iff] at h
      obtain ⟨h1, h2, h3⟩ := bodyOuts_noErr _ _ _ h.2
      have ih' := ih phs scripts.tail (by simpa using hlen) h3
      intro i hi
      cases i with
      | zero =>
        have h12 := And.intro h1 h2
        cases scripts <;> simpa [scriptBytes] using h12
      | succ i =>
        have := ih' i (by simpa using hi)
        cases scripts <;> simpa using this

end HS.Layout

namespace HS.Layout

theorem bodyOuts_honest (s : List Ev) (rem : Nat) (K : List PollOut) (hne : Ev.err ∉ s)
    (hlen : (scriptBytes s).length = rem) :
    concatData (bodyOuts s rem K) = scriptBytes s ++ concatData K ∧
      (NoErr K → NoErr (bodyOuts s rem K)) := by
  induction s generalizing rem with
  | nil =>
    simp [scriptBytes] at hlen; subst hlen
    simp [bodyOuts, scriptBytes]
  | cons ev rest ih =>
    have hne' : Ev.err ∉ rest := fun h => hne (List.mem_cons_of_mem _ h)
    cases ev with
    | err => exact absurd List.mem_cons_self hne
    | pending =>
      simp only [scriptBytes] at hlen
      obtain ⟨h1, h2⟩ := ih rem hne' hlen
      simp only [bodyOuts, concatData, scriptBytes, NoErr.cons_iff]
      exact ⟨h1, fun hK => ⟨rfl, h2 hK⟩⟩
    | chunk bs =>
      simp only [scriptBytes, List.length_append] at hlen
      have hle : bs.length ≤ rem := by omega
      obtain ⟨h1, h2⟩ := ih (rem - bs.length) hne' (by omega)
      simp only [bodyOuts, hle, if_true, concatData, scriptBytes, NoErr.cons_iff, h1,
        List.append_assoc]
      exact ⟨trivial, fun hK => ⟨rfl, h2 hK⟩⟩

theorem getD_tail (scripts : List (List Ev)) (i : Nat) :
    scripts.tail.getD i [] = scripts.getD (i + 1) [] := by
  cases scripts <;> simp

theorem headD_getD (scripts : List (List Ev)) : scripts.headD [] = scripts.getD 0 [] := by
  cases scripts <;> simp

theorem expOuts_honest (c : Content) (len : Nat) (eh : Bytes) (rs : List (Nat × Nat))
    (scripts : List (List Ev)) (hrs : ∀ r ∈ rs, r.1 < r.2)
    (hhon : ∀ i (hi : i < rs.length), HonestScript c (rs[i]).1 (rs[i]).2 (scripts.getD i [])) :
    concatData (expOuts (heads len eh rs) rs scripts) = specLayout c len eh (rs.map toInclusive) ∧
      NoErr (expOuts (heads len eh rs) rs scripts) := by
  induction rs generalizing scripts with
  | nil => simp [heads, expOuts, concatData, specLayout, kTrailer, NoErr, PollOut.isErr]
  | cons r rs ih =>
    have hr : r.1 < r.2 := hrs r List.mem_cons_self
    obtain ⟨ih1, ih2⟩ := ih scripts.tail (fun r hr => hrs r (List.mem_cons_of_mem _ hr))
      (fun i hi => by
        rw [getD_tail]
        exact hhon (i + 1) (by simpa using hi))
    obtain ⟨h01, h02⟩ := hhon 0 (by simp)
    rw [← headD_getD] at h01 h02
    simp only [List.getElem_cons_zero] at h02
    obtain ⟨b1, b2⟩ := bodyOuts_honest (scripts.headD []) (r.2 - r.1)
      (expOuts (heads len eh rs) rs scripts.tail) h01 (by rw [h02, slice_length])
    have e : heads len eh (r :: rs) = specPartHead len eh r.1 (r.2 - 1) :: heads len eh rs := rfl
    rw [e]
    simp only [expOuts, concatData, NoErr.cons_iff]
    refine ⟨?_, rfl, b2 ih2⟩
    rw [b1, ih1, h02]
    have h1 : r.2 - 1 + 1 = r.2 := by omega
    simp only [specLayout, List.map_cons, List.flatMap_cons, specPart, toInclusive, h1,
      List.append_assoc]

end HS.Layout

namespace HS.Layout

theorem take_pad (E : List PollOut) (n : Nat) (h : E.length ≤ n) :
    (E ++ List.replicate n PollOut.end_).take n = E ++ List.replicate (n - E.length) PollOut.end_ := by
  rw [List.take_append, List.take_of_length_le h, List.take_replicate]
  congr 2; omega

theorem take_short (E : List PollOut) (n : Nat) (h : n ≤ E.length) :
    (E ++ List.replicate n PollOut.end_).take n = E.take n := by
  rw [List.take_append]; simp; omega

theorem prep_goal (rs : List (Nat × Nat)) (len : Nat) (eh : Bytes)
    (phs : List Bytes) (total : Nat) (scripts : List (List Ev))
    (hrs : ∀ r ∈ rs, r.1 < r.2)
    (hprep : prepareMultipart rs len eh = .ok (some (phs, total))) :
    phs.length = rs.length ∧
    Goal rs (Multipart.new phs rs total scripts) (expOuts phs rs scripts) := by
  obtain ⟨h1, h2, _⟩ := prepareMultipart_spec rs len eh phs total hprep
  exact ⟨h1, new_goal phs rs total scripts h1 h2 (fun r hr => Nat.le_of_lt (hrs r hr))⟩

end HS.Layout

namespace HS
open HS.Layout

/-- C07: no livelock — a terminal event occurs within a number of polls bounded by the script
events plus two per part plus two. -/
theorem multipart_terminates (rs : List (Nat × Nat)) (len : Nat) (eh : Bytes)
    (phs : List Bytes) (total : Nat) (scripts : List (List Ev))
    (hrs : ∀ r ∈ rs, r.1 < r.2)
    (hprep : prepareMultipart rs len eh = .ok (some (phs, total)))
    (n : Nat) (hn : (scripts.map List.length).sum + 2 * rs.length + 2 ≤ n) :
    ∃ o ∈ outs (BodyS.run n (.multi (Multipart.new phs rs total scripts))), o.isTerminal = true := by
  obtain ⟨_, G⟩ := prep_goal rs len eh phs total scripts hrs hprep
  have hL := expOuts_length phs rs scripts
  rw [goal_outs G n, take_pad _ n (by omega)]
  refine ⟨.end_, ?_, rfl⟩
  apply List.mem_append_right
  exact List.mem_replicate.mpr ⟨by omega, rfl⟩

/-- C07, multipart: if the multipart body ends cleanly, every part's stream — at whatever
position — did not fail and delivered exactly its range's length. -/
theorem multipart_clean_end_honest (rs : List (Nat × Nat)) (len : Nat) (eh : Bytes)
    (phs : List Bytes) (total : Nat) (scripts : List (List Ev))
    (hrs : ∀ r ∈ rs, r.1 < r.2)
    (hprep : prepareMultipart rs len eh = .ok (some (phs, total))) (n : Nat)
    (hne : ∀ o ∈ outs (BodyS.run n (.multi (Multipart.new phs rs total scripts))), o.isErr = false)
    (hend : PollOut.end_ ∈ outs (BodyS.run n (.multi (Multipart.new phs rs total scripts)))) :
    ∀ i (hi : i < rs.length),
      Ev.err ∉ scripts.getD i [] ∧ (scriptBytes (scripts.getD i [])).length = (rs[i]).2 - (rs[i]).1 := by
  obtain ⟨hlen, G⟩ := prep_goal rs len eh phs total scripts hrs hprep
  rw [goal_outs G n] at hne hend
  have hL : (expOuts phs rs scripts).length ≤ n := by
    apply Nat.le_of_not_lt
    intro hlt
    rw [take_short _ n (by omega)] at hend
    exact expOuts_no_end phs rs scripts (List.mem_of_mem_take hend)
  rw [take_pad _ n hL] at hne
  exact expOuts_noErr phs rs scripts hlen (fun o ho => hne o (List.mem_append_left _ ho))

/-- C06: the multipart body over honest streams is, byte for byte, the specified layout of the
ranges in request order; it fetches exactly those ranges in that order; it ends cleanly. -/
theorem multipart_body_is_layout (c : Content) (len : Nat) (eh : Bytes) (rs : List (Nat × Nat))
    (phs : List Bytes) (total : Nat) (scripts : List (List Ev))
    (hrs : ∀ r ∈ rs, r.1 < r.2)
    (hprep : prepareMultipart rs len eh = .ok (some (phs, total)))
    (hlen : scripts.length = rs.length)
    (hhon : ∀ i (hi : i < rs.length), HonestScript c (rs[i]).1 (rs[i]).2 (scripts.getD i []))
    (n : Nat) (hn : (scripts.map List.length).sum + 2 * rs.length + 2 ≤ n) :
    let b0 := BodyS.multi (Multipart.new phs rs total scripts)
    let tr := outs (BodyS.run n b0)
    concatData tr = specLayout c len eh (rs.map toInclusive) ∧ PollOut.end_ ∈ tr ∧
    (∀ o ∈ tr, o.isErr = false) ∧
    (match BodyS.after n b0 with | .multi m => m.calls = rs | _ => False) := by
  have _ := hlen
  obtain ⟨_, G⟩ := prep_goal rs len eh phs total scripts hrs hprep
  have hphs := (prepareMultipart_layout c rs len eh phs total hrs hprep).1
  have hL := expOuts_length phs rs scripts
  obtain ⟨m', ha, hcalls⟩ := goal_after G
  have hE := expOuts_honest c len eh rs scripts hrs hhon
  change concatData (expOuts (heads len eh rs) rs scripts) = _ ∧ _ at hE
  rw [← show phs = heads len eh rs from hphs] at hE
  obtain ⟨hE1, hE2⟩ := hE
  simp only
  rw [goal_outs G n, take_pad _ n (by omega), ha n (by omega)]
  refine ⟨?_, ?_, ?_, hcalls hE2⟩
  · rw [concatData_append, concatData_replicate_end, hE1]; simp
  · apply List.mem_append_right
    exact List.mem_replicate.mpr ⟨by omega, rfl⟩
  · intro o ho
    rcases List.mem_append.mp ho with h | h
    · exact hE2 o h
    · rw [(List.mem_replicate.mp h).2]; rfl

end HS
