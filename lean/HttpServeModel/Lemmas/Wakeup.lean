/-
Lemmas for C10: no lost wakeup, no deadlock, completeness and bounded termination of the
producer/consumer interleaving model (`Model/Sched.lean`, `Spec/Wakeup.lean`).
-/
import HttpServeModel.Spec.Wakeup

namespace HS.WakeupLemmas

/-! ### `runFree`, `advance`, `goNext` do not touch the shared state -/

theorem runFree_sh (s : SSys) (p : List PCmd) : (runFree s p).sh = s.sh := by
  fun_induction runFree s p <;> simp_all +zetaDelta

theorem runFree_alive (s : SSys) (p : List PCmd) : (runFree s p).readerAlive = s.readerAlive := by
  fun_induction runFree s p <;> simp_all +zetaDelta

theorem runFree_bw_raw (s : SSys) (p : List PCmd) (h : s.bw = .raw) : (runFree s p).bw = .raw := by
  fun_induction runFree s p <;> simp_all +zetaDelta

theorem runFree_bw_nraw (s : SSys) (p : List PCmd) (h : s.bw ≠ .raw) :
    (runFree s p).bw ≠ .raw := by
  fun_induction runFree s p <;> simp_all +zetaDelta

theorem runFree_not_wake (s : SSys) (p : List PCmd) (w : Nat) (nx : Next) :
    (runFree s p).stage ≠ .wake w nx := by
  fun_induction runFree s p <;> simp_all +zetaDelta

theorem advance_sh (s : SSys) : (advance s).sh = s.sh := by
  unfold advance; split <;> simp [runFree_sh]

theorem advance_alive (s : SSys) : (advance s).readerAlive = s.readerAlive := by
  unfold advance; split <;> simp [runFree_alive]

theorem goNext_sh (s : SSys) (nx : Next) : (goNext s nx).sh = s.sh := by
  cases nx <;> simp [goNext, advance_sh]

theorem goNext_alive (s : SSys) (nx : Next) : (goNext s nx).readerAlive = s.readerAlive := by
  cases nx <;> simp [goNext, advance_alive]

/-! ### `Conc.step` by kind of step -/

theorem step_prod (c : Conc) : c.step .prod = { c with s := (c.s.step .prod).1 } := by
  unfold Conc.step SSys.step
  cases h : c.s.stage <;> simp

theorem step_wake_wake (c : Conc) (w : Nat) (nx : Next) (h : c.s.stage = .wake w nx) :
    c.step .wake = { c with s := goNext c.s nx, woken := c.woken || (c.parked == some w) } := by
  unfold Conc.step SSys.step
  simp [h]

theorem step_wake_other (c : Conc) (h : ∀ w nx, c.s.stage ≠ .wake w nx) : c.step .wake = c := by
  unfold Conc.step SSys.step
  cases hs : c.s.stage <;> simp
  exact absurd hs (h _ _)

theorem step_poll_dead (c : Conc) (w : Nat) (h : c.s.readerAlive = false) :
    c.step (.poll w) = c := by
  unfold Conc.step SSys.step
  simp [h]

theorem step_poll_alive (c : Conc) (w : Nat) (h : c.s.readerAlive = true) :
    c.step (.poll w) =
      match (readerPoll c.s.sh w).2 with
      | .pending => { c with s := { c.s with sh := (readerPoll c.s.sh w).1 },
                             parked := some w, woken := false }
      | .data d => { c with s := { c.s with sh := (readerPoll c.s.sh w).1 },
                            parked := none, woken := false, delivered := c.delivered ++ d }
      | r => { c with s := { c.s with sh := (readerPoll c.s.sh w).1 },
                      parked := none, woken := false,
                      terminal := if c.terminal.isSome then c.terminal else some r } := by
  unfold Conc.step SSys.step
  simp only [h, if_true]
  cases h2 : (readerPoll c.s.sh w).2 <;> simp

theorem step_drop_dead (c : Conc) (h : c.s.readerAlive = false) : c.step .dropBody = c := by
  unfold Conc.step SSys.step
  simp [h]

theorem step_drop_alive (c : Conc) (h : c.s.readerAlive = true) :
    c.step .dropBody =
      { c with s := { c.s with sh := readerDrop c.s.sh, readerAlive := false },
               parked := none, woken := false } := by
  unfold Conc.step SSys.step
  simp [h]

/-! ### The parking invariant (no lost wakeup) -/

/-- Case A: the consumer's waker is registered and the shared state is the empty open queue. -/
def Reg (s : SSys) (w : Nat) : Prop := s.sh.waker = some w ∧ ∃ rb, s.sh.state = .ok [] rb false

/-- Case B: the producer is about to call `wake()` on `w`. -/
def Waking (s : SSys) (w : Nat) : Prop := ∃ nx, s.stage = .wake w nx

def ParkInv (c : Conc) : Prop :=
  ∀ w, c.parked = some w → c.woken = false → Reg c.s w ∨ Waking c.s w

theorem afterCs_some (s : SSys) (w : Nat) (nx : Next) :
    afterCs s (some w) nx = { s with stage := .wake w nx } := rfl

theorem afterCs_none (s : SSys) (nx : Next) : afterCs s none nx = goNext s nx := rfl

theorem Reg_goNext {s : SSys} {w : Nat} (nx : Next) (h : Reg s w) : Reg (goNext s nx) w := by
  unfold Reg at *; rw [goNext_sh]; exact h

theorem flushHelper_noop {sh : Shared} {r : List Bytes} {rb : Nat} {wd : Bool} {buf : Bytes}
    (h : sh.state = .ok r rb wd) (hb : buf = []) :
    flushHelper sh buf false = (sh, buf, true, none) := by
  simp [flushHelper, h, hb]

theorem flushHelper_pub {sh : Shared} {r : List Bytes} {rb : Nat} {wd : Bool} {buf : Bytes}
    {d : Bool} (h : sh.state = .ok r rb wd) (hb : buf ≠ [] ∨ d = true) :
    flushHelper sh buf d =
      ({ state := .ok (if buf = [] then r else r ++ [buf]) (rb + buf.length) d, waker := none },
        [], true, sh.waker) := by
  by_cases hbe : buf = []
  · subst hbe
    have hd : d = true := by simpa using hb
    simp [flushHelper, h, hd]
  · simp [flushHelper, h, hbe]

theorem flushHelper_nok {sh : Shared} (h : ∀ r rb wd, sh.state ≠ .ok r rb wd) (buf : Bytes)
    (d : Bool) : flushHelper sh buf d = (sh, buf, false, none) := by
  unfold flushHelper
  split
  · rename_i r rb wd hst; exact absurd hst (h r rb wd)
  · rfl

/-- The result a `csFlush` stage returns on success. -/
def flushOut : Option Nat → POut
  | some k => .wrote k
  | none => .ok

theorem prod_csFlush {s : SSys} {n : Option Nat} (h : s.stage = .csFlush n) :
    (s.step .prod).1 =
      afterCs { s with sh := (flushHelper s.sh s.buf false).1,
                       buf := (flushHelper s.sh s.buf false).2.1 }
        (flushHelper s.sh s.buf false).2.2.2
        (if (flushHelper s.sh s.buf false).2.2.1 then .finish (flushOut n) .raw
         else .cs2 .err .dead) := by
  unfold SSys.step
  simp only [h]
  cases n <;> rfl

theorem prod_csAbort {s : SSys} (h : s.stage = .csAbort) :
    (s.step .prod).1 =
      afterCs { s with sh := (writerAbort s.sh).1 } (writerAbort s.sh).2 (.cs2 .unit .dead) := by
  unfold SSys.step
  simp only [h]

theorem prod_csDrop {s : SSys} {r : POut} {b : BW} (h : s.stage = .csDrop r b) :
    (s.step .prod).1 =
      afterCs { s with sh := (flushHelper s.sh s.buf true).1,
                       buf := (flushHelper s.sh s.buf true).2.1 }
        (flushHelper s.sh s.buf true).2.2.2 (.finish r b) := by
  unfold SSys.step
  simp only [h]

theorem prod_other {s : SSys} (h1 : ∀ n, s.stage ≠ .csFlush n) (h2 : s.stage ≠ .csAbort)
    (h3 : ∀ r b, s.stage ≠ .csDrop r b) : (s.step .prod).1 = s := by
  unfold SSys.step
  cases hs : s.stage <;> simp_all

theorem prod_park (s : SSys) (w : Nat) (h : Reg s w ∨ Waking s w) :
    Reg (s.step .prod).1 w ∨ Waking (s.step .prod).1 w := by
  cases hs : s.stage with
  | fetch => rw [prod_other] <;> simp_all
  | done => rw [prod_other] <;> simp_all
  | wake w' nx => rw [prod_other] <;> simp_all
  | csFlush n =>
    have hr : Reg s w := by
      rcases h with h | ⟨nx, h⟩
      · exact h
      · simp [hs] at h
    obtain ⟨hw, rb, hst⟩ := hr
    rw [prod_csFlush hs]
    by_cases hb : s.buf = []
    · left; rw [flushHelper_noop hst hb]
      exact Reg_goNext _ ⟨hw, rb, hst⟩
    · right; rw [flushHelper_pub hst (Or.inl hb)]
      simp [hw, afterCs_some, Waking]
  | csAbort =>
    have hr : Reg s w := by
      rcases h with h | ⟨nx, h⟩
      · exact h
      · simp [hs] at h
    obtain ⟨hw, rb, hst⟩ := hr
    right; rw [prod_csAbort hs]
    simp [writerAbort, hst, hw, afterCs_some, Waking]
  | csDrop r b =>
    have hr : Reg s w := by
      rcases h with h | ⟨nx, h⟩
      · exact h
      · simp [hs] at h
    obtain ⟨hw, rb, hst⟩ := hr
    right; rw [prod_csDrop hs, flushHelper_pub hst (Or.inr rfl)]
    simp [hw, afterCs_some, Waking]

theorem readerPoll_pending {sh : Shared} {w : Nat} (h : (readerPoll sh w).2 = .pending) :
    (readerPoll sh w).1.waker = some w ∧ ∃ rb, (readerPoll sh w).1.state = .ok [] rb false := by
  unfold readerPoll at h ⊢
  split at h
  · split at h
    · split at h <;> simp at h
    · simp at h
  · split at h
    · simp at h
    · split at h
      · rename_i hrb hwd; simp at hrb hwd; simp [hrb, hwd]
      · simp at h
  · simp at h
  · simp at h

theorem ParkInv_step (c : Conc) (st : SStep) (h : ParkInv c) : ParkInv (c.step st) := by
  cases st with
  | prod =>
    rw [step_prod]; intro w hp hw; exact prod_park _ _ (h w hp hw)
  | wake =>
    by_cases hs : ∃ w nx, c.s.stage = .wake w nx
    · obtain ⟨w', nx, hs⟩ := hs
      rw [step_wake_wake c w' nx hs]
      intro w hp hw
      simp only [Bool.or_eq_false_iff] at hw
      replace hp : c.parked = some w := hp
      rcases h w hp hw.1 with hr | ⟨nx', hB⟩
      · left; exact Reg_goNext _ hr
      · rw [hs] at hB
        have : w' = w := by injection hB
        subst this
        simp [hp] at hw
    · rw [step_wake_other]
      · exact h
      · intro w nx hh; exact hs ⟨w, nx, hh⟩
  | poll w' =>
    cases ha : c.s.readerAlive
    · rw [step_poll_dead _ _ ha]; exact h
    · rw [step_poll_alive _ _ ha]
      split
      · rename_i hpend
        intro w hp _
        have : w' = w := by simpa using hp
        subst this
        left; exact readerPoll_pending hpend
      · intro w hp; simp at hp
      · intro w hp; simp at hp
  | dropBody =>
    cases ha : c.s.readerAlive
    · rw [step_drop_dead _ ha]; exact h
    · rw [step_drop_alive _ ha]; intro w hp; simp at hp

theorem run_cons (c : Conc) (st : SStep) (rest : List SStep) :
    c.run (st :: rest) = (c.step st).run rest := rfl

theorem run_nil (c : Conc) : c.run [] = c := rfl

theorem ParkInv_run (c : Conc) (sched : List SStep) (h : ParkInv c) : ParkInv (c.run sched) := by
  induction sched generalizing c with
  | nil => exact h
  | cons st rest ih => rw [run_cons]; exact ih _ (ParkInv_step c st h)

theorem ParkInv_init (cap : Nat) (prog : List PCmd) : ParkInv (Conc.init cap prog) := by
  intro w hp; simp [Conc.init] at hp

/-! ### Producer-side invariants: stage/`bw` consistency, "writer dropped ⇒ queue closed" -/

def SOK (s : SSys) : Prop :=
  match s.stage with
  | .fetch => True
  | .csFlush _ => s.bw = .raw
  | .csAbort => s.bw = .raw
  | .csDrop _ b => s.bw = .raw ∧ b ≠ .raw
  | .wake _ (.finish _ _) => s.bw = .raw
  | .wake _ (.cs2 _ b) => s.bw = .raw ∧ b ≠ .raw
  | .done => s.prog = []

/-- The chunker `Writer` has been dropped (its `flush_helper(true)` has run). -/
def WriterDropped (s : SSys) : Prop :=
  s.bw ≠ .raw ∨ ∃ w r b, s.stage = .wake w (.finish r b) ∧ b ≠ .raw

/-- The shared state is not an open queue: `writer_dropped`, error or fused. -/
def NotOpen (sh : Shared) : Prop := ∀ r rb, sh.state ≠ .ok r rb false

/-- Stages after which the `BodyWriter` is certainly no longer `raw`. -/
def willDie : Stage → Prop
  | .csAbort => True
  | .csDrop _ _ => True
  | .wake _ (.cs2 _ _) => True
  | .wake _ (.finish _ b) => b ≠ .raw
  | _ => False

structure SInv (s : SSys) : Prop where
  ok : SOK s
  dropped : WriterDropped s → NotOpen s.sh

/-- A `drop` is still to come while the `BodyWriter` is `raw`. -/
def KInv (s : SSys) : Prop := s.bw = .raw → .drop ∈ s.prog ∨ willDie s.stage

theorem runFree_SOK (s : SSys) (p : List PCmd) : SOK (runFree s p) := by
  fun_induction runFree s p <;> simp_all +zetaDelta [SOK]

theorem runFree_K (s : SSys) (p : List PCmd) (h : s.bw = .raw) (hd : .drop ∈ p) :
    .drop ∈ (runFree s p).prog ∨ willDie (runFree s p).stage := by
  fun_induction runFree s p
  case case11 s cmd rest _ _ _ _ _ _ _ _ ih => cases cmd <;> simp_all
  all_goals simp_all +zetaDelta [willDie]

theorem goNext_finish (s : SSys) (r : POut) (b : BW) :
    goNext s (.finish r b) =
      runFree { s with results := s.results ++ [r], bw := b, stage := .fetch } s.prog := by
  simp [goNext, advance]

theorem goNext_cs2 (s : SSys) (r : POut) (b : BW) :
    goNext s (.cs2 r b) = { s with stage := .csDrop r b } := rfl

theorem SInv_goNext_raw (s : SSys) (r : POut) : SInv (goNext s (.finish r .raw)) := by
  rw [goNext_finish]
  refine ⟨runFree_SOK _ _, ?_⟩
  rintro (h | ⟨w, r', b, h, _⟩)
  · exact absurd (runFree_bw_raw _ _ rfl) h
  · exact absurd h (runFree_not_wake _ _ _ _)

theorem SInv_afterCs_raw (s : SSys) (wk : Option Nat) (r : POut) (hb : s.bw = .raw) :
    SInv (afterCs s wk (.finish r .raw)) := by
  cases wk with
  | none => exact SInv_goNext_raw s r
  | some w =>
    rw [afterCs_some]
    refine ⟨by simp [SOK, hb], ?_⟩
    rintro (h | ⟨w, r', b, h, hb'⟩)
    · exact absurd hb h
    · simp at h; exact absurd h.2.2.symm hb'

theorem SInv_afterCs_cs2 (s : SSys) (wk : Option Nat) (r : POut) (b : BW) (hb : s.bw = .raw)
    (hb' : b ≠ .raw) : SInv (afterCs s wk (.cs2 r b)) := by
  cases wk with
  | none =>
    rw [afterCs_none, goNext_cs2]
    refine ⟨by simp [SOK, hb, hb'], ?_⟩
    rintro (h | ⟨w, r', b, h, _⟩)
    · exact absurd hb h
    · simp at h
  | some w =>
    rw [afterCs_some]
    refine ⟨by simp [SOK, hb, hb'], ?_⟩
    rintro (h | ⟨w, r', b, h, _⟩)
    · exact absurd hb h
    · simp at h

theorem SInv_afterCs_drop (s : SSys) (wk : Option Nat) (r : POut) (b : BW) (hb : s.bw = .raw)
    (hn : NotOpen s.sh) : SInv (afterCs s wk (.finish r b)) := by
  cases wk with
  | none =>
    rw [afterCs_none, goNext_finish]
    refine ⟨runFree_SOK _ _, fun _ => ?_⟩
    rw [runFree_sh]; exact hn
  | some w =>
    rw [afterCs_some]
    exact ⟨by simp [SOK, hb], fun _ => hn⟩

theorem flushHelper_true_notOpen (sh : Shared) (buf : Bytes) :
    NotOpen (flushHelper sh buf true).1 := by
  intro r rb
  unfold flushHelper
  split
  · simp
  · rename_i h; intro h2; exact h _ _ _ h2

theorem readerPoll_notOpen (sh : Shared) (w : Nat) (h : NotOpen sh) :
    NotOpen (readerPoll sh w).1 := by
  intro r rb
  unfold readerPoll
  split
  · rename_i c rest rb' wd hst
    have : wd = true := by
      cases wd
      · exact absurd hst (h _ _)
      · rfl
    subst this
    split
    · split <;> simp
    · simp
  · rename_i rb' wd hst
    have : wd = true := by
      cases wd
      · exact absurd hst (h _ _)
      · rfl
    subst this
    split <;> simp
  · simp
  · rename_i hst; simp [hst]

theorem step_wake_s (s : SSys) :
    (s.step .wake).1 = match s.stage with | .wake _ nx => goNext s nx | _ => s := by
  unfold SSys.step
  cases s.stage <;> rfl

theorem step_poll_s (s : SSys) (w : Nat) :
    (s.step (.poll w)).1 =
      if s.readerAlive then { s with sh := (readerPoll s.sh w).1 } else s := by
  unfold SSys.step
  cases s.readerAlive <;> rfl

theorem step_drop_s (s : SSys) :
    (s.step .dropBody).1 =
      if s.readerAlive then { s with sh := readerDrop s.sh, readerAlive := false } else s := by
  unfold SSys.step
  cases s.readerAlive <;> rfl

theorem SInv_sh (s : SSys) (sh : Shared) (h : SInv s) (hn : NotOpen s.sh → NotOpen sh) :
    SInv { s with sh := sh } :=
  ⟨h.ok, fun hd => hn (h.dropped hd)⟩

theorem SInv_step (s : SSys) (st : SStep) (h : SInv s) : SInv (s.step st).1 := by
  cases st with
  | prod =>
    cases hs : s.stage with
    | fetch => rw [prod_other] <;> simp_all
    | done => rw [prod_other] <;> simp_all
    | wake w' nx => rw [prod_other] <;> simp_all
    | csFlush n =>
      have hb : s.bw = .raw := by have := h.ok; simpa [SOK, hs] using this
      rw [prod_csFlush hs]
      split
      · exact SInv_afterCs_raw _ _ _ hb
      · exact SInv_afterCs_cs2 _ _ _ _ hb (by decide)
    | csAbort =>
      have hb : s.bw = .raw := by have := h.ok; simpa [SOK, hs] using this
      rw [prod_csAbort hs]
      exact SInv_afterCs_cs2 _ _ _ _ hb (by decide)
    | csDrop r b =>
      have hb : s.bw = .raw ∧ b ≠ .raw := by have := h.ok; simpa [SOK, hs] using this
      rw [prod_csDrop hs]
      exact SInv_afterCs_drop _ _ _ _ hb.1 (flushHelper_true_notOpen _ _)
  | wake =>
    rw [step_wake_s]
    split
    · rename_i w nx hs
      cases nx with
      | finish r b =>
        rw [goNext_finish]
        refine ⟨runFree_SOK _ _, ?_⟩
        rintro (hd | ⟨w', r', b', hd, _⟩)
        · rw [runFree_sh]
          apply h.dropped
          right
          refine ⟨w, r, b, hs, ?_⟩
          intro hb; subst hb
          exact hd (runFree_bw_raw _ _ rfl)
        · exact absurd hd (runFree_not_wake _ _ _ _)
      | cs2 r b =>
        have hb : s.bw = .raw ∧ b ≠ .raw := by have := h.ok; simpa [SOK, hs] using this
        rw [goNext_cs2]
        refine ⟨by simp [SOK, hb], ?_⟩
        rintro (hd | ⟨w', r', b', hd, _⟩)
        · exact absurd hb.1 hd
        · simp at hd
    · exact h
  | poll w =>
    rw [step_poll_s]
    split
    · exact SInv_sh _ _ h (readerPoll_notOpen _ _)
    · exact h
  | dropBody =>
    rw [step_drop_s]
    split
    · refine ⟨h.ok, fun _ => ?_⟩
      intro r rb; simp [readerDrop]
    · exact h

theorem KInv_step (s : SSys) (st : SStep) (h : SInv s) (hk : KInv s) : KInv (s.step st).1 := by
  cases st with
  | prod =>
    cases hs : s.stage with
    | fetch => rw [prod_other] <;> simp_all
    | done => rw [prod_other] <;> simp_all
    | wake w' nx => rw [prod_other] <;> simp_all
    | csFlush n =>
      have hb : s.bw = .raw := by have := h.ok; simpa [SOK, hs] using this
      have hd : .drop ∈ s.prog := by simpa [hs, willDie] using hk hb
      rw [prod_csFlush hs]
      split
      · cases (flushHelper s.sh s.buf false).2.2.2 with
        | none =>
          rw [afterCs_none, goNext_finish]
          intro _
          exact runFree_K _ _ rfl hd
        | some w => rw [afterCs_some]; intro _; left; exact hd
      · cases (flushHelper s.sh s.buf false).2.2.2 with
        | none => rw [afterCs_none, goNext_cs2]; intro _; right; simp [willDie]
        | some w => rw [afterCs_some]; intro _; right; simp [willDie]
    | csAbort =>
      rw [prod_csAbort hs]
      cases (writerAbort s.sh).2 with
      | none => rw [afterCs_none, goNext_cs2]; intro _; right; simp [willDie]
      | some w => rw [afterCs_some]; intro _; right; simp [willDie]
    | csDrop r b =>
      have hb : s.bw = .raw ∧ b ≠ .raw := by have := h.ok; simpa [SOK, hs] using this
      rw [prod_csDrop hs]
      cases (flushHelper s.sh s.buf true).2.2.2 with
      | none =>
        rw [afterCs_none, goNext_finish]
        intro hraw
        exact absurd hraw (runFree_bw_nraw _ _ hb.2)
      | some w => rw [afterCs_some]; intro _; right; simp [willDie, hb.2]
  | wake =>
    rw [step_wake_s]
    split
    · rename_i w nx hs
      cases nx with
      | finish r b =>
        rw [goNext_finish]
        intro hraw
        by_cases hbr : b = .raw
        · subst hbr
          have hb : s.bw = .raw := by have := h.ok; simpa [SOK, hs] using this
          have hd : .drop ∈ s.prog := by simpa [hs, willDie] using hk hb
          exact runFree_K _ _ rfl hd
        · exact absurd hraw (runFree_bw_nraw _ _ hbr)
      | cs2 r b => rw [goNext_cs2]; intro _; right; simp [willDie]
    · exact hk
  | poll w =>
    rw [step_poll_s]
    split
    · exact hk
    · exact hk
  | dropBody =>
    rw [step_drop_s]
    split
    · exact hk
    · exact hk

theorem step_s (c : Conc) (st : SStep) : (c.step st).s = (c.s.step st).1 := by
  unfold Conc.step
  simp only []
  split
  · split <;> rfl
  all_goals rfl

theorem init_s (cap : Nat) (prog : List PCmd) :
    (Conc.init cap prog).s = runFree { cap := cap, prog := prog } prog := by
  simp [Conc.init, SSys.init, advance]

theorem SInv_init (cap : Nat) (prog : List PCmd) : SInv (Conc.init cap prog).s := by
  rw [init_s]
  refine ⟨runFree_SOK _ _, ?_⟩
  rintro (h | ⟨w, r', b, h, _⟩)
  · exact absurd (runFree_bw_raw _ _ rfl) h
  · exact absurd h (runFree_not_wake _ _ _ _)

theorem KInv_init (cap : Nat) (prog : List PCmd) : KInv (Conc.init cap (prog ++ [.drop])).s := by
  rw [init_s]
  intro _
  exact runFree_K _ _ rfl (by simp)

theorem SInv_run (c : Conc) (sched : List SStep) (h : SInv c.s) : SInv (c.run sched).s := by
  induction sched generalizing c with
  | nil => exact h
  | cons st rest ih =>
    rw [run_cons]; apply ih; rw [step_s]; exact SInv_step _ _ h

theorem KInv_run (c : Conc) (sched : List SStep) (h : SInv c.s) (hk : KInv c.s) :
    KInv (c.run sched).s := by
  induction sched generalizing c with
  | nil => exact hk
  | cons st rest ih =>
    rw [run_cons]; apply ih
    · rw [step_s]; exact SInv_step _ _ h
    · rw [step_s]; exact KInv_step _ _ h hk

/-- When the producer is done after a program ending in `drop`, the queue is closed. -/
theorem done_notOpen (cap : Nat) (prog : List PCmd) (sched : List SStep)
    (hd : ((Conc.init cap (prog ++ [.drop])).run sched).s.stage = .done) :
    NotOpen ((Conc.init cap (prog ++ [.drop])).run sched).s.sh := by
  have hS := SInv_run _ sched (SInv_init cap (prog ++ [.drop]))
  have hK := KInv_run _ sched (SInv_init cap (prog ++ [.drop])) (KInv_init cap prog)
  apply hS.dropped
  left
  intro hraw
  have hp : ((Conc.init cap (prog ++ [.drop])).run sched).s.prog = [] := by
    have := hS.ok; simpa [SOK, hd] using this
  have := hK hraw
  simp [hp, hd, willDie] at this

/-! ### Bounded termination once the writer is gone -/

theorem terminal_step (c : Conc) (st : SStep) (h : c.terminal.isSome = true) :
    (c.step st).terminal.isSome = true := by
  unfold Conc.step
  simp only []
  split
  · split <;> exact h
  all_goals simp_all

theorem terminal_run (c : Conc) (sched : List SStep) (h : c.terminal.isSome = true) :
    (c.run sched).terminal.isSome = true := by
  induction sched generalizing c with
  | nil => exact h
  | cons st rest ih => rw [run_cons]; exact ih _ (terminal_step c st h)

theorem afterCs_alive (s : SSys) (wk : Option Nat) (nx : Next) :
    (afterCs s wk nx).readerAlive = s.readerAlive := by
  cases wk with
  | none => rw [afterCs_none, goNext_alive]
  | some w => rfl

theorem step_alive (s : SSys) (st : SStep) (hst : st ≠ .dropBody) :
    (s.step st).1.readerAlive = s.readerAlive := by
  cases st with
  | prod =>
    cases hs : s.stage with
    | fetch => rw [prod_other] <;> simp_all
    | done => rw [prod_other] <;> simp_all
    | wake w' nx => rw [prod_other] <;> simp_all
    | csFlush n => rw [prod_csFlush hs, afterCs_alive]
    | csAbort => rw [prod_csAbort hs, afterCs_alive]
    | csDrop r b => rw [prod_csDrop hs, afterCs_alive]
  | wake =>
    rw [step_wake_s]
    split
    · rw [goNext_alive]
    · rfl
  | poll w =>
    rw [step_poll_s]
    split <;> rfl
  | dropBody => exact absurd rfl hst

theorem alive_run (c : Conc) (sched : List SStep) (hnd : SStep.dropBody ∉ sched)
    (h : c.s.readerAlive = true) : (c.run sched).s.readerAlive = true := by
  induction sched generalizing c with
  | nil => exact h
  | cons st rest ih =>
    rw [run_cons]
    simp only [List.mem_cons, not_or] at hnd
    apply ih _ hnd.2
    rw [step_s, step_alive _ _ (Ne.symm hnd.1)]; exact h

theorem alive_init (cap : Nat) (prog : List PCmd) : (Conc.init cap prog).s.readerAlive = true := by
  rw [init_s, runFree_alive]

theorem poll_drain (ws : List Nat) (c : Conc) (ha : c.s.readerAlive = true)
    (h : match c.s.sh.state with
         | .ok ready _ wd => wd = true ∧ ready.length < ws.length
         | _ => 0 < ws.length) :
    (c.run (ws.map SStep.poll)).terminal.isSome = true := by
  induction ws generalizing c with
  | nil =>
    exfalso
    cases hst : c.s.sh.state <;> simp [hst] at h
  | cons w ws ih =>
    rw [List.map_cons, run_cons, step_poll_alive _ _ ha]
    cases hst : c.s.sh.state with
    | err =>
      have hrp : readerPoll c.s.sh w = ({ c.s.sh with state := .fused }, .err) := by
        simp [readerPoll, hst]
      rw [hrp]
      apply terminal_run
      simp; split <;> simp_all
    | fused =>
      have hrp : readerPoll c.s.sh w = (c.s.sh, .end_) := by
        simp [readerPoll, hst]
      rw [hrp]
      apply terminal_run
      simp; split <;> simp_all
    | ok ready rb wd =>
      simp only [hst] at h
      obtain ⟨hwd, hlen⟩ := h
      subst hwd
      cases ready with
      | nil =>
        by_cases hrb : rb = 0
        · have hrp : readerPoll c.s.sh w = ({ c.s.sh with state := .fused }, .end_) := by
            simp [readerPoll, hst, hrb]
          rw [hrp]
          apply terminal_run
          simp; split <;> simp_all
        · have hrp : readerPoll c.s.sh w = ({ c.s.sh with state := .fused }, .panic) := by
            simp [readerPoll, hst, hrb]
          rw [hrp]
          apply terminal_run
          simp; split <;> simp_all
      | cons ch rest =>
        by_cases hle : ch.length ≤ rb
        · cases rest with
          | nil =>
            have hrp : readerPoll c.s.sh w = ({ c.s.sh with state := .fused }, .data ch) := by
              simp [readerPoll, hst, hle]
            rw [hrp]
            apply ih
            · exact ha
            · simp at hlen ⊢; exact hlen
          | cons ch2 rest =>
            have hrp : readerPoll c.s.sh w =
                ({ c.s.sh with state := .ok (ch2 :: rest) (rb - ch.length) true }, .data ch) := by
              simp [readerPoll, hst, hle]
            rw [hrp]
            apply ih
            · exact ha
            · simp at hlen ⊢; omega
        · have hrp : readerPoll c.s.sh w = ({ c.s.sh with state := .fused }, .panic) := by
            simp [readerPoll, hst, hle]
          rw [hrp]
          apply terminal_run
          simp; split <;> simp_all

/-! ### Completeness under every interleaving: the pipe invariant -/

theorem acc_nil_right (p : List PCmd) : acceptedBytes p [] = [] := by
  cases p <;> simp [acceptedBytes]

theorem acc_nil_left (r : List POut) : acceptedBytes [] r = [] := by
  cases r <;> simp [acceptedBytes]

theorem acc_append (pre : List PCmd) (R : List POut) (x : List PCmd) (y : List POut)
    (h : pre.length = R.length) :
    acceptedBytes (pre ++ x) (R ++ y) = acceptedBytes pre R ++ acceptedBytes x y := by
  induction pre generalizing R with
  | nil =>
    cases R with
    | nil => simp [acceptedBytes]
    | cons o R => simp at h
  | cons cmd pre ih =>
    cases R with
    | nil => simp at h
    | cons o R =>
      have h' : pre.length = R.length := by simpa using h
      cases cmd <;> cases o <;> simp [acceptedBytes, ih R h']

def NonWrote (E : List POut) : Prop := ∀ r ∈ E, ∀ n, r ≠ .wrote n

theorem acc_nonwrote (p : List PCmd) (E : List POut) (h : NonWrote E) : acceptedBytes p E = [] := by
  induction p generalizing E with
  | nil => exact acc_nil_left E
  | cons cmd p ih =>
    cases E with
    | nil => exact acc_nil_right _
    | cons o E =>
      have h' : NonWrote E := fun r hr => h r (List.mem_cons_of_mem _ hr)
      have ho : ∀ n, o ≠ .wrote n := h o (List.mem_cons_self ..)
      cases cmd <;> cases o <;> simp_all [acceptedBytes]

theorem acc_extra (P : List PCmd) (R E : List POut) (h : NonWrote E) :
    acceptedBytes P (R ++ E) = acceptedBytes P R := by
  induction P generalizing R with
  | nil => simp [acc_nil_left]
  | cons cmd P ih =>
    cases R with
    | nil => simp [acc_nonwrote _ _ h, acc_nil_right]
    | cons o R => cases cmd <;> cases o <;> simp [acceptedBytes, ih R]

theorem runFree_raw_write (s : SSys) (bs : Bytes) (rest : List PCmd) (h : s.bw = .raw) :
    runFree s (.write bs :: rest) =
      if s.cap - s.buf.length ≤ bs.length then
        { s with buf := s.buf ++ bs.take (s.cap - s.buf.length),
                 stage := .csFlush (some (s.cap - s.buf.length)), prog := rest }
      else runFree { s with buf := s.buf ++ bs, results := s.results ++ [.wrote bs.length] } rest := by
  rw [runFree.eq_def]
  simp only [h]
  by_cases hf : s.cap - s.buf.length ≤ bs.length
  · simp [hf]
  · simp [hf]

theorem runFree_raw_flush (s : SSys) (rest : List PCmd) (h : s.bw = .raw) :
    runFree s (.flush :: rest) = { s with stage := .csFlush none, prog := rest } := by
  rw [runFree.eq_def]; simp only [h]

theorem runFree_raw_drop (s : SSys) (rest : List PCmd) (h : s.bw = .raw) :
    runFree s (.drop :: rest) = { s with stage := .csDrop .unit .gone, prog := rest } := by
  rw [runFree.eq_def]; simp only [h]

theorem runFree_gone_cons (s : SSys) (cmd : PCmd) (rest : List PCmd) (h : s.bw = .gone) :
    runFree s (cmd :: rest) = runFree { s with results := s.results ++ [.unit] } rest := by
  rw [runFree.eq_def]
  cases cmd <;> simp [h]

def pend : Stage → List POut
  | .csFlush n => [flushOut n]
  | .csDrop r _ => [r]
  | .wake _ (.finish r _) => [r]
  | _ => []

def stageW : Stage → Prop
  | .csFlush _ => True
  | .csDrop r b => r = .unit ∧ b = .gone
  | .wake _ (.finish _ b) => b = .raw
  | .done => True
  | _ => False

/-- Producer half of the writer-alive phase; `X` is what the consumer side holds
(delivered bytes followed by the queued chunks). -/
def ProdW (P : List PCmd) (X : Bytes) (s : SSys) : Prop :=
  s.bw = .raw ∧ .abort ∉ s.prog ∧ stageW s.stage ∧
    ∃ pre, P = pre ++ s.prog ∧ pre.length = (s.results ++ pend s.stage).length ∧
      X ++ s.buf = acceptedBytes pre (s.results ++ pend s.stage)

theorem acc_one (cmd : PCmd) (o : POut) :
    acceptedBytes [cmd] [o] = match cmd, o with | .write bs, .wrote n => bs.take n | _, _ => [] := by
  cases cmd <;> cases o <;> simp [acceptedBytes]

theorem runFree_core (P : List PCmd) (X : Bytes) (p : List PCmd) (s : SSys) (pre : List PCmd)
    (hb : s.bw = .raw) (hna : .abort ∉ p) (hP : P = pre ++ p) (hl : pre.length = s.results.length)
    (hX : X ++ s.buf = acceptedBytes pre s.results) : ProdW P X (runFree s p) := by
  induction p generalizing s pre with
  | nil =>
    refine ⟨hb, by simp [runFree], by simp [runFree, stageW], pre, by simpa [runFree] using hP, ?_, ?_⟩
    · simpa [runFree, pend] using hl
    · simpa [runFree, pend] using hX
  | cons cmd rest ih =>
    have hna' : .abort ∉ rest := fun h => hna (List.mem_cons_of_mem _ h)
    have hP' : P = (pre ++ [cmd]) ++ rest := by simp [hP]
    cases cmd with
    | abort => simp at hna
    | write bs =>
      rw [runFree_raw_write _ _ _ hb]
      split
      · refine ⟨hb, hna', by simp [stageW], pre ++ [.write bs], hP', ?_, ?_⟩
        · simp [pend, hl]
        · simp only [pend, flushOut]
          rw [acc_append _ _ _ _ hl, ← hX, acc_one]
          simp
      · refine ih _ (pre ++ [.write bs]) hb hna' hP' ?_ ?_
        · simp [hl]
        · simp only []
          rw [acc_append _ _ _ _ hl, ← hX, acc_one]
          simp
    | flush =>
      rw [runFree_raw_flush _ _ hb]
      refine ⟨hb, hna', by simp [stageW], pre ++ [.flush], hP', ?_, ?_⟩
      · simp [pend, hl]
      · simp only [pend, flushOut]
        rw [acc_append _ _ _ _ hl, ← hX, acc_one]
        simp
    | drop =>
      rw [runFree_raw_drop _ _ hb]
      refine ⟨hb, hna', by simp [stageW], pre ++ [.drop], hP', ?_, ?_⟩
      · simp [pend, hl]
      · simp only [pend]
        rw [acc_append _ _ _ _ hl, ← hX, acc_one]
        simp

theorem runFree_gone (p : List PCmd) (s : SSys) (hb : s.bw = .gone) :
    (runFree s p).bw = .gone ∧ (runFree s p).stage = .done ∧
      ∃ E, (runFree s p).results = s.results ++ E ∧ NonWrote E := by
  induction p generalizing s with
  | nil => exact ⟨hb, rfl, [], by simp [runFree], by intro r hr; simp at hr⟩
  | cons cmd rest ih =>
    rw [runFree_gone_cons _ _ _ hb]
    obtain ⟨h1, h2, E, h3, h4⟩ := ih { s with results := s.results ++ [.unit] } hb
    refine ⟨h1, h2, .unit :: E, by simp [h3], ?_⟩
    intro r hr n
    rcases List.mem_cons.mp hr with h | h
    · subst h; simp
    · exact h4 r h n

theorem acc_conv (P pre prog : List PCmd) (R : List POut) (o : POut) (hP : P = pre ++ prog)
    (hl : pre.length = (R ++ [o]).length) (ho : ∀ n, o ≠ .wrote n) :
    acceptedBytes pre (R ++ [o]) = acceptedBytes P R := by
  have h1 : acceptedBytes P (R ++ [o]) = acceptedBytes P R := by
    apply acc_extra
    intro r hr n
    have : r = o := by simpa using hr
    subst this; exact ho n
  have h2 := acc_append pre (R ++ [o]) prog [] hl
  rw [List.append_nil, ← hP, acc_nil_right, List.append_nil] at h2
  rw [← h2, h1]

theorem flatten_pub (ready : List Bytes) (buf : Bytes) :
    (if buf = [] then ready else ready ++ [buf]).flatten = ready.flatten ++ buf := by
  split
  · rename_i h; simp [h]
  · simp

/-- Writer-alive phase. -/
def PhW (P : List PCmd) (c : Conc) : Prop :=
  c.terminal = none ∧ ∃ ready, c.s.sh.state = .ok ready ready.flatten.length false ∧
    ProdW P (c.delivered ++ ready.flatten) c.s

def prodD (s : SSys) : Prop :=
  (s.bw = .gone ∧ s.stage = .done) ∨ (s.bw = .raw ∧ ∃ w, s.stage = .wake w (.finish .unit .gone))

/-- Writer-dropped phase. -/
def PhD (P : List PCmd) (c : Conc) : Prop :=
  prodD c.s ∧
    ((∃ ready, c.s.sh.state = .ok ready ready.flatten.length true ∧ c.terminal = none ∧
        c.delivered ++ ready.flatten = acceptedBytes P c.s.results) ∨
     (c.s.sh.state = .fused ∧ (c.terminal = none ∨ c.terminal = some .end_) ∧
        c.delivered = acceptedBytes P c.s.results))

def PipeInv (P : List PCmd) (c : Conc) : Prop :=
  c.s.readerAlive = true ∧ (PhW P c ∨ PhD P c)

theorem PhW_prod (P : List PCmd) (c : Conc) (h : PhW P c) :
    PhW P (c.step .prod) ∨ PhD P (c.step .prod) := by
  rw [step_prod]
  have h0 := h
  obtain ⟨ht, ready, hst, hb, hna, hsw, pre, hP, hl, hX⟩ := h
  cases hs : c.s.stage with
  | fetch => simp [stageW, hs] at hsw
  | csAbort => simp [stageW, hs] at hsw
  | done =>
    left; rw [prod_other]
    · exact h0
    all_goals simp [hs]
  | wake w' nx =>
    left; rw [prod_other]
    · exact h0
    all_goals simp [hs]
  | csFlush n =>
    left
    simp only [hs, pend] at hl hX
    rw [prod_csFlush hs]
    by_cases hbuf : c.s.buf = []
    · rw [flushHelper_noop hst hbuf]
      simp only [↓reduceIte, afterCs_none, goNext_finish]
      refine ⟨ht, ready, ?_, ?_⟩
      · simp only [runFree_sh]; exact hst
      · exact runFree_core P _ _ _ pre rfl hna hP hl hX
    · rw [flushHelper_pub hst (Or.inl hbuf)]
      simp only [↓reduceIte, hbuf]
      have hX' : (c.delivered ++ (ready ++ [c.s.buf]).flatten) ++ [] =
          acceptedBytes pre (c.s.results ++ [flushOut n]) := by
        rw [← hX]; simp
      cases hwk : c.s.sh.waker with
      | none =>
        simp only [afterCs_none, goNext_finish]
        refine ⟨ht, ready ++ [c.s.buf], ?_, ?_⟩
        · simp only [runFree_sh]; simp
        · exact runFree_core P _ _ _ pre rfl hna hP hl hX'
      | some w =>
        simp only [afterCs_some]
        refine ⟨ht, ready ++ [c.s.buf], by simp, hb, hna, by simp [stageW], pre, hP, ?_, ?_⟩
        · simpa [pend] using hl
        · simpa [pend] using hX'
  | csDrop r b =>
    right
    obtain ⟨hr, hbg⟩ : r = .unit ∧ b = .gone := by simpa [stageW, hs] using hsw
    subst hr hbg
    simp only [hs, pend] at hl hX
    have hA : c.delivered ++ (ready.flatten ++ c.s.buf) = acceptedBytes P c.s.results := by
      rw [← acc_conv P pre c.s.prog c.s.results .unit hP hl (by simp), ← hX]; simp
    rw [prod_csDrop hs, flushHelper_pub hst (Or.inr rfl)]
    cases hwk : c.s.sh.waker with
    | none =>
      simp only [afterCs_none, goNext_finish]
      obtain ⟨h1, h2, E, h3, h4⟩ := runFree_gone c.s.prog
        { sh := { state := .ok (if c.s.buf = [] then ready else ready ++ [c.s.buf])
                    (ready.flatten.length + c.s.buf.length) true, waker := none },
          buf := [], cap := c.s.cap, bw := .gone, prog := c.s.prog, stage := .fetch,
          results := c.s.results ++ [.unit], readerAlive := c.s.readerAlive } rfl
      refine ⟨Or.inl ⟨h1, h2⟩, Or.inl ⟨(if c.s.buf = [] then ready else ready ++ [c.s.buf]), ?_, ht, ?_⟩⟩
      · simp only [runFree_sh]; simp [flatten_pub]
      · simp only [h3, flatten_pub]
        rw [acc_extra _ _ _ h4, acc_extra _ _ [.unit] (by intro r hr n; simp at hr; simp [hr])]
        exact hA
    | some w =>
      simp only [afterCs_some]
      refine ⟨Or.inr ⟨hb, w, rfl⟩, Or.inl ⟨(if c.s.buf = [] then ready else ready ++ [c.s.buf]), ?_, ht, ?_⟩⟩
      · simp [flatten_pub]
      · simp only [flatten_pub]; exact hA

theorem PhW_wake (P : List PCmd) (c : Conc) (h : PhW P c) : PhW P (c.step .wake) := by
  by_cases hs : ∃ w nx, c.s.stage = .wake w nx
  · obtain ⟨w, nx, hs⟩ := hs
    rw [step_wake_wake c w nx hs]
    obtain ⟨ht, ready, hst, hb, hna, hsw, pre, hP, hl, hX⟩ := h
    cases nx with
    | cs2 r b => simp [stageW, hs] at hsw
    | finish r b =>
      have hbr : b = .raw := by simpa [stageW, hs] using hsw
      subst hbr
      simp only [hs, pend] at hl hX
      simp only [goNext_finish]
      refine ⟨ht, ready, ?_, ?_⟩
      · simp only [runFree_sh]; exact hst
      · exact runFree_core P _ _ _ pre rfl hna hP hl hX
  · rw [step_wake_other]
    · exact h
    · intro w nx hh; exact hs ⟨w, nx, hh⟩

theorem PhW_poll (P : List PCmd) (c : Conc) (w : Nat) (ha : c.s.readerAlive = true)
    (h : PhW P c) : PhW P (c.step (.poll w)) := by
  rw [step_poll_alive _ _ ha]
  obtain ⟨ht, ready, hst, hprod⟩ := h
  cases ready with
  | nil =>
    have hrp : readerPoll c.s.sh w = ({ state := .ok [] 0 false, waker := some w }, .pending) := by
      simp [readerPoll, hst]
    rw [hrp]
    exact ⟨ht, [], rfl, hprod⟩
  | cons ch rest =>
    have hrp : readerPoll c.s.sh w =
        ({ c.s.sh with state := .ok rest ((ch :: rest).flatten.length - ch.length) false },
          .data ch) := by
      simp [readerPoll, hst]
    rw [hrp]
    refine ⟨ht, rest, by simp, ?_⟩
    have hx : c.delivered ++ (ch :: rest).flatten = (c.delivered ++ ch) ++ rest.flatten := by simp
    rw [hx] at hprod
    exact hprod

theorem PhD_prod (P : List PCmd) (c : Conc) (h : PhD P c) : PhD P (c.step .prod) := by
  rw [step_prod, prod_other]
  · exact h
  all_goals
    rcases h.1 with ⟨_, hs⟩ | ⟨_, w, hs⟩ <;> simp [hs]

theorem PhD_wake (P : List PCmd) (c : Conc) (h : PhD P c) : PhD P (c.step .wake) := by
  rcases h.1 with ⟨_, hs⟩ | ⟨_, w, hs⟩
  · rw [step_wake_other]
    · exact h
    · simp [hs]
  · rw [step_wake_wake c w _ hs]
    simp only [goNext_finish]
    obtain ⟨h1, h2, E, h3, h4⟩ := runFree_gone c.s.prog
      { c.s with results := c.s.results ++ [.unit], bw := .gone, stage := .fetch } rfl
    have hA : acceptedBytes P (c.s.results ++ [POut.unit] ++ E) = acceptedBytes P c.s.results := by
      rw [acc_extra _ _ _ h4, acc_extra _ _ [.unit] (by intro r hr n; simp at hr; simp [hr])]
    refine ⟨Or.inl ⟨h1, h2⟩, ?_⟩
    simp only [runFree_sh, h3, hA]
    exact h.2

theorem PhD_poll (P : List PCmd) (c : Conc) (w : Nat) (ha : c.s.readerAlive = true)
    (h : PhD P c) : PhD P (c.step (.poll w)) := by
  rw [step_poll_alive _ _ ha]
  obtain ⟨hp, h⟩ := h
  rcases h with ⟨ready, hst, ht, hd⟩ | ⟨hst, ht, hd⟩
  · cases ready with
    | nil =>
      have hrp : readerPoll c.s.sh w = ({ c.s.sh with state := .fused }, .end_) := by
        simp [readerPoll, hst]
      rw [hrp]
      refine ⟨hp, Or.inr ⟨rfl, Or.inr (by simp [ht]), ?_⟩⟩
      simpa using hd
    | cons ch rest =>
      cases rest with
      | nil =>
        have hrp : readerPoll c.s.sh w = ({ c.s.sh with state := .fused }, .data ch) := by
          simp [readerPoll, hst]
        rw [hrp]
        refine ⟨hp, Or.inr ⟨rfl, Or.inl ht, ?_⟩⟩
        simpa using hd
      | cons ch2 rest =>
        have hrp : readerPoll c.s.sh w =
            ({ state := .ok (ch2 :: rest) ((ch :: ch2 :: rest).flatten.length - ch.length) true,
               waker := c.s.sh.waker }, .data ch) := by
          simp [readerPoll, hst]
        rw [hrp]
        refine ⟨hp, Or.inl ⟨ch2 :: rest, by simp, ht, ?_⟩⟩
        simpa using hd
  · have hrp : readerPoll c.s.sh w = (c.s.sh, .end_) := by
      simp [readerPoll, hst]
    rw [hrp]
    refine ⟨hp, Or.inr ⟨hst, Or.inr ?_, hd⟩⟩
    rcases ht with ht | ht <;> simp [ht]

theorem PipeInv_step (P : List PCmd) (c : Conc) (st : SStep) (hst : st ≠ .dropBody)
    (h : PipeInv P c) : PipeInv P (c.step st) := by
  obtain ⟨ha, h⟩ := h
  refine ⟨by rw [step_s, step_alive _ _ hst]; exact ha, ?_⟩
  cases st with
  | prod =>
    rcases h with h | h
    · exact PhW_prod P c h
    · exact Or.inr (PhD_prod P c h)
  | wake =>
    rcases h with h | h
    · exact Or.inl (PhW_wake P c h)
    · exact Or.inr (PhD_wake P c h)
  | poll w =>
    rcases h with h | h
    · exact Or.inl (PhW_poll P c w ha h)
    · exact Or.inr (PhD_poll P c w ha h)
  | dropBody => exact absurd rfl hst

theorem PipeInv_run (P : List PCmd) (c : Conc) (sched : List SStep)
    (hnd : SStep.dropBody ∉ sched) (h : PipeInv P c) : PipeInv P (c.run sched) := by
  induction sched generalizing c with
  | nil => exact h
  | cons st rest ih =>
    rw [run_cons]
    simp only [List.mem_cons, not_or] at hnd
    exact ih _ hnd.2 (PipeInv_step P c st (Ne.symm hnd.1) h)

theorem PipeInv_init (cap : Nat) (P : List PCmd) (hna : .abort ∉ P) :
    PipeInv P (Conc.init cap P) := by
  refine ⟨alive_init cap P, Or.inl ⟨rfl, [], ?_, ?_⟩⟩
  · rw [init_s, runFree_sh]; rfl
  · rw [init_s]
    exact runFree_core P _ P _ [] rfl hna rfl rfl (by simp [Conc.init, acc_nil_left])

/-! ### The `same_waker_twice` scenario -/

theorem init_big (cap : Nat) (hc : 1 < cap) :
    Conc.init cap [.write [1], .drop] =
      { s := { cap := cap, prog := [], buf := [1], results := [.wrote 1],
               stage := .csDrop .unit .gone } } := by
  have h : ¬ cap ≤ 1 := by omega
  simp [Conc.init, SSys.init, advance, runFree, h]

theorem init_one :
    Conc.init 1 [.write [1], .drop] =
      { s := { cap := 1, prog := [.drop], buf := [1], results := [],
               stage := .csFlush (some 1) } } := by
  simp [Conc.init, SSys.init, advance, runFree]

end HS.WakeupLemmas

namespace HS
open WakeupLemmas

/-- No lost wakeup: whenever the consumer is parked on waker `w` and has not been woken, either
its waker is the one registered in the shared state and there is nothing for it to see yet, or
the producer holds exactly that waker and is about to call `wake()` on it. -/
theorem no_lost_wakeup (cap : Nat) (hc : 0 < cap) (prog : List PCmd) (sched : List SStep) (w : Nat) :
    let c := (Conc.init cap prog).run sched
    c.parked = some w → c.woken = false →
      (c.s.sh.waker = some w ∧ ¬ deliverable c.s.sh) ∨ (∃ nx, c.s.stage = .wake w nx) := by
  intro c hp hw
  have _ := hc
  rcases ParkInv_run _ sched (ParkInv_init cap prog) w hp hw with ⟨h1, rb, h2⟩ | h
  · left; refine ⟨h1, ?_⟩
    have h2' : c.s.sh.state = .ok [] rb false := h2
    simp [deliverable, h2']
  · right; exact h

/-- After every step that makes something deliverable while the consumer is parked, a wake is on
its way: if the consumer is parked un-woken and something is deliverable, the producer is at the
`wake()` block point for that very waker. -/
theorem wake_after_publish (cap : Nat) (hc : 0 < cap) (prog : List PCmd) (sched : List SStep) (w : Nat) :
    let c := (Conc.init cap prog).run sched
    c.parked = some w → c.woken = false → deliverable c.s.sh → ∃ nx, c.s.stage = .wake w nx := by
  intro c hp hw hd
  rcases no_lost_wakeup cap hc prog sched w hp hw with ⟨_, h⟩ | h
  · exact absurd hd h
  · exact h

/-- The consumer never sleeps forever: when the producer has finished a program that ends with
`drop` (after which nothing will ever call `wake()` again), a parked consumer has been woken. -/
theorem no_deadlock (cap : Nat) (hc : 0 < cap) (prog : List PCmd) (sched : List SStep) (w : Nat) :
    let c := (Conc.init cap (prog ++ [.drop])).run sched
    c.s.stage = .done → c.parked = some w → c.woken = true := by
  intro c hd hp
  have _ := hc
  cases hw : c.woken with
  | true => rfl
  | false =>
    exfalso
    have hn : NotOpen c.s.sh := done_notOpen cap prog sched hd
    rcases ParkInv_run _ sched (ParkInv_init cap (prog ++ [.drop])) w hp hw with
      ⟨_, rb, h2⟩ | ⟨nx, h⟩
    · exact hn _ _ h2
    · have h' : c.s.stage = .wake w nx := h
      rw [hd] at h'; cases h'

/-- Bounded termination: once the producer is done after `drop`, each poll either returns a
queued chunk or the terminal event; after `k` polls with `k` larger than the number of queued
chunks the consumer has observed the end or the error. -/
theorem bounded_after_writer_gone (cap : Nat) (hc : 0 < cap) (prog : List PCmd) (sched : List SStep)
    (hnd : SStep.dropBody ∉ sched) (ws : List Nat) :
    let c := (Conc.init cap (prog ++ [.drop])).run sched
    c.s.stage = .done →
    (match c.s.sh.state with | .ok ready _ _ => ready.length < ws.length | _ => 0 < ws.length) →
    (c.run (ws.map SStep.poll)).terminal.isSome = true := by
  intro c hd h
  have _ := hc
  have hn : NotOpen c.s.sh := done_notOpen cap prog sched hd
  have ha : c.s.readerAlive = true := alive_run _ sched hnd (alive_init _ _)
  apply poll_drain ws c ha
  cases hst : c.s.sh.state with
  | err => simpa [hst] using h
  | fused => simpa [hst] using h
  | ok ready rb wd =>
    simp only [hst] at h ⊢
    refine ⟨?_, h⟩
    cases wd
    · exact absurd hst (hn _ _)
    · rfl

/-- Completeness under every interleaving: if the consumer observed a clean end, it received
exactly the bytes `write` accepted (no abort in the program). -/
theorem interleaved_complete (cap : Nat) (hc : 0 < cap) (prog : List PCmd) (hna : PCmd.abort ∉ prog)
    (sched : List SStep) (hnd : SStep.dropBody ∉ sched) :
    let c := (Conc.init cap prog).run sched
    c.terminal = some .end_ → c.delivered = acceptedBytes prog c.s.results := by
  intro c ht
  have _ := hc
  obtain ⟨_, h | h⟩ := PipeInv_run prog _ sched hnd (PipeInv_init cap prog hna)
  · have : c.terminal = none := h.1
    rw [ht] at this; cases this
  · rcases h.2 with ⟨ready, _, ht', _⟩ | ⟨_, _, hd⟩
    · have : c.terminal = none := ht'
      rw [ht] at this; cases this
    · exact hd

/-! `same_waker_twice` as stated (for every `cap > 0`, schedule
`[poll w, poll w, prod, wake, poll w, poll w]`) is FALSE for `cap = 1`: there the one-byte
write fills the chunk, so the schedule's single `prod` is the auto-flush inside `write`, not
the `drop`; the consumer gets `[1]` and is parked again with no terminal event yet
(`same_waker_twice_cap_one`, `same_waker_twice_fails_cap_one`).  It holds for every
`cap > 1` (`same_waker_twice_of_one_lt`), and for every `cap > 0` once the schedule grants the
producer a second `prod`/`wake` pair (`same_waker_twice_all`). -/

/-- The 0.4.0-rc.2 regression, stated schedule, `cap > 1`: two consecutive Pending polls with
the same waker leave the body usable (not fused): data written afterwards is still delivered. -/
theorem same_waker_twice_of_one_lt (cap : Nat) (hc : 1 < cap) (w : Nat) :
    let c := (Conc.init cap [.write [1], .drop]).run [.poll w, .poll w, .prod, .wake, .poll w, .poll w]
    c.delivered = [1] ∧ c.terminal = some .end_ := by
  rw [init_big cap hc]
  simp [Conc.run, Conc.step, SSys.step, readerPoll, flushHelper, afterCs, goNext, advance, runFree]

/-- What the stated schedule produces for `cap = 1`: the byte is delivered, the consumer is
parked again (un-fused body), the producer is at the `drop` critical section. -/
theorem same_waker_twice_cap_one (w : Nat) :
    let c := (Conc.init 1 [.write [1], .drop]).run [.poll w, .poll w, .prod, .wake, .poll w, .poll w]
    c.delivered = [1] ∧ c.terminal = none ∧ c.parked = some w ∧
      c.s.stage = .csDrop .unit .gone := by
  rw [init_one]
  simp [Conc.run, Conc.step, SSys.step, readerPoll, flushHelper, afterCs, goNext, advance, runFree]

/-- Counterexample to the original statement at `cap = 1`. -/
theorem same_waker_twice_fails_cap_one (w : Nat) :
    ¬ (let c := (Conc.init 1 [.write [1], .drop]).run
                  [.poll w, .poll w, .prod, .wake, .poll w, .poll w]
       c.delivered = [1] ∧ c.terminal = some .end_) := by
  intro h
  have h2 := (same_waker_twice_cap_one w).2.1
  rw [h.2] at h2
  cases h2

/-- The same scenario for every `cap > 0`, with a schedule that lets the producer run both of
its critical sections (`write`'s auto-flush when `cap = 1`, then `drop`) before the final polls. -/
theorem same_waker_twice_all (cap : Nat) (hc : 0 < cap) (w : Nat) :
    let c := (Conc.init cap [.write [1], .drop]).run
      [.poll w, .poll w, .prod, .wake, .prod, .wake, .poll w, .poll w]
    c.delivered = [1] ∧ c.terminal = some .end_ := by
  by_cases h1 : cap = 1
  · subst h1
    rw [init_one]
    simp [Conc.run, Conc.step, SSys.step, readerPoll, flushHelper, afterCs, goNext, advance, runFree]
  · rw [init_big cap (by omega)]
    simp [Conc.run, Conc.step, SSys.step, readerPoll, flushHelper, afterCs, goNext, advance, runFree]

end HS
