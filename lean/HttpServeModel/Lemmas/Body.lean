/-
Lemmas about the body state machines (`ExactLen`, `Multipart`, `BodyS`).
-/
import HttpServeModel.Model.Body

namespace HS

/-! ### `StaysFailed` -/

theorem staysFailed_nil : StaysFailed [] := by
  intro pre post h
  cases pre <;> simp at h

theorem staysFailed_tail {e : Ev} {s : List Ev} (h : StaysFailed (e :: s)) : StaysFailed s := by
  intro pre post hs
  exact h (e :: pre) post (by simp [hs])

theorem staysFailed_suffix {pre s : List Ev} (h : StaysFailed (pre ++ s)) : StaysFailed s := by
  intro pre' post hs
  exact h (pre ++ pre') post (by simp [hs])

theorem staysFailed_err {rest : List Ev} (h : StaysFailed (Ev.err :: rest)) : rest = [] :=
  h [] rest rfl

theorem staysFailed_of_no_err {s : List Ev} (h : Ev.err ∉ s) : StaysFailed s := by
  intro pre post hs
  exact absurd (by simp [hs]) h

/-! ### ExactLen -/

/-- A stream marked finished has nothing outstanding (holds for every reachable state: `finished`
is set together with `remaining := 0` or when `remaining = 0`). -/
def ExactLen.Ok (s : ExactLen) : Prop := s.finished = true → s.remaining = 0

theorem ExactLen.ok_of_not_finished {s : ExactLen} (h : s.finished = false) : s.Ok := by
  intro hf; rw [h] at hf; cases hf

theorem ExactLen.poll_finished (s : ExactLen) (hf : s.finished = true) : s.poll = (s, .end_) := by
  simp [ExactLen.poll, hf]

theorem ExactLen.poll_data {s : ExactLen} {d : Bytes} (h : s.poll.2 = .data d) :
    d.length ≤ s.remaining ∧ s.poll.1.remaining = s.remaining - d.length ∧
    (∃ rest, s.stream = .chunk d :: rest ∧ s.poll.1.stream = rest) ∧
    s.finished = false ∧ s.poll.1.finished = false := by
  unfold ExactLen.poll at h ⊢
  cases hf : s.finished
  · simp only [hf, Bool.false_eq_true, if_false] at h ⊢
    split at h
    · split at h <;> simp at h
    · simp at h
    · simp at h
    · rename_i bs rest hs
      split at h
      · rename_i hle
        simp at h; subst h
        simp [hs, hle]
      · simp at h
  · simp [hf] at h

theorem ExactLen.poll_remaining_le (s : ExactLen) : s.poll.1.remaining ≤ s.remaining := by
  unfold ExactLen.poll
  cases hf : s.finished
  · simp only [Bool.false_eq_true, if_false]
    split
    · split <;> simp
    · simp
    · simp
    · split <;> simp <;> omega
  · simp

/-- A clean end is only ever reported with nothing outstanding; afterwards the stream is marked
finished. -/
theorem ExactLen.poll_end {s : ExactLen} (hok : s.Ok) (h : s.poll.2 = .end_) :
    s.remaining = 0 ∧ s.poll.1.remaining = 0 ∧ s.poll.1.finished = true ∧
    (s.finished = false → s.stream = []) := by
  unfold ExactLen.poll at h ⊢
  cases hf : s.finished
  · simp only [hf, Bool.false_eq_true, if_false] at h ⊢
    split at h
    · rename_i hs
      split at h
      · simp at h
      · rename_i hr; simp at hr; simp [hs, hr]
    · simp at h
    · simp at h
    · split at h <;> simp at h
  · simp [hf, hok hf]

theorem ExactLen.poll_pending {s : ExactLen} (h : s.poll.2 = .pending) :
    s.poll.1.remaining = s.remaining ∧
    (∃ rest, s.stream = .pending :: rest ∧ s.poll.1.stream = rest) ∧
    s.finished = false ∧ s.poll.1.finished = false := by
  unfold ExactLen.poll at h ⊢
  cases hf : s.finished
  · simp only [hf, Bool.false_eq_true, if_false] at h ⊢
    split at h
    · split at h <;> simp at h
    · rename_i rest hs; simp [hs]
    · simp at h
    · split at h <;> simp at h
  · simp [hf] at h

theorem ExactLen.poll_not_panic (s : ExactLen) : s.poll.2 ≠ .panic ∧ s.poll.2 ≠ .diverge := by
  unfold ExactLen.poll
  cases hf : s.finished
  · simp only [Bool.false_eq_true, if_false]
    split
    · split <;> simp
    · simp
    · simp
    · split <;> simp
  · simp

/-- The invariant `Ok` is kept by every poll. -/
theorem ExactLen.poll_keeps_ok (s : ExactLen) (hok : s.Ok) : s.poll.1.Ok := by
  unfold ExactLen.poll
  cases hf : s.finished
  · simp only [Bool.false_eq_true, if_false]
    split
    · split
      · intro _; rfl
      · rename_i hr; simp at hr; intro _; exact hr
    · intro h; simp at h
    · intro h; simp at h
    · split <;> (intro h; simp at h)
  · simpa using hok

/-- After an error the stream is fused: nothing outstanding. -/
theorem ExactLen.poll_err {s : ExactLen} (hsf : StaysFailed s.stream)
    (h : s.poll.2.isErr = true) :
    (s.poll.2 = .errEntity ∧ s.poll.1.stream = []) ∨ s.poll.1.remaining = 0 := by
  unfold ExactLen.poll at h ⊢
  cases hf : s.finished
  · simp only [hf, Bool.false_eq_true, if_false] at h ⊢
    split
    · split
      · right; rfl
      · rename_i hs hr; simp [hs, hr, PollOut.isErr] at h
    · rename_i hs; simp [hs, PollOut.isErr] at h
    · rename_i rest hs; rw [hs] at hsf; left; simp [staysFailed_err hsf]
    · split
      · rename_i hs hle; simp [hs, hle, PollOut.isErr] at h
      · right; rfl
  · simp [hf, PollOut.isErr] at h

end HS

namespace HS

/-! ### Multipart: the accounting invariant -/

/-- Bytes of part headers and range payloads for parts still wholly to come. -/
def partCost : List Bytes → List (Nat × Nat) → Nat
  | ph :: phs, r :: rs => ph.length + (r.2 - r.1) + partCost phs rs
  | _, _ => 0

def Multipart.rest (m : Multipart) (i : Nat) : Nat :=
  partCost (m.partHeaders.drop i) (m.ranges.drop i) + kTrailer.length

inductive MPhase where
  | header (i : Nat)     -- about to send part `i`'s header
  | open_ (i : Nat)      -- header `i` sent, `get_range` not yet called
  | body (i : Nat)       -- streaming part `i`
  | trailer
  | ended
  deriving Repr, DecidableEq

/-- The states a `MultipartStream` can be in between two polls. -/
def MInvAt (m : Multipart) : MPhase → Prop
  | .header i => m.cur = none ∧ m.state = 2 * i ∧ i < m.ranges.length ∧ m.remaining = m.rest i
  | .open_ i => m.cur = none ∧ m.state = 2 * i + 1 ∧ i < m.ranges.length ∧
      ∃ r, m.ranges[i]? = some r ∧ m.remaining = (r.2 - r.1) + m.rest (i + 1)
  | .body i => ∃ c, m.cur = some c ∧ m.state = 2 * i + 1 ∧ i < m.ranges.length ∧
      m.remaining = c.remaining + m.rest (i + 1) ∧ c.finished = false
  | .trailer => m.cur = none ∧ m.state = 2 * m.ranges.length ∧ m.remaining = kTrailer.length
  | .ended => m.cur = none ∧ m.state = 2 * m.ranges.length + 1 ∧ m.remaining = 0

def MInv (m : Multipart) : Prop :=
  m.partHeaders.length = m.ranges.length ∧ (∀ r ∈ m.ranges, r.1 ≤ r.2) ∧ ∃ ph, MInvAt m ph

theorem partCost_drop_cons (phs : List Bytes) (rs : List (Nat × Nat)) (i : Nat)
    (ph : Bytes) (r : Nat × Nat) (h1 : phs[i]? = some ph) (h2 : rs[i]? = some r) :
    partCost (phs.drop i) (rs.drop i) =
      ph.length + (r.2 - r.1) + partCost (phs.drop (i + 1)) (rs.drop (i + 1)) := by
  obtain ⟨hlt1, hget1⟩ := List.getElem?_eq_some_iff.mp h1
  obtain ⟨hlt2, hget2⟩ := List.getElem?_eq_some_iff.mp h2
  rw [List.drop_eq_getElem_cons hlt1, List.drop_eq_getElem_cons hlt2, hget1, hget2]
  rfl

theorem partCost_drop_len (phs : List Bytes) (rs : List (Nat × Nat)) (_h : phs.length = rs.length) :
    partCost (phs.drop rs.length) (rs.drop rs.length) = 0 := by
  simp [partCost]

end HS

namespace HS

structure MStepOk (m m' : Multipart) (o : PollOut) : Prop where
  inv : MInv m'
  noPanic : o ≠ .panic ∧ o ≠ .diverge
  data : ∀ d, o = .data d → m'.remaining + d.length = m.remaining
  end_ : o = .end_ → m' = m ∧ MInvAt m .ended
  err : o.isErr = true → MInvAt m' .ended
  pend : o = .pending → m'.remaining = m.remaining
  ranges : m'.ranges = m.ranges

theorem Multipart.rest_set (m : Multipart) (i j : Nat) (h : j < i) (x : Bytes) :
    ({ m with partHeaders := m.partHeaders.set j x } : Multipart).rest i = m.rest i := by
  unfold Multipart.rest
  simp only
  congr 2
  apply List.ext_getElem?
  intro k
  simp only [List.getElem?_drop]
  rw [List.getElem?_set_ne (by omega)]

theorem step_ended (m : Multipart) (hb : MInv m) (h : MInvAt m .ended) (k : Nat) :
    MStepOk m (Multipart.pollF (k + 1) m).1 (Multipart.pollF (k + 1) m).2 := by
  obtain ⟨hc, hs, hr⟩ := h
  have e : Multipart.pollF (k + 1) m = (m, .end_) := by
    simp only [Multipart.pollF, hc, hs]
    have : (2 * m.ranges.length + 1) / 2 = m.ranges.length := by omega
    have h2 : (2 * m.ranges.length + 1) % 2 = 1 := by omega
    simp [this, h2, hr]
  rw [e]
  exact ⟨hb, by simp, by simp, fun _ => ⟨rfl, hc, hs, hr⟩, by simp [PollOut.isErr], by simp, rfl⟩

theorem step_trailer (m : Multipart) (hb : MInv m) (h : MInvAt m .trailer) (k : Nat) :
    MStepOk m (Multipart.pollF (k + 1) m).1 (Multipart.pollF (k + 1) m).2 := by
  obtain ⟨hc, hs, hr⟩ := h
  obtain ⟨hlen, hsz, _⟩ := hb
  have e : Multipart.pollF (k + 1) m =
      ({ m with state := m.state + 1, remaining := 0 }, .data kTrailer) := by
    simp only [Multipart.pollF, hc, hs]
    have : (2 * m.ranges.length) / 2 = m.ranges.length := by omega
    have h2 : (2 * m.ranges.length) % 2 = 0 := by omega
    simp [this, h2, hr, subChk]
  rw [e]
  refine ⟨⟨hlen, hsz, .ended, ?_⟩, by simp, ?_, by simp, by simp [PollOut.isErr], by simp, rfl⟩
  · exact ⟨hc, by simp [hs], rfl⟩
  · intro d hd; simp at hd; subst hd; simp [hr]

theorem step_header (m : Multipart) (hb : MInv m) (i : Nat) (h : MInvAt m (.header i)) (k : Nat) :
    MStepOk m (Multipart.pollF (k + 1) m).1 (Multipart.pollF (k + 1) m).2 := by
  obtain ⟨hc, hs, hi, hr⟩ := h
  obtain ⟨hlen, hsz, _⟩ := hb
  have hi' : i < m.partHeaders.length := by omega
  obtain ⟨ph, hph⟩ : ∃ ph, m.partHeaders[i]? = some ph := ⟨m.partHeaders[i], by simp [hi']⟩
  obtain ⟨r, hrg⟩ : ∃ r, m.ranges[i]? = some r := ⟨m.ranges[i], by simp [hi]⟩
  have hcost := partCost_drop_cons m.partHeaders m.ranges i ph r hph hrg
  have hrem : m.remaining = ph.length + (r.2 - r.1) + m.rest (i + 1) := by
    rw [hr]; unfold Multipart.rest; rw [hcost]; omega
  have e : Multipart.pollF (k + 1) m =
      ({ m with state := m.state + 1, remaining := m.remaining - ph.length,
                partHeaders := m.partHeaders.set i [] }, .data ph) := by
    simp only [Multipart.pollF, hc, hs]
    have : (2 * i) / 2 = i := by omega
    have h2 : (2 * i) % 2 = 0 := by omega
    have hne : ¬ (i = m.ranges.length) := by omega
    have hle : ph.length ≤ m.remaining := by omega
    simp [this, h2, hne, hph, subChk, hle]
  rw [e]
  refine ⟨⟨by simp [hlen], hsz, .open_ i, ?_⟩, by simp, ?_, by simp, by simp [PollOut.isErr], by simp, rfl⟩
  · refine ⟨hc, by simp [hs], hi, r, hrg, ?_⟩
    have := Multipart.rest_set m (i + 1) i (by omega) []
    simp only [Multipart.rest] at this ⊢
    rw [this, hrem]; simp only [Multipart.rest]; omega
  · intro d hd; simp at hd; subst hd; simp only; rw [hrem]; omega

end HS

namespace HS

theorem step_body (m : Multipart) (hb : MInv m) (i : Nat) (h : MInvAt m (.body i)) (k : Nat) :
    MStepOk m (Multipart.pollF (k + 2) m).1 (Multipart.pollF (k + 2) m).2 := by
  obtain ⟨c, hc, hs, hi, hr, hcf⟩ := h
  have hb0 := hb
  obtain ⟨hlen, hsz, _⟩ := hb
  cases ho : c.poll.2 with
  | data d =>
    obtain ⟨hle, hrem', _, _, hcf'⟩ := ExactLen.poll_data ho
    have hle2 : d.length ≤ m.remaining := by omega
    have e : Multipart.pollF (k + 2) m =
        ({ m with cur := some c.poll.1, remaining := m.remaining - d.length }, .data d) := by
      simp only [Multipart.pollF, hc]
      simp [ho, subChk, hle2]
    rw [e]
    refine ⟨⟨hlen, hsz, .body i, c.poll.1, rfl, hs, hi, ?_, hcf'⟩, by simp, ?_, by simp,
      by simp [PollOut.isErr], by simp, rfl⟩
    · simp only [Multipart.rest] at hr ⊢; rw [hrem', hr]; omega
    · intro d' hd; simp at hd; subst hd; simp only; omega
  | pending =>
    obtain ⟨hrem', _, _, hcf'⟩ := ExactLen.poll_pending ho
    have e : Multipart.pollF (k + 2) m = ({ m with cur := some c.poll.1 }, .pending) := by
      simp only [Multipart.pollF, hc]
      simp [ho]
    rw [e]
    refine ⟨⟨hlen, hsz, .body i, c.poll.1, rfl, hs, hi, ?_, hcf'⟩, by simp, by simp, by simp,
      by simp [PollOut.isErr], by simp, rfl⟩
    simp only [Multipart.rest] at hr ⊢; rw [hrem', hr]
  | end_ =>
    obtain ⟨hz, _, _⟩ := ExactLen.poll_end (ExactLen.ok_of_not_finished hcf) ho
    have e : Multipart.pollF (k + 2) m =
        Multipart.pollF (k + 1) { m with cur := none, state := m.state + 1 } := by
      simp only [Multipart.pollF, hc]
      simp [ho]
    rw [e]
    -- the next phase: header (i+1) or trailer
    have key : ∀ m2 : Multipart, m2 = { m with cur := none, state := m.state + 1 } →
        MStepOk m (Multipart.pollF (k + 1) m2).1 (Multipart.pollF (k + 1) m2).2 := by
      intro m2 hm2
      have hrem2 : m2.remaining = m.remaining := by rw [hm2]
      have hst2 : m2.state = 2 * i + 2 := by rw [hm2]; simp [hs]
      have hrg2 : m2.ranges = m.ranges := by rw [hm2]
      have hph2 : m2.partHeaders = m.partHeaders := by rw [hm2]
      have hcur2 : m2.cur = none := by rw [hm2]
      have hlen2 : m2.partHeaders.length = m2.ranges.length := by rw [hph2, hrg2]; exact hlen
      have hsz2 : ∀ r ∈ m2.ranges, r.1 ≤ r.2 := by rw [hrg2]; exact hsz
      have wrap : ∀ ph, MInvAt m2 ph → ph ≠ .ended →
          MStepOk m2 (Multipart.pollF (k + 1) m2).1 (Multipart.pollF (k + 1) m2).2 →
          MStepOk m (Multipart.pollF (k + 1) m2).1 (Multipart.pollF (k + 1) m2).2 := by
        intro ph hph hne st
        refine ⟨st.inv, st.noPanic, fun d hd => by rw [← hrem2]; exact st.data d hd, ?_, st.err,
          fun hp => by rw [← hrem2]; exact st.pend hp, by rw [st.ranges, hrg2]⟩
        intro he
        obtain ⟨_, _, h2, _⟩ := st.end_ he
        rw [hst2, hrg2] at h2; omega
      by_cases hlast : i + 1 = m.ranges.length
      · have hinv : MInvAt m2 .trailer := by
          refine ⟨hcur2, by rw [hst2, hrg2]; omega, ?_⟩
          rw [hrem2, hr, hz]
          simp only [Multipart.rest]
          rw [hlast, ← hlen]
          simp [partCost]
        exact wrap .trailer hinv (by simp) (step_trailer m2 ⟨hlen2, hsz2, .trailer, hinv⟩ hinv k)
      · have hinv : MInvAt m2 (.header (i + 1)) := by
          refine ⟨hcur2, by rw [hst2]; omega, by rw [hrg2]; omega, ?_⟩
          rw [hrem2, hr, hz]
          simp only [Multipart.rest, hph2, hrg2]; simp
        exact wrap (.header (i + 1)) hinv (by simp)
          (step_header m2 ⟨hlen2, hsz2, .header (i + 1), hinv⟩ (i + 1) hinv k)
    exact key _ rfl
  | errEntity | errShort _ | errLong _ =>
    have e : Multipart.pollF (k + 2) m =
        ({ m with cur := none, remaining := 0, state := 2 * m.ranges.length + 1 }, c.poll.2) := by
      simp only [Multipart.pollF, hc]
      simp [ho]
    rw [e, ho]
    refine ⟨⟨hlen, hsz, .ended, rfl, rfl, rfl⟩, by simp, by simp, by simp, fun _ => ⟨rfl, rfl, rfl⟩,
      by simp, rfl⟩
  | panic => exact absurd ho (ExactLen.poll_not_panic c).1
  | diverge => exact absurd ho (ExactLen.poll_not_panic c).2

end HS

namespace HS

theorem step_open (m : Multipart) (hb : MInv m) (i : Nat) (h : MInvAt m (.open_ i)) (k : Nat) :
    MStepOk m (Multipart.pollF (k + 3) m).1 (Multipart.pollF (k + 3) m).2 := by
  obtain ⟨hc, hs, hi, r, hrg, hr⟩ := h
  obtain ⟨hlen, hsz, _⟩ := hb
  have hle : r.1 ≤ r.2 := hsz r (List.mem_of_getElem? hrg)
  have key : ∀ m2 : Multipart,
      m2 = { m with cur := some { stream := m.scripts.headD [], remaining := r.2 - r.1 },
                    scripts := m.scripts.tail, calls := m.calls ++ [(r.1, r.2)] } →
      MStepOk m (Multipart.pollF (k + 2) m2).1 (Multipart.pollF (k + 2) m2).2 := by
    intro m2 hm2
    have hrem2 : m2.remaining = m.remaining := by rw [hm2]
    have hrg2 : m2.ranges = m.ranges := by rw [hm2]
    have hph2 : m2.partHeaders = m.partHeaders := by rw [hm2]
    have hinv : MInvAt m2 (.body i) := by
      refine ⟨{ stream := m.scripts.headD [], remaining := r.2 - r.1 }, by rw [hm2], by rw [hm2]; exact hs,
        by rw [hrg2]; exact hi, ?_, rfl⟩
      rw [hrem2, hr]; simp only [Multipart.rest, hph2, hrg2]
    have st := step_body m2 ⟨by rw [hph2, hrg2]; exact hlen, by rw [hrg2]; exact hsz, .body i, hinv⟩ i hinv k
    refine ⟨st.inv, st.noPanic, fun d hd => by rw [← hrem2]; exact st.data d hd, ?_, st.err,
      fun hp => by rw [← hrem2]; exact st.pend hp, by rw [st.ranges, hrg2]⟩
    intro he
    obtain ⟨_, hcur, _, _⟩ := st.end_ he
    rw [hm2] at hcur; simp at hcur
  have e : Multipart.pollF (k + 3) m = Multipart.pollF (k + 2)
      { m with cur := some { stream := m.scripts.headD [], remaining := r.2 - r.1 },
               scripts := m.scripts.tail, calls := m.calls ++ [(r.1, r.2)] } := by
    conv => lhs; unfold Multipart.pollF
    simp only [hc, hs]
    have h1 : (2 * i + 1) / 2 = i := by omega
    have h2 : (2 * i + 1) % 2 = 1 := by omega
    have hne : ¬ (i = m.ranges.length) := by omega
    simp [h1, h2, hne, hrg, subChk, hle]
  rw [e]
  exact key _ rfl

/-- One poll from any state satisfying the invariant: the invariant is kept, there is no panic,
and the byte accounting is exact. -/
theorem Multipart.poll_ok (m : Multipart) (hb : MInv m) : MStepOk m m.poll.1 m.poll.2 := by
  obtain ⟨hlen, hsz, ph, hph⟩ := hb
  unfold Multipart.poll
  cases ph with
  | header i => exact step_header m ⟨hlen, hsz, _, hph⟩ i hph 3
  | open_ i => exact step_open m ⟨hlen, hsz, _, hph⟩ i hph 1
  | body i => exact step_body m ⟨hlen, hsz, _, hph⟩ i hph 2
  | trailer => exact step_trailer m ⟨hlen, hsz, _, hph⟩ hph 3
  | ended => exact step_ended m ⟨hlen, hsz, _, hph⟩ hph 3

end HS

namespace HS

theorem checkedAdd_some {a b c : Nat} (h : checkedAdd a b = some c) : c = a + b ∧ c < U64 := by
  unfold checkedAdd at h; split at h <;> simp at h; omega

theorem prepareParts_spec (len : Nat) (eh : Bytes) (rs : List (Nat × Nat)) (acc : Nat)
    (phs : List Bytes) (total : Nat)
    (h : prepareParts len eh rs acc = .ok (some (phs, total))) :
    phs.length = rs.length ∧ total = acc + partCost phs rs ∧ total < U64 ∨ (rs = [] ∧ phs = [] ∧ total = acc) := by
  induction rs generalizing acc phs total with
  | nil => simp [prepareParts] at h; right; simp [h]
  | cons r rs ih =>
    obtain ⟨a, b⟩ := r
    left
    simp only [prepareParts, bind, R.bind] at h
    cases hph : partHeader a b len eh with
    | panic => simp [hph] at h
    | ok ph =>
      simp only [hph] at h
      cases hsz : subChk b a with
      | panic => simp [hsz] at h
      | ok sz =>
        simp only [hsz] at h
        have hszv : sz = b - a := by
          unfold subChk at hsz; split at hsz <;> simp at hsz; omega
        cases hadd : (checkedAdd acc ph.length).bind (fun l => checkedAdd l sz) with
        | none => simp [hadd] at h
        | some acc' =>
          simp only [hadd] at h
          have hacc' : acc' = acc + ph.length + sz ∧ acc' < U64 := by
            cases h1 : checkedAdd acc ph.length with
            | none => simp [h1] at hadd
            | some x =>
              simp [h1] at hadd
              have := checkedAdd_some h1
              have := checkedAdd_some hadd
              omega
          cases hrec : prepareParts len eh rs acc' with
          | panic => simp [hrec] at h
          | ok res =>
            simp only [hrec] at h
            cases res with
            | none => simp at h
            | some pr =>
              obtain ⟨phs', total'⟩ := pr
              simp [pure] at h
              obtain ⟨rfl, rfl⟩ := h
              rcases ih acc' phs' total' hrec with ⟨h1, h2, h3⟩ | ⟨h1, h2, h3⟩
              · refine ⟨by simp [h1], ?_, h3⟩
                simp [partCost]; omega
              · subst h1 h2 h3
                refine ⟨by simp, ?_, hacc'.2⟩
                simp [partCost]; omega

theorem prepareMultipart_spec (ranges : List (Nat × Nat)) (len : Nat) (eh : Bytes)
    (phs : List Bytes) (total : Nat)
    (h : prepareMultipart ranges len eh = .ok (some (phs, total))) :
    phs.length = ranges.length ∧ total = partCost phs ranges + kTrailer.length ∧ total < U64 := by
  simp only [prepareMultipart, bind, R.bind] at h
  cases hp : prepareParts len eh ranges 0 with
  | panic => simp [hp] at h
  | ok res =>
    simp only [hp] at h
    cases res with
    | none => simp [pure] at h
    | some pr =>
      obtain ⟨phs', t'⟩ := pr
      simp only at h
      cases hadd : checkedAdd t' kTrailer.length with
      | none => simp [hadd, pure] at h
      | some t =>
        simp [hadd, pure] at h
        obtain ⟨rfl, rfl⟩ := h
        have ht := checkedAdd_some hadd
        rcases prepareParts_spec len eh ranges 0 phs' t' hp with ⟨h1, h2, _⟩ | ⟨h1, h2, h3⟩
        · exact ⟨h1, by omega, ht.2⟩
        · subst h1 h2 h3; exact ⟨rfl, by simp [partCost]; omega, ht.2⟩

/-- The multipart body `serve` builds starts in a state satisfying the invariant. -/
theorem Multipart.new_inv (phs : List Bytes) (ranges : List (Nat × Nat)) (total : Nat)
    (scripts : List (List Ev)) (hlen : phs.length = ranges.length)
    (htot : total = partCost phs ranges + kTrailer.length) (hsz : ∀ r ∈ ranges, r.1 ≤ r.2) :
    MInv (Multipart.new phs ranges total scripts) := by
  refine ⟨hlen, hsz, ?_⟩
  cases ranges with
  | nil =>
    refine ⟨.trailer, rfl, rfl, ?_⟩
    cases phs with
    | nil => simp [Multipart.new, htot, partCost]
    | cons _ _ => simp at hlen
  | cons r rs =>
    refine ⟨.header 0, rfl, rfl, by simp [Multipart.new], ?_⟩
    simp [Multipart.new, Multipart.rest, htot]

end HS

namespace HS

/-! ### Whole bodies -/

def BInv : BodyS → Prop
  | .multi m => MInv m
  | .exact e => e.Ok
  | _ => True

def outs (tr : List (Nat × Bool × PollOut)) : List PollOut := tr.map (·.2.2)

def delivered : List (Nat × Bool × PollOut) → Nat
  | [] => 0
  | (_, _, o) :: rest => o.dataLen + delivered rest

structure BStepOk (b b' : BodyS) (o : PollOut) : Prop where
  inv : BInv b'
  noPanic : o ≠ .panic ∧ o ≠ .diverge
  data : ∀ d, o = .data d → b'.sizeHint + d.length = b.sizeHint
  pend : o = .pending → b'.sizeHint = b.sizeHint
  end_ : o = .end_ → b'.sizeHint = 0 ∧ b.sizeHint = 0
  mono : b'.sizeHint ≤ b.sizeHint

theorem BodyS.poll_ok (b : BodyS) (h : BInv b) : BStepOk b b.poll.1 b.poll.2 := by
  cases b with
  | once p =>
    cases p with
    | none => exact ⟨trivial, by simp [BodyS.poll], by simp [BodyS.poll], by simp [BodyS.poll],
        fun _ => ⟨rfl, rfl⟩, by simp [BodyS.poll, BodyS.sizeHint]⟩
    | some n => exact ⟨trivial, by simp [BodyS.poll], by
        intro d hd; simp [BodyS.poll] at hd; subst hd; simp [BodyS.poll, BodyS.sizeHint],
        by simp [BodyS.poll], by simp [BodyS.poll], by simp [BodyS.poll, BodyS.sizeHint]⟩
  | exact e =>
    refine ⟨ExactLen.poll_keeps_ok e h, ?_, ?_, ?_, ?_, ?_⟩
    · simpa [BodyS.poll] using ExactLen.poll_not_panic e
    · intro d hd
      simp only [BodyS.poll] at hd ⊢
      obtain ⟨h1, h2, _⟩ := ExactLen.poll_data hd
      simp only [BodyS.sizeHint]; omega
    · intro hp
      simp only [BodyS.poll] at hp ⊢
      exact (ExactLen.poll_pending hp).1
    · intro he
      simp only [BodyS.poll] at he ⊢
      obtain ⟨h1, h3, _⟩ := ExactLen.poll_end h he
      exact ⟨h3, h1⟩
    · simpa [BodyS.poll, BodyS.sizeHint] using ExactLen.poll_remaining_le e
  | multi m =>
    have st := Multipart.poll_ok m h
    refine ⟨st.inv, ?_, ?_, ?_, ?_, ?_⟩
    · simpa [BodyS.poll] using st.noPanic
    · intro d hd; simp only [BodyS.poll] at hd ⊢; exact st.data d hd
    · intro hp; simp only [BodyS.poll] at hp ⊢; exact st.pend hp
    · intro he
      simp only [BodyS.poll] at he ⊢
      obtain ⟨h1, _, _, h4⟩ := st.end_ he
      exact ⟨by rw [h1]; exact h4, h4⟩
    · simp only [BodyS.poll, BodyS.sizeHint]
      cases ho : m.poll.2 with
      | data d => have := st.data d ho; omega
      | pending => have := st.pend ho; omega
      | end_ => have := (st.end_ ho).1; rw [this]; exact Nat.le_refl _
      | errEntity | errShort _ | errLong _ =>
        have := st.err (by simp [ho, PollOut.isErr])
        obtain ⟨_, _, h3⟩ := this; omega
      | panic => exact absurd ho st.noPanic.1
      | diverge => exact absurd ho st.noPanic.2

/-- No body ever delivers more than its size hint announces. -/
theorem run_delivered_le (n : Nat) (b : BodyS) (h : BInv b) : delivered (b.run n) ≤ b.sizeHint := by
  induction n generalizing b with
  | zero => simp [BodyS.run, delivered]
  | succ n ih =>
    have st := b.poll_ok h
    simp only [BodyS.run, delivered]
    have := ih b.poll.1 st.inv
    cases ho : b.poll.2 with
    | data d => have := st.data d ho; simp [PollOut.dataLen]; omega
    | _ => have := st.mono; simp [PollOut.dataLen]; omega

/-- Draining never panics (and the model's fuel is never exhausted). -/
theorem run_no_panic (n : Nat) (b : BodyS) (h : BInv b) :
    ∀ o ∈ outs (b.run n), o ≠ .panic ∧ o ≠ .diverge := by
  induction n generalizing b with
  | zero => simp [BodyS.run, outs]
  | succ n ih =>
    have st := b.poll_ok h
    intro o ho
    simp only [BodyS.run, outs, List.map_cons, List.mem_cons] at ho
    rcases ho with rfl | ho
    · exact st.noPanic
    · exact ih b.poll.1 st.inv o ho

/-- If a run contains no error and reaches a clean end, it has delivered exactly what the
size hint announced at its start. -/
theorem run_clean_end_exact (n : Nat) (b : BodyS) (h : BInv b)
    (hne : ∀ o ∈ outs (b.run n), o.isErr = false) (hend : .end_ ∈ outs (b.run n)) :
    delivered (b.run n) = b.sizeHint := by
  induction n generalizing b with
  | zero => simp [BodyS.run, outs] at hend
  | succ n ih =>
    have st := b.poll_ok h
    simp only [BodyS.run, outs, List.map_cons, List.mem_cons] at hne hend
    simp only [BodyS.run, delivered]
    cases ho : b.poll.2 with
    | end_ =>
      obtain ⟨h1, h2⟩ := st.end_ ho
      have := run_delivered_le n b.poll.1 st.inv
      have hh : b.poll.1.sizeHint = 0 := h1
      simp [PollOut.dataLen]; omega
    | data d =>
      have hd := st.data d ho
      have : PollOut.end_ ∈ outs (b.poll.1.run n) := by
        rcases hend with h' | h'
        · rw [ho] at h'; cases h'
        · exact h'
      have := ih b.poll.1 st.inv (fun o ho' => hne o (Or.inr ho')) this
      simp [PollOut.dataLen]; omega
    | pending =>
      have hp := st.pend ho
      have : PollOut.end_ ∈ outs (b.poll.1.run n) := by
        rcases hend with h' | h'
        · rw [ho] at h'; cases h'
        · exact h'
      have := ih b.poll.1 st.inv (fun o ho' => hne o (Or.inr ho')) this
      simp [PollOut.dataLen]; omega
    | errEntity | errShort _ | errLong _ =>
      have := hne b.poll.2 (Or.inl rfl)
      rw [ho] at this; simp [PollOut.isErr] at this
    | panic => exact absurd ho st.noPanic.1
    | diverge => exact absurd ho st.noPanic.2

end HS

namespace HS

/-! ### Terminated bodies stay terminated -/

def Fused : BodyS → Prop
  | .once p => p = none
  | .exact e => e.remaining = 0 ∨ e.stream = []
  | .multi m => MInv m ∧ MInvAt m .ended

/-- harmless outcome: not a panic, and if data then empty -/
def PollOut.quiet (o : PollOut) : Prop := o ≠ .panic ∧ o ≠ .diverge ∧ o.dataLen = 0

theorem ExactLen.fused_step (e : ExactLen) (h : e.remaining = 0 ∨ e.stream = []) :
    (e.poll.1.remaining = 0 ∨ e.poll.1.stream = []) ∧ e.poll.2.quiet := by
  cases hf : e.finished
  case true =>
    rw [ExactLen.poll_finished e hf]
    exact ⟨h, by simp [PollOut.quiet, PollOut.dataLen]⟩
  unfold ExactLen.poll
  simp only [hf, Bool.false_eq_true, if_false]
  rcases h with h | h
  · split
    · split
      · exact ⟨Or.inl rfl, by simp [PollOut.quiet, PollOut.dataLen]⟩
      · rename_i hs _; exact ⟨Or.inr hs, by simp [PollOut.quiet, PollOut.dataLen]⟩
    · exact ⟨Or.inl h, by simp [PollOut.quiet, PollOut.dataLen]⟩
    · exact ⟨Or.inl h, by simp [PollOut.quiet, PollOut.dataLen]⟩
    · split
      · rename_i bs _ _ hle
        refine ⟨Or.inl (by simp; omega), ?_⟩
        have : bs.length = 0 := by omega
        simp [PollOut.quiet, PollOut.dataLen, this]
      · exact ⟨Or.inl rfl, by simp [PollOut.quiet, PollOut.dataLen]⟩
  · rw [h]
    simp only
    split
    · exact ⟨Or.inl rfl, by simp [PollOut.quiet, PollOut.dataLen]⟩
    · exact ⟨Or.inr (by simp), by simp [PollOut.quiet, PollOut.dataLen]⟩

theorem BodyS.fused_step (b : BodyS) (h : Fused b) : Fused b.poll.1 ∧ b.poll.2.quiet := by
  cases b with
  | once p =>
    simp only [Fused] at h; subst h
    exact ⟨rfl, by simp [BodyS.poll, PollOut.quiet, PollOut.dataLen]⟩
  | exact e =>
    simpa [Fused, BodyS.poll] using ExactLen.fused_step e h
  | multi m =>
    obtain ⟨hb, he⟩ := h
    have st := Multipart.poll_ok m hb
    obtain ⟨hc, hs, hr⟩ := he
    have e : m.poll = (m, .end_) := by
      unfold Multipart.poll
      simp only [Multipart.pollF, hc, hs]
      have : (2 * m.ranges.length + 1) / 2 = m.ranges.length := by omega
      have h2 : (2 * m.ranges.length + 1) % 2 = 1 := by omega
      simp [this, h2, hr]
    simp only [BodyS.poll, e]
    exact ⟨⟨hb, hc, hs, hr⟩, by simp [PollOut.quiet, PollOut.dataLen]⟩

theorem ExactLen.poll_stream (s : ExactLen) :
    s.poll.1.stream = s.stream.tail ∨ s.poll.1.stream = s.stream := by
  cases hf : s.finished
  case true => rw [ExactLen.poll_finished s hf]; exact Or.inr rfl
  left
  unfold ExactLen.poll
  simp only [hf, Bool.false_eq_true, if_false]
  split
  · rename_i hs; split <;> simp [hs]
  · rename_i hs; simp [hs]
  · rename_i hs; simp [hs]
  · rename_i hs; split <;> simp [hs]

/-- The entity stream the body reads directly stays failed once it has failed.  Only the
single-stream kind needs this: a multipart body drops the current part's stream on its first
error and never polls it again. -/
def BodyS.StaysFailed : BodyS → Prop
  | .exact e => HS.StaysFailed e.stream
  | _ => True

theorem BodyS.staysFailed_poll (b : BodyS) (h : b.StaysFailed) : b.poll.1.StaysFailed := by
  cases b with
  | once p => cases p <;> simp [BodyS.poll, BodyS.StaysFailed]
  | exact e =>
    simp only [BodyS.poll, BodyS.StaysFailed] at h ⊢
    rcases ExactLen.poll_stream e with hp | hp
    · rw [hp]
      cases hs : e.stream with
      | nil => exact staysFailed_nil
      | cons x rest => rw [hs] at h; exact staysFailed_tail h
    · rw [hp]; exact h
  | multi m => simp [BodyS.poll, BodyS.StaysFailed]

theorem BodyS.ofPlan_staysFailed {p : Plan} {scripts : List (List Ev)} {b : BodyS}
    (hsf : ∀ s ∈ scripts, HS.StaysFailed s) (hb : BodyS.ofPlan p scripts = .ok b) :
    b.StaysFailed := by
  cases p with
  | once n => simp [BodyS.ofPlan] at hb; subst hb; trivial
  | empty => simp [BodyS.ofPlan] at hb; subst hb; trivial
  | multipart phs ranges len => simp [BodyS.ofPlan] at hb; subst hb; trivial
  | exact a c =>
    simp only [BodyS.ofPlan, bind, R.bind] at hb
    cases hn : subChk c a with
    | panic => simp [hn] at hb
    | ok n =>
      simp [hn, pure] at hb; subst hb
      cases scripts with
      | nil => exact staysFailed_nil
      | cons s _ => exact hsf s (by simp)

/-- Any terminal event (end or error) leaves the body fused. -/
theorem BodyS.terminal_fuses (b : BodyS) (h : BInv b) (hsf : b.StaysFailed)
    (ht : b.poll.2.isTerminal = true) :
    Fused b.poll.1 := by
  cases b with
  | once p =>
    cases p <;> simp [BodyS.poll, Fused]
  | exact e =>
    simp only [BodyS.poll, Fused] at ht ⊢
    cases ho : e.poll.2 with
    | end_ =>
      obtain ⟨_, h3, _⟩ := ExactLen.poll_end h ho
      exact Or.inl h3
    | errEntity | errShort _ | errLong _ =>
      rcases ExactLen.poll_err (s := e) hsf (by simp [ho, PollOut.isErr]) with ⟨_, h⟩ | h
      · exact Or.inr h
      · exact Or.inl h
    | data _ | pending | panic | diverge => simp [ho, PollOut.isTerminal] at ht
  | multi m =>
    have st := Multipart.poll_ok m h
    simp only [BodyS.poll, Fused] at ht ⊢
    refine ⟨st.inv, ?_⟩
    cases ho : m.poll.2 with
    | end_ => obtain ⟨h1, h2⟩ := st.end_ ho; rw [h1]; exact h2
    | errEntity | errShort _ | errLong _ => exact st.err (by simp [ho, PollOut.isErr])
    | data _ | pending | panic | diverge => simp [ho, PollOut.isTerminal] at ht

theorem run_fused_quiet (n : Nat) (b : BodyS) (h : Fused b) : ∀ o ∈ outs (b.run n), o.quiet := by
  induction n generalizing b with
  | zero => simp [BodyS.run, outs]
  | succ n ih =>
    obtain ⟨h1, h2⟩ := b.fused_step h
    intro o ho
    simp only [BodyS.run, outs, List.map_cons, List.mem_cons] at ho
    rcases ho with rfl | ho
    · exact h2
    · exact ih b.poll.1 h1 o ho

/-- Once an outcome is terminal, every later outcome is quiet (no panic, no data bytes). -/
def quietAfterTerminal : List PollOut → Prop
  | [] => True
  | o :: rest => (o.isTerminal = true → ∀ o' ∈ rest, o'.quiet) ∧ quietAfterTerminal rest

theorem run_quiet_after_terminal (n : Nat) (b : BodyS) (h : BInv b) (hsf : b.StaysFailed) :
    quietAfterTerminal (outs (b.run n)) := by
  induction n generalizing b with
  | zero => simp [BodyS.run, outs, quietAfterTerminal]
  | succ n ih =>
    have st := b.poll_ok h
    simp only [BodyS.run, outs, List.map_cons, quietAfterTerminal]
    exact ⟨fun ht => run_fused_quiet n b.poll.1 (b.terminal_fuses h hsf ht),
      ih b.poll.1 st.inv (b.staysFailed_poll hsf)⟩

end HS

/-! ### (F13) an entity's stream is never polled after its end -/

namespace HS.Overpoll

/-- Once the entity's stream has reported its end the wrapper is marked finished, and the
stream has never been polled after its end. -/
def EInv (s : ExactLen) : Prop := (s.innerEnded = true → s.finished = true) ∧ s.overpolls = 0

theorem EInv.default (st : List Ev) (r : Nat) : EInv { stream := st, remaining := r } :=
  ⟨(by simp), rfl⟩

theorem EInv.poll {s : ExactLen} (h : EInv s) : EInv s.poll.1 := by
  obtain ⟨h1, h2⟩ := h
  cases hf : s.finished
  case true => rw [ExactLen.poll_finished s hf]; exact ⟨h1, h2⟩
  have hie : s.innerEnded = false := by
    cases hi : s.innerEnded
    · rfl
    · rw [h1 hi] at hf; cases hf
  unfold ExactLen.poll
  simp only [hf, Bool.false_eq_true, if_false]
  split
  · split <;> exact ⟨fun _ => rfl, by simp [hie, h2]⟩
  · exact ⟨by simp [hie], h2⟩
  · exact ⟨by simp [hie], h2⟩
  · split <;> exact ⟨by simp [hie], h2⟩

def MOk (m : Multipart) : Prop := ∀ c, m.cur = some c → EInv c

theorem MOk.pollF (fuel : Nat) : ∀ m, MOk m → MOk (Multipart.pollF fuel m).1 := by
  induction fuel with
  | zero => intro m h; exact h
  | succ fuel ih =>
    intro m h
    unfold Multipart.pollF
    simp only
    have hnone : ∀ m' : Multipart, m'.cur = none → MOk m' := by
      intro m' h' c hc; rw [h'] at hc; cases hc
    have hsome : ∀ (m' : Multipart) c', m'.cur = some c' → EInv c' → MOk m' := by
      intro m' c' h' hc' c hc; rw [h'] at hc; cases hc; exact hc'
    split
    · rename_i c hc
      have hc' := (h c hc).poll
      split
      · split
        · exact hsome _ _ rfl hc'
        · exact h
      · exact ih _ (hnone _ rfl)
      · exact hsome _ _ rfl hc'
      · exact hnone _ rfl
    · rename_i hcur
      split
      · split <;> exact h
      · split
        · split
          · exact hnone _ hcur
          · exact h
        · split
          · split
            · exact h
            · split
              · exact h
              · exact ih _ (hsome _ _ rfl (EInv.default _ _))
          · split
            · exact h
            · split
              · exact hnone _ hcur
              · exact h

def BOk : BodyS → Prop
  | .once _ => True
  | .exact e => EInv e
  | .multi m => MOk m

theorem BOk.poll {b : BodyS} (h : BOk b) : BOk b.poll.1 := by
  cases b with
  | once p => cases p <;> trivial
  | exact e => exact EInv.poll h
  | multi m => exact MOk.pollF 4 m h

theorem BOk.after (n : Nat) : ∀ {b : BodyS}, BOk b → BOk (BodyS.after n b) := by
  induction n with
  | zero => intro b h; exact h
  | succ n ih => intro b h; exact ih h.poll

theorem BOk.overpolls {b : BodyS} (h : BOk b) : b.overpolls = 0 := by
  cases b with
  | once p => rfl
  | exact e => exact h.2
  | multi m =>
    simp only [BodyS.overpolls]
    cases hc : m.cur with
    | none => rfl
    | some c => exact (h c hc).2

theorem BOk.ofPlan {p : Plan} {scripts : List (List Ev)} {b : BodyS}
    (hb : BodyS.ofPlan p scripts = .ok b) : BOk b := by
  cases p with
  | once n => simp [BodyS.ofPlan] at hb; subst hb; trivial
  | empty => simp [BodyS.ofPlan] at hb; subst hb; trivial
  | multipart phs ranges len =>
    simp [BodyS.ofPlan] at hb; subst hb
    intro c hc; simp [Multipart.new] at hc
  | exact a c =>
    simp only [BodyS.ofPlan, bind, R.bind] at hb
    cases hn : subChk c a with
    | panic => simp [hn] at hb
    | ok n => simp [hn, pure] at hb; subst hb; exact EInv.default _ _

end HS.Overpoll

namespace HS
/-- A body made from a plan never polls an entity's stream after that stream's end. -/
theorem after_overpolls_zero {p : Plan} {scripts : List (List Ev)} {b : BodyS}
    (hb : BodyS.ofPlan p scripts = .ok b) (n : Nat) : (BodyS.after n b).overpolls = 0 :=
  ((Overpoll.BOk.ofPlan hb).after n).overpolls
end HS
