import HttpServeModel.Model.Body
import HttpServeModel.Lemmas.RangeParse
import HttpServeModel.Lemmas.Body
namespace HS

def Resp.header (r : Resp) (n : HName) : Option HVal := r.headers.lookup n

def EntCall.isGetRange : EntCall → Bool
  | .getRange _ _ => true
  | _ => false

end HS

namespace HS.ServeLemmas

/-! ### Small arithmetic helpers -/

theorem subChk_ok {a b : Nat} (h : b ≤ a) : subChk a b = .ok (a - b) := by
  simp [subChk, h]

/-- The RFC's estimate of a multipart body's length. -/
def est (rs : List (Nat × Nat)) : Nat := (rs.map fun x => 80 + (x.2 - x.1)).sum

theorem estLen_eq (rs : List (Nat × Nat)) (acc : Nat) (hacc : acc < U64)
    (h : ∀ r ∈ rs, r.1 ≤ r.2) :
    estLen rs acc = .ok (if acc + est rs < U64 then some (acc + est rs) else none) := by
  induction rs generalizing acc with
  | nil => simp [estLen, est, hacc]
  | cons r rs ih =>
    obtain ⟨a, b⟩ := r
    have hab : a ≤ b := h (a, b) (by simp)
    have ih' := fun acc hacc => ih acc hacc (fun r hr => h r (by simp [hr]))
    simp only [estLen, subChk_ok hab, bind, R.bind]
    have hest : est ((a, b) :: rs) = 80 + (b - a) + est rs := by simp [est]
    rw [hest]
    by_cases h1 : acc + 80 < U64
    · by_cases h2 : acc + 80 + (b - a) < U64
      · simp only [checkedAdd, h1, h2, if_true, Option.bind]
        rw [ih' _ h2]
        have : acc + 80 + (b - a) + est rs = acc + (80 + (b - a) + est rs) := by omega
        rw [this]
      · simp only [checkedAdd, h1, h2, if_true, if_false, Option.bind]
        have : ¬ acc + (80 + (b - a) + est rs) < U64 := by omega
        simp [this, pure]
    · simp only [checkedAdd, h1, if_false, Option.bind]
      have : ¬ acc + (80 + (b - a) + est rs) < U64 := by omega
      simp [this, pure]

theorem partHeader_ok (a b len : Nat) (eh : Bytes) (h : 1 ≤ b) :
    ∃ ph, partHeader a b len eh = .ok ph := by
  simp [partHeader, subChk_ok h, bind, R.bind, pure]

theorem prepareParts_ok (len : Nat) (eh : Bytes) (rs : List (Nat × Nat)) (acc : Nat)
    (h : ∀ r ∈ rs, r.1 < r.2) : ∃ o, prepareParts len eh rs acc = .ok o := by
  induction rs generalizing acc with
  | nil => exact ⟨_, rfl⟩
  | cons r rs ih =>
    obtain ⟨a, b⟩ := r
    have hab : a < b := h (a, b) (by simp)
    obtain ⟨ph, hph⟩ := partHeader_ok a b len eh (by omega)
    simp only [prepareParts, hph, subChk_ok (Nat.le_of_lt hab), bind, R.bind]
    cases (checkedAdd acc ph.length).bind (fun l => checkedAdd l (b - a)) with
    | none => exact ⟨_, rfl⟩
    | some acc' =>
      obtain ⟨o, ho⟩ := ih acc' (fun r hr => h r (by simp [hr]))
      simp only [ho]
      cases o with
      | none => exact ⟨_, rfl⟩
      | some p => exact ⟨_, rfl⟩

theorem prepareMultipart_ok (rs : List (Nat × Nat)) (len : Nat) (eh : Bytes)
    (h : ∀ r ∈ rs, r.1 < r.2) : ∃ o, prepareMultipart rs len eh = .ok o := by
  obtain ⟨o, ho⟩ := prepareParts_ok len eh rs 0 h
  simp only [prepareMultipart, ho, bind, R.bind]
  cases o with
  | none => exact ⟨_, rfl⟩
  | some p =>
    obtain ⟨phs, total⟩ := p
    simp only
    cases checkedAdd total kTrailer.length with
    | none => exact ⟨_, rfl⟩
    | some t => exact ⟨_, rfl⟩

/-! ### Closed form of `serve` -/

def calls0 : List EntCall := [.lastModified, .etag]
def calls1 : List EntCall := [.lastModified, .etag, .len]
def calls2 (inc : Bool) : List EntCall := if inc then calls1 ++ [.addHeaders] else calls1

/-- The response `serveSimple` builds. -/
def simpleResp (q : Req) (e : Ent) (status : Nat) (hdrs : List (HName × HVal))
    (a b : Nat) (inc : Bool) (calls : List EntCall) : Resp :=
  { status := status
    headers := if inc then (hdrs ++ [(.contentLength, .bytes (dec (b - a)))]) ++ entHeaders e
               else hdrs ++ [(.contentLength, .bytes (dec (b - a)))]
    plan := if q.method = .head then .empty else .exact a b
    calls := if inc then (if q.method = .head then calls else calls ++ [.getRange a b]) ++ [.addHeaders]
             else (if q.method = .head then calls else calls ++ [.getRange a b]) }

theorem serveSimple_eq (q : Req) (e : Ent) (status : Nat) (hdrs : List (HName × HVal))
    (a b : Nat) (inc : Bool) (calls : List EntCall) (h : a ≤ b) :
    serveSimple q e status hdrs a b inc calls = .ok (simpleResp q e status hdrs a b inc calls) := by
  simp only [serveSimple, subChk_ok h, bind, R.bind, simpleResp, pure]
  by_cases hm : q.method = .head <;> simp [hm]

/-- The branch `serve` takes, with the data that branch computed. -/
inductive Br where
  | other
  | bad (err : CondErr)
  | pf
  | nm
  | full
  | unsat
  | single (a b : Nat) (inc : Bool)
  | m413 (rs : List (Nat × Nat)) (inc : Bool)
  | m206 (rs : List (Nat × Nat)) (inc : Bool) (phs : List Bytes) (total : Nat)

def crSingle (a b len : Nat) : HVal :=
  .bytes (kBytesSp ++ dec a ++ [cHyphen] ++ dec (b - 1) ++ [cSlash] ++ dec len)

def Br.resp (q : Req) (e : Ent) (now : Nat) : Br → Resp
  | .other => { status := 405, headers := [(.allow, .bytes kGetHead)], plan := .once 41, calls := [] }
  | .bad err => { status := 400, headers := [], plan := .once err.msgLen, calls := calls0 }
  | .pf => { status := 412, headers := commonHeaders e now, plan := .once 19, calls := calls0 }
  | .nm => { status := 304, headers := commonHeaders e now, plan := .empty, calls := calls0 }
  | .full => simpleResp q e 200 (commonHeaders e now) 0 e.len true calls1
  | .unsat => { status := 416,
                headers := commonHeaders e now ++ [(.contentRange, .bytes (kBytesStar ++ dec e.len))],
                plan := .empty, calls := calls1 }
  | .single a b inc =>
      simpleResp q e 206 (commonHeaders e now ++ [(.contentRange, crSingle a b e.len)]) a b inc calls1
  | .m413 _ inc => { status := 413, headers := [], plan := .once 28, calls := calls2 inc }
  | .m206 rs inc phs total =>
      { status := 206,
        headers := commonHeaders e now ++ [(.contentLength, .bytes (dec total)),
                                           (.contentType, .bytes kMultipartCT)],
        plan := if q.method = .head then .empty else .multipart phs rs total,
        calls := calls2 inc }

def partEh (e : Ent) (inc : Bool) : Bytes := if inc then eachPartHeaders e.headers else []

def small (rs : List (Nat × Nat)) (len : Nat) : Bool := decide (est rs < U64 ∧ est rs < len)

/-- Branch for a non-empty list of satisfiable ranges. -/
def rangesBr (e : Ent) (inc : Bool) : List (Nat × Nat) → Br
  | [(a, b)] => .single a b inc
  | rs =>
    if small rs e.len then
      match prepareMultipart rs e.len (partEh e inc) with
      | .ok (some (phs, total)) => .m206 rs inc phs total
      | _ => .m413 rs inc
    else .full

/-- Branch for a GET/HEAD request: does not look at the method. -/
def tailBr (q : Req) (e : Ent) : Br :=
  match parseModifiedHdrs e.etag q.ifMatch q.ifNoneMatch q.ius q.ims e.mtime with
  | .error err => .bad err
  | .ok (true, _) => .pf
  | .ok (false, true) => .nm
  | .ok (false, false) =>
    match parseRange (if (ifRangeGate e.etag q.ifRange).1 then q.range else none) e.len with
    | .ok (.sat rs) => rangesBr e (ifRangeGate e.etag q.ifRange).2 rs
    | .ok .unsat => .unsat
    | _ => .full

def classify (q : Req) (e : Ent) : Br := if q.method = .other then .other else tailBr q e

/-- Side conditions that hold for the data in a branch. -/
def Br.good (e : Ent) : Br → Prop
  | .single a b _ => a < b ∧ b ≤ e.len
  | .m413 rs inc => prepareMultipart rs e.len (partEh e inc) = .ok none
  | .m206 rs inc phs total =>
      (∀ r ∈ rs, r.1 < r.2 ∧ r.2 ≤ e.len) ∧
      prepareMultipart rs e.len (partEh e inc) = .ok (some (phs, total))
  | _ => True

theorem serve_multi (q : Req) (e : Ent) (now : Nat) (x y : Nat × Nat) (t : List (Nat × Nat))
    (inc : Bool) (hb : ∀ r ∈ x :: y :: t, r.1 < r.2 ∧ r.2 ≤ e.len) :
    (do
      let est ← estLen (x :: y :: t) 0
      let small := match est with
        | some l => decide (l < e.len)
        | none => false
      if small then
        let eh := if inc then eachPartHeaders e.headers else []
        let calls2 := if inc then [EntCall.lastModified, .etag] ++ [.len] ++ [.addHeaders]
                      else [EntCall.lastModified, .etag] ++ [.len]
        match ← prepareMultipart (x :: y :: t) e.len eh with
        | none =>
          pure { status := 413, headers := [], plan := .once 28, calls := calls2 }
        | some (phs, total) =>
          let hdrs := commonHeaders e now ++ [(.contentLength, .bytes (dec total)),
                               (.contentType, .bytes kMultipartCT)]
          if q.method = .head then
            pure { status := 206, headers := hdrs, plan := .empty, calls := calls2 }
          else
            pure { status := 206, headers := hdrs, plan := .multipart phs (x :: y :: t) total,
                   calls := calls2 }
      else serveSimple q e 200 (commonHeaders e now) 0 e.len true
            ([EntCall.lastModified, .etag] ++ [.len]) : R Resp)
      = .ok ((rangesBr e inc (x :: y :: t)).resp q e now) ∧ (rangesBr e inc (x :: y :: t)).good e := by
  have hle : ∀ r ∈ x :: y :: t, r.1 ≤ r.2 := fun r hr => Nat.le_of_lt (hb r hr).1
  have hlt : ∀ r ∈ x :: y :: t, r.1 < r.2 := fun r hr => (hb r hr).1
  rw [estLen_eq _ 0 (by simp [U64]) hle]
  simp only [rangesBr, small, bind, R.bind, Nat.zero_add]
  by_cases h1 : est (x :: y :: t) < U64
  · by_cases h2 : est (x :: y :: t) < e.len
    · obtain ⟨o, ho⟩ := prepareMultipart_ok (x :: y :: t) e.len (partEh e inc) hlt
      simp only [partEh] at ho
      simp only [h1, h2, if_true, decide_true, and_self, partEh, ho]
      cases o with
      | none => simp [Br.resp, Br.good, calls2, calls1, pure, partEh, ho]
      | some p =>
        obtain ⟨phs, total⟩ := p
        refine ⟨?_, ?_⟩
        · by_cases hm : q.method = .head <;> simp [Br.resp, calls2, calls1, pure, hm]
        · exact ⟨hb, by simp [partEh, ho]⟩
    · simp [h1, h2, Br.resp, Br.good, calls1, serveSimple_eq]
  · simp [h1, Br.resp, Br.good, calls1, serveSimple_eq]

theorem serve_eq (q : Req) (e : Ent) (now : Nat) :
    serve q e now = .ok ((classify q e).resp q e now) ∧ (classify q e).good e := by
  unfold serve classify
  by_cases hm : q.method = .other
  · simp [hm, Br.resp, Br.good]
  · simp only [hm, if_false]
    unfold tailBr
    cases hpm : parseModifiedHdrs e.etag q.ifMatch q.ifNoneMatch q.ius q.ims e.mtime with
    | error err => simp [Br.resp, Br.good, calls0]
    | ok p =>
      obtain ⟨pf, nm⟩ := p
      cases pf
      · cases nm
        · simp only [Bool.false_eq_true, if_false]
          generalize (ifRangeGate e.etag q.ifRange).2 = inc
          cases hpr : parseRange (if (ifRangeGate e.etag q.ifRange).fst = true then q.range else none)
              e.len with
          | panic => exact absurd hpr (parseRange_total _ _)
          | ok res =>
            cases res with
            | none => simp [Br.resp, Br.good, calls1, serveSimple_eq]
            | unsat => simp [Br.resp, Br.good, calls1]
            | sat rs =>
              obtain ⟨hne, hb⟩ := parseRange_sat_bounds _ _ _ hpr
              match rs, hne, hb with
              | [(a, b)], _, hb =>
                have hab := hb (a, b) (by simp)
                simp only [rangesBr, Br.resp, Br.good, subChk_ok (show 1 ≤ b by omega), bind, R.bind,
                  serveSimple_eq _ _ _ _ _ _ _ _ (Nat.le_of_lt hab.1), crSingle, calls1]
                exact ⟨rfl, hab⟩
              | x :: y :: t, _, hb => exact serve_multi q e now x y t inc hb
        · simp [Br.resp, Br.good, calls0]
      · simp [Br.resp, Br.good, calls0]

theorem serve_ok {q : Req} {e : Ent} {now : Nat} {r : Resp} (h : serve q e now = .ok r) :
    r = (classify q e).resp q e now ∧ (classify q e).good e := by
  obtain ⟨h1, h2⟩ := serve_eq q e now
  rw [h1] at h
  exact ⟨(R.ok.inj h).symm, h2⟩

/-! ### Header lookups -/

theorem lookup_cons_if {β : Type} (a k : HName) (b : β) (as : List (HName × β)) :
    List.lookup a ((k, b) :: as) = if a = k then some b else List.lookup a as := by
  rw [List.lookup_cons]
  by_cases h : a = k
  · simp [h]
  · have : (a == k) = false := by simpa using h
    simp [h, this]

theorem lookup_common_cl (e : Ent) (now : Nat) :
    (commonHeaders e now).lookup .contentLength = none := by
  unfold commonHeaders; cases e.mtime <;> cases e.etag <;> simp [lookup_cons_if]

theorem lookup_common_cr (e : Ent) (now : Nat) :
    (commonHeaders e now).lookup .contentRange = none := by
  unfold commonHeaders; cases e.mtime <;> cases e.etag <;> simp [lookup_cons_if]

theorem lookup_common_ct (e : Ent) (now : Nat) :
    (commonHeaders e now).lookup .contentType = none := by
  unfold commonHeaders; cases e.mtime <;> cases e.etag <;> simp [lookup_cons_if]

theorem lookup_ent (e : Ent) (n : HName) (h : ∀ k, n ≠ .ent k) :
    (entHeaders e).lookup n = none := by
  unfold entHeaders
  induction e.headers with
  | nil => rfl
  | cons x t ih =>
    obtain ⟨k, v⟩ := x
    simp [lookup_cons_if, ih, h k]

theorem lookup_ent_cl (e : Ent) : (entHeaders e).lookup .contentLength = none :=
  lookup_ent e _ (by simp)
theorem lookup_ent_cr (e : Ent) : (entHeaders e).lookup .contentRange = none :=
  lookup_ent e _ (by simp)
theorem lookup_ent_ct (e : Ent) : (entHeaders e).lookup .contentType = none :=
  lookup_ent e _ (by simp)

end HS.ServeLemmas

namespace HS
open ServeLemmas

/-- C13: `serve` is total — no request, no entity (length below 2^64) and no clock makes it
reach a panic site. -/
theorem serve_total (q : Req) (e : Ent) (now : Nat) (hlen : e.len < U64) : serve q e now ≠ .panic := by
  have _ := hlen
  rw [(serve_eq q e now).1]; simp

/-- C13: the status is always one of these eight. -/
theorem serve_status_set (q : Req) (e : Ent) (now : Nat) (r : Resp) (h : serve q e now = .ok r) :
    r.status ∈ [200, 206, 304, 400, 405, 412, 413, 416] := by
  obtain ⟨rfl, _⟩ := serve_ok h
  cases classify q e <;> simp [Br.resp, simpleResp]

/-- C13: any method other than GET/HEAD gets 405 + Allow, and the entity is not touched. -/
theorem serve_method_gate (q : Req) (e : Ent) (now : Nat) (hm : q.method = .other) :
    serve q e now = .ok { status := 405, headers := [(.allow, .bytes kGetHead)], plan := .once 41,
                          calls := [] } := by
  simp [serve, hm]

/-- C13/C20: the body `serve` returns starts in a state satisfying the body invariant, for any
entity scripts — so (by `run_no_panic`) draining it never panics. -/
theorem serve_body_inv (q : Req) (e : Ent) (now : Nat) (r : Resp) (hlen : e.len < U64)
    (h : serve q e now = .ok r) (scripts : List (List Ev)) :
    ∃ b, BodyS.ofPlan r.plan scripts = .ok b ∧ BInv b := by
  have _ := hlen
  obtain ⟨rfl, hg⟩ := serve_ok h
  cases hbr : classify q e with
  | other => exact ⟨_, rfl, trivial⟩
  | bad err => exact ⟨_, rfl, trivial⟩
  | pf => exact ⟨_, rfl, trivial⟩
  | nm => exact ⟨_, rfl, trivial⟩
  | unsat => exact ⟨_, rfl, trivial⟩
  | m413 rs inc => exact ⟨_, rfl, trivial⟩
  | full =>
    by_cases hm : q.method = .head
    · simp [Br.resp, simpleResp, hm, BodyS.ofPlan, BInv]
    · simp [Br.resp, simpleResp, hm, BodyS.ofPlan, BInv, ExactLen.Ok, subChk_ok, bind, R.bind]
  | single a b inc =>
    rw [hbr] at hg
    have hab : a ≤ b := Nat.le_of_lt hg.1
    by_cases hm : q.method = .head
    · simp [Br.resp, simpleResp, hm, BodyS.ofPlan, BInv]
    · simp [Br.resp, simpleResp, hm, BodyS.ofPlan, BInv, ExactLen.Ok, subChk_ok hab, bind, R.bind]
  | m206 rs inc phs total =>
    rw [hbr] at hg
    obtain ⟨hb, hp⟩ := hg
    obtain ⟨h1, h2, _⟩ := prepareMultipart_spec _ _ _ _ _ hp
    by_cases hm : q.method = .head
    · simp [Br.resp, hm, BodyS.ofPlan, BInv]
    · simp only [Br.resp, hm, if_false, BodyS.ofPlan]
      exact ⟨_, rfl, Multipart.new_inv phs rs total scripts h1 h2
        (fun r hr => Nat.le_of_lt (hb r hr).1)⟩

/-- C15: HEAD mirrors GET: same status, same headers (the clock being the same parameter), no
`get_range` call; empty body for 2xx/3xx/416 and the same fixed text for 400/412/413. -/
theorem head_mirrors_get (q : Req) (e : Ent) (now : Nat) (rg rh : Resp)
    (hg : serve { q with method := .get } e now = .ok rg)
    (hh : serve { q with method := .head } e now = .ok rh) :
    rh.status = rg.status ∧ rh.headers = rg.headers ∧
    (∀ a b, EntCall.getRange a b ∉ rh.calls) ∧
    (rg.status ∈ [200, 206, 304, 416] → rh.plan = .empty) ∧
    (rg.status ∈ [400, 412, 413] → rh.plan = rg.plan) := by
  obtain ⟨rfl, _⟩ := serve_ok hg
  obtain ⟨rfl, _⟩ := serve_ok hh
  have h1 : classify { q with method := .get } e = tailBr q e := rfl
  have h2 : classify { q with method := .head } e = tailBr q e := rfl
  rw [h1, h2]
  cases tailBr q e with
  | single a b inc => cases inc <;> simp [Br.resp, simpleResp, calls1]
  | m413 rs inc => cases inc <;> simp [Br.resp, calls1, calls2]
  | m206 rs inc phs total => cases inc <;> simp [Br.resp, calls1, calls2]
  | _ => simp [Br.resp, simpleResp, calls0, calls1]

/-- C01: every 200 and 206 carries a Content-Length, which is a number below 2^64 and — for
GET — exactly the body's initial (exact) size hint. -/
theorem content_length_announces (q : Req) (e : Ent) (now : Nat) (r : Resp) (hlen : e.len < U64)
    (h : serve q e now = .ok r) (hs : r.status = 200 ∨ r.status = 206) :
    ∃ n, n < U64 ∧ r.header .contentLength = some (.bytes (dec n)) ∧
      (q.method = .get → ∀ scripts b, BodyS.ofPlan r.plan scripts = .ok b → b.sizeHint = n) := by
  obtain ⟨rfl, hg⟩ := serve_ok h
  cases hbr : classify q e with
  | other => simp [hbr, Br.resp] at hs
  | bad err => simp [hbr, Br.resp] at hs
  | pf => simp [hbr, Br.resp] at hs
  | nm => simp [hbr, Br.resp] at hs
  | unsat => simp [hbr, Br.resp] at hs
  | m413 rs inc => simp [hbr, Br.resp] at hs
  | full =>
    refine ⟨e.len, hlen, ?_, ?_⟩
    · simp [Resp.header, Br.resp, simpleResp, List.lookup_append, lookup_common_cl]
    · intro hm scripts b hb
      simp [Br.resp, simpleResp, hm, BodyS.ofPlan, subChk_ok, bind, R.bind] at hb
      subst hb; rfl
  | single a b inc =>
    rw [hbr] at hg
    obtain ⟨hab, hbl⟩ := hg
    refine ⟨b - a, by omega, ?_, ?_⟩
    · cases inc <;>
        simp [Resp.header, Br.resp, simpleResp, List.lookup_append, lookup_cons_if, lookup_common_cl]
    · intro hm scripts bd hb
      simp [Br.resp, simpleResp, hm, BodyS.ofPlan, subChk_ok (Nat.le_of_lt hab), bind, R.bind] at hb
      subst hb; rfl
  | m206 rs inc phs total =>
    rw [hbr] at hg
    obtain ⟨_, hp⟩ := hg
    obtain ⟨_, _, ht⟩ := prepareMultipart_spec _ _ _ _ _ hp
    refine ⟨total, ht, ?_, ?_⟩
    · simp [Resp.header, Br.resp, List.lookup_append, lookup_common_cl]
    · intro hm scripts bd hb
      simp [Br.resp, hm, BodyS.ofPlan] at hb
      subst hb; rfl

/-- C01: the other statuses carry no Content-Length and a fixed body (`Once`), whose size hint
is exact by construction. -/
theorem no_content_length_otherwise (q : Req) (e : Ent) (now : Nat) (r : Resp)
    (h : serve q e now = .ok r) (hs : r.status ≠ 200 ∧ r.status ≠ 206) :
    r.header .contentLength = none ∧ (r.plan = .empty ∨ ∃ n, r.plan = .once n) := by
  obtain ⟨rfl, _⟩ := serve_ok h
  cases hbr : classify q e with
  | full => simp [hbr, Br.resp, simpleResp] at hs
  | single a b inc => simp [hbr, Br.resp, simpleResp] at hs
  | m206 rs inc phs total => simp [hbr, Br.resp] at hs
  | _ => simp [Resp.header, Br.resp, List.lookup_append, lookup_cons_if, lookup_common_cl]

/-- C02: a single-range 206 names `bytes a-b/L` with `a ≤ b < L = len` and fetches exactly that
range, once. (`b'` is the exclusive end, so the header shows `b' - 1`.) -/
theorem single_range_shape (q : Req) (e : Ent) (now : Nat) (r : Resp) (hlen : e.len < U64)
    (h : serve q e now = .ok r) (hget : q.method = .get) (hs : r.status = 206)
    (cr : HVal) (hcr : r.header .contentRange = some cr) :
    ∃ a b', a < b' ∧ b' ≤ e.len ∧
      cr = .bytes (kBytesSp ++ dec a ++ [45] ++ dec (b' - 1) ++ [47] ++ dec e.len) ∧
      r.plan = .exact a b' ∧ r.calls.filter EntCall.isGetRange = [.getRange a b'] := by
  have _ := hlen
  obtain ⟨rfl, hg⟩ := serve_ok h
  cases hbr : classify q e with
  | other => simp [hbr, Br.resp] at hs
  | bad err => simp [hbr, Br.resp] at hs
  | pf => simp [hbr, Br.resp] at hs
  | nm => simp [hbr, Br.resp] at hs
  | unsat => simp [hbr, Br.resp] at hs
  | m413 rs inc => simp [hbr, Br.resp] at hs
  | full => simp [hbr, Br.resp, simpleResp] at hs
  | m206 rs inc phs total =>
    simp [hbr, Resp.header, Br.resp, List.lookup_append, lookup_cons_if, lookup_common_cr] at hcr
  | single a b inc =>
    rw [hbr] at hg hcr
    obtain ⟨hab, hbl⟩ := hg
    refine ⟨a, b, hab, hbl, ?_, ?_, ?_⟩
    · cases inc <;>
        simp [Resp.header, Br.resp, simpleResp, List.lookup_append, lookup_common_cr,
          crSingle, cHyphen, cSlash] at hcr <;> simp [hcr.symm]
    · simp [Br.resp, simpleResp, hget]
    · cases inc <;> simp [Br.resp, simpleResp, hget, calls1, EntCall.isGetRange, List.filter]

/-- C02: a 200 to GET fetches the complete entity, once, and has no Content-Range. -/
theorem full_200_shape (q : Req) (e : Ent) (now : Nat) (r : Resp)
    (h : serve q e now = .ok r) (hget : q.method = .get) (hs : r.status = 200) :
    r.plan = .exact 0 e.len ∧ r.calls.filter EntCall.isGetRange = [.getRange 0 e.len] ∧
    r.header .contentRange = none := by
  obtain ⟨rfl, _⟩ := serve_ok h
  cases hbr : classify q e with
  | full =>
    simp [Resp.header, Br.resp, simpleResp, hget, calls1, EntCall.isGetRange, List.lookup_append,
      lookup_cons_if, lookup_common_cr, lookup_ent_cr, List.filter]
  | single a b inc => simp [hbr, Br.resp, simpleResp] at hs
  | _ => simp [hbr, Br.resp] at hs

/-- C02: no entity bytes are fetched at `serve` time for any other status (multipart bodies
fetch while being polled: see the body theorems). -/
theorem no_fetch_otherwise (q : Req) (e : Ent) (now : Nat) (r : Resp)
    (h : serve q e now = .ok r) (hs : r.status ≠ 200) (hcr : r.header .contentRange = none) :
    ∀ a b, EntCall.getRange a b ∉ r.calls := by
  obtain ⟨rfl, _⟩ := serve_ok h
  cases hbr : classify q e with
  | full => simp [hbr, Br.resp, simpleResp] at hs
  | single a b inc =>
    cases inc <;>
      simp [hbr, Resp.header, Br.resp, simpleResp, List.lookup_append, lookup_common_cr] at hcr
  | m413 rs inc => cases inc <;> simp [Br.resp, calls1, calls2]
  | m206 rs inc phs total => cases inc <;> simp [Br.resp, calls1, calls2]
  | _ => simp [Br.resp, calls0, calls1]

/-! ### C03: dispatch on the resolved ranges, for a request carrying only a Range header -/

def rangeOnly (m : Method) (hdr : Option Bytes) : Req := { method := m, range := hdr }

namespace ServeLemmas

theorem classify_rangeOnly (m : Method) (hm : m ≠ .other) (hdr : Option Bytes) (e : Ent) :
    classify (rangeOnly m hdr) e =
      match parseRange hdr e.len with
      | .ok (.sat rs) => rangesBr e true rs
      | .ok .unsat => .unsat
      | _ => .full := by
  have hpm : parseModifiedHdrs e.etag none none .absent .absent e.mtime = .ok (false, false) := by
    cases e.mtime <;>
      simp [parseModifiedHdrs, precondFailed, notModified, anyMatch, noneMatch]
  simp [classify, rangeOnly, hm, tailBr, hpm, ifRangeGate]

end ServeLemmas

theorem dispatch_none (m : Method) (hm : m ≠ .other) (hdr : Option Bytes) (e : Ent) (now : Nat)
    (hp : parseRange hdr e.len = .ok .none) :
    ∃ r, serve (rangeOnly m hdr) e now = .ok r ∧ r.status = 200 ∧ r.header .contentRange = none ∧
      (m = .get → r.plan = .exact 0 e.len) := by
  refine ⟨_, (serve_eq _ e now).1, ?_⟩
  rw [classify_rangeOnly m hm, hp]
  refine ⟨rfl, ?_, ?_⟩
  · simp [Resp.header, Br.resp, simpleResp, List.lookup_append, lookup_cons_if, lookup_common_cr,
      lookup_ent_cr]
  · intro h; simp [Br.resp, simpleResp, rangeOnly, h]

theorem dispatch_unsat (m : Method) (hm : m ≠ .other) (hdr : Option Bytes) (e : Ent) (now : Nat)
    (hp : parseRange hdr e.len = .ok .unsat) :
    ∃ r, serve (rangeOnly m hdr) e now = .ok r ∧ r.status = 416 ∧
      r.header .contentRange = some (.bytes (kBytesStar ++ dec e.len)) ∧ r.plan = .empty := by
  refine ⟨_, (serve_eq _ e now).1, ?_⟩
  rw [classify_rangeOnly m hm, hp]
  refine ⟨rfl, ?_, rfl⟩
  simp [Resp.header, Br.resp, List.lookup_append, lookup_common_cr]

theorem dispatch_single (m : Method) (hm : m ≠ .other) (hdr : Option Bytes) (e : Ent) (now : Nat)
    (a b : Nat) (hab : a < b) (hp : parseRange hdr e.len = .ok (.sat [(a, b)])) :
    ∃ r, serve (rangeOnly m hdr) e now = .ok r ∧ r.status = 206 ∧
      r.header .contentRange =
        some (.bytes (kBytesSp ++ dec a ++ [45] ++ dec (b - 1) ++ [47] ++ dec e.len)) ∧
      (m = .get → r.plan = .exact a b) := by
  have _ := hab
  refine ⟨_, (serve_eq _ e now).1, ?_⟩
  rw [classify_rangeOnly m hm, hp]
  refine ⟨rfl, ?_, ?_⟩
  · simp [rangesBr, Resp.header, Br.resp, simpleResp, List.lookup_append, lookup_common_cr,
      crSingle, cHyphen, cSlash]
  · intro h; simp [rangesBr, Br.resp, simpleResp, rangeOnly, h]

/-- Several satisfiable ranges: a multipart 206 of exactly those ranges in request order when
the RFC's estimate (80 bytes of overhead per part) is below the entity length, or 413 when
the exact multipart length does not fit in 64 bits; otherwise a complete 200. -/
theorem dispatch_multi (m : Method) (hm : m ≠ .other) (hdr : Option Bytes) (e : Ent) (now : Nat)
    (hlen : e.len < U64) (rs : List (Nat × Nat)) (h2 : 2 ≤ rs.length)
    (hp : parseRange hdr e.len = .ok (.sat rs)) :
    ∃ r, serve (rangeOnly m hdr) e now = .ok r ∧
      (if (rs.map fun x => 80 + (x.2 - x.1)).sum < e.len then
         (r.status = 206 ∧ r.header .contentRange = none ∧
            r.header .contentType = some (.bytes kMultipartCT) ∧
            (m = .get → ∃ phs total, r.plan = .multipart phs rs total))
         ∨ (r.status = 413 ∧
            prepareMultipart rs e.len (eachPartHeaders e.headers) = .ok none)
       else
         r.status = 200 ∧ r.header .contentRange = none ∧ (m = .get → r.plan = .exact 0 e.len)) := by
  refine ⟨_, (serve_eq _ e now).1, ?_⟩
  have hgood := (serve_eq (rangeOnly m hdr) e now).2
  rw [classify_rangeOnly m hm, hp] at hgood ⊢
  match rs, h2 with
  | x :: y :: t, _ =>
    simp only [rangesBr] at hgood ⊢
    change (if est (x :: y :: t) < e.len then _ else _)
    by_cases hsm : est (x :: y :: t) < e.len
    · have hsmall : small (x :: y :: t) e.len = true := by
        simp only [small, decide_eq_true_eq]; exact ⟨by omega, hsm⟩
      simp only [hsmall, hsm, if_true] at hgood ⊢
      cases hpm : prepareMultipart (x :: y :: t) e.len (partEh e true) with
      | panic =>
        simp only [hpm, Br.good] at hgood
        cases hgood
      | ok o =>
        cases o with
        | none =>
          right
          exact ⟨rfl, by simpa [partEh] using hpm⟩
        | some p =>
          obtain ⟨phs, total⟩ := p
          left
          refine ⟨rfl, ?_, ?_, ?_⟩
          · simp [Resp.header, Br.resp, List.lookup_append, lookup_cons_if, lookup_common_cr]
          · simp [Resp.header, Br.resp, List.lookup_append, lookup_cons_if, lookup_common_ct]
          · intro h; exact ⟨phs, total, by simp [Br.resp, rangeOnly, h]⟩
    · have hsmall : small (x :: y :: t) e.len = false := by
        simp [small, hsm]
      simp only [hsmall, hsm, if_false]
      refine ⟨rfl, ?_, ?_⟩
      · simp [Resp.header, Br.resp, simpleResp, List.lookup_append, lookup_cons_if,
          lookup_common_cr, lookup_ent_cr]
      · intro h; simp [Br.resp, simpleResp, rangeOnly, h]

end HS
