import HttpServeModel.Spec.Pipe

namespace HS.PipeLemmas

/-! ### Producer operations at `Sys` level -/

theorem pop_gone {s : Sys} (hb : s.bw = .gone) (op : POp) : s.pop op = (s, .unit, []) := by
  simp [Sys.pop, hb]

theorem pop_write_full {s : Sys} {ready rb wd} (bs : Bytes) (hb : s.bw = .raw)
    (hs : s.sh.state = .ok ready rb wd) (hl : s.buf.length < s.cap)
    (hf : s.cap - s.buf.length ≤ bs.length) :
    s.pop (.write bs) =
      ({ s with sh := { state := .ok (ready ++ [s.buf ++ bs.take (s.cap - s.buf.length)])
                          (rb + s.cap) false, waker := none }, buf := [] },
        .wrote (s.cap - s.buf.length), s.sh.waker.toList) := by
  have hne : ¬ (s.buf = [] ∧ (s.cap - s.buf.length = 0 ∨ bs = [])) := by
    rintro ⟨h1, h2 | h2⟩
    · omega
    · subst h2; simp at hf; omega
  simp [Sys.pop, hb, writerWrite, flushHelper, hs, hf, hne]
  omega

theorem pop_write_part {s : Sys} (bs : Bytes) (hb : s.bw = .raw)
    (hf : ¬ s.cap - s.buf.length ≤ bs.length) :
    s.pop (.write bs) = ({ s with buf := s.buf ++ bs }, .wrote bs.length, []) := by
  simp [Sys.pop, hb, writerWrite, hf]

theorem pop_flush_empty {s : Sys} {ready rb wd} (hb : s.bw = .raw)
    (hs : s.sh.state = .ok ready rb wd) (he : s.buf = []) :
    s.pop .flush = (s, .ok, []) := by
  cases s; simp_all [Sys.pop, flushHelper]

theorem pop_flush_nonempty {s : Sys} {ready rb wd} (hb : s.bw = .raw)
    (hs : s.sh.state = .ok ready rb wd) (he : s.buf ≠ []) :
    s.pop .flush =
      ({ s with sh := { state := .ok (ready ++ [s.buf]) (rb + s.buf.length) false, waker := none },
                buf := [] }, .ok, s.sh.waker.toList) := by
  simp [Sys.pop, hb, flushHelper, hs, he]

theorem pop_drop_empty {s : Sys} {ready rb wd} (hb : s.bw = .raw)
    (hs : s.sh.state = .ok ready rb wd) (he : s.buf = []) :
    s.pop .drop =
      ({ s with sh := { state := .ok ready rb true, waker := none }, buf := [], bw := .gone },
        .unit, s.sh.waker.toList) := by
  simp [Sys.pop, hb, flushHelper, hs, he]

theorem pop_drop_nonempty {s : Sys} {ready rb wd} (hb : s.bw = .raw)
    (hs : s.sh.state = .ok ready rb wd) (he : s.buf ≠ []) :
    s.pop .drop =
      ({ s with sh := { state := .ok (ready ++ [s.buf]) (rb + s.buf.length) true, waker := none },
                buf := [], bw := .gone }, .unit, s.sh.waker.toList) := by
  simp [Sys.pop, hb, flushHelper, hs, he]

/-! ### History steps -/

theorem step_write_wrote {h : Hist} {bs : Bytes} {s' n wk}
    (e : h.sys.pop (.write bs) = (s', .wrote n, wk)) :
    h.step (.p (.write bs)) =
      { h with sys := s', accepted := h.accepted ++ bs.take n, pouts := h.pouts ++ [.wrote n] } := by
  simp [Hist.step, e]

theorem step_write_unit {h : Hist} {bs : Bytes} {s' wk}
    (e : h.sys.pop (.write bs) = (s', .unit, wk)) :
    h.step (.p (.write bs)) = { h with sys := s', pouts := h.pouts ++ [.unit] } := by
  simp [Hist.step, e]

theorem step_flush {h : Hist} {s' o wk} (e : h.sys.pop .flush = (s', o, wk)) :
    h.step (.p .flush) = { h with sys := s', pouts := h.pouts ++ [o] } := by
  simp [Hist.step, e]

theorem step_drop {h : Hist} {s' o wk} (e : h.sys.pop .drop = (s', o, wk)) :
    h.step (.p .drop) = { h with sys := s', pouts := h.pouts ++ [o] } := by
  simp [Hist.step, e]

theorem step_abort {h : Hist} {s' o wk} (e : h.sys.pop .abort = (s', o, wk)) :
    h.step (.p .abort) = { h with sys := s', pouts := h.pouts ++ [o] } := by
  simp [Hist.step, e]

theorem step_c_dead {h : Hist} (ha : h.sys.readerAlive = false) (op : COp) :
    h.step (.c op) = h := by
  simp [Hist.step, Sys.cop, ha]

theorem step_sizeHint (h : Hist) : h.step (.c .sizeHint) = h := by
  cases ha : h.sys.readerAlive <;> simp [Hist.step, Sys.cop, ha]

theorem step_isEndStream (h : Hist) : h.step (.c .isEndStream) = h := by
  cases ha : h.sys.readerAlive <;> simp [Hist.step, Sys.cop, ha]

theorem step_poll_data {h : Hist} {w sh' d} (ha : h.sys.readerAlive = true)
    (e : readerPoll h.sys.sh w = (sh', .data d)) :
    h.step (.c (.poll w)) =
      { h with sys := { h.sys with sh := sh' }, frames := h.frames ++ [d],
               polls := h.polls ++ [.data d] } := by
  simp [Hist.step, Sys.cop, ha, e]

theorem step_poll_other {h : Hist} {w sh' r} (ha : h.sys.readerAlive = true)
    (e : readerPoll h.sys.sh w = (sh', r)) (hr : ∀ d, r ≠ .data d) :
    h.step (.c (.poll w)) =
      { h with sys := { h.sys with sh := sh' }, polls := h.polls ++ [r] } := by
  cases r <;> simp_all [Hist.step, Sys.cop]

theorem step_drop_c {h : Hist} (ha : h.sys.readerAlive = true) :
    h.step (.c .drop) =
      { h with sys := { h.sys with sh := { state := .fused, waker := none }, readerAlive := false } } := by
  simp [Hist.step, Sys.cop, ha, readerDrop]

/-! ### `readerPoll` by cases -/

theorem poll_pending {sh : Shared} (w : Nat) (hs : sh.state = .ok [] 0 false) :
    readerPoll sh w = ({ state := .ok [] 0 false, waker := some w }, .pending) := by
  simp [readerPoll, hs]

theorem poll_end {sh : Shared} (w : Nat) (hs : sh.state = .ok [] 0 true) :
    readerPoll sh w = ({ sh with state := .fused }, .end_) := by
  simp [readerPoll, hs]

theorem poll_fused {sh : Shared} (w : Nat) (hs : sh.state = .fused) :
    readerPoll sh w = (sh, .end_) := by
  simp [readerPoll, hs]

theorem poll_err {sh : Shared} (w : Nat) (hs : sh.state = .err) :
    readerPoll sh w = ({ sh with state := .fused }, .err) := by
  simp [readerPoll, hs]

theorem poll_data {sh : Shared} {c rest rb wd} (w : Nat) (hs : sh.state = .ok (c :: rest) rb wd)
    (hl : c.length ≤ rb) (hm : rest ≠ [] ∨ wd = false) :
    readerPoll sh w = ({ sh with state := .ok rest (rb - c.length) wd }, .data c) := by
  rcases hm with hm | hm <;> simp [readerPoll, hs, hl, hm]

theorem poll_last {sh : Shared} {c rb} (w : Nat) (hs : sh.state = .ok [c] rb true)
    (hl : c.length ≤ rb) :
    readerPoll sh w = ({ sh with state := .fused }, .data c) := by
  simp [readerPoll, hs, hl]

/-- Invariant of plain histories on a raw writer. -/
structure Good (cap : Nat) (h : Hist) : Prop where
  alive : h.sys.readerAlive = true
  cap_eq : h.sys.cap = cap
  buf_lt : h.sys.buf.length < cap
  inv : h.delivered ++ h.sys.inflight ++ h.sys.buf = h.accepted
  frames_ok : ∀ f ∈ h.frames, f ≠ [] ∧ f.length ≤ cap
  noerr : POut.err ∉ h.pouts ∧ ROut.err ∉ h.polls ∧ ROut.panic ∉ h.polls
  st : (∃ ready rb wd, h.sys.sh.state = .ok ready rb wd ∧ rb = ready.flatten.length ∧
          (∀ c ∈ ready, c ≠ [] ∧ c.length ≤ cap) ∧
          h.sys.bw = (if wd then .gone else .raw) ∧ (wd = true → h.sys.buf = []) ∧
          ROut.end_ ∉ h.polls)
       ∨ (h.sys.sh.state = .fused ∧ h.sys.bw = .gone ∧ h.sys.buf = [])

theorem good_init (cap : Nat) (hc : 0 < cap) : Good cap (Hist.init cap .raw) := by
  refine ⟨rfl, rfl, by simpa [Hist.init] using hc, rfl, by simp [Hist.init], by simp [Hist.init], ?_⟩
  left
  exact ⟨[], 0, false, rfl, rfl, by simp, rfl, by simp, by simp [Hist.init]⟩

theorem Good.bw_cases {cap h} (g : Good cap h) : h.sys.bw = .raw ∨ h.sys.bw = .gone := by
  rcases g.st with ⟨_, _, wd, _, _, _, hb, _⟩ | ⟨_, hb, _⟩
  · cases wd <;> simp [hb]
  · simp [hb]

/-- When the writer is live the shared state is `ok … false`. -/
theorem Good.raw_ok {cap h} (g : Good cap h) (hb : h.sys.bw = .raw) :
    ∃ ready, h.sys.sh.state = .ok ready ready.flatten.length false ∧
      (∀ c ∈ ready, c ≠ [] ∧ c.length ≤ cap) ∧ ROut.end_ ∉ h.polls := by
  rcases g.st with ⟨ready, _, wd, hs, rfl, hr, hb', _, he⟩ | ⟨_, hb', _⟩
  · cases wd
    · exact ⟨ready, hs, hr, he⟩
    · simp [hb] at hb'
  · simp [hb] at hb'

/-- Producer operations on a dropped writer do nothing. -/
theorem good_gone_p {cap h} (g : Good cap h) (_hb : h.sys.bw = .gone) {h' : Hist}
    (e : h' = { h with pouts := h.pouts ++ [.unit] }) : Good cap h' := by
  subst e
  obtain ⟨h1, h2, h3, h4, h5, h6, h7⟩ := g
  exact ⟨h1, h2, h3, h4, h5, by simpa using h6, h7⟩

theorem good_write {cap : Nat} {h : Hist} (g : Good cap h) (bs : Bytes) :
    Good cap (h.step (.p (.write bs))) := by
  rcases g.bw_cases with hb | hb
  · obtain ⟨ready, hs, hr, he⟩ := g.raw_ok hb
    obtain ⟨h1, h2, h3, h4, h5, h6, h7⟩ := g
    by_cases hf : h.sys.cap - h.sys.buf.length ≤ bs.length
    · rw [step_write_wrote (pop_write_full bs hb hs (h2 ▸ h3) hf)]
      refine ⟨h1, h2, by simpa using (by omega : 0 < cap), ?_, h5, by simpa using h6, ?_⟩
      · simp [Hist.delivered, Sys.inflight, hs] at h4 ⊢
        simp [← h4]
      · left
        refine ⟨_, _, false, rfl, ?_, ?_, by simpa using hb, by simp, he⟩
        · simp [Nat.min_eq_left hf]
          omega
        · intro c hc
          simp at hc
          rcases hc with hc | rfl
          · exact hr c hc
          · have hlen : (h.sys.buf ++ List.take (h.sys.cap - h.sys.buf.length) bs).length
                = h.sys.cap := by simp; omega
            constructor
            · intro h0; rw [h0] at hlen; simp at hlen; omega
            · omega
    · rw [step_write_wrote (pop_write_part bs hb hf)]
      refine ⟨h1, h2, by simp; omega, ?_, h5, by simpa using h6, ?_⟩
      · simp [Hist.delivered, Sys.inflight, hs] at h4 ⊢
        simp [← h4]
      · left
        exact ⟨ready, _, false, hs, rfl, hr, by simpa using hb, by simp, he⟩
  · exact good_gone_p g hb (step_write_unit (pop_gone hb _))

theorem good_flush {cap : Nat} {h : Hist} (g : Good cap h) : Good cap (h.step (.p .flush)) := by
  rcases g.bw_cases with hb | hb
  · obtain ⟨ready, hs, hr, he⟩ := g.raw_ok hb
    obtain ⟨h1, h2, h3, h4, h5, h6, h7⟩ := g
    by_cases hf : h.sys.buf = []
    · rw [step_flush (pop_flush_empty hb hs hf)]
      exact ⟨h1, h2, h3, h4, h5, by simpa using h6, h7⟩
    · rw [step_flush (pop_flush_nonempty hb hs hf)]
      refine ⟨h1, h2, by simpa using (by omega : 0 < cap), ?_, h5, by simpa using h6, ?_⟩
      · simp [Hist.delivered, Sys.inflight, hs] at h4 ⊢
        simp [← h4]
      · left
        refine ⟨_, _, false, rfl, by simp, ?_, by simpa using hb, by simp, he⟩
        intro c hc
        simp at hc
        rcases hc with hc | rfl
        · exact hr c hc
        · exact ⟨hf, by omega⟩
  · exact good_gone_p g hb (step_flush (pop_gone hb _))

theorem good_drop {cap : Nat} {h : Hist} (g : Good cap h) : Good cap (h.step (.p .drop)) := by
  rcases g.bw_cases with hb | hb
  · obtain ⟨ready, hs, hr, he⟩ := g.raw_ok hb
    obtain ⟨h1, h2, h3, h4, h5, h6, h7⟩ := g
    by_cases hf : h.sys.buf = []
    · rw [step_drop (pop_drop_empty hb hs hf)]
      refine ⟨h1, h2, by simpa using (by omega : 0 < cap), ?_, h5, by simpa using h6, ?_⟩
      · simp [Hist.delivered, Sys.inflight, hs, hf] at h4 ⊢
        simp [← h4]
      · left
        exact ⟨ready, _, true, rfl, rfl, hr, by simp, by simp, he⟩
    · rw [step_drop (pop_drop_nonempty hb hs hf)]
      refine ⟨h1, h2, by simpa using (by omega : 0 < cap), ?_, h5, by simpa using h6, ?_⟩
      · simp [Hist.delivered, Sys.inflight, hs] at h4 ⊢
        simp [← h4]
      · left
        refine ⟨_, _, true, rfl, by simp, ?_, by simp, by simp, he⟩
        intro c hc
        simp at hc
        rcases hc with hc | rfl
        · exact hr c hc
        · exact ⟨hf, by omega⟩
  · exact good_gone_p g hb (step_drop (pop_gone hb _))

theorem good_poll {cap : Nat} {h : Hist} (g : Good cap h) (w : Nat) :
    Good cap (h.step (.c (.poll w))) := by
  obtain ⟨h1, h2, h3, h4, h5, h6, h7⟩ := g
  rcases h7 with ⟨ready, rb, wd, hs, rfl, hr, hb, hbuf, he⟩ | ⟨hs, hb, hbuf⟩
  · cases ready with
    | nil =>
      cases wd with
      | false =>
        rw [step_poll_other h1 (poll_pending w (by simpa using hs)) (by simp)]
        refine ⟨h1, h2, h3, ?_, h5, by simpa using h6, ?_⟩
        · simpa [Hist.delivered, Sys.inflight, hs] using h4
        · left
          exact ⟨[], 0, false, rfl, rfl, by simp, hb, by simp, by simpa using he⟩
      | true =>
        rw [step_poll_other h1 (poll_end w (by simpa using hs)) (by simp)]
        refine ⟨h1, h2, h3, ?_, h5, by simpa using h6, ?_⟩
        · simpa [Hist.delivered, Sys.inflight, hs] using h4
        · right
          exact ⟨rfl, by simpa using hb, hbuf rfl⟩
    | cons c rest =>
      have hl : c.length ≤ (c :: rest).flatten.length := by simp
      by_cases hm : rest ≠ [] ∨ wd = false
      · rw [step_poll_data h1 (poll_data w hs hl hm)]
        refine ⟨h1, h2, h3, ?_, ?_, by simpa using h6, ?_⟩
        · simpa [Hist.delivered, Sys.inflight, hs] using h4
        · intro f hf
          simp at hf
          rcases hf with hf | rfl
          · exact h5 f hf
          · exact hr f (by simp)
        · left
          refine ⟨rest, _, wd, rfl, by simp, fun c hc => hr c (by simp [hc]), hb, hbuf, by simpa using he⟩
      · have hrest : rest = [] := by
          cases rest with
          | nil => rfl
          | cons a b => exact absurd (Or.inl (by simp)) hm
        have hwd : wd = true := by
          cases wd with
          | true => rfl
          | false => exact absurd (Or.inr rfl) hm
        subst hrest hwd
        rw [step_poll_data h1 (poll_last w hs hl)]
        refine ⟨h1, h2, h3, ?_, ?_, by simpa using h6, ?_⟩
        · simpa [Hist.delivered, Sys.inflight, hs] using h4
        · intro f hf
          simp at hf
          rcases hf with hf | rfl
          · exact h5 f hf
          · exact hr f (by simp)
        · right
          exact ⟨rfl, by simpa using hb, hbuf rfl⟩
  · rw [step_poll_other h1 (poll_fused w hs) (by simp)]
    refine ⟨h1, h2, h3, ?_, h5, by simpa using h6, ?_⟩
    · simpa [Hist.delivered, Sys.inflight, hs] using h4
    · right
      exact ⟨hs, hb, hbuf⟩

theorem good_step {cap : Nat} {h : Hist} (g : Good cap h) {op : AnyOp} (hop : op.rawPlain) :
    Good cap (h.step op) := by
  match op, hop with
  | .p (.write bs), _ => exact good_write g bs
  | .p .flush, _ => exact good_flush g
  | .p .drop, _ => exact good_drop g
  | .c (.poll w), _ => exact good_poll g w
  | .c .sizeHint, _ => rw [step_sizeHint]; exact g
  | .c .isEndStream, _ => rw [step_isEndStream]; exact g

/-! ### Lifting to runs -/

theorem run_nil (h : Hist) : h.run [] = h := rfl

theorem run_cons (h : Hist) (op : AnyOp) (ops : List AnyOp) :
    h.run (op :: ops) = (h.step op).run ops := rfl

theorem run_append (h : Hist) (a b : List AnyOp) : h.run (a ++ b) = (h.run a).run b := by
  simp [Hist.run, List.foldl_append]

theorem run_ind {P : Hist → Prop} {Q : AnyOp → Prop}
    (hstep : ∀ h op, P h → Q op → P (h.step op)) :
    ∀ (ops : List AnyOp) (h : Hist), P h → (∀ op ∈ ops, Q op) → P (h.run ops) := by
  intro ops
  induction ops with
  | nil => intro h hp _; exact hp
  | cons op ops ih =>
    intro h hp hq
    rw [run_cons]
    exact ih _ (hstep h op hp (hq op (by simp))) (fun o ho => hq o (by simp [ho]))

theorem good_run {cap : Nat} {h : Hist} (g : Good cap h) (ops : List AnyOp)
    (hops : ∀ op ∈ ops, op.rawPlain) : Good cap (h.run ops) :=
  run_ind (P := Good cap) (Q := AnyOp.rawPlain) (fun _ _ g hop => good_step g hop) ops h g hops

theorem good_plain (cap : Nat) (hc : 0 < cap) (ops : List AnyOp)
    (hops : ∀ op ∈ ops, op.rawPlain) : Good cap ((Hist.init cap .raw).run ops) :=
  good_run (good_init cap hc) ops hops

/-! ### Polls only grow -/

theorem step_p_polls (h : Hist) (op : POp) : (h.step (.p op)).polls = h.polls := rfl

theorem step_p_sys (h : Hist) (op : POp) : (h.step (.p op)).sys = (h.sys.pop op).1 := rfl

theorem step_poll_gen {h : Hist} (w : Nat) (ha : h.sys.readerAlive = true) :
    (h.step (.c (.poll w))).polls = h.polls ++ [(readerPoll h.sys.sh w).2] ∧
    (h.step (.c (.poll w))).sys = { h.sys with sh := (readerPoll h.sys.sh w).1 } := by
  rcases hp : readerPoll h.sys.sh w with ⟨sh', r⟩
  by_cases hd : ∃ d, r = .data d
  · obtain ⟨d, rfl⟩ := hd
    rw [step_poll_data ha hp]; exact ⟨rfl, rfl⟩
  · rw [step_poll_other ha hp (fun d hd' => hd ⟨d, hd'⟩)]; exact ⟨rfl, rfl⟩

theorem step_polls_prefix (h : Hist) (op : AnyOp) : ∃ e, (h.step op).polls = h.polls ++ e := by
  cases op with
  | p op => exact ⟨[], by simp [step_p_polls]⟩
  | c op =>
    cases ha : h.sys.readerAlive with
    | false => exact ⟨[], by simp [step_c_dead ha]⟩
    | true =>
      cases op with
      | poll w => exact ⟨_, (step_poll_gen w ha).1⟩
      | sizeHint => exact ⟨[], by simp [step_sizeHint]⟩
      | isEndStream => exact ⟨[], by simp [step_isEndStream]⟩
      | drop => exact ⟨[], by simp [step_drop_c ha]⟩

theorem run_polls_prefix (ops : List AnyOp) : ∀ h : Hist, ∃ e, (h.run ops).polls = h.polls ++ e := by
  induction ops with
  | nil => intro h; exact ⟨[], by simp [run_nil]⟩
  | cons op ops ih =>
    intro h
    obtain ⟨e1, h1⟩ := step_polls_prefix h op
    obtain ⟨e2, h2⟩ := ih (h.step op)
    exact ⟨e1 ++ e2, by rw [run_cons, h2, h1, List.append_assoc]⟩

theorem run_polls_mono {h : Hist} {r : ROut} (hr : r ∈ h.polls) (ops : List AnyOp) :
    r ∈ (h.run ops).polls := by
  obtain ⟨e, he⟩ := run_polls_prefix ops h
  rw [he]; exact List.mem_append_left _ hr

/-! ### Draining -/

theorem drain (cap : Nat) (w : Nat) : ∀ (k : Nat) (h : Hist), Good cap h → h.sys.bw = .gone →
    (match h.sys.sh.state with | .ok ready _ _ => ready.length < k | _ => 0 < k) →
    ROut.end_ ∈ (h.run (List.replicate k (.c (.poll w)))).polls := by
  intro k
  induction k with
  | zero =>
    intro h _ _ hk
    split at hk <;> omega
  | succ k ih =>
    intro h g hb hk
    rw [List.replicate_succ, run_cons]
    have g' := good_poll g w
    have h1 := g.alive
    rcases g.st with ⟨ready, rb, wd, hs, rfl, hr, hb', hbuf, he⟩ | ⟨hs, _, _⟩
    · have hwd : wd = true := by
        cases wd with
        | true => rfl
        | false => simp [hb] at hb'
      subst hwd
      rw [hs] at hk
      simp only at hk
      match ready, hs, hk with
      | [], hs, _ =>
        apply run_polls_mono
        rw [step_poll_other h1 (poll_end w (by simpa using hs)) (by simp)]
        simp
      | [c], hs, hk =>
        have hl : c.length ≤ [c].flatten.length := by simp
        apply ih _ g'
        · rw [step_poll_data h1 (poll_last w hs hl)]; exact hb
        · rw [step_poll_data h1 (poll_last w hs hl)]
          simp at hk ⊢; omega
      | c :: c' :: rest, hs, hk =>
        have hl : c.length ≤ (c :: c' :: rest).flatten.length := by simp
        have hm : c' :: rest ≠ [] ∨ true = false := Or.inl (by simp)
        apply ih _ g'
        · rw [step_poll_data h1 (poll_data w hs hl hm)]; exact hb
        · rw [step_poll_data h1 (poll_data w hs hl hm)]
          simp at hk ⊢; omega
    · apply run_polls_mono
      rw [step_poll_other h1 (poll_fused w hs) (by simp)]
      simp

/-! ### Terminated bodies -/
theorem pop_write_fused {s : Sys} (hs : s.sh.state = .fused) (hb : s.bw = .raw) (bs : Bytes) :
    (s.pop (.write bs)).1.sh.state = .fused := by
  by_cases hf : s.cap - s.buf.length ≤ bs.length
  · simp [Sys.pop, hb, writerWrite, flushHelper, hs, hf]
  · simp [Sys.pop, hb, writerWrite, hs, hf]

theorem pop_fused {s : Sys} (hs : s.sh.state = .fused) (op : POp)
    (hop : (AnyOp.p op).rawAny) : (s.pop op).1.sh.state = .fused := by
  cases hb : s.bw <;> cases op <;>
    first
    | exact pop_write_fused hs hb _
    | simp_all [AnyOp.rawAny, Sys.pop, flushHelper, writerAbort]



theorem readerPoll_terminal {sh : Shared} {w : Nat}
    (ht : (readerPoll sh w).2.isTerminal = true) : (readerPoll sh w).1.state = .fused := by
  unfold readerPoll at ht ⊢
  split <;> (repeat' split) <;> simp_all [ROut.isTerminal]

/-- Terminated: every further poll reports the end. -/
def Term (s : Sys) : Prop := s.sh.state = .fused ∨ (s.sh.state = .ok [] 0 true ∧ s.bw = .gone)

theorem term_step {h : Hist} (t : Term h.sys) {op : AnyOp} (hop : op.rawAny) :
    Term (h.step op).sys ∧ ∃ e, (h.step op).polls = h.polls ++ e ∧ ∀ r ∈ e, r = ROut.end_ := by
  cases op with
  | p op =>
    refine ⟨?_, [], by simp [step_p_polls], by simp⟩
    rw [step_p_sys]
    rcases t with t | ⟨t, hb⟩
    · exact Or.inl (pop_fused t op hop)
    · rw [pop_gone hb]; exact Or.inr ⟨t, hb⟩
  | c op =>
    cases ha : h.sys.readerAlive with
    | false => rw [step_c_dead ha]; exact ⟨t, [], by simp, by simp⟩
    | true =>
      cases op with
      | sizeHint => rw [step_sizeHint]; exact ⟨t, [], by simp, by simp⟩
      | isEndStream => rw [step_isEndStream]; exact ⟨t, [], by simp, by simp⟩
      | drop => rw [step_drop_c ha]; exact ⟨Or.inl rfl, [], by simp, by simp⟩
      | poll w =>
        obtain ⟨hp, hsys⟩ := step_poll_gen w ha
        rcases t with t | ⟨t, hb⟩
        · rw [poll_fused w t] at hp hsys
          exact ⟨Or.inl (by rw [hsys]; exact t), _, hp, by simp⟩
        · rw [poll_end w t] at hp hsys
          exact ⟨Or.inl (by rw [hsys]), _, hp, by simp⟩

theorem term_run (more : List AnyOp) : ∀ (h : Hist), Term h.sys → (∀ op ∈ more, op.rawAny) →
    ∃ e, (h.run more).polls = h.polls ++ e ∧ ∀ r ∈ e, r = ROut.end_ := by
  induction more with
  | nil => intro h _ _; exact ⟨[], by simp [run_nil], by simp⟩
  | cons op more ih =>
    intro h t hm
    obtain ⟨t', e1, h1, h1'⟩ := term_step t (hm op (by simp))
    obtain ⟨e2, h2, h2'⟩ := ih (h.step op) t' (fun o ho => hm o (by simp [ho]))
    refine ⟨e1 ++ e2, by rw [run_cons, h2, h1, List.append_assoc], ?_⟩
    intro r hr
    rcases List.mem_append.mp hr with hr | hr
    · exact h1' r hr
    · exact h2' r hr

theorem term_run_drop {h : Hist} (t : Term h.sys) {more : List AnyOp}
    (hm : ∀ op ∈ more, op.rawAny) :
    ∀ r ∈ ((h.run more).polls.drop h.polls.length), r = ROut.end_ := by
  obtain ⟨e, he, he'⟩ := term_run more h t hm
  rw [he, List.drop_left]
  exact he'

/-- Once some poll was terminal, the shared state is `fused`. -/
def FInv (h : Hist) : Prop := (∃ r ∈ h.polls, r.isTerminal = true) → h.sys.sh.state = .fused

theorem finv_step {h : Hist} (f : FInv h) {op : AnyOp} (hop : op.rawAny) : FInv (h.step op) := by
  cases op with
  | p op =>
    intro ht
    rw [step_p_polls] at ht
    rw [step_p_sys]
    exact pop_fused (f ht) op hop
  | c op =>
    cases ha : h.sys.readerAlive with
    | false => rw [step_c_dead ha]; exact f
    | true =>
      cases op with
      | sizeHint => rw [step_sizeHint]; exact f
      | isEndStream => rw [step_isEndStream]; exact f
      | drop => rw [step_drop_c ha]; intro _; rfl
      | poll w =>
        obtain ⟨hp, hsys⟩ := step_poll_gen w ha
        intro ⟨r, hr, ht⟩
        rw [hsys]
        rw [hp] at hr
        rcases List.mem_append.mp hr with hr | hr
        · have := f ⟨r, hr, ht⟩
          rw [poll_fused w this]; exact this
        · simp at hr
          subst hr
          exact readerPoll_terminal ht

theorem finv_init (cap : Nat) : FInv (Hist.init cap .raw) := by
  intro ⟨r, hr, _⟩
  simp [Hist.init] at hr

end HS.PipeLemmas

namespace HS
open PipeLemmas

/-- FIFO refinement: at every point of every history, what was delivered, then what is queued,
then what the writer still buffers, is exactly what `write` accepted. -/
theorem pipe_invariant (cap : Nat) (hc : 0 < cap) (ops : List AnyOp) (hops : ∀ op ∈ ops, op.rawPlain) :
    let h := (Hist.init cap .raw).run ops
    h.delivered ++ h.sys.inflight ++ h.sys.buf = h.accepted :=
  (good_plain cap hc ops hops).inv

/-- Every frame is non-empty and at most one chunk long. -/
theorem pipe_frames (cap : Nat) (hc : 0 < cap) (ops : List AnyOp) (hops : ∀ op ∈ ops, op.rawPlain) :
    ∀ f ∈ ((Hist.init cap .raw).run ops).frames, f ≠ [] ∧ f.length ≤ cap :=
  (good_plain cap hc ops hops).frames_ok

/-- No operation of such a history ever fails, and no poll ever reports an error or panics. -/
theorem pipe_no_errors (cap : Nat) (hc : 0 < cap) (ops : List AnyOp) (hops : ∀ op ∈ ops, op.rawPlain) :
    let h := (Hist.init cap .raw).run ops
    POut.err ∉ h.pouts ∧ ROut.err ∉ h.polls ∧ ROut.panic ∉ h.polls :=
  (good_plain cap hc ops hops).noerr

/-- A `write` of a non-empty buffer to a live body accepts at least one byte (and at most all). -/
theorem pipe_write_progress (cap : Nat) (hc : 0 < cap) (ops : List AnyOp) (hops : ∀ op ∈ ops, op.rawPlain)
    (bs : Bytes) (hbs : bs ≠ []) :
    let h := (Hist.init cap .raw).run ops
    h.sys.bw = .raw → ∃ n, (h.sys.pop (.write bs)).2.1 = .wrote n ∧ 1 ≤ n ∧ n ≤ bs.length := by
  intro h hb
  have g : Good cap h := good_plain cap hc ops hops
  obtain ⟨ready, hs, _, _⟩ := g.raw_ok hb
  have h3 := g.buf_lt
  have h2 := g.cap_eq
  have hpos : 0 < bs.length := List.length_pos_iff.mpr hbs
  by_cases hf : h.sys.cap - h.sys.buf.length ≤ bs.length
  · rw [pop_write_full bs hb hs (h2 ▸ h3) hf]
    exact ⟨_, rfl, by omega, hf⟩
  · rw [pop_write_part bs hb hf]
    exact ⟨_, rfl, by omega, Nat.le_refl _⟩

/-- After `flush` returns, every byte accepted so far is delivered or queued: available to the
consumer without any further producer action. -/
theorem pipe_flush_publishes (cap : Nat) (hc : 0 < cap) (ops : List AnyOp) (hops : ∀ op ∈ ops, op.rawPlain) :
    let h := (Hist.init cap .raw).run (ops ++ [.p .flush])
    h.sys.bw = .raw → h.delivered ++ h.sys.inflight = h.accepted := by
  intro h hb
  have g0 : Good cap ((Hist.init cap .raw).run ops) := good_plain cap hc ops hops
  have hh : h = ((Hist.init cap .raw).run ops).step (.p .flush) := by
    simp only [h, run_append, run_cons, run_nil]
  have g : Good cap h := hh ▸ good_flush g0
  have hbuf : h.sys.buf = [] := by
    rcases g0.bw_cases with hb0 | hb0
    · obtain ⟨ready, hs, _, _⟩ := g0.raw_ok hb0
      by_cases hf : ((Hist.init cap .raw).run ops).sys.buf = []
      · rw [hh, step_flush (pop_flush_empty hb0 hs hf)]; exact hf
      · rw [hh, step_flush (pop_flush_nonempty hb0 hs hf)]
    · rw [hh, step_flush (pop_gone hb0 _)] at hb
      simp [hb0] at hb
  have := g.inv
  rw [hbuf] at this
  simpa using this

/-- If the consumer sees a clean end, the writer has been dropped and the consumer has received
everything that was accepted. -/
theorem pipe_clean_end_complete (cap : Nat) (hc : 0 < cap) (ops : List AnyOp) (hops : ∀ op ∈ ops, op.rawPlain) :
    let h := (Hist.init cap .raw).run ops
    ROut.end_ ∈ h.polls → h.sys.bw = .gone ∧ h.delivered = h.accepted := by
  intro h he
  have g : Good cap h := good_plain cap hc ops hops
  rcases g.st with ⟨_, _, _, _, _, _, _, _, hne⟩ | ⟨hs, hb, hbuf⟩
  · exact absurd he hne
  · refine ⟨hb, ?_⟩
    have := g.inv
    simpa [Sys.inflight, hs, hbuf] using this

/-- Size hints are truthful (C12): in every reachable state the lower bound is exactly the number
of queued bytes, and the upper bound, when given, too — and it is given only once the writer is
gone (when nothing more can be added). -/
theorem pipe_size_hint (cap : Nat) (hc : 0 < cap) (ops : List AnyOp) (hops : ∀ op ∈ ops, op.rawPlain) :
    let h := (Hist.init cap .raw).run ops
    let (lo, up) := readerSizeHint h.sys.sh
    lo = h.sys.inflight.length ∧ (∀ u, up = some u → u = h.sys.inflight.length ∧ h.sys.bw = .gone ∧ h.sys.buf = []) := by
  intro h
  have g : Good cap h := good_plain cap hc ops hops
  rcases g.st with ⟨ready, rb, wd, hs, rfl, _, hb, hbuf, _⟩ | ⟨hs, hb, hbuf⟩
  · cases wd with
    | false => simp [readerSizeHint, Sys.inflight, hs]
    | true =>
      simp [readerSizeHint, Sys.inflight, hs]
      exact ⟨by simpa using hb, hbuf rfl⟩
  · simp [readerSizeHint, Sys.inflight, hs]

/-- Once the writer is dropped, polling drains the queue and then reports the end: after
`k` further polls where `k` exceeds the number of queued chunks, the end has been reported. -/
theorem pipe_drain_bounded (cap : Nat) (hc : 0 < cap) (ops : List AnyOp) (hops : ∀ op ∈ ops, op.rawPlain)
    (w : Nat) (k : Nat) :
    let h := (Hist.init cap .raw).run ops
    h.sys.bw = .gone →
    (match h.sys.sh.state with | .ok ready _ _ => ready.length < k | _ => 0 < k) →
    ROut.end_ ∈ (h.run (List.replicate k (.c (.poll w)))).polls := by
  intro h hb hk
  exact drain cap w k h (good_plain cap hc ops hops) hb hk

/-- `is_end_stream` is truthful (C12): when it says true, nothing is queued, and every further
poll — whatever else happens — reports the end (no data, no error). -/
theorem pipe_eos_truthful (cap : Nat) (hc : 0 < cap) (ops : List AnyOp) (hops : ∀ op ∈ ops, op.rawPlain)
    (more : List AnyOp) (hmore : ∀ op ∈ more, op.rawAny) :
    let h := (Hist.init cap .raw).run ops
    readerIsEndStream h.sys.sh = true →
    h.sys.inflight = [] ∧ ∀ r ∈ ((h.run more).polls.drop h.polls.length), r = ROut.end_ := by
  intro h he
  have g : Good cap h := good_plain cap hc ops hops
  rcases g.st with ⟨ready, rb, wd, hs, rfl, hr, hb, _, _⟩ | ⟨hs, _, _⟩
  · simp only [readerIsEndStream, hs, Bool.and_eq_true, beq_iff_eq] at he
    obtain ⟨he1, rfl⟩ := he
    have hready : ready = [] := by
      cases ready with
      | nil => rfl
      | cons c rest =>
        have h0 : (c :: rest).flatten.length = c.length + rest.flatten.length := by simp
        have hc0 : c.length = 0 := by omega
        exact absurd (List.length_eq_zero_iff.mp hc0) (hr c (by simp)).1
    subst hready
    refine ⟨by simp [Sys.inflight, hs], term_run_drop (Or.inr ⟨by simpa using hs, by simpa using hb⟩) hmore⟩
  · exact ⟨by simp [Sys.inflight, hs], term_run_drop (Or.inl hs) hmore⟩

/-- Terminated bodies stay terminated (C20), for ANY history including aborts: once a poll has
reported the end or an error, every later poll reports the end — never data, never a panic. -/
theorem pipe_fused (cap : Nat) (hc : 0 < cap) (ops more : List AnyOp)
    (hops : ∀ op ∈ ops, op.rawAny) (hmore : ∀ op ∈ more, op.rawAny) :
    let h := (Hist.init cap .raw).run ops
    (∃ r ∈ h.polls, r.isTerminal = true) →
    ∀ r ∈ ((h.run more).polls.drop h.polls.length), r = ROut.end_ := by
  intro h ht
  have _ := hc
  have f : FInv h :=
    run_ind (P := FInv) (Q := AnyOp.rawAny) (fun _ _ f hop => finv_step f hop) ops _
      (finv_init cap) hops
  exact term_run_drop (Or.inl (f ht)) hmore

end HS
