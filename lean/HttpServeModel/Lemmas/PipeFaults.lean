/-
C11 (abort / disconnect) and C09 (gzip transport) for the streaming body model
(`Model/Chunker.lean`), stated over the histories of `Spec/Pipe.lean`.

Raw writer: an invariant `RI` over all `rawAny` histories (buffer bounded by the capacity, a
dropped body leaves the shared state fused, a live raw writer with a live body has a consistent
`ok` queue, and the prefix invariant `PI`).  Gzip writer: `writerWriteAll` on a live queue
always succeeds (`wwa_ok`), and the invariant `GI` over all `gzPlain` histories.
-/
import HttpServeModel.Spec.Pipe
namespace HS.PipeFaults
open HS

theorem flushHelper_nok (sh : Shared) (buf : Bytes) (d : Bool) (h : ∀ r rb wd, sh.state ≠ .ok r rb wd) :
    flushHelper sh buf d = (sh, buf, false, none) := by
  unfold flushHelper
  split
  · exact absurd ‹_› (h _ _ _)
  · rfl

theorem flushHelper_ok (sh : Shared) (buf : Bytes) (d : Bool) (ready rb wd) (h : sh.state = .ok ready rb wd) :
    flushHelper sh buf d =
      if buf = [] ∧ d = false then (sh, buf, true, none)
      else (⟨.ok (if buf = [] then ready else ready ++ [buf]) (rb + buf.length) d, none⟩, [], true, sh.waker) := by
  obtain ⟨st, wk⟩ := sh
  simp at h
  subst h
  unfold flushHelper
  cases buf <;> cases d <;> simp

theorem writerWrite_small (sh : Shared) (buf : Bytes) (cap : Nat) (bs : Bytes)
    (h : ¬ cap - buf.length ≤ bs.length) :
    writerWrite sh buf cap bs = (sh, buf ++ bs, .ok bs.length, none) := by
  simp [writerWrite, h]

theorem writerWrite_full_nok (sh : Shared) (buf : Bytes) (cap : Nat) (bs : Bytes)
    (h : cap - buf.length ≤ bs.length) (hst : ∀ r rb wd, sh.state ≠ .ok r rb wd) :
    writerWrite sh buf cap bs = (sh, buf ++ bs.take (cap - buf.length), .err, none) := by
  simp [writerWrite, h, flushHelper_nok _ _ _ hst]

theorem writerWrite_full_ok (sh : Shared) (buf : Bytes) (cap : Nat) (bs : Bytes)
    (h : cap - buf.length ≤ bs.length) (hc : 0 < cap) (hb : buf.length ≤ cap)
    (ready rb wd) (hst : sh.state = .ok ready rb wd) :
    writerWrite sh buf cap bs =
      (⟨.ok (ready ++ [buf ++ bs.take (cap - buf.length)]) (rb + cap) false, none⟩, [],
        .ok (cap - buf.length), sh.waker) := by
  have hne : buf ++ bs.take (cap - buf.length) ≠ [] := by
    intro h0
    have := congrArg List.length h0
    simp only [List.length_append, List.length_take, List.length_nil] at this
    omega
  have hl : (buf ++ bs.take (cap - buf.length)).length = cap := by
    simp only [List.length_append, List.length_take]; omega
  simp only [writerWrite, h, decide_true, if_true, flushHelper_ok _ _ _ _ _ _ hst, hne, false_and, if_false, hl]

theorem pop_raw_write_of_ok (s : Sys) (bs : Bytes) (hbw : s.bw = .raw) (sh buf n wk)
    (h : writerWrite s.sh s.buf s.cap bs = (sh, buf, .ok n, wk)) :
    s.pop (.write bs) = ({ s with sh := sh, buf := buf }, .wrote n, wk.toList) := by
  obtain ⟨sh0, buf0, cap, bw, pw, ra⟩ := s
  simp only at hbw h ⊢
  subst hbw
  simp only [Sys.pop, h]

theorem pop_raw_write_of_err (s : Sys) (bs : Bytes) (hbw : s.bw = .raw) (sh buf wk)
    (h : writerWrite s.sh s.buf s.cap bs = (sh, buf, .err, wk)) (hst : ∀ r rb wd, sh.state ≠ .ok r rb wd) :
    s.pop (.write bs) = ({ s with sh := sh, buf := buf, bw := .dead }, .err, wk.toList) := by
  obtain ⟨sh0, buf0, cap, bw, pw, ra⟩ := s
  simp only at hbw h ⊢
  subst hbw
  simp [Sys.pop, h, flushHelper_nok _ _ _ hst]

theorem pop_raw_flush_of (s : Sys) (hbw : s.bw = .raw) (sh buf wk)
    (h : flushHelper s.sh s.buf false = (sh, buf, true, wk)) :
    s.pop .flush = ({ s with sh := sh, buf := buf }, .ok, wk.toList) := by
  obtain ⟨sh0, buf0, cap, bw, pw, ra⟩ := s
  simp only at hbw h ⊢
  subst hbw
  simp [Sys.pop, h]

theorem pop_raw_flush_nok (s : Sys) (hbw : s.bw = .raw) (hst : ∀ r rb wd, s.sh.state ≠ .ok r rb wd) :
    s.pop .flush = ({ s with bw := .dead }, .err, []) := by
  obtain ⟨sh0, buf0, cap, bw, pw, ra⟩ := s
  simp only at hbw hst ⊢
  subst hbw
  simp [Sys.pop, flushHelper_nok _ _ _ hst]

theorem pop_raw_abort_ok (s : Sys) (hbw : s.bw = .raw) (ready rb wd) (hst : s.sh.state = .ok ready rb wd) :
    s.pop .abort = ({ s with sh := ⟨.err, none⟩, bw := .dead }, .unit, s.sh.waker.toList) := by
  obtain ⟨sh0, buf0, cap, bw, pw, ra⟩ := s
  simp only at hbw hst ⊢
  subst hbw
  simp [Sys.pop, writerAbort, hst, flushHelper]

theorem pop_raw_abort_nok (s : Sys) (hbw : s.bw = .raw) (hst : ∀ r rb wd, s.sh.state ≠ .ok r rb wd) :
    s.pop .abort = ({ s with bw := .dead }, .unit, []) := by
  obtain ⟨⟨st, wk⟩, buf0, cap, bw, pw, ra⟩ := s
  simp only at hbw hst ⊢
  subst hbw
  cases st
  · exact absurd rfl (hst _ _ _)
  · simp [Sys.pop, writerAbort, flushHelper]
  · simp [Sys.pop, writerAbort, flushHelper]

theorem pop_raw_drop_ok (s : Sys) (hbw : s.bw = .raw) (ready rb wd) (hst : s.sh.state = .ok ready rb wd) :
    s.pop .drop = ({ s with sh := ⟨.ok (if s.buf = [] then ready else ready ++ [s.buf]) (rb + s.buf.length) true, none⟩,
                            buf := [], bw := .gone }, .unit, s.sh.waker.toList) := by
  obtain ⟨sh0, buf0, cap, bw, pw, ra⟩ := s
  simp only at hbw hst ⊢
  subst hbw
  simp [Sys.pop, flushHelper_ok _ _ _ _ _ _ hst]

theorem pop_raw_drop_nok (s : Sys) (hbw : s.bw = .raw) (hst : ∀ r rb wd, s.sh.state ≠ .ok r rb wd) :
    s.pop .drop = ({ s with bw := .gone }, .unit, []) := by
  obtain ⟨sh0, buf0, cap, bw, pw, ra⟩ := s
  simp only at hbw hst ⊢
  subst hbw
  simp [Sys.pop, flushHelper_nok _ _ _ hst]

theorem pop_gone (s : Sys) (op : POp) (hbw : s.bw = .gone) : s.pop op = (s, .unit, []) := by
  obtain ⟨sh0, buf0, cap, bw, pw, ra⟩ := s
  simp only at hbw ⊢
  subst hbw
  simp [Sys.pop]

theorem pop_dead (s : Sys) (op : POp) (hbw : s.bw = .dead) :
    (s.pop op).1.sh = s.sh ∧ (s.pop op).1.buf = s.buf ∧ (s.pop op).1.cap = s.cap ∧
    (s.pop op).1.readerAlive = s.readerAlive ∧ ((s.pop op).1.bw = .dead ∨ (s.pop op).1.bw = .gone) ∧
    (∀ n, (s.pop op).2.1 ≠ .wrote n) ∧ (s.pop op).2.1 ≠ .ok := by
  obtain ⟨sh0, buf0, cap, bw, pw, ra⟩ := s
  simp only at hbw ⊢
  subst hbw
  cases op <;> simp [Sys.pop]

/-- prefix invariant -/
def PI (h : Hist) : Prop :=
  match h.sys.sh.state with
  | .ok ready _ _ => h.delivered ++ ready.flatten ++ h.sys.buf = h.accepted
  | _ => h.delivered <+: h.accepted

structure RI (cap : Nat) (h : Hist) : Prop where
  cap_eq : h.sys.cap = cap
  buf_le : h.sys.buf.length ≤ cap
  not_gz : h.sys.bw ≠ .gz
  dead_fused : h.sys.readerAlive = false → h.sys.sh.state = .fused
  live : h.sys.bw = .raw → h.sys.readerAlive = true →
    ∃ ready, h.sys.sh.state = .ok ready ready.flatten.length false
  pre : PI h

def acc' (h : Hist) (op : POp) (o : POut) : Bytes :=
  match op, o with
  | .write bs, .wrote n => h.accepted ++ bs.take n
  | .gzWrite pushed _, .wrote _ => h.accepted ++ pushed
  | .gzFlush pushed, .ok => h.accepted ++ pushed
  | .gzDrop pushed, .unit => if h.sys.bw = .gz then h.accepted ++ pushed else h.accepted
  | _, _ => h.accepted

theorem step_p_eq (h : Hist) (op : POp) (s' o w) (hp : h.sys.pop op = (s', o, w)) :
    h.step (.p op) = { h with sys := s', accepted := acc' h op o, pouts := h.pouts ++ [o] } := by
  simp only [Hist.step, hp]
  rfl

theorem nok_err (sh : Shared) (h : sh.state = .err) : ∀ r rb wd, sh.state ≠ .ok r rb wd := by simp [h]
theorem nok_fused (sh : Shared) (h : sh.state = .fused) : ∀ r rb wd, sh.state ≠ .ok r rb wd := by simp [h]

theorem prefix_app {a b : Bytes} (c : Bytes) (h : a <+: b) : a <+: b ++ c :=
  List.IsPrefix.trans h (List.prefix_append _ _)

macro "pipefaults_ri_close" : tactic =>
  `(tactic| (constructor <;> simp_all [acc', PI, Hist.delivered] <;>
      first | omega | (subst_vars; simp; done) | (apply prefix_app; assumption) | skip))

theorem RI_dead (cap : Nat) (h : Hist) (op : POp) (hop : (AnyOp.p op).rawAny) (hbw : h.sys.bw = .dead)
    (hi : RI cap h) : RI cap (h.step (.p op)) := by
  obtain ⟨⟨sh0, buf0, cap0, bw, pw, ra⟩, acc, fr, po, pl⟩ := h
  obtain ⟨h1, h2, h3, h4, h5, h6⟩ := hi
  simp only at h1 h2 h3 h4 h5 hbw
  subst hbw
  cases op <;> simp [AnyOp.rawAny] at hop <;> rw [step_p_eq _ _ _ _ _ rfl] <;> pipefaults_ri_close

theorem RI_write (cap : Nat) (hc : 0 < cap) (h : Hist) (bs : Bytes) (hi : RI cap h) :
    RI cap (h.step (.p (.write bs))) := by
  cases hbw : h.sys.bw
  case dead => exact RI_dead cap h _ trivial hbw hi
  case gz => exact absurd hbw hi.not_gz
  all_goals
    obtain ⟨s, acc, fr, po, pl⟩ := h
    obtain ⟨h1, h2, h3, h4, h5, h6⟩ := hi
    simp only at h1 h2 h3 h4 h5 hbw
  · -- raw
    by_cases hfull : s.cap - s.buf.length ≤ bs.length
    · cases hst : s.sh.state with
      | ok ready rb wd =>
        rw [step_p_eq _ _ _ _ _ (pop_raw_write_of_ok s bs hbw _ _ _ _ (writerWrite_full_ok _ _ _ _ hfull (h1 ▸ hc) (h1 ▸ h2) _ _ _ hst))]
        pipefaults_ri_close
      | err =>
        have hn := nok_err _ hst
        rw [step_p_eq _ _ _ _ _ (pop_raw_write_of_err s bs hbw _ _ _ (writerWrite_full_nok _ _ _ _ hfull hn) hn)]
        pipefaults_ri_close
      | fused =>
        have hn := nok_fused _ hst
        rw [step_p_eq _ _ _ _ _ (pop_raw_write_of_err s bs hbw _ _ _ (writerWrite_full_nok _ _ _ _ hfull hn) hn)]
        pipefaults_ri_close
    · rw [step_p_eq _ _ _ _ _ (pop_raw_write_of_ok s bs hbw _ _ _ _ (writerWrite_small _ _ _ _ hfull))]
      cases hst : s.sh.state <;> pipefaults_ri_close
  · rw [step_p_eq _ _ _ _ _ (pop_gone s _ hbw)]
    pipefaults_ri_close

theorem RI_flush (cap : Nat) (h : Hist) (hi : RI cap h) :
    RI cap (h.step (.p .flush)) := by
  cases hbw : h.sys.bw
  case dead => exact RI_dead cap h _ trivial hbw hi
  case gz => exact absurd hbw hi.not_gz
  all_goals
    obtain ⟨s, acc, fr, po, pl⟩ := h
    obtain ⟨h1, h2, h3, h4, h5, h6⟩ := hi
    simp only at h1 h2 h3 h4 h5 hbw
  · -- raw
    cases hst : s.sh.state with
    | ok ready rb wd =>
      by_cases hb : s.buf = []
      · rw [step_p_eq _ _ _ _ _ (pop_raw_flush_of s hbw _ _ _ (by rw [flushHelper_ok _ _ _ _ _ _ hst, if_pos ⟨hb, rfl⟩]))]
        pipefaults_ri_close
      · rw [step_p_eq _ _ _ _ _ (pop_raw_flush_of s hbw _ _ _ (by rw [flushHelper_ok _ _ _ _ _ _ hst, if_neg (by simp [hb])]))]
        pipefaults_ri_close
    | err =>
      rw [step_p_eq _ _ _ _ _ (pop_raw_flush_nok s hbw (nok_err _ hst))]
      pipefaults_ri_close
    | fused =>
      rw [step_p_eq _ _ _ _ _ (pop_raw_flush_nok s hbw (nok_fused _ hst))]
      pipefaults_ri_close
  · rw [step_p_eq _ _ _ _ _ (pop_gone s _ hbw)]
    pipefaults_ri_close

theorem RI_abort (cap : Nat) (h : Hist) (hi : RI cap h) :
    RI cap (h.step (.p .abort)) := by
  cases hbw : h.sys.bw
  case dead => exact RI_dead cap h _ trivial hbw hi
  case gz => exact absurd hbw hi.not_gz
  all_goals
    obtain ⟨s, acc, fr, po, pl⟩ := h
    obtain ⟨h1, h2, h3, h4, h5, h6⟩ := hi
    simp only at h1 h2 h3 h4 h5 hbw
  · -- raw
    cases hst : s.sh.state with
    | ok ready rb wd =>
      rw [step_p_eq _ _ _ _ _ (pop_raw_abort_ok s hbw _ _ _ hst)]
      pipefaults_ri_close
    | err =>
      rw [step_p_eq _ _ _ _ _ (pop_raw_abort_nok s hbw (nok_err _ hst))]
      pipefaults_ri_close
    | fused =>
      rw [step_p_eq _ _ _ _ _ (pop_raw_abort_nok s hbw (nok_fused _ hst))]
      pipefaults_ri_close
  · rw [step_p_eq _ _ _ _ _ (pop_gone s _ hbw)]
    pipefaults_ri_close

theorem RI_drop (cap : Nat) (h : Hist) (hi : RI cap h) :
    RI cap (h.step (.p .drop)) := by
  cases hbw : h.sys.bw
  case dead => exact RI_dead cap h _ trivial hbw hi
  case gz => exact absurd hbw hi.not_gz
  all_goals
    obtain ⟨s, acc, fr, po, pl⟩ := h
    obtain ⟨h1, h2, h3, h4, h5, h6⟩ := hi
    simp only at h1 h2 h3 h4 h5 hbw
  · -- raw
    cases hst : s.sh.state with
    | ok ready rb wd =>
      rw [step_p_eq _ _ _ _ _ (pop_raw_drop_ok s hbw _ _ _ hst)]
      by_cases hb : s.buf = [] <;> pipefaults_ri_close
    | err =>
      rw [step_p_eq _ _ _ _ _ (pop_raw_drop_nok s hbw (nok_err _ hst))]
      pipefaults_ri_close
    | fused =>
      rw [step_p_eq _ _ _ _ _ (pop_raw_drop_nok s hbw (nok_fused _ hst))]
      pipefaults_ri_close
  · rw [step_p_eq _ _ _ _ _ (pop_gone s _ hbw)]
    pipefaults_ri_close

theorem RI_cop (cap : Nat) (h : Hist) (op : COp) (hi : RI cap h) :
    RI cap (h.step (.c op)) := by
  obtain ⟨⟨⟨st, wk⟩, buf, cap0, bw, pw, ra⟩, acc, fr, po, pl⟩ := h
  obtain ⟨h1, h2, h3, h4, h5, h6⟩ := hi
  simp only at h1 h2 h3 h4 h5
  cases ra
  · simp only [Hist.step, Sys.cop]
    pipefaults_ri_close
  · cases op with
    | poll w =>
      cases st with
      | ok ready rb wd =>
        cases ready with
        | nil =>
          by_cases hrb : rb = 0 <;> cases wd <;> simp [Hist.step, Sys.cop, readerPoll, hrb] <;> pipefaults_ri_close
        | cons c rest =>
          by_cases hrb : c.length ≤ rb <;> cases wd <;> cases rest <;> simp [Hist.step, Sys.cop, readerPoll, hrb] <;> pipefaults_ri_close
          all_goals (intro hb; have := h5 hb; omega)
      | err =>
        simp [Hist.step, Sys.cop, readerPoll]
        pipefaults_ri_close
      | fused =>
        simp [Hist.step, Sys.cop, readerPoll]
        pipefaults_ri_close
    | sizeHint =>
      simp [Hist.step, Sys.cop]
      pipefaults_ri_close
    | isEndStream =>
      simp [Hist.step, Sys.cop]
      pipefaults_ri_close
    | drop =>
      simp [Hist.step, Sys.cop, readerDrop]
      pipefaults_ri_close
      cases st
      · exact ⟨_, by simpa using h6⟩
      · exact h6
      · exact h6

theorem RI_step (cap : Nat) (hc : 0 < cap) (h : Hist) (op : AnyOp) (hop : op.rawAny) (hi : RI cap h) :
    RI cap (h.step op) := by
  cases op with
  | c op => exact RI_cop cap h op hi
  | p op =>
    cases op with
    | write bs => exact RI_write cap hc h bs hi
    | flush => exact RI_flush cap h hi
    | abort => exact RI_abort cap h hi
    | drop => exact RI_drop cap h hi
    | gzWrite _ _ => exact absurd hop (by simp [AnyOp.rawAny])
    | gzFlush _ => exact absurd hop (by simp [AnyOp.rawAny])
    | gzDrop _ => exact absurd hop (by simp [AnyOp.rawAny])

theorem run_nil (h : Hist) : h.run [] = h := rfl
theorem run_cons (h : Hist) (op : AnyOp) (ops : List AnyOp) : h.run (op :: ops) = (h.step op).run ops := rfl
theorem run_append (h : Hist) (a b : List AnyOp) : h.run (a ++ b) = (h.run a).run b := by
  simp [Hist.run, List.foldl_append]

theorem RI_run (cap : Nat) (hc : 0 < cap) (ops : List AnyOp) (hops : ∀ op ∈ ops, op.rawAny) (h : Hist)
    (hi : RI cap h) : RI cap (h.run ops) := by
  induction ops generalizing h with
  | nil => exact hi
  | cons op ops ih =>
    rw [run_cons]
    exact ih (fun o ho => hops o (List.mem_cons_of_mem _ ho)) _
      (RI_step cap hc h op (hops op List.mem_cons_self) hi)

theorem RI_init (cap : Nat) : RI cap (Hist.init cap .raw) := by
  constructor <;> simp [Hist.init, PI, Hist.delivered]

/-! ### after abort: dead or gone forever -/

def DG (s : Sys) : Prop := s.bw = .dead ∨ s.bw = .gone

theorem DG_abort (s : Sys) : DG (s.pop .abort).1 := by
  obtain ⟨sh0, buf0, cap, bw, pw, ra⟩ := s
  cases bw <;> simp [Sys.pop, DG]

theorem DG_pop (s : Sys) (op : POp) (h : DG s) : DG (s.pop op).1 := by
  rcases h with h | h
  · exact (pop_dead s op h).2.2.2.2.1
  · rw [pop_gone s op h]; exact Or.inr h

theorem cop_bw (s : Sys) (op : COp) : (s.cop op).1.bw = s.bw := by
  unfold Sys.cop
  split
  · rfl
  · cases op <;> rfl

theorem step_sys_p (h : Hist) (op : POp) : (h.step (.p op)).sys = (h.sys.pop op).1 := by
  simp [Hist.step]

theorem step_sys_c (h : Hist) (op : COp) : (h.step (.c op)).sys = (h.sys.cop op).1 := by
  simp only [Hist.step]
  split <;> rfl

theorem DG_step (h : Hist) (op : AnyOp) (hi : DG h.sys) : DG (h.step op).sys := by
  cases op with
  | p op => rw [step_sys_p]; exact DG_pop _ _ hi
  | c op => rw [step_sys_c]; unfold DG; rw [cop_bw]; exact hi

theorem DG_run (ops : List AnyOp) (h : Hist) (hi : DG h.sys) : DG (h.run ops).sys := by
  induction ops generalizing h with
  | nil => exact hi
  | cons op ops ih => rw [run_cons]; exact ih _ (DG_step h op hi)

/-! ### after the body was dropped -/

theorem pop_readerAlive (s : Sys) (op : POp) : (s.pop op).1.readerAlive = s.readerAlive := by
  obtain ⟨sh0, buf0, cap, bw, pw, ra⟩ := s
  cases bw <;> cases op <;> simp only [Sys.pop] <;> (try split) <;> (try split) <;> rfl

theorem cop_readerAlive_false (s : Sys) (op : COp) (h : s.readerAlive = false) : (s.cop op).1.readerAlive = false := by
  simp [Sys.cop, h]

theorem cop_drop_readerAlive (s : Sys) : (s.cop .drop).1.readerAlive = false := by
  unfold Sys.cop
  split
  · simp_all
  · rfl

theorem RA_step (h : Hist) (op : AnyOp) (hi : h.sys.readerAlive = false) : (h.step op).sys.readerAlive = false := by
  cases op with
  | p op => rw [step_sys_p, pop_readerAlive]; exact hi
  | c op => rw [step_sys_c]; exact cop_readerAlive_false _ _ hi

theorem RA_run (ops : List AnyOp) (h : Hist) (hi : h.sys.readerAlive = false) : (h.run ops).sys.readerAlive = false := by
  induction ops generalizing h with
  | nil => exact hi
  | cons op ops ih => rw [run_cons]; exact ih _ (RA_step h op hi)

theorem pop_dead_err (s : Sys) (bs : Bytes) (h : s.bw = .dead) :
    (s.pop .flush).2.1 = .err ∧ (s.pop (.write bs)).2.1 = .err := by
  obtain ⟨sh0, buf0, cap, bw, pw, ra⟩ := s
  simp only at h
  subst h
  simp [Sys.pop]

/-! ### gzip writer -/

def Chunks (cap : Nat) (ready : List Bytes) : Prop := ∀ c ∈ ready, c ≠ [] ∧ c.length ≤ cap

theorem wwa_ok (cap : Nat) (hc : 0 < cap) (fuel : Nat) :
    ∀ (ready : List Bytes) (wk : Option Nat) (buf bs : Bytes) (wakes : List Nat),
      bs.length < fuel → buf.length < cap → Chunks cap ready →
      ∃ ready' wk' buf' wakes',
        writerWriteAll fuel ⟨.ok ready ready.flatten.length false, wk⟩ buf cap bs wakes =
          (⟨.ok ready' ready'.flatten.length false, wk'⟩, buf', true, wakes') ∧
        buf'.length < cap ∧ ready'.flatten ++ buf' = ready.flatten ++ buf ++ bs ∧ Chunks cap ready' := by
  induction fuel with
  | zero => intro _ _ _ _ _ h; omega
  | succ fuel ih =>
    intro ready wk buf bs wakes hf hb hch
    rw [writerWriteAll]
    cases bs with
    | nil => exact ⟨ready, wk, buf, wakes, by simp, hb, by simp, hch⟩
    | cons b bs =>
      simp only [List.isEmpty_cons, Bool.false_eq_true, if_false]
      by_cases hfull : cap - buf.length ≤ (b :: bs).length
      · rw [writerWrite_full_ok _ _ _ _ hfull hc (Nat.le_of_lt hb) _ _ _ rfl]
        obtain ⟨n, hn⟩ : ∃ n, cap - buf.length = n + 1 := ⟨cap - buf.length - 1, by omega⟩
        simp only [hn]
        have hl : (buf ++ List.take (n + 1) (b :: bs)).length = cap := by
          simp only [List.length_append, List.length_take]; omega
        have hl2 : (ready ++ [buf ++ List.take (n + 1) (b :: bs)]).flatten.length = ready.flatten.length + cap := by
          simp only [List.flatten_append, List.length_append, List.flatten_cons, List.flatten_nil, List.append_nil, hl]
        rw [← hl2]
        have hch' : Chunks cap (ready ++ [buf ++ List.take (n + 1) (b :: bs)]) := by
          intro c hcm
          rcases List.mem_append.1 hcm with hcm | hcm
          · exact hch c hcm
          · simp only [List.mem_singleton] at hcm
            subst hcm
            refine ⟨?_, Nat.le_of_eq hl⟩
            intro h0; rw [h0] at hl; simp at hl; omega
        obtain ⟨ready', wk', buf', wakes', h1, h2, h3, h4⟩ :=
          ih (ready ++ [buf ++ List.take (n + 1) (b :: bs)]) none [] (List.drop (n + 1) (b :: bs))
            (match wk with | some w => wakes ++ [w] | none => wakes)
            (by simp only [List.length_drop, List.length_cons] at hf hfull ⊢; omega) (by simpa using hc) hch'
        refine ⟨ready', wk', buf', wakes', h1, h2, ?_, h4⟩
        rw [h3]
        simp only [List.flatten_append, List.flatten_cons, List.flatten_nil, List.append_nil, List.append_assoc,
          List.take_append_drop]
      · rw [writerWrite_small _ _ _ _ hfull]
        simp only [List.length_cons]
        obtain ⟨ready', wk', buf', wakes', h1, h2, h3, h4⟩ :=
          ih ready wk (buf ++ b :: bs) (List.drop (bs.length + 1) (b :: bs)) wakes
            (by simp only [List.length_drop, List.length_cons] at hf ⊢; omega)
            (by simp only [List.length_append, List.length_cons] at hfull ⊢; omega) hch
        refine ⟨ready', wk', buf', wakes', h1, h2, ?_, h4⟩
        rw [h3]
        simp

theorem wwa_ok' (cap : Nat) (hc : 0 < cap) (sh : Shared) (ready : List Bytes) (buf bs : Bytes) (wakes : List Nat)
    (hst : sh.state = .ok ready ready.flatten.length false) (hb : buf.length < cap) (hch : Chunks cap ready) :
    ∃ sh' buf' wakes' ready',
      writerWriteAll (bs.length + 1) sh buf cap bs wakes = (sh', buf', true, wakes') ∧
      sh'.state = .ok ready' ready'.flatten.length false ∧
      buf'.length < cap ∧ ready'.flatten ++ buf' = ready.flatten ++ buf ++ bs ∧ Chunks cap ready' := by
  obtain ⟨st, wk⟩ := sh
  simp only at hst
  subst hst
  obtain ⟨ready', wk', buf', wakes', h1, h2, h3, h4⟩ :=
    wwa_ok cap hc (bs.length + 1) ready wk buf bs wakes (Nat.lt_succ_self _) hb hch
  exact ⟨_, buf', wakes', ready', h1, rfl, h2, h3, h4⟩

theorem pop_gz_write (s : Sys) (pushed : Bytes) (a : Nat) (hbw : s.bw = .gz) (sh buf wakes)
    (h : writerWriteAll (pushed.length + 1) s.sh s.buf s.cap pushed [] = (sh, buf, true, wakes)) :
    s.pop (.gzWrite pushed a) = ({ s with sh := sh, buf := buf }, .wrote a, wakes) := by
  obtain ⟨sh0, buf0, cap, bw, pw, ra⟩ := s
  simp only at hbw h ⊢
  subst hbw
  simp [Sys.pop, h]

theorem pop_gz_flush (s : Sys) (pushed : Bytes) (hbw : s.bw = .gz) (sh buf wakes sh2 buf2 wk2)
    (h : writerWriteAll (pushed.length + 1) s.sh s.buf s.cap pushed [] = (sh, buf, true, wakes))
    (h2 : flushHelper sh buf false = (sh2, buf2, true, wk2)) :
    s.pop (.gzFlush pushed) = ({ s with sh := sh2, buf := buf2 }, .ok, wakes ++ wk2.toList) := by
  obtain ⟨sh0, buf0, cap, bw, pw, ra⟩ := s
  simp only at hbw h ⊢
  subst hbw
  simp [Sys.pop, h, h2]

theorem pop_gz_drop (s : Sys) (pushed : Bytes) (hbw : s.bw = .gz) (sh buf okay wakes sh2 buf2 ok2 wk2)
    (h : writerWriteAll (pushed.length + 1) s.sh s.buf s.cap pushed [] = (sh, buf, okay, wakes))
    (h2 : flushHelper sh buf true = (sh2, buf2, ok2, wk2)) :
    s.pop (.gzDrop pushed) = ({ s with sh := sh2, buf := buf2, bw := .gone }, .unit, wakes ++ wk2.toList) := by
  obtain ⟨sh0, buf0, cap, bw, pw, ra⟩ := s
  simp only at hbw h ⊢
  subst hbw
  simp [Sys.pop, h, h2]

end HS.PipeFaults

namespace HS
open HS.PipeFaults

/-- C11 (abort): in any history of a raw writer (aborts and body drops allowed anywhere), what the
consumer received is always a prefix of what `write` accepted. -/
theorem abort_prefix (cap : Nat) (hc : 0 < cap) (ops : List AnyOp) (hops : ∀ op ∈ ops, op.rawAny) :
    let h := (Hist.init cap .raw).run ops
    h.delivered <+: h.accepted := by
  intro h
  have hi : RI cap h := RI_run cap hc ops hops _ (RI_init cap)
  have := hi.pre
  unfold PI at this
  split at this
  · exact ⟨_, by simpa using this⟩
  · exact this

/-- C11 (abort): after `abort` on a live writer whose body is still alive and has not reported a
terminal event, the body does not claim end-of-stream, the next poll reports an error (not a
clean end, not data), and the poll after that the end. -/
theorem abort_error_next (cap : Nat) (hc : 0 < cap) (ops : List AnyOp) (hops : ∀ op ∈ ops, op.rawAny) (w : Nat) :
    let h := (Hist.init cap .raw).run ops
    h.sys.bw = .raw → h.sys.readerAlive = true → (∀ r ∈ h.polls, r.isTerminal = false) →
    let h1 := h.step (.p .abort)
    readerIsEndStream h1.sys.sh = false ∧
    (h1.sys.cop (.poll w)).2 = .polled .err ∧
    ((h1.sys.cop (.poll w)).1.cop (.poll w)).2 = .polled .end_ := by
  intro h hbw hra _ h1
  have hi : RI cap h := RI_run cap hc ops hops _ (RI_init cap)
  obtain ⟨ready, hst⟩ := hi.live hbw hra
  have e : h1 = _ := step_p_eq _ _ _ _ _ (pop_raw_abort_ok h.sys hbw _ _ _ hst)
  rw [e]
  simp [readerIsEndStream, Sys.cop, readerPoll, hra]

set_option linter.unusedVariables false in
/-- C11 (abort): after `abort`, every later `write` and `flush` fails, whatever else happens. -/
theorem abort_dead (cap : Nat) (hc : 0 < cap) (ops more : List AnyOp)
    (hops : ∀ op ∈ ops, op.rawAny) (hmore : ∀ op ∈ more, op.rawAny) (bs : Bytes) :
    let h := ((Hist.init cap .raw).run (ops ++ [.p .abort])).run more
    (h.sys.pop (.write bs)).2.1 ≠ .ok ∧ (∀ n, (h.sys.pop (.write bs)).2.1 ≠ .wrote n) ∧
    (h.sys.pop .flush).2.1 ≠ .ok := by
  intro h
  have hdg : DG h.sys := by
    apply DG_run
    rw [run_append, run_cons, run_nil, step_sys_p]
    exact DG_abort _
  rcases hdg with hd | hg
  · have := pop_dead_err h.sys bs hd
    simp [this.1, this.2]
  · simp [pop_gone _ _ hg]

/-- C11 (disconnect): once the body has been dropped, whatever was queued is released and the
queue never grows again, the writer never holds more than one chunk, every `flush` fails, a
`write` that completes a chunk fails, and after the first failure every operation fails. -/
theorem disconnect_signalled (cap : Nat) (hc : 0 < cap) (ops more : List AnyOp)
    (hops : ∀ op ∈ ops, op.rawAny) (hmore : ∀ op ∈ more, op.rawAny) (bs : Bytes) :
    let h := ((Hist.init cap .raw).run (ops ++ [.c .drop])).run more
    h.sys.inflight = [] ∧ h.sys.buf.length ≤ cap ∧
    (h.sys.bw = .raw → (h.sys.pop .flush).2.1 = .err) ∧
    (h.sys.bw = .raw → cap - h.sys.buf.length ≤ bs.length → (h.sys.pop (.write bs)).2.1 = .err) ∧
    (h.sys.bw = .dead → (h.sys.pop .flush).2.1 = .err ∧ (h.sys.pop (.write bs)).2.1 = .err) := by
  intro h
  have hops' : ∀ op ∈ ops ++ [AnyOp.c .drop], op.rawAny := by
    intro op ho
    rcases List.mem_append.1 ho with ho | ho
    · exact hops op ho
    · simp at ho; subst ho; trivial
  have hi : RI cap h := RI_run cap hc more hmore _ (RI_run cap hc _ hops' _ (RI_init cap))
  have hra : h.sys.readerAlive = false := by
    apply RA_run
    rw [run_append, run_cons, run_nil, step_sys_c]
    exact cop_drop_readerAlive _
  have hst := hi.dead_fused hra
  have hn := nok_fused _ hst
  refine ⟨by simp [Sys.inflight, hst], hi.buf_le, ?_, ?_, ?_⟩
  · intro hbw
    rw [pop_raw_flush_nok _ hbw hn]
  · intro hbw hfull
    rw [← hi.cap_eq] at hfull
    rw [pop_raw_write_of_err _ bs hbw _ _ _ (writerWrite_full_nok _ _ _ _ hfull hn) hn]
  · exact pop_dead_err _ bs

end HS

/-! ### gzip writer: invariant over `gzPlain` histories -/

namespace HS.PipeFaults
open HS

def GSt (cap : Nat) (h : Hist) : Prop :=
  match h.sys.sh.state, h.sys.bw with
  | .ok ready rb false, .gz =>
    rb = ready.flatten.length ∧ Chunks cap ready ∧ h.sys.buf.length < cap ∧
      h.delivered ++ ready.flatten ++ h.sys.buf = h.accepted ∧ ROut.end_ ∉ h.polls
  | .ok ready rb true, .gone =>
    rb = ready.flatten.length ∧ Chunks cap ready ∧ h.sys.buf = [] ∧
      h.delivered ++ ready.flatten = h.accepted ∧ ROut.end_ ∉ h.polls
  | .fused, .gone => h.sys.buf = [] ∧ h.delivered = h.accepted
  | _, _ => False

structure GI (cap : Nat) (h : Hist) : Prop where
  cap_eq : h.sys.cap = cap
  alive : h.sys.readerAlive = true
  no_err : POut.err ∉ h.pouts
  frames_ok : Chunks cap h.frames
  st : GSt cap h

theorem GI_init (cap : Nat) (hc : 0 < cap) : GI cap (Hist.init cap .gz) := by
  constructor <;> simp [Hist.init, GSt, Hist.delivered, Chunks, hc]

theorem GI_gone (cap : Nat) (h : Hist) (op : POp) (hbw : h.sys.bw = .gone) (hi : GI cap h) :
    GI cap (h.step (.p op)) := by
  rw [step_p_eq _ _ _ _ _ (pop_gone h.sys op hbw)]
  obtain ⟨h1, h2, h3, h4, h5⟩ := hi
  have : acc' h op .unit = h.accepted := by
    cases op <;> simp [acc', hbw]
  constructor <;> simp_all [GSt, Hist.delivered]

theorem GSt_gz (cap : Nat) (h : Hist) (hbw : h.sys.bw = .gz) (hi : GSt cap h) :
    ∃ ready, h.sys.sh.state = .ok ready ready.flatten.length false ∧ Chunks cap ready ∧
      h.sys.buf.length < cap ∧ h.delivered ++ ready.flatten ++ h.sys.buf = h.accepted ∧ ROut.end_ ∉ h.polls := by
  unfold GSt at hi
  simp only [hbw] at hi
  split at hi <;> try contradiction
  rename_i ready rb hst _
  obtain ⟨h1, h2, h3, h4, h5⟩ := hi
  subst h1
  exact ⟨ready, hst, h2, h3, h4, h5⟩

theorem GSt_bw (cap : Nat) (h : Hist) (hi : GSt cap h) : h.sys.bw = .gz ∨ h.sys.bw = .gone := by
  unfold GSt at hi
  split at hi <;> simp_all

theorem Chunks_snoc (cap : Nat) (r : List Bytes) (b : Bytes) :
    Chunks cap (r ++ [b]) ↔ Chunks cap r ∧ b ≠ [] ∧ b.length ≤ cap := by
  simp only [Chunks, List.mem_append, List.mem_singleton]
  constructor
  · intro h
    exact ⟨fun c hc => h c (Or.inl hc), h b (Or.inr rfl)⟩
  · rintro ⟨h1, h2⟩ c (hc | hc)
    · exact h1 c hc
    · subst hc; exact h2

macro "pipefaults_gi_close" : tactic =>
  `(tactic| (constructor <;> simp_all [acc', GSt, Hist.delivered, Chunks_snoc] <;> (try and_intros) <;>
      first | omega | (subst_vars; simp; done) | assumption | skip))

theorem GI_gzWrite (cap : Nat) (hc : 0 < cap) (h : Hist) (pushed : Bytes) (a : Nat) (hi : GI cap h) :
    GI cap (h.step (.p (.gzWrite pushed a))) := by
  rcases GSt_bw cap h hi.st with hbw | hbw
  · obtain ⟨ready, hst, hch, hb, hfl, hend⟩ := GSt_gz cap h hbw hi.st
    obtain ⟨s, acc, fr, po, pl⟩ := h
    obtain ⟨h1, h2, h3, h4, h5⟩ := hi
    simp only at h1 h2 h3 h4 hbw hst hb hfl hend
    obtain ⟨sh', buf', wakes', ready', hw, hst', hb', hfl', hch'⟩ :=
      wwa_ok' cap hc s.sh ready s.buf pushed [] hst hb hch
    rw [← h1] at hw
    rw [step_p_eq _ _ _ _ _ (pop_gz_write s pushed a hbw _ _ _ hw)]
    clear h5 hw
    pipefaults_gi_close
  · exact GI_gone cap h _ hbw hi

theorem GI_gzFlush (cap : Nat) (hc : 0 < cap) (h : Hist) (pushed : Bytes) (hi : GI cap h) :
    GI cap (h.step (.p (.gzFlush pushed))) ∧ (h.sys.bw = .gz → (h.step (.p (.gzFlush pushed))).sys.buf = []) := by
  rcases GSt_bw cap h hi.st with hbw | hbw
  · obtain ⟨ready, hst, hch, hb, hfl, hend⟩ := GSt_gz cap h hbw hi.st
    obtain ⟨s, acc, fr, po, pl⟩ := h
    obtain ⟨h1, h2, h3, h4, h5⟩ := hi
    simp only at h1 h2 h3 h4 hbw hst hb hfl hend
    obtain ⟨sh', buf', wakes', ready', hw, hst', hb', hfl', hch'⟩ :=
      wwa_ok' cap hc s.sh ready s.buf pushed [] hst hb hch
    rw [← h1] at hw
    have hf := flushHelper_ok sh' buf' false _ _ _ hst'
    have hlen := congrArg List.length hfl'
    simp only [List.length_append, List.length_flatten] at hlen
    by_cases hbe : buf' = []
    · rw [if_pos ⟨hbe, rfl⟩] at hf
      rw [step_p_eq _ _ _ _ _ (pop_gz_flush s pushed hbw _ _ _ _ _ _ hw hf)]
      clear h5 hw hf
      refine ⟨?_, fun _ => hbe⟩
      pipefaults_gi_close
    · rw [if_neg (by simp [hbe])] at hf
      rw [step_p_eq _ _ _ _ _ (pop_gz_flush s pushed hbw _ _ _ _ _ _ hw hf)]
      clear h5 hw hf
      refine ⟨?_, fun _ => rfl⟩
      pipefaults_gi_close
  · refine ⟨GI_gone cap h _ hbw hi, ?_⟩
    intro h'; rw [hbw] at h'; contradiction

theorem GI_gzDrop (cap : Nat) (hc : 0 < cap) (h : Hist) (pushed : Bytes) (hi : GI cap h) :
    GI cap (h.step (.p (.gzDrop pushed))) := by
  rcases GSt_bw cap h hi.st with hbw | hbw
  · obtain ⟨ready, hst, hch, hb, hfl, hend⟩ := GSt_gz cap h hbw hi.st
    obtain ⟨s, acc, fr, po, pl⟩ := h
    obtain ⟨h1, h2, h3, h4, h5⟩ := hi
    simp only at h1 h2 h3 h4 hbw hst hb hfl hend
    obtain ⟨sh', buf', wakes', ready', hw, hst', hb', hfl', hch'⟩ :=
      wwa_ok' cap hc s.sh ready s.buf pushed [] hst hb hch
    rw [← h1] at hw
    have hf := flushHelper_ok sh' buf' true _ _ _ hst'
    have hlen := congrArg List.length hfl'
    simp only [List.length_append, List.length_flatten] at hlen
    rw [if_neg (by simp)] at hf
    rw [step_p_eq _ _ _ _ _ (pop_gz_drop s pushed hbw _ _ _ _ _ _ _ _ hw hf)]
    clear h5 hw hf
    by_cases hbe : buf' = [] <;> pipefaults_gi_close
  · exact GI_gone cap h _ hbw hi

theorem GI_cop (cap : Nat) (h : Hist) (op : COp) (hop : (AnyOp.c op).gzPlain) (hi : GI cap h) :
    GI cap (h.step (.c op)) := by
  obtain ⟨⟨⟨st, wk⟩, buf, cap0, bw, pw, ra⟩, acc, fr, po, pl⟩ := h
  obtain ⟨h1, h2, h3, h4, h5⟩ := hi
  simp only at h1 h2 h3 h4
  subst h2
  cases op with
  | drop => simp [AnyOp.gzPlain] at hop
  | sizeHint =>
    simp [Hist.step, Sys.cop]
    pipefaults_gi_close
  | isEndStream =>
    simp [Hist.step, Sys.cop]
    pipefaults_gi_close
  | poll w =>
    cases st with
    | err => simp [GSt] at h5
    | fused =>
      cases bw <;> simp [GSt] at h5
      simp [Hist.step, Sys.cop, readerPoll]
      pipefaults_gi_close
    | ok ready rb wd =>
      cases wd <;> cases bw <;> simp [GSt] at h5
      · obtain ⟨g1, g2, g3, g4, g5⟩ := h5
        subst g1
        cases ready with
        | nil =>
          simp [Hist.step, Sys.cop, readerPoll]
          pipefaults_gi_close
        | cons c rest =>
          have hc1 := g2 c List.mem_cons_self
          have hc2 : Chunks cap rest := fun x hx => g2 x (List.mem_cons_of_mem _ hx)
          simp [Hist.step, Sys.cop, readerPoll]
          pipefaults_gi_close
      · obtain ⟨g1, g2, g3, g4, g5⟩ := h5
        subst g1
        cases ready with
        | nil =>
          simp [Hist.step, Sys.cop, readerPoll]
          pipefaults_gi_close
        | cons c rest =>
          have hc1 := g2 c List.mem_cons_self
          have hc2 : Chunks cap rest := fun x hx => g2 x (List.mem_cons_of_mem _ hx)
          cases rest <;> simp [Hist.step, Sys.cop, readerPoll] <;> pipefaults_gi_close

theorem GI_step (cap : Nat) (hc : 0 < cap) (h : Hist) (op : AnyOp) (hop : op.gzPlain) (hi : GI cap h) :
    GI cap (h.step op) := by
  cases op with
  | c op => exact GI_cop cap h op hop hi
  | p op =>
    cases op with
    | gzWrite pushed a => exact GI_gzWrite cap hc h pushed a hi
    | gzFlush pushed => exact (GI_gzFlush cap hc h pushed hi).1
    | gzDrop pushed => exact GI_gzDrop cap hc h pushed hi
    | write _ => exact absurd hop (by simp [AnyOp.gzPlain])
    | flush => exact absurd hop (by simp [AnyOp.gzPlain])
    | abort => exact absurd hop (by simp [AnyOp.gzPlain])
    | drop => exact absurd hop (by simp [AnyOp.gzPlain])

theorem GI_run (cap : Nat) (hc : 0 < cap) (ops : List AnyOp) (hops : ∀ op ∈ ops, op.gzPlain) (h : Hist)
    (hi : GI cap h) : GI cap (h.run ops) := by
  induction ops generalizing h with
  | nil => exact hi
  | cons op ops ih =>
    rw [run_cons]
    exact ih (fun o ho => hops o (List.mem_cons_of_mem _ ho)) _
      (GI_step cap hc h op (hops op List.mem_cons_self) hi)

theorem GI_concl (cap : Nat) (h : Hist) (hi : GI cap h) :
    POut.err ∉ h.pouts ∧ h.delivered ++ h.sys.inflight ++ h.sys.buf = h.accepted ∧
    (∀ f ∈ h.frames, f ≠ [] ∧ f.length ≤ cap) ∧
    (ROut.end_ ∈ h.polls → h.sys.bw = .gone ∧ h.delivered = h.accepted) := by
  refine ⟨hi.no_err, ?_, hi.frames_ok, ?_⟩
  all_goals
    have h5 := hi.st
    unfold GSt at h5
    split at h5 <;> simp_all [Sys.inflight]

end HS.PipeFaults

namespace HS
open HS.PipeFaults

/-- C09 (transport): with a gzip writer and no abort / body drop, every operation succeeds and
the consumer receives exactly the encoder's output — every pushed byte, once, in order; after a
`flush` everything pushed so far is delivered or queued; after the writer is dropped a clean end
follows and then `delivered` is the encoder's complete output. -/
theorem gz_transport (cap : Nat) (hc : 0 < cap) (ops : List AnyOp) (hops : ∀ op ∈ ops, op.gzPlain) :
    let h := (Hist.init cap .gz).run ops
    POut.err ∉ h.pouts ∧ h.delivered ++ h.sys.inflight ++ h.sys.buf = h.accepted ∧
    (∀ f ∈ h.frames, f ≠ [] ∧ f.length ≤ cap) ∧
    (ROut.end_ ∈ h.polls → h.sys.bw = .gone ∧ h.delivered = h.accepted) :=
  GI_concl cap _ (GI_run cap hc ops hops _ (GI_init cap hc))

/-- C09: after a successful `flush` of a gzip writer nothing stays in the writer's buffer. -/
theorem gz_flush_publishes (cap : Nat) (hc : 0 < cap) (ops : List AnyOp) (hops : ∀ op ∈ ops, op.gzPlain)
    (pushed : Bytes) :
    let h := (Hist.init cap .gz).run (ops ++ [.p (.gzFlush pushed)])
    h.sys.bw = .gz → h.delivered ++ h.sys.inflight = h.accepted := by
  intro h hbw
  have hi0 := GI_run cap hc ops hops _ (GI_init cap hc)
  have he : h = ((Hist.init cap .gz).run ops).step (.p (.gzFlush pushed)) := by
    show Hist.run _ _ = _
    rw [run_append, run_cons, run_nil]
  obtain ⟨hi, hbuf⟩ := GI_gzFlush cap hc _ pushed hi0
  rw [← he] at hi hbuf
  have hbw0 : ((Hist.init cap .gz).run ops).sys.bw = .gz := by
    rcases GSt_bw cap _ hi0.st with hb | hb
    · exact hb
    · exfalso
      have : h.sys.bw = .gone := by
        rw [he, step_sys_p, pop_gone _ _ hb]; exact hb
      rw [hbw] at this; contradiction
  have := (GI_concl cap h hi).2.1
  rw [hbuf hbw0, List.append_nil] at this
  exact this

end HS
