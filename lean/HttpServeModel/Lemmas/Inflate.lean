/-
Theorems about the gzip / DEFLATE decoder model (`Model/Inflate.lean`).
-/
import HttpServeModel.Model.Inflate

namespace HS.Inflate
open HS

/-! ### Generic facts about `run` -/

variable {α : Type}
@[simp] theorem run_pure (a : α) (v n l) : run (.pure a) v n l = .ok a v n l := by
  cases l <;> simp [run]
@[simp] theorem run_fail (v n l) : run (.fail : Dec α) v n l = .err := by
  cases l <;> simp [run]
@[simp] theorem run_bit_nil (k : Bool → Dec α) (v) : run (.bit k) v 0 [] = .eof := by simp [run]
@[simp] theorem run_bit_cons (k : Bool → Dec α) (v x t) :
    run (.bit k) v 0 (x :: t) = run (k (x % 2 == 1)) (x % 256 / 2) 7 t := by simp [run]
@[simp] theorem run_bit_succ (k : Bool → Dec α) (v n l) :
    run (.bit k) v (n + 1) l = run (k (v % 2 == 1)) (v / 2) n l := by
  cases l <;> simp [run]
@[simp] theorem run_byte_nil (k : Nat → Dec α) (v n) : run (.byte k) v n [] = .eof := by simp [run]
@[simp] theorem run_byte_cons (k : Nat → Dec α) (v n x t) :
    run (.byte k) v n (x :: t) = run (k x) 0 0 t := by simp [run]
theorem run_cstr (k : Bytes → Dec α) (v n l) :
    run (.cstr k) v n l = match splitZ l with
      | none => .eof
      | some (a, r) => run (k a) 0 0 r := by
  cases l <;> simp only [run] <;> rfl
theorem run_cstr_none (k : Bytes → Dec α) (v n) {l} (h : splitZ l = none) :
    run (.cstr k) v n l = .eof := by rw [run_cstr, h]
theorem run_cstr_some (k : Bytes → Dec α) (v n) {l a r} (h : splitZ l = some (a, r)) :
    run (.cstr k) v n l = run (k a) 0 0 r := by rw [run_cstr, h]

@[simp] theorem bind_eq {α β : Type} (d : Dec α) (f : α → Dec β) : d >>= f = Dec.bind d f := rfl

theorem run_bind {α β : Type} (d : Dec α) (f : α → Dec β) : ∀ (v n : Nat) (l : Bytes),
    run (Dec.bind d f) v n l =
      match run d v n l with
      | .ok a v' n' l' => run (f a) v' n' l'
      | .eof => .eof
      | .err => .err := by
  induction d with
  | pure a => intro v n l; simp [Dec.bind]
  | fail => intro v n l; simp [Dec.bind]
  | bit k ih =>
    intro v n l
    simp only [Dec.bind]
    cases n with
    | zero =>
      cases l with
      | nil => simp
      | cons x t => simp only [run_bit_cons]; exact ih _ _ _ _
    | succ m => simp only [run_bit_succ]; exact ih _ _ _ _
  | byte k ih =>
    intro v n l
    simp only [Dec.bind]
    cases l with
    | nil => simp
    | cons x t => simp only [run_byte_cons]; exact ih _ _ _ _
  | cstr k ih =>
    intro v n l
    simp only [Dec.bind]
    cases h : splitZ l with
    | none => simp [run_cstr_none _ _ _ h]
    | some p =>
      obtain ⟨a, r⟩ := p
      rw [run_cstr_some _ _ _ h, run_cstr_some _ _ _ h]; exact ih _ _ _ _

theorem splitZ_append {l a r : Bytes} (b : Bytes) (h : splitZ l = some (a, r)) :
    splitZ (l ++ b) = some (a, r ++ b) := by
  induction l generalizing a r with
  | nil => simp [splitZ] at h
  | cons x t ih =>
    simp only [splitZ, List.cons_append] at h ⊢
    split
    · rename_i hx; simp [hx] at h; simp [h]
    · rename_i hx
      simp only [hx, if_false] at h
      cases ht : splitZ t with
      | none => simp [ht] at h
      | some p =>
        obtain ⟨a', r'⟩ := p
        simp [ht] at h
        simp [ih ht, h]

theorem splitZ_suffix {l a r : Bytes} (h : splitZ l = some (a, r)) : l = a ++ r := by
  induction l generalizing a r with
  | nil => simp [splitZ] at h
  | cons x t ih =>
    simp only [splitZ] at h
    split at h
    · rename_i hx; simp at h; simp [← h.1, ← h.2, hx]
    · cases ht : splitZ t with
      | none => simp [ht] at h
      | some p =>
        obtain ⟨a', r'⟩ := p
        simp [ht] at h
        simp [← h.1, ← h.2, ih ht]

/-- More input after a successful run: same result, the extra input stays unread. -/
theorem run_ok_append {α : Type} (d : Dec α) (b : Bytes) : ∀ (v n : Nat) (l : Bytes) (a : α)
    (v' n' : Nat) (l' : Bytes), run d v n l = .ok a v' n' l' →
      run d v n (l ++ b) = .ok a v' n' (l' ++ b) := by
  induction d with
  | pure a => intro v n l a' v' n' l' h; simp at h ⊢; simp [h]
  | fail => intro v n l a' v' n' l' h; simp at h
  | bit k ih =>
    intro v n l a' v' n' l' h
    cases n with
    | zero =>
      cases l with
      | nil => simp at h
      | cons x t => simp only [run_bit_cons, List.cons_append] at h ⊢; exact ih _ _ _ _ _ _ _ _ h
    | succ m => simp only [run_bit_succ] at h ⊢; exact ih _ _ _ _ _ _ _ _ h
  | byte k ih =>
    intro v n l a' v' n' l' h
    cases l with
    | nil => simp at h
    | cons x t => simp only [run_byte_cons, List.cons_append] at h ⊢; exact ih _ _ _ _ _ _ _ _ h
  | cstr k ih =>
    intro v n l a' v' n' l' h
    cases hs : splitZ l with
    | none => simp [run_cstr_none _ _ _ hs] at h
    | some p =>
      obtain ⟨a, r⟩ := p
      rw [run_cstr_some _ _ _ hs] at h
      rw [run_cstr_some _ _ _ (splitZ_append b hs)]
      exact ih _ _ _ _ _ _ _ _ h

/-- More input after a detected defect: still a defect. -/
theorem run_err_append {α : Type} (d : Dec α) (b : Bytes) : ∀ (v n : Nat) (l : Bytes),
    run d v n l = .err → run d v n (l ++ b) = .err := by
  induction d with
  | pure a => intro v n l h; simp at h
  | fail => intro v n l h; simp
  | bit k ih =>
    intro v n l h
    cases n with
    | zero =>
      cases l with
      | nil => simp at h
      | cons x t => simp only [run_bit_cons, List.cons_append] at h ⊢; exact ih _ _ _ _ h
    | succ m => simp only [run_bit_succ] at h ⊢; exact ih _ _ _ _ h
  | byte k ih =>
    intro v n l h
    cases l with
    | nil => simp at h
    | cons x t => simp only [run_byte_cons, List.cons_append] at h ⊢; exact ih _ _ _ _ h
  | cstr k ih =>
    intro v n l h
    cases hs : splitZ l with
    | none => simp [run_cstr_none _ _ _ hs] at h
    | some p =>
      obtain ⟨a, r⟩ := p
      rw [run_cstr_some _ _ _ hs] at h
      rw [run_cstr_some _ _ _ (splitZ_append b hs)]
      exact ih _ _ _ _ h

/-- What a successful run leaves is a suffix of what it was given. -/
theorem run_suffix {α : Type} (d : Dec α) : ∀ (v n : Nat) (l : Bytes) (a : α)
    (v' n' : Nat) (l' : Bytes), run d v n l = .ok a v' n' l' → ∃ pre, l = pre ++ l' := by
  induction d with
  | pure a => intro v n l a' v' n' l' h; simp at h; exact ⟨[], by simp [h]⟩
  | fail => intro v n l a' v' n' l' h; simp at h
  | bit k ih =>
    intro v n l a' v' n' l' h
    cases n with
    | zero =>
      cases l with
      | nil => simp at h
      | cons x t =>
        simp only [run_bit_cons] at h
        obtain ⟨pre, hp⟩ := ih _ _ _ _ _ _ _ _ h
        exact ⟨x :: pre, by simp [hp]⟩
    | succ m => simp only [run_bit_succ] at h; exact ih _ _ _ _ _ _ _ _ h
  | byte k ih =>
    intro v n l a' v' n' l' h
    cases l with
    | nil => simp at h
    | cons x t =>
      simp only [run_byte_cons] at h
      obtain ⟨pre, hp⟩ := ih _ _ _ _ _ _ _ _ h
      exact ⟨x :: pre, by simp [hp]⟩
  | cstr k ih =>
    intro v n l a' v' n' l' h
    cases hs : splitZ l with
    | none => simp [run_cstr_none _ _ _ hs] at h
    | some p =>
      obtain ⟨a, r⟩ := p
      rw [run_cstr_some _ _ _ hs] at h
      obtain ⟨pre, hp⟩ := ih _ _ _ _ _ _ _ _ h
      exact ⟨a ++ pre, by rw [splitZ_suffix hs, hp]; simp⟩

/-! ### Facts about `loop` -/

def Outcome.out : Outcome → Bytes
  | .done o _ => o
  | .more o => o
  | .bad o => o

theorem copyBack_prefix (dist : Nat) : ∀ (len : Nat) (out : Array Nat),
    out.toList <+: (copyBack dist len out).toList := by
  intro len
  induction len with
  | zero => intro out; simp [copyBack]
  | succ k ih =>
    intro out
    simp only [copyBack]
    refine List.IsPrefix.trans ?_ (ih _)
    simp

theorem emit_prefix (e : Emit) (out : Array Nat) : out.toList <+: (emit e out).2.toList := by
  cases e with
  | none => simp [emit]
  | lit b => simp [emit]
  | copy len dist =>
    simp only [emit]
    split
    · simp
    · exact copyBack_prefix _ _ _

theorem loop_eof {f st out v n l} (h : run (step st) v n l = .eof) :
    loop (f + 1) st out v n l = .more out.toList := by simp [loop, h]
theorem loop_err {f st out v n l} (h : run (step st) v n l = .err) :
    loop (f + 1) st out v n l = .bad out.toList := by simp [loop, h]
theorem loop_badEmit {f st out v n l e nx v' n' l' out'}
    (h : run (step st) v n l = .ok (e, nx) v' n' l') (he : emit e out = (false, out')) :
    loop (f + 1) st out v n l = .bad out'.toList := by simp [loop, h, he]
theorem loop_fin {f st out v n l e v' n' l' out'}
    (h : run (step st) v n l = .ok (e, none) v' n' l') (he : emit e out = (true, out')) :
    loop (f + 1) st out v n l = .done out'.toList l' := by simp [loop, h, he]
theorem loop_next {f st out v n l e st' v' n' l' out'}
    (h : run (step st) v n l = .ok (e, some st') v' n' l') (he : emit e out = (true, out')) :
    loop (f + 1) st out v n l = loop f st' out' v' n' l' := by simp [loop, h, he]

/-- The decoder only ever appends to its output. -/
theorem loop_out_prefix : ∀ (f : Nat) (st : St) (out : Array Nat) (v n : Nat) (l : Bytes),
    out.toList <+: (loop f st out v n l).out := by
  intro f
  induction f with
  | zero => intro st out v n l; simp [loop, Outcome.out]
  | succ k ih =>
    intro st out v n l
    cases hr : run (step st) v n l with
    | eof => simp [loop_eof hr, Outcome.out]
    | err => simp [loop_err hr, Outcome.out]
    | ok a v' n' l' =>
      obtain ⟨e, nx⟩ := a
      have hp := emit_prefix e out
      rcases he : emit e out with ⟨okf, out'⟩
      rw [he] at hp
      cases okf with
      | false => rw [loop_badEmit hr he]; exact hp
      | true =>
        cases nx with
        | none => rw [loop_fin hr he]; exact hp
        | some st' => rw [loop_next hr he]; exact List.IsPrefix.trans hp (ih _ _ _ _ _)

/-- What `done` leaves is a suffix of the input. -/
theorem loop_suffix : ∀ (f : Nat) (st : St) (out : Array Nat) (v n : Nat) (l o r : Bytes),
    loop f st out v n l = .done o r → ∃ pre, l = pre ++ r := by
  intro f
  induction f with
  | zero => intro st out v n l o r h; simp [loop] at h
  | succ k ih =>
    intro st out v n l o r h
    cases hr : run (step st) v n l with
    | eof => simp [loop_eof hr] at h
    | err => simp [loop_err hr] at h
    | ok a v' n' l' =>
      obtain ⟨e, nx⟩ := a
      obtain ⟨p1, hp1⟩ := run_suffix _ _ _ _ _ _ _ _ hr
      rcases he : emit e out with ⟨okf, out'⟩
      cases okf with
      | false => simp [loop_badEmit hr he] at h
      | true =>
        cases nx with
        | none =>
          rw [loop_fin hr he] at h
          simp at h; exact ⟨p1, by rw [hp1, h.2]⟩
        | some st' =>
          rw [loop_next hr he] at h
          obtain ⟨p2, hp2⟩ := ih _ _ _ _ _ _ _ h
          exact ⟨p1 ++ p2, by rw [hp1, hp2]; simp⟩

/-- How the outcome on a longer input relates to the outcome on a prefix. -/
def Ext (b : Bytes) : Outcome → Outcome → Prop
  | .more o, r => o <+: r.out
  | .bad o, r => r = .bad o
  | .done o rest, r => r = .done o (rest ++ b)

theorem loop_mono (b : Bytes) : ∀ (f1 f2 : Nat) (st : St) (out : Array Nat) (v n : Nat)
    (l : Bytes), f1 ≤ f2 → Ext b (loop f1 st out v n l) (loop f2 st out v n (l ++ b)) := by
  intro f1
  induction f1 with
  | zero => intro f2 st out v n l _; simp only [loop, Ext]; exact loop_out_prefix _ _ _ _ _ _
  | succ k ih =>
    intro f2 st out v n l hle
    obtain ⟨k2, rfl⟩ : ∃ k2, f2 = k2 + 1 := ⟨f2 - 1, by omega⟩
    cases hr : run (step st) v n l with
    | eof => rw [loop_eof hr]; exact loop_out_prefix _ _ _ _ _ _
    | err => rw [loop_err hr, loop_err (run_err_append _ b _ _ _ hr)]; rfl
    | ok a v' n' l' =>
      obtain ⟨e, nx⟩ := a
      have hr2 := run_ok_append _ b _ _ _ _ _ _ _ hr
      rcases he : emit e out with ⟨okf, out'⟩
      cases okf with
      | false => rw [loop_badEmit hr he, loop_badEmit hr2 he]; rfl
      | true =>
        cases nx with
        | none => rw [loop_fin hr he, loop_fin hr2 he]; rfl
        | some st' =>
          rw [loop_next hr he, loop_next hr2 he]
          exact ih _ _ _ _ _ _ (by omega)

/-! ### The fuel of `loop` is never the limit -/

theorem splitZ_length {l a r : Bytes} (h : splitZ l = some (a, r)) : r.length ≤ l.length := by
  rw [splitZ_suffix h]; simp

/-- A run never gives bits back. -/
theorem run_le {α : Type} (d : Dec α) : ∀ (v n : Nat) (l : Bytes) (a : α) (v' n' : Nat)
    (l' : Bytes), run d v n l = .ok a v' n' l' → 8 * l'.length + n' ≤ 8 * l.length + n := by
  induction d with
  | pure a => intro v n l a' v' n' l' h; simp at h; simp [h]
  | fail => intro v n l a' v' n' l' h; simp at h
  | bit k ih =>
    intro v n l a' v' n' l' h
    cases n with
    | zero =>
      cases l with
      | nil => simp at h
      | cons x t =>
        simp only [run_bit_cons] at h
        have := ih _ _ _ _ _ _ _ _ h
        simp only [List.length_cons]; omega
    | succ m =>
      simp only [run_bit_succ] at h
      have := ih _ _ _ _ _ _ _ _ h
      omega
  | byte k ih =>
    intro v n l a' v' n' l' h
    cases l with
    | nil => simp at h
    | cons x t =>
      simp only [run_byte_cons] at h
      have := ih _ _ _ _ _ _ _ _ h
      simp only [List.length_cons]; omega
  | cstr k ih =>
    intro v n l a' v' n' l' h
    cases hs : splitZ l with
    | none => simp [run_cstr_none _ _ _ hs] at h
    | some p =>
      obtain ⟨a, r⟩ := p
      rw [run_cstr_some _ _ _ hs] at h
      have := ih _ _ _ _ _ _ _ _ h
      have := splitZ_length hs
      omega

/-- Programs that start by asking for a bit or a byte. -/
def Consuming {α : Type} : Dec α → Prop
  | .bit _ => True
  | .byte _ => True
  | _ => False

theorem run_lt {α : Type} (d : Dec α) (hc : Consuming d) (v n : Nat) (l : Bytes) (a : α)
    (v' n' : Nat) (l' : Bytes) (h : run d v n l = .ok a v' n' l') :
    8 * l'.length + n' < 8 * l.length + n := by
  cases d with
  | pure a => simp [Consuming] at hc
  | fail => simp [Consuming] at hc
  | cstr k => simp [Consuming] at hc
  | bit k =>
    cases n with
    | zero =>
      cases l with
      | nil => simp at h
      | cons x t =>
        simp only [run_bit_cons] at h
        have := run_le _ _ _ _ _ _ _ _ h
        simp only [List.length_cons]; omega
    | succ m =>
      simp only [run_bit_succ] at h
      have := run_le _ _ _ _ _ _ _ _ h
      omega
  | byte k =>
    cases l with
    | nil => simp at h
    | cons x t =>
      simp only [run_byte_cons] at h
      have := run_le _ _ _ _ _ _ _ _ h
      simp only [List.length_cons]; omega

theorem step_consuming (st : St) : Consuming (step st) := by
  cases st with
  | hdr => simp [step, Consuming]
  | stored n fin => simp [step, Consuming]
  | huff lit dist fin => simp [step, huffStep, sym, decodeSym, Dec.bind, Consuming]

/-- Every step eats at least one bit, so more fuel than there are bits changes nothing. -/
theorem loop_fuel : ∀ (f1 f2 : Nat) (st : St) (out : Array Nat) (v n : Nat) (l : Bytes),
    8 * l.length + n < f1 → f1 ≤ f2 → loop f1 st out v n l = loop f2 st out v n l := by
  intro f1
  induction f1 with
  | zero => intro f2 st out v n l h1 _; omega
  | succ k ih =>
    intro f2 st out v n l h1 h2
    obtain ⟨k2, rfl⟩ : ∃ k2, f2 = k2 + 1 := ⟨f2 - 1, by omega⟩
    cases hr : run (step st) v n l with
    | eof => rw [loop_eof hr, loop_eof hr]
    | err => rw [loop_err hr, loop_err hr]
    | ok a v' n' l' =>
      obtain ⟨e, nx⟩ := a
      have hlt := run_lt _ (step_consuming st) _ _ _ _ _ _ _ hr
      rcases he : emit e out with ⟨okf, out'⟩
      cases okf with
      | false => rw [loop_badEmit hr he, loop_badEmit hr he]
      | true =>
        cases nx with
        | none => rw [loop_fin hr he, loop_fin hr he]
        | some st' =>
          rw [loop_next hr he, loop_next hr he]
          exact ih _ _ _ _ _ _ (by omega) (by omega)

/-- `inflate`'s own fuel is enough: any larger amount gives the same outcome. -/
theorem inflate_fuel (input : Bytes) (f : Nat) (h : 8 * input.length + 8 ≤ f) :
    loop f .hdr #[] 0 0 input = inflate input := by
  unfold inflate
  exact (loop_fuel _ _ _ _ _ _ _ (by omega) h).symm

/-! ### The gzip header -/

theorem run_byte_ok {α : Type} {k : Nat → Dec α} {v n l a v' n' l'}
    (h : run (.byte k) v n l = .ok a v' n' l') :
    ∃ x t, l = x :: t ∧ run (k x) 0 0 t = .ok a v' n' l' := by
  cases l with
  | nil => simp at h
  | cons x t => exact ⟨x, t, rfl, by simpa using h⟩

theorem run_guard_ok {α : Type} {c : Prop} [Decidable c] {d : Dec α} {v n l a v' n' l'}
    (h : run (if c then .fail else d) v n l = .ok a v' n' l') :
    ¬c ∧ run d v n l = .ok a v' n' l' := by
  by_cases hc : c
  · simp [hc] at h
  · simp only [hc, if_false] at h; exact ⟨hc, h⟩

theorem header_ok {input : Bytes} {u : Unit} {v n : Nat} {l : Bytes}
    (h : run header 0 0 input = .ok u v n l) :
    ∃ pre, input = pre ++ l ∧ 10 ≤ pre.length ∧ pre.take 3 = [31, 139, 8] := by
  unfold header at h
  obtain ⟨b0, t0, e0, hb0⟩ := run_byte_ok h
  subst e0
  obtain ⟨h0, hg0⟩ := run_guard_ok hb0
  obtain ⟨b1, t1, e1, hb1⟩ := run_byte_ok hg0
  subst e1
  obtain ⟨h1, hg1⟩ := run_guard_ok hb1
  obtain ⟨b2, t2, e2, hb2⟩ := run_byte_ok hg1
  subst e2
  obtain ⟨h2, hg2⟩ := run_guard_ok hb2
  obtain ⟨b3, t3, e3, hb3⟩ := run_byte_ok hg2
  subst e3
  obtain ⟨hflg, hg3⟩ := run_guard_ok hb3
  obtain ⟨b4, t4, e4, hb4⟩ := run_byte_ok hg3
  subst e4
  obtain ⟨b5, t5, e5, hb5⟩ := run_byte_ok hb4
  subst e5
  obtain ⟨b6, t6, e6, hb6⟩ := run_byte_ok hb5
  subst e6
  obtain ⟨b7, t7, e7, hb7⟩ := run_byte_ok hb6
  subst e7
  obtain ⟨b8, t8, e8, hb8⟩ := run_byte_ok hb7
  subst e8
  obtain ⟨b9, t9, e9, hb9⟩ := run_byte_ok hb8
  subst e9
  obtain ⟨pre, epre⟩ := run_suffix _ _ _ _ _ _ _ _ hb9
  subst epre
  refine ⟨b0 :: b1 :: b2 :: b3 :: b4 :: b5 :: b6 :: b7 :: b8 :: b9 :: pre, by simp, by simp, ?_⟩
  simp only [Decidable.not_not] at h0 h1 h2
  simp [h0, h1, h2]

theorem le32_length (n : Nat) : (le32 n).length = 4 := rfl
theorem trailer_length (o : Bytes) : (trailer o).length = 8 := rfl

/-! ### The reference stored-block encoder -/

def storedBlock (fin : Bool) (chunk : Bytes) : Bytes :=
  [if fin then 1 else 0, chunk.length % 256, chunk.length / 256,
    255 - chunk.length % 256, 255 - chunk.length / 256] ++ chunk

/-- DEFLATE stream of stored blocks (each at most 65535 bytes, the last one marked final; the
empty input is one empty final stored block). -/
def deflateStored (bs : Bytes) : Bytes :=
  if bs.length ≤ 65535 then storedBlock true bs
  else storedBlock false (bs.take 65535) ++ deflateStored (bs.drop 65535)
termination_by bs.length
decreasing_by simp only [List.length_drop]; omega

/-- A gzip member around `deflateStored`: 10-byte header (1f 8b 08 00 00000000 00 ff), stream,
CRC-32 LE, ISIZE LE. -/
def gzipStored (bs : Bytes) : Bytes :=
  [31, 139, 8, 0, 0, 0, 0, 0, 0, 255] ++ (deflateStored bs ++ trailer bs)

def IsBytes (bs : Bytes) : Prop := ∀ b ∈ bs, b < 256

theorem step_hdr_stored (fin : Bool) (L : Nat) (hL : L ≤ 65535) (rest : Bytes) (v : Nat) :
    run (step .hdr) v 0
        ((if fin then 1 else 0) :: L % 256 :: L / 256 :: (255 - L % 256) :: (255 - L / 256) :: rest)
      = .ok (.none, if L = 0 then endBlock fin else some (.stored L fin)) 0 0 rest := by
  have h1 : L % 256 + 256 * (L / 256) = L := Nat.mod_add_div L 256
  have h2 : L % 256 + 256 * (L / 256) + (255 - L % 256 + 256 * (255 - L / 256)) = 65535 := by omega
  have h3 : L + (255 - L % 256 + 256 * (255 - L / 256)) = 65535 := by omega
  have h4 : (L % 256 = 0 ∧ 256 * (L / 256) = 0) ↔ L = 0 := by omega
  cases fin <;> simp [step, storedHdr, h1, h3, h4]

theorem step_stored (n : Nat) (fin : Bool) (x : Nat) (rest : Bytes) (v k : Nat) :
    run (step (.stored n fin)) v k (x :: rest)
      = .ok (.lit x, if n ≤ 1 then endBlock fin else some (.stored (n - 1) fin)) 0 0 rest := by
  simp [step]

/-- The bytes of a stored block, one step each. -/
theorem loop_stored (fin : Bool) (tl : Bytes) : ∀ (xs : Bytes) (x : Nat) (f : Nat) (o : Bytes)
    (v k : Nat),
    loop (f + (xs.length + 1)) (.stored (xs.length + 1) fin) o.toArray v k (x :: (xs ++ tl))
      = if fin then .done (o ++ x :: xs) tl else loop f .hdr (o ++ x :: xs).toArray 0 0 tl := by
  intro xs
  induction xs with
  | nil =>
    intro x f o v k
    have hs := step_stored 1 fin x tl v k
    simp only [Nat.le_refl, if_true] at hs
    cases fin with
    | true =>
      simp only [endBlock, if_true] at hs
      simp [loop_fin hs (out := o.toArray) (he := rfl)]
    | false =>
      simp only [endBlock] at hs
      simp [loop_next hs (out := o.toArray) (he := rfl)]
  | cons y ys ih =>
    intro x f o v k
    have hs := step_stored (ys.length + 1 + 1) fin x (y :: (ys ++ tl)) v k
    have hn : ¬ (ys.length + 1 + 1 ≤ 1) := by omega
    simp only [hn, if_false, Nat.add_sub_cancel] at hs
    have := loop_next (f := f + (ys.length + 1)) hs (out := o.toArray) (he := rfl)
    simp only [List.length_cons, List.cons_append]
    rw [← Nat.add_assoc, this, List.push_toArray, ih]
    simp

/-- One whole stored block. -/
theorem loop_block (fin : Bool) (chunk tl : Bytes) (hL : chunk.length ≤ 65535) (f : Nat)
    (o : Bytes) :
    loop (f + chunk.length + 1) .hdr o.toArray 0 0 (storedBlock fin chunk ++ tl)
      = if fin then .done (o ++ chunk) tl else loop f .hdr (o ++ chunk).toArray 0 0 tl := by
  have hs := step_hdr_stored fin chunk.length hL (chunk ++ tl) 0
  simp only [storedBlock, List.cons_append, List.nil_append]
  cases chunk with
  | nil =>
    cases fin with
    | true =>
      simp [endBlock] at hs ⊢
      rw [loop_fin hs (out := o.toArray) (he := rfl)]
    | false =>
      simp [endBlock] at hs ⊢
      rw [loop_next hs (out := o.toArray) (he := rfl)]
  | cons x xs =>
    have hne : ¬ ((x :: xs).length = 0) := by simp
    simp only [hne, if_false] at hs
    rw [loop_next hs (out := o.toArray) (he := rfl)]
    simp only [List.length_cons, List.cons_append]
    exact loop_stored fin tl xs x f o 0 0

theorem deflateStored_small {bs : Bytes} (h : bs.length ≤ 65535) :
    deflateStored bs = storedBlock true bs := by
  rw [deflateStored]; simp [h]

theorem deflateStored_big {bs : Bytes} (h : ¬ bs.length ≤ 65535) :
    deflateStored bs = storedBlock false (bs.take 65535) ++ deflateStored (bs.drop 65535) := by
  rw [deflateStored]; simp [h]

theorem loop_deflateStored (tl : Bytes) : ∀ (m : Nat) (bs : Bytes), bs.length ≤ m →
    ∀ (f : Nat) (o : Bytes), 2 * bs.length + 2 ≤ f →
      loop f .hdr o.toArray 0 0 (deflateStored bs ++ tl) = .done (o ++ bs) tl := by
  intro m
  induction m with
  | zero =>
    intro bs hm f o hf
    have h0 : bs.length ≤ 65535 := by omega
    obtain ⟨f0, rfl⟩ : ∃ f0, f = f0 + bs.length + 1 := ⟨f - bs.length - 1, by omega⟩
    rw [deflateStored_small h0, loop_block true bs tl h0]; simp
  | succ k ih =>
    intro bs hm f o hf
    by_cases h0 : bs.length ≤ 65535
    · obtain ⟨f0, rfl⟩ : ∃ f0, f = f0 + bs.length + 1 := ⟨f - bs.length - 1, by omega⟩
      rw [deflateStored_small h0, loop_block true bs tl h0]; simp
    · have hlen : (bs.take 65535).length = 65535 := by
        rw [List.length_take]; omega
      obtain ⟨f0, rfl⟩ : ∃ f0, f = f0 + (bs.take 65535).length + 1 :=
        ⟨f - 65535 - 1, by omega⟩
      rw [deflateStored_big h0, List.append_assoc,
        loop_block false _ _ (by omega)]
      simp only [Bool.false_eq_true, if_false]
      rw [ih (bs.drop 65535) (by rw [List.length_drop]; omega) f0 _
        (by rw [List.length_drop]; omega)]
      rw [List.append_assoc, List.take_append_drop]

theorem deflateStored_length : ∀ (m : Nat) (bs : Bytes), bs.length ≤ m →
    bs.length ≤ (deflateStored bs).length := by
  intro m
  induction m with
  | zero =>
    intro bs hm
    rw [deflateStored_small (by omega)]; simp [storedBlock]; omega
  | succ k ih =>
    intro bs hm
    by_cases h0 : bs.length ≤ 65535
    · rw [deflateStored_small h0]; simp [storedBlock]; omega
    · have := ih (bs.drop 65535) (by rw [List.length_drop]; omega)
      rw [deflateStored_big h0]
      simp only [storedBlock, List.length_append, List.length_cons, List.length_nil,
        List.length_take, List.length_drop] at this ⊢
      omega

theorem inflate_deflateStored (bs tl : Bytes) :
    inflate (deflateStored bs ++ tl) = .done bs tl := by
  unfold inflate
  have h := deflateStored_length _ bs (Nat.le_refl _)
  have := loop_deflateStored tl _ bs (Nat.le_refl _)
    (8 * (deflateStored bs ++ tl).length + 8) [] (by simp only [List.length_append]; omega)
  simpa using this

theorem allBytes_storedBlock (fin : Bool) (chunk : Bytes) (hL : chunk.length ≤ 65535)
    (h : allBytes chunk = true) : allBytes (storedBlock fin chunk) = true := by
  simp only [allBytes] at h
  simp only [allBytes, storedBlock, List.all_append, List.all_cons, List.all_nil, h,
    Bool.and_true, Bool.and_eq_true, decide_eq_true_eq]
  cases fin <;> simp <;> omega

theorem allBytes_deflateStored : ∀ (m : Nat) (bs : Bytes), bs.length ≤ m →
    allBytes bs = true → allBytes (deflateStored bs) = true := by
  intro m
  induction m with
  | zero =>
    intro bs hm hb
    rw [deflateStored_small (by omega)]; exact allBytes_storedBlock _ _ (by omega) hb
  | succ k ih =>
    intro bs hm hb
    by_cases h0 : bs.length ≤ 65535
    · rw [deflateStored_small h0]; exact allBytes_storedBlock _ _ h0 hb
    · rw [deflateStored_big h0]
      have hb' := hb
      rw [← List.take_append_drop 65535 bs] at hb'
      simp only [allBytes, List.all_append, Bool.and_eq_true] at hb' ⊢
      exact ⟨allBytes_storedBlock _ _ (by rw [List.length_take]; omega) hb'.1,
        ih _ (by rw [List.length_drop]; omega) hb'.2⟩

theorem allBytes_le32 (n : Nat) : allBytes (le32 n) = true := by
  simp [allBytes, le32]; omega

/-! ### The statements -/

/-- T3. The two views agree: if the whole input is accepted as one member, the streaming
decoder fed the same input reports no defect and has produced exactly the content. -/
theorem gunzipAvail_of_gunzip (input out : Bytes) (h : gunzip input = some out) :
    gunzipAvail input = (true, out) := by
  unfold gunzip at h
  unfold gunzipAvail
  cases hb : allBytes input with
  | false => simp [hb] at h
  | true =>
    simp only [hb, if_true] at h ⊢
    cases hr : run header 0 0 input with
    | eof => simp [hr] at h
    | err => simp [hr] at h
    | ok u v n l =>
      simp only [hr] at h ⊢
      cases hi : inflate l with
      | more o => simp [hi] at h
      | bad o => simp [hi] at h
      | done o r =>
        simp only [hi] at h ⊢
        split at h
        · rename_i heq
          simp at h
          subst h; subst heq
          simp
        · simp at h

theorem inflate_mono (l b : Bytes) : Ext b (inflate l) (inflate (l ++ b)) := by
  unfold inflate
  exact loop_mono b _ _ _ _ _ _ _ (by simp; omega)

theorem avail_snd (input : Bytes) (u : Unit) (v n : Nat) (l : Bytes)
    (hb : allBytes input = true) (hr : run header 0 0 input = .ok u v n l) :
    (gunzipAvail input).2 = (inflate l).out := by
  unfold gunzipAvail
  simp only [hb, if_true, hr]
  cases inflate l <;> rfl

/-- T4. The streaming decoder never takes output back: feeding more input only extends
what has been produced, as long as no defect is reported. -/
theorem gunzipAvail_mono (a b : Bytes) (h : (gunzipAvail (a ++ b)).1 = true) :
    (gunzipAvail a).1 = true ∧ (gunzipAvail a).2 <+: (gunzipAvail (a ++ b)).2 := by
  have hab : allBytes (a ++ b) = true := by
    cases hb : allBytes (a ++ b) with
    | true => rfl
    | false => simp [gunzipAvail, hb] at h
  have ha : allBytes a = true := by
    simp only [allBytes, List.all_append, Bool.and_eq_true] at hab
    exact hab.1
  cases hr : run header 0 0 a with
  | eof => simp [gunzipAvail, ha, hr]
  | err =>
    have hr2 := run_err_append _ b _ _ _ hr
    simp [gunzipAvail, hab, hr2] at h
  | ok u v n l =>
    have hr2 := run_ok_append _ b _ _ _ _ _ _ _ hr
    have hm := inflate_mono l b
    rw [avail_snd _ _ _ _ _ hab hr2]
    unfold gunzipAvail at h ⊢
    simp only [hab, ha, if_true, hr, hr2] at h ⊢
    cases hi : inflate l with
    | more o =>
      rw [hi] at hm
      simp only [Ext] at hm
      exact ⟨rfl, hm⟩
    | bad o =>
      rw [hi] at hm
      simp only [Ext] at hm
      simp [hm] at h
    | done o r =>
      rw [hi] at hm
      simp only [Ext] at hm
      simp only [hm] at h ⊢
      simp only [Outcome.out]
      refine ⟨?_, List.prefix_refl _⟩
      rw [List.isPrefixOf_iff_prefix] at h ⊢
      exact List.IsPrefix.trans (List.prefix_append _ _) h

/-- T2. What `gunzip` accepts really has the gzip framing: magic, method, and the last
eight bytes are the CRC-32 and the length (mod 2^32) of the OUTPUT, little endian. -/
theorem gunzip_sound (input out : Bytes) (h : gunzip input = some out) :
    input.take 3 = [31, 139, 8] ∧ 18 ≤ input.length ∧
    input.drop (input.length - 8) = le32 (crc32 out) ++ le32 (out.length % 4294967296) := by
  unfold gunzip at h
  split at h
  · cases hr : run header 0 0 input with
    | eof => simp [hr] at h
    | err => simp [hr] at h
    | ok u v n l =>
      simp only [hr] at h
      cases hi : inflate l with
      | more o => simp [hi] at h
      | bad o => simp [hi] at h
      | done o r =>
        simp only [hi] at h
        split at h
        · rename_i heq
          simp at h
          subst h
          obtain ⟨pre, rfl, hlen, hmagic⟩ := header_ok hr
          obtain ⟨p2, rfl⟩ := loop_suffix _ _ _ _ _ _ _ _ hi
          subst heq
          have h8 := trailer_length o
          refine ⟨?_, ?_, ?_⟩
          · rw [List.take_append_of_le_length (by omega)]; exact hmagic
          · simp only [List.length_append]; omega
          · have : (pre ++ (p2 ++ trailer o)).length - 8 = (pre ++ p2).length := by
              simp only [List.length_append]; omega
            rw [this, ← List.append_assoc, List.drop_left]
            rfl
        · simp at h
  · simp at h

/-- T1. The decoder accepts every member of at least this class and returns its content:
for ALL inputs of ALL lengths. -/
theorem gunzip_gzipStored (bs : Bytes) (h : IsBytes bs) : gunzip (gzipStored bs) = some bs := by
  have hb : allBytes bs = true := by
    simp only [allBytes, List.all_eq_true, decide_eq_true_eq]; exact h
  have hall : allBytes (gzipStored bs) = true := by
    have h1 := allBytes_deflateStored _ bs (Nat.le_refl _) hb
    have h2 := allBytes_le32 (crc32 bs)
    have h3 := allBytes_le32 (bs.length % 4294967296)
    simp only [allBytes] at h1 h2 h3
    simp [allBytes, gzipStored, trailer, h1, h2, h3]
  have hh : run header 0 0 (gzipStored bs) = .ok () 0 0 (deflateStored bs ++ trailer bs) := by
    simp [gzipStored, header, hdrTail, optExtra, optStr, optHcrc, run_bind]
  unfold gunzip
  simp [hall, hh, inflate_deflateStored]

end HS.Inflate
