/-
C11 (abort / disconnect) and C20 (fused) for a gzip `BodyWriter` over the streaming body model
(`Model/Chunker.lean`): the gzip-writer analogues of the raw-writer fault theorems of
`Lemmas/PipeFaults.lean` and of `pipe_fused` (`Lemmas/Pipe.lean`).

Invariant `GA` over all `gzAny` histories: buffer bounded by the capacity, a dropped body leaves
the shared state fused, a live gzip writer with a live body has a consistent `ok` queue and a
buffer strictly below the capacity, a dead writer never sees an `ok` queue, and the prefix
invariant `PI`.
-/
import HttpServeModel.Lemmas.PipeFaults
import HttpServeModel.Lemmas.Pipe
namespace HS.PipeFaultsGz
open HS HS.PipeFaults

/-- the shared state is not `ok` -/
def Nok (sh : Shared) : Prop := ∀ r rb wd, sh.state ≠ .ok r rb wd

theorem nok_cases (sh : Shared) : (∃ r rb wd, sh.state = .ok r rb wd) ∨ Nok sh := by
  cases h : sh.state with
  | ok r rb wd => exact Or.inl ⟨r, rb, wd, rfl⟩
  | err => exact Or.inr (by simp [Nok, h])
  | fused => exact Or.inr (by simp [Nok, h])

/-- `writerWriteAll` on a state that is not `ok`: the shared state and the wakes are untouched,
the buffer stays within the capacity. -/
theorem wwa_nok' (cap : Nat) (sh : Shared) (hn : Nok sh) (fuel : Nat) :
    ∀ (buf bs : Bytes) (wakes : List Nat),
      ∃ buf' okay, writerWriteAll fuel sh buf cap bs wakes = (sh, buf', okay, wakes) ∧
        (buf.length ≤ cap → buf'.length ≤ cap) := by
  induction fuel with
  | zero => intro buf bs wakes; exact ⟨buf, false, rfl, id⟩
  | succ fuel ih =>
    intro buf bs wakes
    rw [writerWriteAll]
    cases bs with
    | nil => exact ⟨buf, true, by simp, id⟩
    | cons b bs =>
      simp only [List.isEmpty_cons, Bool.false_eq_true, if_false]
      by_cases hfull : cap - buf.length ≤ (b :: bs).length
      · rw [writerWrite_full_nok _ _ _ _ hfull hn]
        refine ⟨_, false, rfl, ?_⟩
        simp only [List.length_append, List.length_take]
        omega
      · rw [writerWrite_small _ _ _ _ hfull]
        simp only [List.length_cons]
        obtain ⟨buf', okay, h1, h2⟩ := ih (buf ++ b :: bs) (List.drop (bs.length + 1) (b :: bs)) wakes
        refine ⟨buf', okay, h1, fun _ => h2 ?_⟩
        simp only [List.length_append, List.length_cons] at hfull ⊢; omega

theorem wwa_nok (cap : Nat) (sh : Shared) (hn : Nok sh) (fuel : Nat)
    (buf bs : Bytes) (wakes : List Nat) (hb : buf.length ≤ cap) :
    ∃ buf' okay, writerWriteAll fuel sh buf cap bs wakes = (sh, buf', okay, wakes) ∧ buf'.length ≤ cap := by
  obtain ⟨buf', okay, h1, h2⟩ := wwa_nok' cap sh hn fuel buf bs wakes
  exact ⟨buf', okay, h1, h2 hb⟩

/-! ### `Sys.pop` of a gzip writer on a state that is not `ok` -/

theorem pop_gz_write_nok (s : Sys) (pushed : Bytes) (a : Nat) (hbw : s.bw = .gz) (hn : Nok s.sh)
    (hb : s.buf.length ≤ s.cap) :
    ∃ buf', buf'.length ≤ s.cap ∧
      (s.pop (.gzWrite pushed a) = ({ s with buf := buf' }, .wrote a, []) ∨
       s.pop (.gzWrite pushed a) = ({ s with buf := buf', bw := .dead }, .err, [])) := by
  obtain ⟨buf', okay, hw, hb'⟩ := wwa_nok s.cap s.sh hn (pushed.length + 1) s.buf pushed [] hb
  obtain ⟨sh0, buf0, cap, bw, pw, ra⟩ := s
  simp only at hbw hn hw hb' ⊢
  subst hbw
  refine ⟨buf', hb', ?_⟩
  cases okay
  · right; simp [Sys.pop, hw, flushHelper_nok _ _ _ hn]
  · left; simp [Sys.pop, hw]

theorem pop_gz_flush_nok (s : Sys) (pushed : Bytes) (hbw : s.bw = .gz) (hn : Nok s.sh)
    (hb : s.buf.length ≤ s.cap) :
    ∃ buf', buf'.length ≤ s.cap ∧
      s.pop (.gzFlush pushed) = ({ s with buf := buf', bw := .dead }, .err, []) := by
  obtain ⟨buf', okay, hw, hb'⟩ := wwa_nok s.cap s.sh hn (pushed.length + 1) s.buf pushed [] hb
  obtain ⟨sh0, buf0, cap, bw, pw, ra⟩ := s
  simp only at hbw hn hw hb' ⊢
  subst hbw
  refine ⟨buf', hb', ?_⟩
  cases okay <;> simp [Sys.pop, hw, flushHelper_nok _ _ _ hn]

theorem pop_gz_drop_nok (s : Sys) (pushed : Bytes) (hbw : s.bw = .gz) (hn : Nok s.sh)
    (hb : s.buf.length ≤ s.cap) :
    ∃ buf', buf'.length ≤ s.cap ∧
      s.pop (.gzDrop pushed) = ({ s with buf := buf', bw := .gone }, .unit, []) := by
  obtain ⟨buf', okay, hw, hb'⟩ := wwa_nok s.cap s.sh hn (pushed.length + 1) s.buf pushed [] hb
  obtain ⟨sh0, buf0, cap, bw, pw, ra⟩ := s
  simp only at hbw hn hw hb' ⊢
  subst hbw
  refine ⟨buf', hb', ?_⟩
  simp [Sys.pop, hw, flushHelper_nok _ _ _ hn]

theorem pop_gz_abort_ok (s : Sys) (hbw : s.bw = .gz) (ready rb wd) (hst : s.sh.state = .ok ready rb wd) :
    s.pop .abort = ({ s with sh := ⟨.err, none⟩, bw := .dead }, .unit, s.sh.waker.toList) := by
  obtain ⟨sh0, buf0, cap, bw, pw, ra⟩ := s
  simp only at hbw hst ⊢
  subst hbw
  simp [Sys.pop, writerAbort, hst, flushHelper]

theorem pop_gz_abort_nok (s : Sys) (hbw : s.bw = .gz) (hn : Nok s.sh) :
    s.pop .abort = ({ s with bw := .dead }, .unit, []) := by
  obtain ⟨⟨st, wk⟩, buf0, cap, bw, pw, ra⟩ := s
  simp only at hbw hn ⊢
  subst hbw
  cases st
  · exact absurd rfl (hn _ _ _)
  · simp [Sys.pop, writerAbort, flushHelper]
  · simp [Sys.pop, writerAbort, flushHelper]

/-! ### the invariant over `gzAny` histories -/

structure GA (cap : Nat) (h : Hist) : Prop where
  cap_eq : h.sys.cap = cap
  buf_le : h.sys.buf.length ≤ cap
  not_raw : h.sys.bw ≠ .raw
  dead_fused : h.sys.readerAlive = false → h.sys.sh.state = .fused
  live : h.sys.bw = .gz → h.sys.readerAlive = true →
    ∃ ready, h.sys.sh.state = .ok ready ready.flatten.length false ∧ Chunks cap ready ∧
      h.sys.buf.length < cap
  dead_nok : h.sys.bw = .dead → Nok h.sys.sh
  pre : PI h

theorem GA_init (cap : Nat) (hc : 0 < cap) : GA cap (Hist.init cap .gz) := by
  refine ⟨rfl, by simp [Hist.init], by simp [Hist.init], by simp [Hist.init], ?_, by simp [Hist.init],
    by simp [Hist.init, PI, Hist.delivered]⟩
  intro _ _
  exact ⟨[], rfl, by simp [Chunks], by simpa [Hist.init] using hc⟩

macro "gz_ga_close" : tactic =>
  `(tactic| (constructor <;> simp_all [acc', PI, Hist.delivered, Nok] <;>
      first | omega | (subst_vars; simp; done) | (apply prefix_app; assumption) | skip))

theorem GA_dead (cap : Nat) (h : Hist) (op : POp) (hop : (AnyOp.p op).gzAny) (hbw : h.sys.bw = .dead)
    (hi : GA cap h) : GA cap (h.step (.p op)) := by
  obtain ⟨⟨sh0, buf0, cap0, bw, pw, ra⟩, acc, fr, po, pl⟩ := h
  obtain ⟨h1, h2, h3, h4, h5, h6, h7⟩ := hi
  simp only at h1 h2 h3 h4 h5 h6 hbw
  subst hbw
  cases op <;> simp [AnyOp.gzAny] at hop <;> rw [step_p_eq _ _ _ _ _ rfl] <;> gz_ga_close

theorem GA_gone (cap : Nat) (h : Hist) (op : POp) (hbw : h.sys.bw = .gone)
    (hi : GA cap h) : GA cap (h.step (.p op)) := by
  rw [step_p_eq _ _ _ _ _ (PipeFaults.pop_gone h.sys op hbw)]
  obtain ⟨h1, h2, h3, h4, h5, h6, h7⟩ := hi
  have : acc' h op .unit = h.accepted := by
    cases op <;> simp [acc', hbw]
  constructor <;> simp_all [PI, Hist.delivered]

theorem GA_gzWrite (cap : Nat) (hc : 0 < cap) (h : Hist) (pushed : Bytes) (a : Nat) (hi : GA cap h) :
    GA cap (h.step (.p (.gzWrite pushed a))) := by
  cases hbw : h.sys.bw
  case dead => exact GA_dead cap h _ trivial hbw hi
  case raw => exact absurd hbw hi.not_raw
  case gone => exact GA_gone cap h _ hbw hi
  obtain ⟨s, acc, fr, po, pl⟩ := h
  obtain ⟨h1, h2, h3, h4, h5, h6, h7⟩ := hi
  simp only at h1 h2 h3 h4 h5 h6 hbw
  rcases nok_cases s.sh with ⟨r, rb, wd, hst⟩ | hn
  · have hra : s.readerAlive = true := by
      cases hra : s.readerAlive
      · rw [h4 hra] at hst; contradiction
      · rfl
    obtain ⟨ready, hst, hch, hb⟩ := h5 hbw hra
    obtain ⟨sh', buf', wakes', ready', hw, hst', hb', hfl', hch'⟩ :=
      wwa_ok' cap hc s.sh ready s.buf pushed [] hst hb hch
    rw [← h1] at hw
    rw [step_p_eq _ _ _ _ _ (pop_gz_write s pushed a hbw _ _ _ hw)]
    clear hw
    gz_ga_close
    exact ⟨_, ⟨rfl, rfl⟩, hch'⟩
  · obtain ⟨buf', hb', hp | hp⟩ := pop_gz_write_nok s pushed a hbw hn (h1 ▸ h2)
    · rw [step_p_eq _ _ _ _ _ hp]
      gz_ga_close
    · rw [step_p_eq _ _ _ _ _ hp]
      gz_ga_close

theorem GA_gzFlush (cap : Nat) (hc : 0 < cap) (h : Hist) (pushed : Bytes) (hi : GA cap h) :
    GA cap (h.step (.p (.gzFlush pushed))) := by
  cases hbw : h.sys.bw
  case dead => exact GA_dead cap h _ trivial hbw hi
  case raw => exact absurd hbw hi.not_raw
  case gone => exact GA_gone cap h _ hbw hi
  obtain ⟨s, acc, fr, po, pl⟩ := h
  obtain ⟨h1, h2, h3, h4, h5, h6, h7⟩ := hi
  simp only at h1 h2 h3 h4 h5 h6 hbw
  rcases nok_cases s.sh with ⟨r, rb, wd, hst⟩ | hn
  · have hra : s.readerAlive = true := by
      cases hra : s.readerAlive
      · rw [h4 hra] at hst; contradiction
      · rfl
    obtain ⟨ready, hst, hch, hb⟩ := h5 hbw hra
    obtain ⟨sh', buf', wakes', ready', hw, hst', hb', hfl', hch'⟩ :=
      wwa_ok' cap hc s.sh ready s.buf pushed [] hst hb hch
    rw [← h1] at hw
    have hf := flushHelper_ok sh' buf' false _ _ _ hst'
    by_cases hbe : buf' = []
    · rw [if_pos ⟨hbe, rfl⟩] at hf
      rw [step_p_eq _ _ _ _ _ (pop_gz_flush s pushed hbw _ _ _ _ _ _ hw hf)]
      clear hw hf
      gz_ga_close
      exact ⟨_, ⟨rfl, rfl⟩, hch'⟩
    · rw [if_neg (by simp [hbe])] at hf
      rw [step_p_eq _ _ _ _ _ (pop_gz_flush s pushed hbw _ _ _ _ _ _ hw hf)]
      clear hw hf
      have hch2 : Chunks cap (ready' ++ [buf']) := (Chunks_snoc _ _ _).2 ⟨hch', hbe, Nat.le_of_lt hb'⟩
      gz_ga_close
      exact ⟨_, ⟨rfl, by simp⟩, hch2⟩
  · obtain ⟨buf', hb', hp⟩ := pop_gz_flush_nok s pushed hbw hn (h1 ▸ h2)
    rw [step_p_eq _ _ _ _ _ hp]
    gz_ga_close

theorem GA_gzDrop (cap : Nat) (hc : 0 < cap) (h : Hist) (pushed : Bytes) (hi : GA cap h) :
    GA cap (h.step (.p (.gzDrop pushed))) := by
  cases hbw : h.sys.bw
  case dead => exact GA_dead cap h _ trivial hbw hi
  case raw => exact absurd hbw hi.not_raw
  case gone => exact GA_gone cap h _ hbw hi
  obtain ⟨s, acc, fr, po, pl⟩ := h
  obtain ⟨h1, h2, h3, h4, h5, h6, h7⟩ := hi
  simp only at h1 h2 h3 h4 h5 h6 hbw
  rcases nok_cases s.sh with ⟨r, rb, wd, hst⟩ | hn
  · have hra : s.readerAlive = true := by
      cases hra : s.readerAlive
      · rw [h4 hra] at hst; contradiction
      · rfl
    obtain ⟨ready, hst, hch, hb⟩ := h5 hbw hra
    obtain ⟨sh', buf', wakes', ready', hw, hst', hb', hfl', hch'⟩ :=
      wwa_ok' cap hc s.sh ready s.buf pushed [] hst hb hch
    rw [← h1] at hw
    have hf := flushHelper_ok sh' buf' true _ _ _ hst'
    rw [if_neg (by simp)] at hf
    rw [step_p_eq _ _ _ _ _ (pop_gz_drop s pushed hbw _ _ _ _ _ _ _ _ hw hf)]
    clear hw hf
    by_cases hbe : buf' = [] <;> gz_ga_close
  · obtain ⟨buf', hb', hp⟩ := pop_gz_drop_nok s pushed hbw hn (h1 ▸ h2)
    rw [step_p_eq _ _ _ _ _ hp]
    gz_ga_close

theorem GA_abort (cap : Nat) (h : Hist) (hi : GA cap h) :
    GA cap (h.step (.p .abort)) := by
  cases hbw : h.sys.bw
  case dead => exact GA_dead cap h _ trivial hbw hi
  case raw => exact absurd hbw hi.not_raw
  case gone => exact GA_gone cap h _ hbw hi
  obtain ⟨s, acc, fr, po, pl⟩ := h
  obtain ⟨h1, h2, h3, h4, h5, h6, h7⟩ := hi
  simp only at h1 h2 h3 h4 h5 h6 hbw
  rcases nok_cases s.sh with ⟨r, rb, wd, hst⟩ | hn
  · rw [step_p_eq _ _ _ _ _ (pop_gz_abort_ok s hbw _ _ _ hst)]
    gz_ga_close
  · rw [step_p_eq _ _ _ _ _ (pop_gz_abort_nok s hbw hn)]
    gz_ga_close

theorem GA_cop (cap : Nat) (h : Hist) (op : COp) (hi : GA cap h) :
    GA cap (h.step (.c op)) := by
  obtain ⟨⟨⟨st, wk⟩, buf, cap0, bw, pw, ra⟩, acc, fr, po, pl⟩ := h
  obtain ⟨h1, h2, h3, h4, h5, h6, h7⟩ := hi
  simp only at h1 h2 h3 h4 h5 h6
  cases ra
  · simp only [Hist.step, Sys.cop]
    gz_ga_close
  · cases op with
    | poll w =>
      cases st with
      | ok ready rb wd =>
        cases ready with
        | nil =>
          by_cases hrb : rb = 0 <;> cases wd <;> simp [Hist.step, Sys.cop, readerPoll, hrb] <;> gz_ga_close
          all_goals
            intro hb
            obtain ⟨ready, ⟨hr, hrb'⟩, hch, hbl⟩ := h5 hb
            subst hr
            simp only [List.map_nil, List.sum_nil] at hrb'
            omega
        | cons c rest =>
          by_cases hrb : c.length ≤ rb <;> cases wd <;> cases rest <;> simp [Hist.step, Sys.cop, readerPoll, hrb] <;> gz_ga_close
          all_goals
            intro hb
            obtain ⟨ready, ⟨hr, hrb'⟩, hch, hbl⟩ := h5 hb
            subst hr
            simp only [List.map_cons, List.map_nil, List.sum_cons, List.sum_nil] at hrb'
            first
            | omega
            | (refine ⟨_, ⟨rfl, ?_⟩, fun x hx => hch x (List.mem_cons_of_mem _ hx), hbl⟩
               simp only [List.map_cons, List.map_nil, List.sum_cons, List.sum_nil]; omega)
      | err =>
        simp [Hist.step, Sys.cop, readerPoll]
        gz_ga_close
      | fused =>
        simp [Hist.step, Sys.cop, readerPoll]
        gz_ga_close
    | sizeHint =>
      simp [Hist.step, Sys.cop]
      gz_ga_close
    | isEndStream =>
      simp [Hist.step, Sys.cop]
      gz_ga_close
    | drop =>
      simp [Hist.step, Sys.cop, readerDrop]
      gz_ga_close
      cases st
      · exact ⟨_, by simpa using h7⟩
      · exact h7
      · exact h7

theorem GA_step (cap : Nat) (hc : 0 < cap) (h : Hist) (op : AnyOp) (hop : op.gzAny) (hi : GA cap h) :
    GA cap (h.step op) := by
  cases op with
  | c op => exact GA_cop cap h op hi
  | p op =>
    cases op with
    | gzWrite pushed a => exact GA_gzWrite cap hc h pushed a hi
    | gzFlush pushed => exact GA_gzFlush cap hc h pushed hi
    | gzDrop pushed => exact GA_gzDrop cap hc h pushed hi
    | abort => exact GA_abort cap h hi
    | write _ => exact absurd hop (by simp [AnyOp.gzAny])
    | flush => exact absurd hop (by simp [AnyOp.gzAny])
    | drop => exact absurd hop (by simp [AnyOp.gzAny])

theorem GA_run (cap : Nat) (hc : 0 < cap) (ops : List AnyOp) (hops : ∀ op ∈ ops, op.gzAny) (h : Hist)
    (hi : GA cap h) : GA cap (h.run ops) := by
  induction ops generalizing h with
  | nil => exact hi
  | cons op ops ih =>
    rw [PipeFaults.run_cons]
    exact ih (fun o ho => hops o (List.mem_cons_of_mem _ ho)) _
      (GA_step cap hc h op (hops op List.mem_cons_self) hi)

/-! ### after abort / after a failure: dead or gone -/

theorem pop_dead_gz_err (s : Sys) (pushed : Bytes) (a : Nat) (h : s.bw = .dead) :
    (s.pop (.gzFlush pushed)).2.1 = .err ∧ (s.pop (.gzWrite pushed a)).2.1 = .err := by
  obtain ⟨sh0, buf0, cap, bw, pw, ra⟩ := s
  simp only at h
  subst h
  simp [Sys.pop]

/-! ### terminated bodies (C20) for `gzAny` histories -/

/-- A producer operation never changes a shared state that is not `ok`. -/
theorem pop_sh_nok (s : Sys) (op : POp) (hn : Nok s.sh) : (s.pop op).1.sh = s.sh := by
  obtain ⟨sh0, buf0, cap, bw, pw, ra⟩ := s
  simp only at hn
  have hw : ∀ bs : Bytes, ∃ buf' okay,
      writerWriteAll (bs.length + 1) sh0 buf0 cap bs [] = (sh0, buf', okay, []) := by
    intro bs
    obtain ⟨buf', okay, h1, _⟩ := wwa_nok' cap sh0 hn (bs.length + 1) buf0 bs []
    exact ⟨buf', okay, h1⟩
  have hf : ∀ buf d, flushHelper sh0 buf d = (sh0, buf, false, none) := fun buf d => flushHelper_nok _ _ _ hn
  have ha : writerAbort sh0 = (sh0, none) := by
    obtain ⟨st, wk⟩ := sh0
    cases st
    · exact absurd rfl (hn _ _ _)
    · rfl
    · rfl
  have hww : ∀ bs : Bytes, ∃ buf' r, writerWrite sh0 buf0 cap bs = (sh0, buf', r, none) := by
    intro bs
    by_cases hfull : cap - buf0.length ≤ bs.length
    · exact ⟨_, _, writerWrite_full_nok _ _ _ _ hfull hn⟩
    · exact ⟨_, _, writerWrite_small _ _ _ _ hfull⟩
  cases bw <;> cases op <;> simp only [Sys.pop, hf, ha]
  case raw.write bs =>
    obtain ⟨buf', r, e⟩ := hww bs
    simp only [e, hf]
    cases r <;> rfl
  case raw.flush => simp
  case gz.gzWrite pushed a =>
    obtain ⟨buf', okay, e⟩ := hw pushed
    simp only [e, hf]
    cases okay <;> simp
  case gz.gzFlush pushed =>
    obtain ⟨buf', okay, e⟩ := hw pushed
    simp only [e, hf]
    cases okay <;> simp
  case gz.gzDrop pushed =>
    obtain ⟨buf', okay, e⟩ := hw pushed
    simp only [e, hf]

theorem pop_fused_any {s : Sys} (hs : s.sh.state = .fused) (op : POp) : (s.pop op).1.sh.state = .fused := by
  rw [pop_sh_nok s op (nok_fused _ hs)]; exact hs

open PipeLemmas in
theorem term_step_any {h : Hist} (t : Term h.sys) (op : AnyOp) :
    Term (h.step op).sys ∧ ∃ e, (h.step op).polls = h.polls ++ e ∧ ∀ r ∈ e, r = ROut.end_ := by
  cases op with
  | p op =>
    refine ⟨?_, [], by simp [step_p_polls], by simp⟩
    rw [step_p_sys]
    rcases t with t | ⟨t, hb⟩
    · exact Or.inl (pop_fused_any t op)
    · rw [PipeLemmas.pop_gone hb]; exact Or.inr ⟨t, hb⟩
  | c op =>
    cases ha : h.sys.readerAlive with
    | false => rw [step_c_dead ha]; exact ⟨t, [], by simp, by simp⟩
    | true =>
      cases op with
      | sizeHint => rw [step_sizeHint]; exact ⟨t, [], by simp, by simp⟩
      | isEndStream => rw [step_isEndStream]; exact ⟨t, [], by simp, by simp⟩
      | drop => rw [step_drop_c ha]; exact ⟨Or.inl rfl, [], by simp, by simp⟩
      | poll w =>
        obtain ⟨hp, hsys⟩ := step_poll_gen w ha
        rcases t with t | ⟨t, hb⟩
        · rw [poll_fused w t] at hp hsys
          exact ⟨Or.inl (by rw [hsys]; exact t), _, hp, by simp⟩
        · rw [poll_end w t] at hp hsys
          exact ⟨Or.inl (by rw [hsys]), _, hp, by simp⟩

open PipeLemmas in
theorem term_run_any (more : List AnyOp) : ∀ (h : Hist), Term h.sys →
    ∃ e, (h.run more).polls = h.polls ++ e ∧ ∀ r ∈ e, r = ROut.end_ := by
  induction more with
  | nil => intro h _; exact ⟨[], by simp [PipeLemmas.run_nil], by simp⟩
  | cons op more ih =>
    intro h t
    obtain ⟨t', e1, h1, h1'⟩ := term_step_any t op
    obtain ⟨e2, h2, h2'⟩ := ih (h.step op) t'
    refine ⟨e1 ++ e2, by rw [PipeLemmas.run_cons, h2, h1, List.append_assoc], ?_⟩
    intro r hr
    rcases List.mem_append.mp hr with hr | hr
    · exact h1' r hr
    · exact h2' r hr

open PipeLemmas in
theorem term_run_drop_any {h : Hist} (t : Term h.sys) (more : List AnyOp) :
    ∀ r ∈ ((h.run more).polls.drop h.polls.length), r = ROut.end_ := by
  obtain ⟨e, he, he'⟩ := term_run_any more h t
  rw [he, List.drop_left]
  exact he'

open PipeLemmas in
theorem finv_step_any {h : Hist} (f : FInv h) (op : AnyOp) : FInv (h.step op) := by
  cases op with
  | p op =>
    intro ht
    rw [step_p_polls] at ht
    rw [step_p_sys]
    exact pop_fused_any (f ht) op
  | c op =>
    cases ha : h.sys.readerAlive with
    | false => rw [step_c_dead ha]; exact f
    | true =>
      cases op with
      | sizeHint => rw [step_sizeHint]; exact f
      | isEndStream => rw [step_isEndStream]; exact f
      | drop => rw [step_drop_c ha]; intro _; rfl
      | poll w =>
        obtain ⟨hp, hsys⟩ := step_poll_gen w ha
        intro ⟨r, hr, ht⟩
        rw [hsys]
        rw [hp] at hr
        rcases List.mem_append.mp hr with hr | hr
        · have := f ⟨r, hr, ht⟩
          rw [poll_fused w this]; exact this
        · simp at hr
          subst hr
          exact readerPoll_terminal ht

theorem finv_init_any (cap : Nat) (bw : BW) : PipeLemmas.FInv (Hist.init cap bw) := by
  intro ⟨r, hr, _⟩
  simp [Hist.init] at hr

theorem finv_run_any (ops : List AnyOp) : ∀ h : Hist, PipeLemmas.FInv h → PipeLemmas.FInv (h.run ops) := by
  induction ops with
  | nil => intro h f; exact f
  | cons op ops ih => intro h f; rw [PipeLemmas.run_cons]; exact ih _ (finv_step_any f op)

end HS.PipeFaultsGz

namespace HS
open HS.PipeFaults HS.PipeFaultsGz

/-- C11 for gzip writers: what the consumer received is always a prefix of what the encoder
pushed in operations that succeeded. -/
theorem gz_abort_prefix (cap : Nat) (hc : 0 < cap) (ops : List AnyOp) (hops : ∀ op ∈ ops, op.gzAny) :
    let h := (Hist.init cap .gz).run ops
    h.delivered <+: h.accepted := by
  intro h
  have hi : GA cap h := GA_run cap hc ops hops _ (GA_init cap hc)
  have := hi.pre
  unfold PI at this
  split at this
  · exact ⟨_, by simpa using this⟩
  · exact this

/-- C11 (abort, gzip writer): after `abort` on a live gzip writer whose body is alive and has not
terminated, the body does not claim end-of-stream, the next poll reports an error, then the end. -/
theorem gz_abort_error_next (cap : Nat) (hc : 0 < cap) (ops : List AnyOp) (hops : ∀ op ∈ ops, op.gzAny) (w : Nat) :
    let h := (Hist.init cap .gz).run ops
    h.sys.bw = .gz → h.sys.readerAlive = true → (∀ r ∈ h.polls, r.isTerminal = false) →
    let h1 := h.step (.p .abort)
    readerIsEndStream h1.sys.sh = false ∧
    (h1.sys.cop (.poll w)).2 = .polled .err ∧
    ((h1.sys.cop (.poll w)).1.cop (.poll w)).2 = .polled .end_ := by
  intro h hbw hra _ h1
  have hi : GA cap h := GA_run cap hc ops hops _ (GA_init cap hc)
  obtain ⟨ready, hst, _, _⟩ := hi.live hbw hra
  have e : h1 = _ := step_p_eq _ _ _ _ _ (pop_gz_abort_ok h.sys hbw _ _ _ hst)
  rw [e]
  simp [readerIsEndStream, Sys.cop, readerPoll, hra]

set_option linter.unusedVariables false in
/-- C11 (abort, gzip writer): after `abort`, every later write and flush fails. -/
theorem gz_abort_dead (cap : Nat) (hc : 0 < cap) (ops more : List AnyOp)
    (hops : ∀ op ∈ ops, op.gzAny) (hmore : ∀ op ∈ more, op.gzAny) (pushed : Bytes) (acc : Nat) :
    let h := ((Hist.init cap .gz).run (ops ++ [.p .abort])).run more
    (h.sys.pop (.gzWrite pushed acc)).2.1 ≠ .ok ∧ (∀ n, (h.sys.pop (.gzWrite pushed acc)).2.1 ≠ .wrote n) ∧
    (h.sys.pop (.gzFlush pushed)).2.1 ≠ .ok := by
  intro h
  have hdg : DG h.sys := by
    apply DG_run
    rw [PipeFaults.run_append, PipeFaults.run_cons, PipeFaults.run_nil, step_sys_p]
    exact DG_abort _
  rcases hdg with hd | hg
  · have := pop_dead_gz_err h.sys pushed acc hd
    simp [this.1, this.2]
  · simp [PipeFaults.pop_gone _ _ hg]

/-- C11 (disconnect, gzip writer): once the body has been dropped, the queue is released and
never grows, the writer holds at most one chunk, every flush fails, and after the first failure
every operation fails. -/
theorem gz_disconnect_signalled (cap : Nat) (hc : 0 < cap) (ops more : List AnyOp)
    (hops : ∀ op ∈ ops, op.gzAny) (hmore : ∀ op ∈ more, op.gzAny) (pushed : Bytes) (acc : Nat) :
    let h := ((Hist.init cap .gz).run (ops ++ [.c .drop])).run more
    h.sys.inflight = [] ∧ h.sys.buf.length ≤ cap ∧
    (h.sys.bw = .gz → (h.sys.pop (.gzFlush pushed)).2.1 = .err) ∧
    (h.sys.bw = .dead → (h.sys.pop (.gzFlush pushed)).2.1 = .err ∧
       (h.sys.pop (.gzWrite pushed acc)).2.1 = .err) := by
  intro h
  have hops' : ∀ op ∈ ops ++ [AnyOp.c .drop], op.gzAny := by
    intro op ho
    rcases List.mem_append.1 ho with ho | ho
    · exact hops op ho
    · simp at ho; subst ho; trivial
  have hi : GA cap h := GA_run cap hc more hmore _ (GA_run cap hc _ hops' _ (GA_init cap hc))
  have hra : h.sys.readerAlive = false := by
    apply RA_run
    rw [PipeFaults.run_append, PipeFaults.run_cons, PipeFaults.run_nil, step_sys_c]
    exact cop_drop_readerAlive _
  have hst := hi.dead_fused hra
  have hn := nok_fused _ hst
  refine ⟨by simp [Sys.inflight, hst], hi.buf_le, ?_, ?_⟩
  · intro hbw
    obtain ⟨buf', _, hp⟩ := pop_gz_flush_nok h.sys pushed hbw hn (hi.cap_eq ▸ hi.buf_le)
    rw [hp]
  · exact pop_dead_gz_err _ pushed acc

set_option linter.unusedVariables false in
/-- C20 for gzip streaming bodies, any history including aborts and body drops: once a poll has
reported the end or an error, every later poll reports the end. -/
theorem gz_pipe_fused (cap : Nat) (hc : 0 < cap) (ops more : List AnyOp)
    (hops : ∀ op ∈ ops, op.gzAny) (hmore : ∀ op ∈ more, op.gzAny) :
    let h := (Hist.init cap .gz).run ops
    (∃ r ∈ h.polls, r.isTerminal = true) →
    ∀ r ∈ ((h.run more).polls.drop h.polls.length), r = ROut.end_ := by
  intro h ht
  have f : PipeLemmas.FInv h := finv_run_any ops _ (finv_init_any cap .gz)
  exact term_run_drop_any (Or.inl (f ht)) more

end HS
