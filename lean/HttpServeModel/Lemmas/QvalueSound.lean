import HttpServeModel.Lemmas.AcceptEncoding
namespace HS

namespace QvalueSound

theorem stripPrefix_zeroDot {s v : Bytes} (h : stripPrefix kZeroDot s = some v) :
    s = 48 :: 46 :: v := by
  match s, h with
  | [], h => simp [stripPrefix, kZeroDot] at h
  | [a], h =>
    simp only [stripPrefix, kZeroDot] at h
    split at h <;> simp at h
  | a :: b :: r, h =>
    simp only [stripPrefix, kZeroDot] at h
    split at h
    · split at h
      · simp at h; subst_vars; rfl
      · simp at h
    · simp at h

/-- What `parseU16` returns on an explicit digit string. -/
theorem parseU16_some {v : Bytes} {x : Nat} (h : parseU16 v = some x) :
    stripPlus v ≠ [] ∧ allDigits (stripPlus v) = true ∧ x = digitsVal (stripPlus v) := by
  rw [parseU16_eq] at h
  split at h
  · simp at h
  · rename_i hne
    split at h
    · simp at h
    · rename_i hd
      split at h
      · simp at h hd hne
        exact ⟨hne, hd, h.symm⟩
      · simp at h

def Good (s : Bytes) (v : Nat) : Prop :=
  (∃ q : QVal, q.wf ∧ s = q.render ∧ v = q.value) ∨
  (∃ ds : Bytes, s = [48, 46, 43] ++ ds ∧ 1 ≤ ds.length ∧ ds.length ≤ 2 ∧ allDigits ds = true)

theorem good1 (a x : Nat) (hp : parseU16 [a] = some x) : Good [48, 46, a] (x * 100) := by
  obtain ⟨hne, hd, hx⟩ := parseU16_some hp
  by_cases ha : a = 43
  · subst ha; simp [stripPlus, cPlus] at hne
  · have hsp : ∀ r, stripPlus (a :: r) = a :: r := fun r => by simp [stripPlus, cPlus, ha]
    rw [hsp] at hd hx
    simp [allDigits, isDigit] at hd
    simp [digitsVal] at hx
    left
    refine ⟨⟨false, true, [a - 48]⟩, ⟨by simp, by simp; omega, by simp, by simp⟩, ?_, ?_⟩
    · simp [QVal.render]; omega
    · simp [QVal.value]; omega

theorem good2 (a b x : Nat) (hp : parseU16 [a, b] = some x) : Good [48, 46, a, b] (x * 10) := by
  obtain ⟨hne, hd, hx⟩ := parseU16_some hp
  by_cases ha : a = 43
  · subst ha
    have hsp : ∀ r, stripPlus (43 :: r) = r := fun r => by simp [stripPlus, cPlus]
    rw [hsp] at hd
    right
    exact ⟨[b], by simp, by simp, by simp, hd⟩
  · have hsp : ∀ r, stripPlus (a :: r) = a :: r := fun r => by simp [stripPlus, cPlus, ha]
    rw [hsp] at hd hx
    simp [allDigits, isDigit] at hd
    simp [digitsVal] at hx
    left
    refine ⟨⟨false, true, [a - 48, b - 48]⟩, ⟨by simp, by simp; omega, by simp, by simp⟩, ?_, ?_⟩
    · simp [QVal.render]; omega
    · simp [QVal.value]; omega

theorem good3 (a b c x : Nat) (hp : parseU16 [a, b, c] = some x) :
    Good [48, 46, a, b, c] (x * 1) := by
  obtain ⟨hne, hd, hx⟩ := parseU16_some hp
  by_cases ha : a = 43
  · subst ha
    have hsp : ∀ r, stripPlus (43 :: r) = r := fun r => by simp [stripPlus, cPlus]
    rw [hsp] at hd
    right
    exact ⟨[b, c], by simp, by simp, by simp, hd⟩
  · have hsp : ∀ r, stripPlus (a :: r) = a :: r := fun r => by simp [stripPlus, cPlus, ha]
    rw [hsp] at hd hx
    simp [allDigits, isDigit] at hd
    simp [digitsVal] at hx
    left
    refine ⟨⟨false, true, [a - 48, b - 48, c - 48]⟩,
      ⟨by simp, by simp; omega, by simp, by simp⟩, ?_, ?_⟩
    · simp [QVal.render]; omega
    · simp [QVal.value]; omega

theorem good_one (ds : List Nat) (hl : ds.length ≤ 3) (hz : ∀ d ∈ ds, d = 0) (dot : Bool)
    (hdot : dot = false → ds = []) : Good (QVal.render ⟨true, dot, ds⟩) 1000 := by
  left
  refine ⟨⟨true, dot, ds⟩, ⟨hl, ?_, hdot, fun _ => hz⟩, rfl, rfl⟩
  intro d hd
  have := hz d hd
  omega

theorem good_zero (dot : Bool) : Good (QVal.render ⟨false, dot, []⟩) 0 := by
  left
  exact ⟨⟨false, dot, []⟩, ⟨by simp, by simp, by simp, by simp⟩, rfl, by simp [QVal.value]⟩

theorem sound (s : Bytes) (v : Nat) (h : parseQvalue s = .ok (some v)) : Good s v := by
  unfold parseQvalue at h
  split at h
  · rename_i h1
    simp only [R.ok.injEq, Option.some.injEq] at h
    subst h
    simp only [Bool.or_eq_true, beq_iff_eq] at h1
    rcases h1 with (((rfl | rfl) | rfl) | rfl) | rfl
    · exact good_one [] (by simp) (by simp) false (by simp)
    · exact good_one [] (by simp) (by simp) true (by simp)
    · exact good_one [0] (by simp) (by simp) true (by simp)
    · exact good_one [0, 0] (by simp) (by simp) true (by simp)
    · exact good_one [0, 0, 0] (by simp) (by simp) true (by simp)
  · split at h
    · rename_i _ h0
      simp only [R.ok.injEq, Option.some.injEq] at h
      subst h
      simp only [Bool.or_eq_true, beq_iff_eq] at h0
      rcases h0 with rfl | rfl
      · exact good_zero false
      · exact good_zero true
    · split at h
      · simp at h
      · rename_i w hw
        have hs := stripPrefix_zeroDot hw
        subst hs
        match w, h with
        | [], h => simp at h
        | [a], h =>
          simp only [List.length_singleton, beq_self_eq_true, if_true] at h
          cases hp : parseU16 [a] with
          | none => simp [hp] at h
          | some x =>
            simp only [hp] at h
            split at h
            · simp only [R.ok.injEq, Option.some.injEq] at h
              subst h
              exact good1 a x hp
            · simp at h
        | [a, b], h =>
          simp only [List.length_cons, List.length_nil] at h
          cases hp : parseU16 [a, b] with
          | none => simp [hp] at h
          | some x =>
            have h' : (if x * 10 < 65536 then R.ok (some (x * 10)) else R.panic) = R.ok (some v) := by
              simpa [hp] using h
            split at h'
            · simp only [R.ok.injEq, Option.some.injEq] at h'
              subst h'
              exact good2 a b x hp
            · simp at h'
        | [a, b, c], h =>
          simp only [List.length_cons, List.length_nil] at h
          cases hp : parseU16 [a, b, c] with
          | none => simp [hp] at h
          | some x =>
            have h' : (if x * 1 < 65536 then R.ok (some (x * 1)) else R.panic) = R.ok (some v) := by
              simpa [hp] using h
            split at h'
            · simp only [R.ok.injEq, Option.some.injEq] at h'
              subst h'
              exact good3 a b c x hp
            · simp at h'
        | _ :: _ :: _ :: _ :: _, h => simp at h

theorem value_le (q : QVal) (h : q.wf) : q.value ≤ 1000 := by
  obtain ⟨isOne, dot, digits⟩ := q
  obtain ⟨hlen, hdig, _, _⟩ := h
  simp only at hlen hdig
  cases isOne with
  | true => simp [QVal.value]
  | false =>
    match digits, hlen, hdig with
    | [], _, _ => simp [QVal.value]
    | [a], _, hd =>
      have : a ≤ 9 := hd a (by simp)
      simp [QVal.value]; omega
    | [a, b], _, hd =>
      have : a ≤ 9 := hd a (by simp)
      have : b ≤ 9 := hd b (by simp)
      simp [QVal.value]; omega
    | [a, b, c], _, hd =>
      have : a ≤ 9 := hd a (by simp)
      have : b ≤ 9 := hd b (by simp)
      have : c ≤ 9 := hd c (by simp)
      simp [QVal.value]; omega
    | _ :: _ :: _ :: _ :: _, hl, _ => simp at hl

theorem range (s : Bytes) (v : Nat) (h : parseQvalue s = .ok (some v)) : v ≤ 1000 := by
  unfold parseQvalue at h
  split at h
  · simp at h; omega
  · split at h
    · simp at h; omega
    · split at h
      · simp at h
      · rename_i w _
        by_cases h1 : w.length = 1
        · simp only [h1] at h
          cases hp : parseU16 w with
          | none => simp [hp] at h
          | some x =>
            have := parseU16_lt hp
            rw [h1] at this
            simp only [hp] at h
            revert h
            simp only [beq_self_eq_true, if_true, Nat.reduceBEq, Bool.false_eq_true, if_false]
            intro h
            split at h
            · simp only [R.ok.injEq, Option.some.injEq] at h
              omega
            · simp at h
        · by_cases h2 : w.length = 2
          · simp only [h2] at h
            cases hp : parseU16 w with
            | none => simp [hp] at h
            | some x =>
              have := parseU16_lt hp
              rw [h2] at this
              simp only [hp] at h
              revert h
              simp only [beq_self_eq_true, if_true, Nat.reduceBEq, Bool.false_eq_true, if_false]
              intro h
              split at h
              · simp only [R.ok.injEq, Option.some.injEq] at h
                omega
              · simp at h
          · by_cases h3 : w.length = 3
            · simp only [h3] at h
              cases hp : parseU16 w with
              | none => simp [hp] at h
              | some x =>
                have := parseU16_lt hp
                rw [h3] at this
                simp only [hp] at h
                revert h
                simp only [beq_self_eq_true, if_true, Nat.reduceBEq, Bool.false_eq_true, if_false]
                intro h
                split at h
                · simp only [R.ok.injEq, Option.some.injEq] at h
                  omega
                · simp at h
            · simp [h1, h2, h3] at h

theorem qualityOf_none (name : Bytes) (l : List AeElem) (hn : ∀ e ∈ l, e.coding ≠ name) :
    qualityOf name l = none := by
  unfold qualityOf
  have : l.reverse.find? (fun e => e.coding == name) = none := by
    rw [List.find?_eq_none]
    intro e he
    have := hn e (by simpa using he)
    simpa using this
  rw [this]
  rfl

end QvalueSound

/-- C16, converse for qvalues: whatever `parse_qvalue` accepts is a grammatical qvalue with the
parsed weight — except for the one documented leniency that `u16::from_str` admits a `+` sign
after `0.` (`0.+5` = 0.05, `0.+55` = 0.055), which can only make an UNgrammatical header parse. -/
theorem parseQvalue_sound (s : Bytes) (v : Nat) (h : parseQvalue s = .ok (some v)) :
    (∃ q : QVal, q.wf ∧ s = q.render ∧ v = q.value) ∨
    (∃ ds : Bytes, s = [48, 46, 43] ++ ds ∧ 1 ≤ ds.length ∧ ds.length ≤ 2 ∧ allDigits ds = true) :=
  QvalueSound.sound s v h

/-- Every accepted weight is in 0..=1000. -/
theorem parseQvalue_range (s : Bytes) (v : Nat) (h : parseQvalue s = .ok (some v)) : v ≤ 1000 :=
  QvalueSound.range s v h

/-- Coding names are matched exactly: an element whose coding is not byte-for-byte `gzip`, `*` or
`identity` (e.g. `GZIP`, `x-gzip`) never makes gzip acceptable. If no element of the list is named
exactly `gzip` or `*`, the answer is false. -/
theorem shouldGzip_needs_exact_name (l : List AeElem) (h : ∀ e ∈ l, e.wf)
    (hn : ∀ e ∈ l, e.coding ≠ [103, 122, 105, 112] ∧ e.coding ≠ [42]) :
    shouldGzip (some (renderAe l)) = .ok false := by
  rw [shouldGzip_render l h]
  have h1 := QvalueSound.qualityOf_none [103, 122, 105, 112] l (fun e he => (hn e he).1)
  have h2 := QvalueSound.qualityOf_none [42] l (fun e he => (hn e he).2)
  have : prefGzip l = 0 := by simp [prefGzip, h1, h2]
  simp [specGzip, this]

end HS
