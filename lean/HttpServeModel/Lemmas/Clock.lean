/-
The clock only shows in the Date and Last-Modified headers: status, body plan, entity calls and
every other header of a response are independent of the time at which the request is served.
(In particular the date conditions are evaluated against the entity's modification time, also
when that lies in the future.)
-/
import HttpServeModel.Lemmas.ServeLemmas

namespace HS

/-- Is this header one of the two that show the clock? -/
def isClockHeader (p : HName × HVal) : Bool :=
  match p.1 with
  | .date => true
  | .lastModified => true
  | _ => false

/-- The response without its Date and Last-Modified headers. -/
def Resp.stripClock (r : Resp) : Resp :=
  { r with headers := r.headers.filter fun p => !isClockHeader p }

/-- `R.map` for responses. -/
def stripClockR : R Resp → R Resp
  | .panic => .panic
  | .ok r => .ok r.stripClock

theorem clock_common (e : Ent) (now1 now2 : Nat) :
    (commonHeaders e now1).filter (fun p => !isClockHeader p)
      = (commonHeaders e now2).filter (fun p => !isClockHeader p) := by
  unfold commonHeaders
  cases e.mtime <;> cases e.etag <;> simp [isClockHeader]

theorem clock_serveSimple (q : Req) (e : Ent) (st : Nat) (h1 h2 : List (HName × HVal))
    (a b : Nat) (inc : Bool) (calls : List EntCall)
    (h : h1.filter (fun p => !isClockHeader p) = h2.filter (fun p => !isClockHeader p)) :
    stripClockR (serveSimple q e st h1 a b inc calls)
      = stripClockR (serveSimple q e st h2 a b inc calls) := by
  unfold serveSimple
  cases subChk b a with
  | panic => rfl
  | ok n =>
    cases inc <;> simp [stripClockR, Resp.stripClock, List.filter_append, h]

theorem serve_clock_independent (q : Req) (e : Ent) (now1 now2 : Nat) :
    stripClockR (serve q e now1) = stripClockR (serve q e now2) := by
  have h := clock_common e now1 now2
  unfold serve
  generalize commonHeaders e now1 = h1 at h ⊢
  generalize commonHeaders e now2 = h2 at h ⊢
  split
  · rfl
  · split
    · rfl
    · simp only []
      split
      · simp [stripClockR, Resp.stripClock, h]
      · split
        · simp [stripClockR, Resp.stripClock, h]
        · split
          · rfl
          · exact clock_serveSimple _ _ _ _ _ _ _ _ _ h
          · simp [stripClockR, Resp.stripClock, List.filter_append, h]
          · cases subChk _ 1 with
            | panic => rfl
            | ok last =>
              simp only [R.bind_ok]
              apply clock_serveSimple
              simp [List.filter_append, h]
          · cases estLen _ 0 with
            | panic => rfl
            | ok est =>
              simp only [R.bind_ok]
              have hs := clock_serveSimple q e 200 h1 h2 0 e.len true
                ([EntCall.lastModified, EntCall.etag] ++ [EntCall.len]) h
              cases est with
              | none => simpa using hs
              | some l =>
                by_cases hl : l < e.len
                · simp only [hl, decide_true, if_true]
                  cases prepareMultipart _ _ _ with
                  | panic => rfl
                  | ok r =>
                    simp only [R.bind_ok]
                    split
                    · rfl
                    · split <;>
                        simp [stripClockR, Resp.stripClock, List.filter_append, h]
                · simpa [hl] using hs

end HS
