/-
The model of `range::parse` against the RFC 7233 specification.
-/
import HttpServeModel.Model.Range
import HttpServeModel.Spec.Rfc7233
import HttpServeModel.Lemmas.Digits

namespace HS

/-! ### Byte classes occurring in a rendered element -/

/-- Bytes of a rendered element core: digits and '-'. -/
def CoreByte (c : Nat) : Prop := c = 45 ∨ (48 ≤ c ∧ c ≤ 57)

theorem mem_allDigits {s : Bytes} (h : allDigits s = true) {c : Nat} (hc : c ∈ s) :
    48 ≤ c ∧ c ≤ 57 := by
  have := (List.all_eq_true.mp h) c hc
  simpa [isDigit] using this

theorem allDigits_num (z n : Nat) : allDigits (num z n) = true := by
  simp [num, allDigits_append, allDigits_zeros, allDigits_dec]

theorem num_ne_nil (z n : Nat) : num z n ≠ [] := by
  simp [num, dec_ne_nil]

theorem mem_num {z n c : Nat} (hc : c ∈ num z n) : 48 ≤ c ∧ c ≤ 57 :=
  mem_allDigits (allDigits_num z n) hc

theorem parsePos_num (z n : Nat) (h : n < U64) : parsePos (num z n) = some n :=
  parsePos_zeros_dec z n h

theorem parsePos_num_big (z n : Nat) (h : ¬ n < U64) : parsePos (num z n) = none :=
  parsePos_zeros_dec_big z n (by omega)

theorem render_coreByte (z1 z2 : Nat) (s : RangeSpec) : ∀ c ∈ s.render z1 z2, CoreByte c := by
  intro c hc
  cases s <;> simp only [RangeSpec.render, List.mem_append, List.mem_singleton] at hc
  · rcases hc with (h | h) | h
    · exact .inr (mem_num h)
    · exact .inl h
    · exact .inr (mem_num h)
  · rcases hc with h | h
    · exact .inr (mem_num h)
    · exact .inl h
  · rcases hc with h | h
    · exact .inl h
    · exact .inr (mem_num h)

theorem render_ne_nil (z1 z2 : Nat) (s : RangeSpec) : s.render z1 z2 ≠ [] := by
  cases s <;> simp [RangeSpec.render]

/-! ### `trimOws` -/

theorem dropWhile_ows_append (pre s : Bytes) (h : IsOws pre) :
    (pre ++ s).dropWhile isOws = s.dropWhile isOws := by
  induction pre with
  | nil => rfl
  | cons c t ih =>
    have hc : isOws c = true := by
      have := h c (by simp)
      simp [isOws]; exact this
    have ht : IsOws t := fun x hx => h x (by simp [hx])
    simp [hc, ih ht]

theorem dropWhile_ows_head (c : Nat) (t : Bytes) (h : isOws c = false) :
    (c :: t).dropWhile isOws = c :: t := by
  simp [h]

theorem dropWhile_ows_of_all (s : Bytes) (h : ∀ c ∈ s, isOws c = false) :
    s.dropWhile isOws = s := by
  cases s with
  | nil => rfl
  | cons c t => exact dropWhile_ows_head c t (h c (by simp))

theorem IsOws.reverse {s : Bytes} (h : IsOws s) : IsOws s.reverse :=
  fun c hc => h c (by simpa using hc)

theorem trimOws_core (pre core post : Bytes) (hpre : IsOws pre) (hpost : IsOws post)
    (hcore : ∀ c ∈ core, isOws c = false) : trimOws (pre ++ core ++ post) = core := by
  unfold trimOws trimStartOws trimEndOws
  rw [List.append_assoc, dropWhile_ows_append _ _ hpre]
  by_cases hnil : core = []
  · subst hnil
    have h1 : ([] ++ post : Bytes) = post ++ [] := by simp
    rw [h1, dropWhile_ows_append _ _ hpost]
    simp only [List.dropWhile_nil, List.reverse_nil]
  · obtain ⟨c, t, rfl⟩ := List.exists_cons_of_ne_nil hnil
    rw [List.cons_append, dropWhile_ows_head _ _ (hcore c (by simp))]
    rw [← List.cons_append, List.reverse_append, dropWhile_ows_append _ _ hpost.reverse,
      dropWhile_ows_of_all _ (fun x hx => hcore x (by simp at hx; simp; exact hx.symm))]
    simp

theorem coreByte_not_ows {c : Nat} (h : CoreByte c) : isOws c = false := by
  unfold CoreByte at h
  simp [isOws]; omega

theorem trimOws_render (e : RangeElem) (hwf : e.wf) :
    trimOws e.render = e.spec.render e.zeros1 e.zeros2 :=
  trimOws_core _ _ _ hwf.1 hwf.2 (fun c hc => coreByte_not_ows (render_coreByte _ _ _ c hc))

/-! ### `splitOnce` -/

theorem splitOnce_append (sep : Nat) (d rest : Bytes) (h : ∀ c ∈ d, c ≠ sep) :
    splitOnce sep (d ++ sep :: rest) = some (d, rest) := by
  induction d with
  | nil => simp [splitOnce]
  | cons c t ih =>
    have hc : c ≠ sep := h c (by simp)
    simp [splitOnce, hc, ih (fun x hx => h x (by simp [hx]))]

theorem splitOnce_num (z n : Nat) (rest : Bytes) :
    splitOnce cHyphen (num z n ++ [45] ++ rest) = some (num z n, rest) := by
  rw [List.append_assoc]
  exact splitOnce_append 45 _ _ (fun c hc => by have := mem_num hc; omega)

/-! ### One element -/

theorem isEmpty_num (z n : Nat) : (num z n).isEmpty = false := by
  cases h : num z n with
  | nil => exact absurd h (num_ne_nil z n)
  | cons _ _ => rfl

theorem satAdd_min (b L : Nat) (hb : b < U64) (hL : L < U64) :
    min (satAdd b 1) L = min (b + 1) L := by
  unfold satAdd U64 at *
  split <;> omega

theorem parseSpec_render (e : RangeElem) (L : Nat) (hwf : e.wf) (hfit : e.spec.fits)
    (hL : L < U64) :
    parseSpec e.render L =
      match e.spec.resolve L with
      | none => .skip
      | some r => .range r.1 (r.2 + 1) := by
  unfold parseSpec
  simp only [trimOws_render e hwf]
  cases hs : e.spec with
  | fromTo a b =>
    rw [hs] at hfit
    simp only [RangeSpec.fits] at hfit
    simp only [RangeSpec.render, splitOnce_num, isEmpty_num, parsePos_num _ _ hfit.1,
      parsePos_num _ _ hfit.2, RangeSpec.resolve, satAdd_min b L hfit.2 hL]
    simp only [Bool.false_eq_true, if_false, Bool.not_false, if_true]
    by_cases hL0 : L = 0
    · simp [hL0]
    · by_cases h : a ≤ min b (L - 1)
      · have h1 : ¬ (a ≥ min (b + 1) L) := by omega
        have h2 : min (b + 1) L = min b (L - 1) + 1 := by omega
        rw [h2] at h1
        simp only [hL0, h, h1, h2, if_false, if_true]
      · have h1 : a ≥ min (b + 1) L := by omega
        simp only [hL0, h, h1, if_false, if_true]
  | «from» a =>
    rw [hs] at hfit
    simp only [RangeSpec.fits] at hfit
    have := splitOnce_num e.zeros1 a []
    simp only [List.append_nil] at this
    simp only [RangeSpec.render, this, isEmpty_num, parsePos_num _ _ hfit, RangeSpec.resolve]
    simp only [Bool.false_eq_true, if_false, List.isEmpty_nil, Bool.not_true]
    by_cases h : a < L
    · have h1 : ¬ (a ≥ L) := by omega
      have h2 : L - 1 + 1 = L := by omega
      simp only [h, h1, h2, if_false, if_true]
    · have h1 : a ≥ L := by omega
      simp only [h, h1, if_false, if_true]
  | suffix n =>
    rw [hs] at hfit
    simp only [RangeSpec.fits] at hfit
    simp only [RangeSpec.render, RangeSpec.resolve]
    have : splitOnce cHyphen ([45] ++ num e.zeros1 n) = some ([], num e.zeros1 n) := by
      simp [splitOnce, cHyphen]
    simp only [this, List.isEmpty_nil, if_true, parsePos_num _ _ hfit]
    by_cases h : n = 0 ∨ L = 0
    · have h1 : min n L = 0 := by omega
      simp [h, h1]
    · have h1 : min n L ≠ 0 := by omega
      have h2 : min n L ≤ L := by omega
      have h3 : L - 1 + 1 = L := by omega
      simp [h, h1, h2, h3]

theorem parseSpec_render_big (e : RangeElem) (L : Nat) (hwf : e.wf) (hbig : ¬ e.spec.fits) :
    parseSpec e.render L = .bad := by
  unfold parseSpec
  simp only [trimOws_render e hwf]
  cases hs : e.spec with
  | fromTo a b =>
    rw [hs] at hbig
    simp only [RangeSpec.fits] at hbig
    simp only [RangeSpec.render, splitOnce_num, isEmpty_num]
    simp only [Bool.false_eq_true, if_false, Bool.not_false, if_true]
    by_cases ha : a < U64
    · have hb : ¬ b < U64 := fun hb => hbig ⟨ha, hb⟩
      simp only [parsePos_num _ _ ha, parsePos_num_big _ _ hb]
    · simp only [parsePos_num_big _ _ ha]
  | «from» a =>
    rw [hs] at hbig
    simp only [RangeSpec.fits] at hbig
    have := splitOnce_num e.zeros1 a []
    simp only [List.append_nil] at this
    simp only [RangeSpec.render, this, isEmpty_num, parsePos_num_big _ _ hbig]
    simp only [Bool.false_eq_true, if_false]
  | suffix n =>
    rw [hs] at hbig
    simp only [RangeSpec.fits] at hbig
    have : splitOnce cHyphen ([45] ++ num e.zeros1 n) = some ([], num e.zeros1 n) := by
      simp [splitOnce, cHyphen]
    simp only [RangeSpec.render, this, List.isEmpty_nil, if_true, parsePos_num_big _ _ hbig]

/-- No element reaches the panic site. -/
theorem parseSpec_ne_panic (r : Bytes) (L : Nat) : parseSpec r L ≠ .panic := by
  unfold parseSpec
  simp only
  split
  · simp
  · split
    · split
      · simp
      · split
        · simp
        · split
          · simp
          · rename_i h; exact absurd (Nat.min_le_right _ _) h
    · split
      · simp
      · split
        · split
          · simp
          · split <;> simp
        · split <;> simp

/-- Every range an element yields is non-empty and within the entity. -/
theorem parseSpec_range_bounds (r : Bytes) (L a b : Nat) (h : parseSpec r L = .range a b) :
    a < b ∧ b ≤ L := by
  unfold parseSpec at h
  simp only at h
  split at h
  · simp at h
  · split at h
    · split at h
      · simp at h
      · split at h
        · simp at h
        · split at h
          · rename_i h0 _
            simp only [SpecRes.range.injEq] at h
            simp only [beq_iff_eq] at h0
            omega
          · simp at h
    · split at h
      · simp at h
      · split at h
        · split at h
          · simp at h
          · split at h
            · simp at h
            · simp only [SpecRes.range.injEq] at h
              omega
        · split at h
          · simp at h
          · simp only [SpecRes.range.injEq] at h
            omega

/-! ### `splitOn` / `joinComma` -/

theorem splitOn_no_sep (sep : Nat) (p : Bytes) (h : ∀ c ∈ p, c ≠ sep) : splitOn sep p = [p] := by
  induction p with
  | nil => rfl
  | cons c t ih =>
    have hc : c ≠ sep := h c (by simp)
    simp [splitOn, hc, ih (fun x hx => h x (by simp [hx]))]

theorem splitOn_append_sep (sep : Nat) (p rest : Bytes) (h : ∀ c ∈ p, c ≠ sep) :
    splitOn sep (p ++ sep :: rest) = p :: splitOn sep rest := by
  induction p with
  | nil => simp [splitOn]
  | cons c t ih =>
    have hc : c ≠ sep := h c (by simp)
    simp [splitOn, hc, ih (fun x hx => h x (by simp [hx]))]

theorem splitOn_joinComma (ps : List Bytes) (hne : ps ≠ []) (h : ∀ p ∈ ps, ∀ c ∈ p, c ≠ 44) :
    splitOn cComma (joinComma ps) = ps := by
  induction ps with
  | nil => exact absurd rfl hne
  | cons p t ih =>
    cases t with
    | nil => exact splitOn_no_sep 44 p (h p (by simp))
    | cons q t' =>
      simp only [joinComma, List.append_assoc, List.singleton_append]
      rw [show cComma = 44 from rfl, splitOn_append_sep 44 _ _ (h p (by simp))]
      have := ih (by simp) (fun x hx => h x (by simp [hx]))
      rw [show cComma = 44 from rfl] at this
      rw [this]

/-! ### Bytes of the rendering -/

def ElemByte (c : Nat) : Prop := c = 32 ∨ c = 9 ∨ c = 45 ∨ (48 ≤ c ∧ c ≤ 57)

theorem elem_render_bytes (e : RangeElem) (hwf : e.wf) : ∀ c ∈ e.render, ElemByte c := by
  intro c hc
  simp only [RangeElem.render, List.mem_append] at hc
  unfold ElemByte
  rcases hc with (h | h) | h
  · have := hwf.1 c h; omega
  · have := render_coreByte _ _ _ c h; unfold CoreByte at this; omega
  · have := hwf.2 c h; omega

theorem toStrOk_append (a b : Bytes) : toStrOk (a ++ b) = (toStrOk a && toStrOk b) := by
  simp [toStrOk]

theorem toStrOk_of_elemBytes (s : Bytes) (h : ∀ c ∈ s, ElemByte c) : toStrOk s = true := by
  simp only [toStrOk, List.all_eq_true]
  intro c hc
  have := h c hc
  unfold ElemByte at this
  simp [isVisibleAscii]; omega

theorem toStrOk_joinComma (ps : List Bytes) (h : ∀ p ∈ ps, toStrOk p = true) :
    toStrOk (joinComma ps) = true := by
  induction ps with
  | nil => rfl
  | cons p t ih =>
    cases t with
    | nil => exact h p (by simp)
    | cons q t' =>
      simp only [joinComma, toStrOk_append, Bool.and_eq_true]
      exact ⟨⟨h p (by simp), rfl⟩, ih (fun x hx => h x (by simp [hx]))⟩

theorem stripPrefix_append (p x : Bytes) : stripPrefix p (p ++ x) = some x := by
  induction p with
  | nil => cases x <;> rfl
  | cons a t ih => simp [stripPrefix, ih]

theorem toStrOk_renderRange (es : List RangeElem) (hwf : ∀ e ∈ es, e.wf) :
    toStrOk (renderRange es) = true := by
  unfold renderRange
  rw [toStrOk_append, Bool.and_eq_true]
  refine ⟨by decide, toStrOk_joinComma _ ?_⟩
  intro p hp
  obtain ⟨e, he, rfl⟩ := List.mem_map.mp hp
  exact toStrOk_of_elemBytes _ (elem_render_bytes e (hwf e he))

theorem splitOn_render (es : List RangeElem) (hne : es ≠ []) (hwf : ∀ e ∈ es, e.wf) :
    splitOn cComma (joinComma (es.map RangeElem.render)) = es.map RangeElem.render := by
  apply splitOn_joinComma
  · simpa using hne
  · intro p hp c hc
    obtain ⟨e, he, rfl⟩ := List.mem_map.mp hp
    have := elem_render_bytes e (hwf e he) c hc
    unfold ElemByte at this
    omega

/-- Unfolding of `parseRange` on a grammatical header. -/
theorem parseRange_renderRange (es : List RangeElem) (L : Nat) (hne : es ≠ [])
    (hwf : ∀ e ∈ es, e.wf) :
    parseRange (some (renderRange es)) L =
      match parseSpecs (es.map RangeElem.render) L with
      | .panic => .panic
      | .ok none => .ok .none
      | .ok (some []) => .ok .unsat
      | .ok (some rs) => .ok (.sat rs) := by
  unfold parseRange
  simp only [toStrOk_renderRange es hwf, Bool.not_true, Bool.false_eq_true, if_false]
  have : stripPrefix kBytesEq (renderRange es) = some (joinComma (es.map RangeElem.render)) :=
    stripPrefix_append _ _
  simp only [this, splitOn_render es hne hwf]
  cases parseSpecs (es.map RangeElem.render) L with
  | panic => rfl
  | ok o =>
    cases o with
    | none => rfl
    | some rs => cases rs <;> rfl

/-! ### The list loop -/

/-- inclusive (RFC) to half-open (implementation) -/
def toHalfOpen (r : Nat × Nat) : Nat × Nat := (r.1, r.2 + 1)

theorem parseSpecs_render (es : List RangeElem) (L : Nat)
    (hwf : ∀ e ∈ es, e.wf) (hfit : ∀ e ∈ es, e.spec.fits) (hL : L < U64) :
    parseSpecs (es.map RangeElem.render) L = .ok (some ((satisfiable L es).map toHalfOpen)) := by
  induction es with
  | nil => rfl
  | cons e t ih =>
    have ih' := ih (fun x hx => hwf x (by simp [hx])) (fun x hx => hfit x (by simp [hx]))
    have he := parseSpec_render e L (hwf e (by simp)) (hfit e (by simp)) hL
    simp only [List.map_cons, parseSpecs, satisfiable, List.filterMap_cons]
    simp only [satisfiable] at ih'
    cases hr : e.spec.resolve L with
    | none =>
      rw [hr] at he
      simp only [he, ih']
    | some r =>
      rw [hr] at he
      simp only [he, ih', List.map_cons, toHalfOpen]

theorem parseSpecs_cons_none (r : Bytes) (rest : List Bytes) (L : Nat)
    (h : parseSpecs rest L = .ok none) : parseSpecs (r :: rest) L = .ok none := by
  simp only [parseSpecs]
  cases hr : parseSpec r L with
  | bad => rfl
  | skip => exact h
  | range a b => simp only [h]
  | panic => exact absurd hr (parseSpec_ne_panic r L)

theorem parseSpecs_render_big (es : List RangeElem) (L : Nat)
    (hwf : ∀ e ∈ es, e.wf) (hbig : ∃ e ∈ es, ¬ e.spec.fits) :
    parseSpecs (es.map RangeElem.render) L = .ok none := by
  induction es with
  | nil => obtain ⟨e, he, _⟩ := hbig; simp at he
  | cons e t ih =>
    simp only [List.map_cons]
    by_cases hf : e.spec.fits
    · apply parseSpecs_cons_none
      apply ih (fun x hx => hwf x (by simp [hx]))
      obtain ⟨x, hx, hxb⟩ := hbig
      rcases List.mem_cons.mp hx with rfl | hx
      · exact absurd hf hxb
      · exact ⟨x, hx, hxb⟩
    · simp only [parseSpecs, parseSpec_render_big e L (hwf e (by simp)) hf]

theorem parseSpecs_ne_panic (rs : List Bytes) (L : Nat) : parseSpecs rs L ≠ .panic := by
  induction rs with
  | nil => simp [parseSpecs]
  | cons r t ih =>
    simp only [parseSpecs]
    cases hr : parseSpec r L with
    | bad => simp
    | skip => exact ih
    | range a b =>
      simp only
      cases ht : parseSpecs t L with
      | panic => exact absurd ht ih
      | ok o => cases o <;> simp
    | panic => exact absurd hr (parseSpec_ne_panic r L)

theorem parseSpecs_bounds (rs : List Bytes) (L : Nat) (out : List (Nat × Nat))
    (h : parseSpecs rs L = .ok (some out)) : ∀ r ∈ out, r.1 < r.2 ∧ r.2 ≤ L := by
  induction rs generalizing out with
  | nil =>
    simp only [parseSpecs, R.ok.injEq, Option.some.injEq] at h
    subst h; simp
  | cons r t ih =>
    simp only [parseSpecs] at h
    cases hr : parseSpec r L with
    | bad => simp [hr] at h
    | skip => rw [hr] at h; exact ih out h
    | range a b =>
      rw [hr] at h
      simp only at h
      cases ht : parseSpecs t L with
      | panic => simp [ht] at h
      | ok o =>
        cases o with
        | none => simp [ht] at h
        | some rs' =>
          simp only [ht, R.ok.injEq, Option.some.injEq] at h
          subst h
          intro x hx
          rcases List.mem_cons.mp hx with rfl | hx
          · exact parseSpec_range_bounds r L a b hr
          · exact ih rs' ht x hx
    | panic => simp [hr] at h

/-! ### Target theorems -/

/-- Every grammatical header resolves exactly as RFC 7233 prescribes. -/
theorem parseRange_render (es : List RangeElem) (L : Nat) (hne : es ≠ [])
    (hwf : ∀ e ∈ es, e.wf) (hfit : ∀ e ∈ es, e.spec.fits) (hL : L < U64) :
    parseRange (some (renderRange es)) L =
      .ok (if satisfiable L es = [] then Resolved.unsat
           else Resolved.sat ((satisfiable L es).map toHalfOpen)) := by
  rw [parseRange_renderRange es L hne hwf, parseSpecs_render es L hwf hfit hL]
  cases satisfiable L es with
  | nil => rfl
  | cons r t => simp

/-- A grammatical header in which some number does not fit in 64 bits is ignored. -/
theorem parseRange_render_too_big (es : List RangeElem) (L : Nat) (hne : es ≠ [])
    (hwf : ∀ e ∈ es, e.wf) (hbig : ∃ e ∈ es, ¬ e.spec.fits) :
    parseRange (some (renderRange es)) L = .ok Resolved.none := by
  rw [parseRange_renderRange es L hne hwf, parseSpecs_render_big es L hwf hbig]

/-- No header value and no length makes the parser reach a panic site. -/
theorem parseRange_total (v : Option Bytes) (L : Nat) : parseRange v L ≠ .panic := by
  unfold parseRange
  cases v with
  | none => simp
  | some v =>
    simp only
    split
    · simp
    · split
      · simp
      · rename_i rest _
        cases hp : parseSpecs (splitOn cComma rest) L with
        | panic => exact absurd hp (parseSpecs_ne_panic _ _)
        | ok o =>
          cases o with
          | none => simp
          | some rs => cases rs <;> simp

/-- Every range the parser returns is non-empty and within the entity. -/
theorem parseRange_sat_bounds (v : Option Bytes) (L : Nat) (rs : List (Nat × Nat))
    (h : parseRange v L = .ok (.sat rs)) : rs ≠ [] ∧ ∀ r ∈ rs, r.1 < r.2 ∧ r.2 ≤ L := by
  unfold parseRange at h
  cases v with
  | none => simp at h
  | some v =>
    simp only at h
    split at h
    · simp at h
    · split at h
      · simp at h
      · rename_i rest _
        cases hp : parseSpecs (splitOn cComma rest) L with
        | panic => simp [hp] at h
        | ok o =>
          cases o with
          | none => simp [hp] at h
          | some out =>
            cases out with
            | nil => simp [hp] at h
            | cons x t =>
              simp only [hp, R.ok.injEq, Resolved.sat.injEq] at h
              subst h
              exact ⟨by simp, parseSpecs_bounds _ L _ hp⟩

/-! ### Completeness: everything the parser accepts is grammatical -/

theorem dec_lt_ten (x : Nat) (h : x < 10) : dec x = [48 + x] := by
  rw [dec]; simp [h]

theorem dec_step (v x : Nat) (hv : 0 < v) (hx : x < 10) :
    dec (v * 10 + x) = dec v ++ [48 + x] := by
  rw [dec]
  have h1 : ¬ (v * 10 + x < 10) := by omega
  have h2 : (v * 10 + x) / 10 = v := by omega
  have h3 : (v * 10 + x) % 10 = x := by omega
  simp only [h1, dite_false, h2, h3]

/-- Every non-empty digit string is some zeros followed by the decimal rendering of its value. -/
theorem digits_eq_num_rev (t : Bytes) : t ≠ [] → allDigits t.reverse = true →
    ∃ k, t.reverse = num k (digitsVal t.reverse) := by
  induction t with
  | nil => intro h; exact absurd rfl h
  | cons d t ih =>
    intro _ hd
    rw [List.reverse_cons] at hd ⊢
    rw [allDigits_append, Bool.and_eq_true] at hd
    have hdd : 48 ≤ d ∧ d ≤ 57 := mem_allDigits hd.2 (by simp)
    rw [digitsVal_append_single]
    by_cases ht : t = []
    · subst ht
      refine ⟨0, ?_⟩
      simp only [List.reverse_nil, List.nil_append, num, List.replicate_zero, digitsVal,
        List.foldl_nil]
      rw [dec_lt_ten _ (by omega)]
      congr 1; omega
    · obtain ⟨k, hk⟩ := ih ht hd.1
      by_cases hv : digitsVal t.reverse = 0
      · refine ⟨k + 1, ?_⟩
        rw [hv] at hk ⊢
        rw [hk]
        simp only [num, dec_lt_ten 0 (by omega), List.replicate_succ']
        rw [dec_lt_ten _ (by omega)]
        simp only [List.append_assoc, Nat.add_zero]
        congr 2
        simp; omega
      · refine ⟨k, ?_⟩
        have hstep := dec_step (digitsVal t.reverse) (d - 48) (by omega) (by omega)
        have : 48 + (d - 48) = d := by omega
        rw [this] at hstep
        conv => lhs; rw [hk]
        simp only [num, hstep, List.append_assoc]

theorem digits_eq_num (s : Bytes) (hne : s ≠ []) (hd : allDigits s = true) :
    ∃ k, s = num k (digitsVal s) := by
  have := digits_eq_num_rev s.reverse (by simpa using hne) (by simpa using hd)
  simpa using this

theorem parsePos_some_num {s : Bytes} {n : Nat} (h : parsePos s = some n) :
    n < U64 ∧ ∃ k, s = num k n := by
  obtain ⟨hne, hd, hv⟩ := parsePos_some_allDigits h
  refine ⟨parsePos_some_lt h, ?_⟩
  subst hv
  exact digits_eq_num s hne hd

theorem splitOnce_some (c : Nat) (s a b : Bytes) (h : splitOnce c s = some (a, b)) :
    s = a ++ c :: b := by
  induction s generalizing a with
  | nil => simp [splitOnce] at h
  | cons x xs ih =>
    simp only [splitOnce] at h
    split at h
    · rename_i hx
      simp only [Option.some.injEq, Prod.mk.injEq] at h
      obtain ⟨rfl, rfl⟩ := h
      simp [hx]
    · split at h
      · simp at h
      · rename_i a' b' heq
        simp only [Option.some.injEq, Prod.mk.injEq] at h
        obtain ⟨rfl, rfl⟩ := h
        rw [ih a' heq]; rfl

theorem takeWhile_isOws (s : Bytes) : IsOws (s.takeWhile isOws) := by
  induction s with
  | nil => intro c hc; simp at hc
  | cons x xs ih =>
    intro c hc
    rw [List.takeWhile_cons] at hc
    split at hc
    · rename_i hx
      rcases List.mem_cons.mp hc with rfl | hc
      · simpa [isOws] using hx
      · exact ih c hc
    · simp at hc

theorem trimOws_decomp (s : Bytes) :
    ∃ pre post, IsOws pre ∧ IsOws post ∧ s = pre ++ trimOws s ++ post := by
  refine ⟨s.takeWhile isOws, ((s.dropWhile isOws).reverse.takeWhile isOws).reverse,
    takeWhile_isOws s, (takeWhile_isOws _).reverse, ?_⟩
  unfold trimOws trimEndOws trimStartOws
  rw [List.append_assoc, ← List.reverse_append, List.takeWhile_append_dropWhile,
    List.reverse_reverse, List.takeWhile_append_dropWhile]

theorem isEmpty_eq_true_iff (s : Bytes) : s.isEmpty = true ↔ s = [] := by
  cases s <;> simp

/-- An element that is not rejected is a rendering of a well-formed, fitting element. -/
theorem parseSpec_not_bad (p : Bytes) (L : Nat) (h : parseSpec p L ≠ .bad) :
    ∃ e : RangeElem, e.wf ∧ e.spec.fits ∧ e.render = p := by
  obtain ⟨pre, post, hpre, hpost, hp⟩ := trimOws_decomp p
  suffices hcore : ∃ (sp : RangeSpec) (z1 z2 : Nat), sp.fits ∧ sp.render z1 z2 = trimOws p by
    obtain ⟨sp, z1, z2, hf, hr⟩ := hcore
    refine ⟨⟨sp, pre, post, z1, z2⟩, ⟨hpre, hpost⟩, hf, ?_⟩
    simp only [RangeElem.render, hr]
    exact hp.symm
  unfold parseSpec at h
  simp only at h
  generalize trimOws p = r at h
  split at h
  · exact absurd rfl h
  · rename_i before after hso
    have hr := splitOnce_some _ _ _ _ hso
    split at h
    · rename_i hbe
      rw [isEmpty_eq_true_iff] at hbe
      subst hbe
      split at h
      · exact absurd rfl h
      · rename_i n hn
        obtain ⟨hlt, k, hk⟩ := parsePos_some_num hn
        refine ⟨.suffix n, k, 0, hlt, ?_⟩
        rw [hr, hk]; rfl
    · split at h
      · exact absurd rfl h
      · rename_i a ha
        obtain ⟨halt, k, hk⟩ := parsePos_some_num ha
        split at h
        · split at h
          · exact absurd rfl h
          · rename_i b hb
            obtain ⟨hblt, k2, hk2⟩ := parsePos_some_num hb
            refine ⟨.fromTo a b, k, k2, ⟨halt, hblt⟩, ?_⟩
            rw [hr, hk, hk2]
            simp [RangeSpec.render, cHyphen]
        · rename_i hae
          have : after = [] := by
            cases after with
            | nil => rfl
            | cons _ _ => simp at hae
          subst this
          refine ⟨.from a, k, 0, halt, ?_⟩
          rw [hr, hk]
          simp [RangeSpec.render, cHyphen]

theorem splitOn_ne_nil (sep : Nat) (s : Bytes) : splitOn sep s ≠ [] := by
  cases s with
  | nil => simp [splitOn]
  | cons c cs =>
    simp only [splitOn]
    split
    · simp
    · split <;> simp

theorem joinComma_cons_cons (c : Nat) (h : Bytes) (t : List Bytes) :
    joinComma ((c :: h) :: t) = c :: joinComma (h :: t) := by
  cases t <;> simp [joinComma]

theorem joinComma_splitOn (s : Bytes) : joinComma (splitOn 44 s) = s := by
  induction s with
  | nil => rfl
  | cons c cs ih =>
    simp only [splitOn]
    split
    · rename_i hc
      cases hs : splitOn 44 cs with
      | nil => exact absurd hs (splitOn_ne_nil _ _)
      | cons x xs =>
        rw [hs] at ih
        simp [joinComma, ih, hc]
    · cases hs : splitOn 44 cs with
      | nil => exact absurd hs (splitOn_ne_nil _ _)
      | cons x xs =>
        rw [hs] at ih
        simp only
        rw [joinComma_cons_cons, ih]

theorem parseSpecs_not_none (ps : List Bytes) (L : Nat) (h : parseSpecs ps L ≠ .ok none) :
    ∀ p ∈ ps, parseSpec p L ≠ .bad := by
  induction ps with
  | nil => intro p hp; simp at hp
  | cons r t ih =>
    intro p hp
    rcases List.mem_cons.mp hp with rfl | hp
    · intro hb
      simp [parseSpecs, hb] at h
    · exact ih (fun ht => h (parseSpecs_cons_none r t L ht)) p hp

theorem exists_elems (ps : List Bytes)
    (h : ∀ p ∈ ps, ∃ e : RangeElem, e.wf ∧ e.spec.fits ∧ e.render = p) :
    ∃ es : List RangeElem, (∀ e ∈ es, e.wf) ∧ (∀ e ∈ es, e.spec.fits) ∧
      es.map RangeElem.render = ps := by
  induction ps with
  | nil => exact ⟨[], by simp, by simp, rfl⟩
  | cons p t ih =>
    obtain ⟨e, hw, hf, hr⟩ := h p (by simp)
    obtain ⟨es, hws, hfs, hrs⟩ := ih (fun x hx => h x (by simp [hx]))
    refine ⟨e :: es, ?_, ?_, by simp [hr, hrs]⟩
    · intro x hx
      rcases List.mem_cons.mp hx with rfl | hx
      · exact hw
      · exact hws x hx
    · intro x hx
      rcases List.mem_cons.mp hx with rfl | hx
      · exact hf
      · exact hfs x hx

theorem stripPrefix_some (p s r : Bytes) (h : stripPrefix p s = some r) : s = p ++ r := by
  induction p generalizing s with
  | nil =>
    cases s <;> simp [stripPrefix] at h <;> simp [h]
  | cons a t ih =>
    cases s with
    | nil => simp [stripPrefix] at h
    | cons b s' =>
      simp only [stripPrefix] at h
      split at h
      · rename_i hab
        rw [ih s' h, hab]; rfl
      · simp at h

/-- Whatever the parser does not ignore is a grammatical `Range` header (of fitting numbers). -/
theorem parseRange_complete (v : Bytes) (L : Nat) (h : parseRange (some v) L ≠ .ok Resolved.none) :
    ∃ es : List RangeElem, es ≠ [] ∧ (∀ e ∈ es, e.wf) ∧ (∀ e ∈ es, e.spec.fits) ∧
      v = renderRange es := by
  unfold parseRange at h
  simp only at h
  split at h
  · exact absurd rfl h
  · split at h
    · exact absurd rfl h
    · rename_i rest hsp
      have hv := stripPrefix_some _ _ _ hsp
      have hnn : parseSpecs (splitOn cComma rest) L ≠ .ok none := by
        intro hn
        rw [hn] at h
        exact h rfl
      obtain ⟨es, hws, hfs, hrs⟩ := exists_elems _
        (fun p hp => parseSpec_not_bad p L (parseSpecs_not_none _ L hnn p hp))
      refine ⟨es, ?_, hws, hfs, ?_⟩
      · intro he
        subst he
        exact splitOn_ne_nil _ _ hrs.symm
      · unfold renderRange
        rw [hrs, show cComma = 44 from rfl, joinComma_splitOn]
        exact hv

end HS
