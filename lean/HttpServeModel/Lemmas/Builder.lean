/-
`StreamingBodyBuilder`: only the last call of each kind counts.
-/
import HttpServeModel.Model.Negotiate

namespace HS

/-- The level given by the last `with_gzip_level` call, if any. -/
def lastLevel : List BCall → Option Nat
  | [] => none
  | c :: cs => match lastLevel cs with
    | some l => some l
    | none => match c with | .gzipLevel l => some l | .chunkSize _ => none

/-- The size given by the last `with_chunk_size` call, if any. -/
def lastChunk : List BCall → Option Nat
  | [] => none
  | c :: cs => match lastChunk cs with
    | some n => some n
    | none => match c with | .chunkSize n => some n | .gzipLevel _ => none

theorem foldl_call_fields (calls : List BCall) (b : SBuilder) :
    (calls.foldl SBuilder.call b).gzipLevel = (lastLevel calls).getD b.gzipLevel ∧
    (calls.foldl SBuilder.call b).chunkSize = (lastChunk calls).getD b.chunkSize := by
  induction calls generalizing b with
  | nil => simp [lastLevel, lastChunk]
  | cons c cs ih =>
    obtain ⟨h1, h2⟩ := ih (b.call c)
    simp only [List.foldl_cons, h1, h2, lastLevel, lastChunk]
    cases c <;> cases hl : lastLevel cs <;> cases hc : lastChunk cs <;> simp [SBuilder.call]

end HS
