import HttpServeModel.Spec.Pipe
import HttpServeModel.Spec.Wakeup
namespace HS

/-- The `BodyWriter` operation a producer command denotes. -/
def PCmd.toPOp : PCmd → POp
  | .write bs => .write bs
  | .flush => .flush
  | .abort => .abort
  | .drop => .drop

/-- One step of the producer running alone: execute its pending critical section, or deliver
its pending wake. -/
def eagerStep (s : SSys) : SSys :=
  match s.stage with
  | .csFlush _ | .csAbort | .csDrop _ _ => (s.step .prod).1
  | .wake _ _ => (s.step .wake).1
  | _ => s

def eagerRun : Nat → SSys → SSys
  | 0, s => s
  | n + 1, s => eagerRun n (eagerStep s)

end HS

namespace HS.Consistency

/-! ### The simulation relation -/

/-- `s` (interleaving model, between commands) agrees with the sequential history `h`; nobody
has registered a waker, and the `BodyWriter` is not a gzip one. -/
def R (s : SSys) (h : Hist) : Prop :=
  s.sh = h.sys.sh ∧ s.buf = h.sys.buf ∧ s.bw = h.sys.bw ∧ s.results = h.pouts ∧
    s.cap = h.sys.cap ∧ s.sh.waker = none ∧ s.bw ≠ .gz

/-! ### Facts about the chunker primitives when no waker is registered -/

theorem flushHelper_wk (sh : Shared) (buf : Bytes) (d : Bool) (hw : sh.waker = none) :
    (flushHelper sh buf d).2.2.2 = none := by
  unfold flushHelper
  split
  · split <;> simp [hw]
  · rfl

theorem flushHelper_waker (sh : Shared) (buf : Bytes) (d : Bool) (hw : sh.waker = none) :
    (flushHelper sh buf d).1.waker = none := by
  unfold flushHelper
  split
  · split <;> simp [hw]
  · exact hw

theorem writerAbort_wk (sh : Shared) (hw : sh.waker = none) : (writerAbort sh).2 = none := by
  unfold writerAbort
  split
  · exact hw
  · rfl

theorem writerAbort_waker (sh : Shared) (hw : sh.waker = none) :
    (writerAbort sh).1.waker = none := by
  unfold writerAbort
  split
  · rfl
  · exact hw

/-! ### `eagerRun` basics -/

theorem eagerStep_done (s : SSys) (h : s.stage = .done) : eagerStep s = s := by
  simp [eagerStep, h]

theorem eagerRun_done (n : Nat) (s : SSys) (h : s.stage = .done) : eagerRun n s = s := by
  induction n with
  | zero => rfl
  | succ n ih => simp [eagerRun, eagerStep_done s h, ih]

theorem eagerRun_succ (n : Nat) (s : SSys) : eagerRun (n + 1) s = eagerRun n (eagerStep s) := rfl

/-! ### One eager step at each kind of block point (no waker registered) -/

theorem eagerStep_csFlush_ok (s : SSys) (n : Option Nat) (hs : s.stage = .csFlush n)
    (hw : s.sh.waker = none) (hok : (flushHelper s.sh s.buf false).2.2.1 = true) :
    eagerStep s =
      runFree { s with sh := (flushHelper s.sh s.buf false).1,
                       buf := (flushHelper s.sh s.buf false).2.1,
                       results := s.results ++ [match n with | some k => .wrote k | none => .ok],
                       bw := .raw, stage := .fetch } s.prog := by
  have hwk := flushHelper_wk s.sh s.buf false hw
  cases n <;>
  · simp only [eagerStep, hs, SSys.step]
    rw [show flushHelper s.sh s.buf false =
      ((flushHelper s.sh s.buf false).1, (flushHelper s.sh s.buf false).2.1,
       (flushHelper s.sh s.buf false).2.2.1, (flushHelper s.sh s.buf false).2.2.2) from rfl]
    simp only [hwk, hok, afterCs, goNext, advance, if_true]

theorem eagerStep_csFlush_err (s : SSys) (n : Option Nat) (hs : s.stage = .csFlush n)
    (hw : s.sh.waker = none) (hok : (flushHelper s.sh s.buf false).2.2.1 = false) :
    eagerStep s =
      { s with sh := (flushHelper s.sh s.buf false).1,
               buf := (flushHelper s.sh s.buf false).2.1,
               stage := .csDrop .err .dead } := by
  have hwk := flushHelper_wk s.sh s.buf false hw
  simp only [eagerStep, hs, SSys.step]
  rw [show flushHelper s.sh s.buf false =
    ((flushHelper s.sh s.buf false).1, (flushHelper s.sh s.buf false).2.1,
     (flushHelper s.sh s.buf false).2.2.1, (flushHelper s.sh s.buf false).2.2.2) from rfl]
  simp [hwk, hok, afterCs, goNext]

theorem eagerStep_csAbort (s : SSys) (hs : s.stage = .csAbort) (hw : s.sh.waker = none) :
    eagerStep s = { s with sh := (writerAbort s.sh).1, stage := .csDrop .unit .dead } := by
  have hwk := writerAbort_wk s.sh hw
  simp only [eagerStep, hs, SSys.step]
  rw [show writerAbort s.sh = ((writerAbort s.sh).1, (writerAbort s.sh).2) from rfl]
  simp [hwk, afterCs, goNext]

theorem eagerStep_csDrop (s : SSys) (r : POut) (bw : BW) (hs : s.stage = .csDrop r bw)
    (hw : s.sh.waker = none) :
    eagerStep s =
      runFree { s with sh := (flushHelper s.sh s.buf true).1,
                       buf := (flushHelper s.sh s.buf true).2.1,
                       results := s.results ++ [r], bw := bw, stage := .fetch } s.prog := by
  have hwk := flushHelper_wk s.sh s.buf true hw
  simp only [eagerStep, hs, SSys.step]
  rw [show flushHelper s.sh s.buf true =
    ((flushHelper s.sh s.buf true).1, (flushHelper s.sh s.buf true).2.1,
     (flushHelper s.sh s.buf true).2.2.1, (flushHelper s.sh s.buf true).2.2.2) from rfl]
  simp only [hwk, afterCs, goNext, advance]


theorem eagerRun_add (m k : Nat) (s : SSys) : eagerRun (m + k) s = eagerRun m (eagerRun k s) := by
  induction k generalizing s with
  | zero => rfl
  | succ k ih => rw [← Nat.add_assoc, eagerRun_succ, eagerRun_succ, ih]

/-! ### The sequential model, case by case -/

theorem pop_gone (s : Sys) (hb : s.bw = .gone) (op : POp) : s.pop op = (s, .unit, []) := by
  unfold Sys.pop; simp only [hb]

theorem pop_dead_write (s : Sys) (hb : s.bw = .dead) (bs : Bytes) :
    s.pop (.write bs) = (s, .err, []) := by
  unfold Sys.pop; simp only [hb]

theorem pop_dead_flush (s : Sys) (hb : s.bw = .dead) : s.pop .flush = (s, .err, []) := by
  unfold Sys.pop; simp only [hb]

theorem pop_dead_abort (s : Sys) (hb : s.bw = .dead) : s.pop .abort = (s, .unit, []) := by
  unfold Sys.pop; simp only [hb]

theorem pop_dead_drop (s : Sys) (hb : s.bw = .dead) :
    s.pop .drop = ({ s with bw := .gone }, .unit, []) := by
  unfold Sys.pop; simp only [hb]

theorem pop_raw_write_free (s : Sys) (hb : s.bw = .raw) (bs : Bytes)
    (hf : ¬ (s.cap - s.buf.length ≤ bs.length)) :
    s.pop (.write bs) = ({ s with buf := s.buf ++ bs.take bs.length }, .wrote bs.length, []) := by
  unfold Sys.pop; simp only [hb, writerWrite, hf, decide_false, Bool.false_eq_true, if_false]
  rfl

theorem pop_raw_write_full_ok (s : Sys) (hb : s.bw = .raw) (bs : Bytes)
    (hf : s.cap - s.buf.length ≤ bs.length)
    (hok : (flushHelper s.sh (s.buf ++ bs.take (s.cap - s.buf.length)) false).2.2.1 = true) :
    ∃ wk, s.pop (.write bs) =
      ({ s with sh := (flushHelper s.sh (s.buf ++ bs.take (s.cap - s.buf.length)) false).1,
                buf := (flushHelper s.sh (s.buf ++ bs.take (s.cap - s.buf.length)) false).2.1 },
       .wrote (s.cap - s.buf.length), wk) := by
  unfold Sys.pop; simp only [hb, writerWrite, hf, decide_true, if_true]
  generalize flushHelper s.sh (s.buf ++ bs.take (s.cap - s.buf.length)) false = fh at hok ⊢
  obtain ⟨a, b, c, d⟩ := fh
  simp only at hok
  subst hok
  exact ⟨_, rfl⟩

theorem pop_raw_write_full_err (s : Sys) (hb : s.bw = .raw) (bs : Bytes)
    (hf : s.cap - s.buf.length ≤ bs.length)
    (hok : (flushHelper s.sh (s.buf ++ bs.take (s.cap - s.buf.length)) false).2.2.1 = false) :
    ∃ wk, s.pop (.write bs) =
      ({ s with
          sh := (flushHelper
            (flushHelper s.sh (s.buf ++ bs.take (s.cap - s.buf.length)) false).1
            (flushHelper s.sh (s.buf ++ bs.take (s.cap - s.buf.length)) false).2.1 true).1,
          buf := (flushHelper
            (flushHelper s.sh (s.buf ++ bs.take (s.cap - s.buf.length)) false).1
            (flushHelper s.sh (s.buf ++ bs.take (s.cap - s.buf.length)) false).2.1 true).2.1,
          bw := .dead },
       .err, wk) := by
  unfold Sys.pop; simp only [hb, writerWrite, hf, decide_true, if_true]
  generalize flushHelper s.sh (s.buf ++ bs.take (s.cap - s.buf.length)) false = fh at hok ⊢
  obtain ⟨a, b, c, d⟩ := fh
  simp only at hok
  subst hok
  exact ⟨_, rfl⟩

theorem pop_raw_flush_ok (s : Sys) (hb : s.bw = .raw)
    (hok : (flushHelper s.sh s.buf false).2.2.1 = true) :
    ∃ wk, s.pop .flush =
      ({ s with sh := (flushHelper s.sh s.buf false).1,
                buf := (flushHelper s.sh s.buf false).2.1 }, .ok, wk) := by
  unfold Sys.pop; simp only [hb]
  generalize flushHelper s.sh s.buf false = fh at hok ⊢
  obtain ⟨a, b, c, d⟩ := fh
  simp only at hok
  subst hok
  exact ⟨_, rfl⟩

theorem pop_raw_flush_err (s : Sys) (hb : s.bw = .raw)
    (hok : (flushHelper s.sh s.buf false).2.2.1 = false) :
    ∃ wk, s.pop .flush =
      ({ s with
          sh := (flushHelper (flushHelper s.sh s.buf false).1
                  (flushHelper s.sh s.buf false).2.1 true).1,
          buf := (flushHelper (flushHelper s.sh s.buf false).1
                  (flushHelper s.sh s.buf false).2.1 true).2.1,
          bw := .dead }, .err, wk) := by
  unfold Sys.pop; simp only [hb]
  generalize flushHelper s.sh s.buf false = fh at hok ⊢
  obtain ⟨a, b, c, d⟩ := fh
  simp only at hok
  subst hok
  exact ⟨_, rfl⟩

theorem pop_raw_abort (s : Sys) (hb : s.bw = .raw) :
    ∃ wk, s.pop .abort =
      ({ s with sh := (flushHelper (writerAbort s.sh).1 s.buf true).1,
                buf := (flushHelper (writerAbort s.sh).1 s.buf true).2.1,
                bw := .dead }, .unit, wk) := by
  unfold Sys.pop; simp only [hb]
  exact ⟨_, rfl⟩

theorem pop_raw_drop (s : Sys) (hb : s.bw = .raw) :
    ∃ wk, s.pop .drop =
      ({ s with sh := (flushHelper s.sh s.buf true).1,
                buf := (flushHelper s.sh s.buf true).2.1,
                bw := .gone }, .unit, wk) := by
  unfold Sys.pop; simp only [hb]
  exact ⟨_, rfl⟩

/-- Re-establishing the relation after one sequential producer operation. -/
theorem R_step {s1 : SSys} {h : Hist} {op : POp} {sys' : Sys} {o : POut} {wk : List Nat}
    (hp : h.sys.pop op = (sys', o, wk)) (h1 : s1.sh = sys'.sh) (h2 : s1.buf = sys'.buf)
    (h3 : s1.bw = sys'.bw) (h4 : s1.results = h.pouts ++ [o]) (h5 : s1.cap = sys'.cap)
    (h6 : s1.sh.waker = none) (h7 : s1.bw ≠ .gz) : R s1 (h.step (.p op)) := by
  unfold R Hist.step
  simp only [hp]
  exact ⟨h1, h2, h3, h4, h5, h6, h7⟩


/-! ### `runFree`, case by case -/

theorem runFree_gone (s : SSys) (hb : s.bw = .gone) (cmd : PCmd) (rest : List PCmd) :
    runFree s (cmd :: rest) = runFree { s with results := s.results ++ [.unit] } rest := by
  cases cmd <;> simp only [runFree, hb]

theorem runFree_dead_write (s : SSys) (hb : s.bw = .dead) (bs : Bytes) (rest : List PCmd) :
    runFree s (.write bs :: rest) = runFree { s with results := s.results ++ [.err] } rest := by
  simp only [runFree, hb]

theorem runFree_dead_flush (s : SSys) (hb : s.bw = .dead) (rest : List PCmd) :
    runFree s (.flush :: rest) = runFree { s with results := s.results ++ [.err] } rest := by
  simp only [runFree, hb]

theorem runFree_dead_abort (s : SSys) (hb : s.bw = .dead) (rest : List PCmd) :
    runFree s (.abort :: rest) = runFree { s with results := s.results ++ [.unit] } rest := by
  simp only [runFree, hb]

theorem runFree_dead_drop (s : SSys) (hb : s.bw = .dead) (rest : List PCmd) :
    runFree s (.drop :: rest) =
      runFree { s with results := s.results ++ [.unit], bw := .gone } rest := by
  simp only [runFree, hb]

theorem runFree_raw_write_free (s : SSys) (hb : s.bw = .raw) (bs : Bytes) (rest : List PCmd)
    (hf : ¬ (s.cap - s.buf.length ≤ bs.length)) :
    runFree s (.write bs :: rest) =
      runFree { s with buf := s.buf ++ bs.take bs.length,
                       results := s.results ++ [.wrote bs.length] } rest := by
  simp only [runFree, hb, hf, decide_false, Bool.false_eq_true, if_false]

theorem runFree_raw_write_full (s : SSys) (hb : s.bw = .raw) (bs : Bytes) (rest : List PCmd)
    (hf : s.cap - s.buf.length ≤ bs.length) :
    runFree s (.write bs :: rest) =
      { s with buf := s.buf ++ bs.take (s.cap - s.buf.length),
               stage := .csFlush (some (s.cap - s.buf.length)), prog := rest } := by
  simp only [runFree, hb, hf, decide_true, if_true]

theorem runFree_raw_flush (s : SSys) (hb : s.bw = .raw) (rest : List PCmd) :
    runFree s (.flush :: rest) = { s with stage := .csFlush none, prog := rest } := by
  simp only [runFree, hb]

theorem runFree_raw_abort (s : SSys) (hb : s.bw = .raw) (rest : List PCmd) :
    runFree s (.abort :: rest) = { s with stage := .csAbort, prog := rest } := by
  simp only [runFree, hb]

theorem runFree_raw_drop (s : SSys) (hb : s.bw = .raw) (rest : List PCmd) :
    runFree s (.drop :: rest) = { s with stage := .csDrop .unit .gone, prog := rest } := by
  simp only [runFree, hb]


/-! ### One command: the interleaving model catches up with the sequential one -/

/-- After at most two eager steps the command `cmd` is finished, the interleaving model is
again running lock-free commands, and it agrees with the sequential history extended by
`cmd`. -/
def Sim (s : SSys) (h : Hist) (cmd : PCmd) (rest : List PCmd) : Prop :=
  ∃ s1 k, k ≤ 2 ∧ R s1 (h.step (.p cmd.toPOp)) ∧
    eagerRun k (runFree s (cmd :: rest)) = runFree s1 rest

theorem sim_gone {s : SSys} {h : Hist} (hR : R s h) (hb : s.bw = .gone) (cmd : PCmd)
    (rest : List PCmd) : Sim s h cmd rest := by
  obtain ⟨e1, e2, e3, e4, e5, e6, e7⟩ := hR
  refine ⟨_, 0, by omega, ?_, runFree_gone s hb cmd rest⟩
  exact R_step (pop_gone h.sys (e3 ▸ hb) _) e1 e2 e3 (by simp [e4]) e5 e6 e7

theorem sim_dead {s : SSys} {h : Hist} (hR : R s h) (hb : s.bw = .dead) (cmd : PCmd)
    (rest : List PCmd) : Sim s h cmd rest := by
  obtain ⟨e1, e2, e3, e4, e5, e6, e7⟩ := hR
  have hb' : h.sys.bw = .dead := e3 ▸ hb
  cases cmd with
  | write bs =>
    refine ⟨_, 0, by omega, ?_, runFree_dead_write s hb bs rest⟩
    exact R_step (pop_dead_write h.sys hb' bs) e1 e2 e3 (by simp [e4]) e5 e6 e7
  | flush =>
    refine ⟨_, 0, by omega, ?_, runFree_dead_flush s hb rest⟩
    exact R_step (pop_dead_flush h.sys hb') e1 e2 e3 (by simp [e4]) e5 e6 e7
  | abort =>
    refine ⟨_, 0, by omega, ?_, runFree_dead_abort s hb rest⟩
    exact R_step (pop_dead_abort h.sys hb') e1 e2 e3 (by simp [e4]) e5 e6 e7
  | drop =>
    refine ⟨_, 0, by omega, ?_, runFree_dead_drop s hb rest⟩
    exact R_step (pop_dead_drop h.sys hb') e1 e2 rfl (by simp [e4]) e5 e6 (by simp)

theorem one_step (t t1 : SSys) (h1 : eagerStep t = t1) : eagerRun 1 t = t1 := h1

theorem two_steps (t t1 t2 : SSys) (h1 : eagerStep t = t1) (h2 : eagerStep t1 = t2) :
    eagerRun 2 t = t2 := by
  subst h1 h2; rfl

theorem sim_raw_write {s : SSys} {h : Hist} (hR : R s h) (hb : s.bw = .raw) (bs : Bytes)
    (rest : List PCmd) : Sim s h (.write bs) rest := by
  obtain ⟨e1, e2, e3, e4, e5, e6, e7⟩ := hR
  have hb' : h.sys.bw = .raw := e3 ▸ hb
  by_cases hf : s.cap - s.buf.length ≤ bs.length
  · rw [Sim, runFree_raw_write_full s hb bs rest hf]
    cases hok : (flushHelper s.sh (s.buf ++ bs.take (s.cap - s.buf.length)) false).2.2.1 with
    | true =>
      obtain ⟨wk, hp⟩ := pop_raw_write_full_ok h.sys hb' bs (by rw [← e5, ← e2]; exact hf)
        (by rw [← e5, ← e2, ← e1]; exact hok)
      rw [← e5, ← e2, ← e1] at hp
      refine ⟨_, 1, by omega, ?_, one_step _ _ (eagerStep_csFlush_ok _ _ rfl e6 hok)⟩
      exact R_step hp rfl rfl hb'.symm (by simp [e4]) rfl (flushHelper_waker _ _ _ e6) (by simp)
    | false =>
      obtain ⟨wk, hp⟩ := pop_raw_write_full_err h.sys hb' bs (by rw [← e5, ← e2]; exact hf)
        (by rw [← e5, ← e2, ← e1]; exact hok)
      rw [← e5, ← e2, ← e1] at hp
      have hw1 := flushHelper_waker s.sh (s.buf ++ bs.take (s.cap - s.buf.length)) false e6
      refine ⟨_, 2, by omega, ?_, two_steps _ _ _ (eagerStep_csFlush_err _ _ rfl e6 hok)
        (eagerStep_csDrop _ _ _ rfl hw1)⟩
      exact R_step hp rfl rfl rfl (by simp [e4]) rfl (flushHelper_waker _ _ _ hw1) (by simp)
  · rw [Sim, runFree_raw_write_free s hb bs rest hf]
    refine ⟨_, 0, by omega, ?_, rfl⟩
    have hp := pop_raw_write_free h.sys hb' bs (by rw [← e5, ← e2]; exact hf)
    rw [← e2] at hp
    exact R_step hp e1 rfl e3 (by simp [e4]) e5 e6 e7

theorem sim_raw_flush {s : SSys} {h : Hist} (hR : R s h) (hb : s.bw = .raw)
    (rest : List PCmd) : Sim s h .flush rest := by
  obtain ⟨e1, e2, e3, e4, e5, e6, e7⟩ := hR
  have hb' : h.sys.bw = .raw := e3 ▸ hb
  rw [Sim, runFree_raw_flush s hb rest]
  cases hok : (flushHelper s.sh s.buf false).2.2.1 with
  | true =>
    obtain ⟨wk, hp⟩ := pop_raw_flush_ok h.sys hb' (by rw [← e2, ← e1]; exact hok)
    rw [← e2, ← e1] at hp
    refine ⟨_, 1, by omega, ?_, one_step _ _ (eagerStep_csFlush_ok _ _ rfl e6 hok)⟩
    exact R_step hp rfl rfl hb'.symm (by simp [e4]) e5 (flushHelper_waker _ _ _ e6) (by simp)
  | false =>
    obtain ⟨wk, hp⟩ := pop_raw_flush_err h.sys hb' (by rw [← e2, ← e1]; exact hok)
    rw [← e2, ← e1] at hp
    have hw1 := flushHelper_waker s.sh s.buf false e6
    refine ⟨_, 2, by omega, ?_, two_steps _ _ _ (eagerStep_csFlush_err _ _ rfl e6 hok)
      (eagerStep_csDrop _ _ _ rfl hw1)⟩
    exact R_step hp rfl rfl rfl (by simp [e4]) e5 (flushHelper_waker _ _ _ hw1) (by simp)

theorem sim_raw_abort {s : SSys} {h : Hist} (hR : R s h) (hb : s.bw = .raw)
    (rest : List PCmd) : Sim s h .abort rest := by
  obtain ⟨e1, e2, e3, e4, e5, e6, e7⟩ := hR
  have hb' : h.sys.bw = .raw := e3 ▸ hb
  rw [Sim, runFree_raw_abort s hb rest]
  obtain ⟨wk, hp⟩ := pop_raw_abort h.sys hb'
  rw [← e2, ← e1] at hp
  have hw1 := writerAbort_waker s.sh e6
  refine ⟨_, 2, by omega, ?_, two_steps _ _ _ (eagerStep_csAbort _ rfl e6)
    (eagerStep_csDrop _ _ _ rfl hw1)⟩
  exact R_step hp rfl rfl rfl (by simp [e4]) e5 (flushHelper_waker _ _ _ hw1) (by simp)

theorem sim_raw_drop {s : SSys} {h : Hist} (hR : R s h) (hb : s.bw = .raw)
    (rest : List PCmd) : Sim s h .drop rest := by
  obtain ⟨e1, e2, e3, e4, e5, e6, e7⟩ := hR
  have hb' : h.sys.bw = .raw := e3 ▸ hb
  rw [Sim, runFree_raw_drop s hb rest]
  obtain ⟨wk, hp⟩ := pop_raw_drop h.sys hb'
  rw [← e2, ← e1] at hp
  refine ⟨_, 1, by omega, ?_, one_step _ _ (eagerStep_csDrop _ _ _ rfl e6)⟩
  exact R_step hp rfl rfl rfl (by simp [e4]) e5 (flushHelper_waker _ _ _ e6) (by simp)


theorem sim {s : SSys} {h : Hist} (hR : R s h) (cmd : PCmd) (rest : List PCmd) :
    Sim s h cmd rest := by
  cases hb : s.bw with
  | raw =>
    cases cmd with
    | write bs => exact sim_raw_write hR hb bs rest
    | flush => exact sim_raw_flush hR hb rest
    | abort => exact sim_raw_abort hR hb rest
    | drop => exact sim_raw_drop hR hb rest
  | gz => exact absurd hb hR.2.2.2.2.2.2
  | dead => exact sim_dead hR hb cmd rest
  | gone => exact sim_gone hR hb cmd rest

/-! ### The whole program -/

theorem run_sim (prog : List PCmd) : ∀ (s : SSys) (h : Hist) (n : Nat), R s h →
    2 * prog.length ≤ n →
    (eagerRun n (runFree s prog)).stage = .done ∧
      R (eagerRun n (runFree s prog)) (h.run (prog.map fun c => AnyOp.p c.toPOp)) := by
  induction prog with
  | nil =>
    intro s h n hR _
    have hd : (runFree s []).stage = .done := rfl
    rw [eagerRun_done n _ hd]
    exact ⟨rfl, hR⟩
  | cons cmd rest ih =>
    intro s h n hR hn
    obtain ⟨s1, k, hk, hR1, hrun⟩ := sim hR cmd rest
    simp only [List.length_cons] at hn
    obtain ⟨m, rfl⟩ : ∃ m, n = m + k := ⟨n - k, by omega⟩
    rw [eagerRun_add, hrun]
    exact ih s1 (h.step (.p cmd.toPOp)) m hR1 (by omega)

end HS.Consistency

namespace HS

/-- Consistency of the two models of the chunker: the interleaving model (`SSys`), scheduled so
that the producer runs alone to completion, computes exactly what the sequential model
(`Sys.pop`, via `Hist.run`) computes for the same commands — same shared state, same writer
buffer, same `BodyWriter` state, same results. (Both models are separately tied to the code by
the correspondence check; this ties them to each other.) -/
theorem eager_matches_sequential (cap : Nat) (hc : 0 < cap) (prog : List PCmd) :
    let s := eagerRun (4 * prog.length + 4) (SSys.init cap prog)
    let h := (Hist.init cap .raw).run (prog.map fun c => AnyOp.p c.toPOp)
    s.stage = .done ∧ s.sh = h.sys.sh ∧ s.buf = h.sys.buf ∧ s.bw = h.sys.bw ∧
    s.results = h.pouts := by
  intro s h
  have _ := hc  -- the statement holds for every capacity
  have hR0 : Consistency.R { cap := cap, prog := prog } (Hist.init cap .raw) :=
    ⟨rfl, rfl, rfl, rfl, rfl, rfl, by simp⟩
  have := Consistency.run_sim prog { cap := cap, prog := prog } (Hist.init cap .raw)
    (4 * prog.length + 4) hR0 (by omega)
  obtain ⟨hd, e1, e2, e3, e4, _⟩ := this
  exact ⟨hd, e1, e2, e3, e4⟩

end HS
