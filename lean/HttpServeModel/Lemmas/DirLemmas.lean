import HttpServeModel.Spec.Fs
import HttpServeModel.Lemmas.AcceptEncoding
namespace HS

namespace DirLemmas

theorem Within.trans {a b c : FsNode} (h1 : Within a b) (h2 : Within b c) : Within a c := by
  induction h2 with
  | refl => exact h1
  | child d name n _ hl ih => exact Within.child a d name n ih hl

theorem splitOn_ne_nil (sep : Nat) (p : Bytes) : splitOn sep p ≠ [] := by
  induction p with
  | nil => simp [splitOn]
  | cons c cs ih =>
    unfold splitOn
    split
    · simp
    · split <;> simp

theorem splitOn_no_sep (sep : Nat) (s : Bytes) (h : sep ∉ s) : splitOn sep s = [s] := by
  induction s with
  | nil => simp [splitOn]
  | cons c cs ih =>
    simp only [List.mem_cons, not_or] at h
    unfold splitOn
    rw [if_neg (fun e => h.1 e.symm), ih h.2]

/-- append `s` to the last piece -/
def appLast : List Bytes → Bytes → List Bytes
  | [], s => [s]
  | [x], s => [x ++ s]
  | x :: y :: r, s => x :: appLast (y :: r) s

theorem appLast_cons (x : Bytes) (l : List Bytes) (s : Bytes) (h : l ≠ []) :
    appLast (x :: l) s = x :: appLast l s := by
  cases l with
  | nil => exact absurd rfl h
  | cons y r => rfl

theorem splitOn_append (sep : Nat) (s : Bytes) (h : sep ∉ s) (p : Bytes) :
    splitOn sep (p ++ s) = appLast (splitOn sep p) s := by
  induction p with
  | nil => simp [splitOn, appLast, splitOn_no_sep sep s h]
  | cons c cs ih =>
    have hne := splitOn_ne_nil sep cs
    simp only [List.cons_append]
    unfold splitOn
    by_cases hc : c = sep
    · rw [if_pos hc, if_pos hc, ih, appLast_cons _ _ _ hne]
    · rw [if_neg hc, if_neg hc, ih]
      cases hsp : splitOn sep cs with
      | nil => exact absurd hsp hne
      | cons hd t =>
        cases t with
        | nil => simp [appLast]
        | cons y r => simp [appLast]

theorem mem_appLast (l : List Bytes) (s x : Bytes) (h : x ∈ appLast l s) :
    x ∈ l ∨ ∃ y, x = y ++ s := by
  induction l with
  | nil =>
    simp only [appLast, List.mem_singleton] at h
    exact Or.inr ⟨[], by simp [h]⟩
  | cons a t ih =>
    cases t with
    | nil =>
      simp only [appLast, List.mem_singleton] at h
      exact Or.inr ⟨a, h⟩
    | cons y r =>
      simp only [appLast, List.mem_cons] at h
      rcases h with h | h
      · exact Or.inl (by simp [h])
      · rcases ih (by simpa [List.mem_cons] using h) with h' | h'
        · exact Or.inl (List.mem_cons_of_mem _ h')
        · exact Or.inr h'

theorem dotdot_not_mem_gz (p : Bytes) (h : kDotDot ∉ splitOn cSlash p) :
    kDotDot ∉ splitOn cSlash (p ++ kDotGz) := by
  rw [splitOn_append cSlash kDotGz (by decide)]
  intro hm
  rcases mem_appLast _ _ _ hm with h' | ⟨y, hy⟩
  · exact h h'
  · have := congrArg List.length hy
    simp [kDotDot, kDotGz] at this

theorem validatePath_none_iff (p : Bytes) : validatePath p = none ↔ ¬ pathUnsafe p := by
  unfold validatePath pathUnsafe
  by_cases h0 : (0 : Nat) ∈ p
  · simp [h0]
  · by_cases h1 : p.head? = some 47
    · simp [h0, h1, cSlash]
    · by_cases h2 : [46, 46] ∈ splitOn 47 p
      · simp [h0, h1, h2, cSlash, kDotDot]
      · simp [h0, h1, h2, cSlash, kDotDot]

theorem safe_no_dotdot (p : Bytes) (h : ¬ pathUnsafe p) : kDotDot ∉ splitOn cSlash p := by
  intro hm
  exact h (Or.inr (Or.inr hm))

end DirLemmas

open DirLemmas

/-- `validate_path` rejects exactly the unsafe paths: NUL byte, leading `/`, a `..` segment.
Names that merely contain dots (`...`, `..a`, `a..`) are not rejected. -/
theorem validatePath_unsafe_iff (p : Bytes) : (validatePath p).isSome = true ↔ pathUnsafe p := by
  have h := validatePath_none_iff p
  cases hv : validatePath p with
  | none =>
    simp only [Option.isSome_none, Bool.false_eq_true, false_iff]
    exact h.mp hv
  | some e =>
    simp only [Option.isSome_some, true_iff]
    apply Classical.byContradiction
    intro hn
    rw [h.mpr hn] at hv
    cases hv

example : validatePath [46, 46, 46] = none ∧ validatePath [46, 46, 97] = none ∧
    validatePath [97, 46, 46] = none ∧ validatePath [97, 47, 46, 46] = some .dotdot := by decide

/-- Every unsafe path is answered with `InvalidInput`, whatever the tree and headers. -/
theorem dirGet_rejects_unsafe (stack : List FsNode) (base : FsNode) (p : Bytes) (auto : Bool)
    (ae : Option Bytes) (h : pathUnsafe p) :
    ∃ e, dirGetIn stack base p auto ae = .ok (.invalid e) := by
  have hs := (validatePath_unsafe_iff p).mpr h
  cases hv : validatePath p with
  | none => simp [hv] at hs
  | some e => exact ⟨e, by simp [dirGetIn, hv]⟩

/-- Walking segments none of which is `..` never pops the ancestor stack: the node reached is
the start node or a descendant of it. -/
theorem walk_within (stack : List FsNode) (cur : FsNode) (segs : List Bytes)
    (h : kDotDot ∉ segs) (st : List FsNode) (n : FsNode)
    (hw : walk stack cur segs = .ok (st, n)) : Within cur n ∧ ∃ ext, st = ext ++ stack := by
  induction segs generalizing stack cur with
  | nil =>
    simp only [walk, Except.ok.injEq, Prod.mk.injEq] at hw
    obtain ⟨h1, h2⟩ := hw
    subst h1 h2
    exact ⟨Within.refl _, [], rfl⟩
  | cons seg rest ih =>
    simp only [List.mem_cons, not_or] at h
    obtain ⟨hseg, hrest⟩ := h
    unfold walk at hw
    split at hw
    · cases hw
    · split at hw
      · exact ih stack cur hrest hw
      · split at hw
        · rename_i hdd
          have hdd' : seg = kDotDot := by simpa using hdd
          exact absurd hdd'.symm hseg
        · split at hw
          · cases hw
          · split at hw
            · cases hw
            · cases hw
            · rename_i child _ hl
              obtain ⟨hwi, ext, he⟩ := ih (cur :: stack) child hrest hw
              refine ⟨Within.trans (Within.child cur cur seg child (Within.refl _) hl) hwi,
                ext ++ [cur], ?_⟩
              simp [he]

/-- Containment: whatever `FsDir::get` returns for any path, any header, any tree (with any
ancestors above the base, e.g. a parent holding a secret file) lies inside the base directory. -/
theorem dirGet_contained (stack : List FsNode) (base : FsNode) (p : Bytes) (auto : Bool)
    (ae : Option Bytes) (id : Nat) (gz ce vary : Bool)
    (h : dirGetIn stack base p auto ae = .ok (.node id gz ce vary)) :
    ∃ n, Within base n ∧ n.id = id := by
  have open_within : ∀ (q : Bytes) (st : List FsNode) (n : FsNode),
      kDotDot ∉ splitOn cSlash q → openAt stack base q = .ok (st, n) → Within base n := by
    intro q st n hq ho
    unfold openAt at ho
    split at ho
    · cases ho
    · split at ho
      · cases ho
      · exact (walk_within stack base _ hq st n ho).1
  unfold dirGetIn at h
  cases hv : validatePath p with
  | some e => simp [hv] at h
  | none =>
    have hsafe := (validatePath_none_iff p).mp hv
    have hp := safe_no_dotdot p hsafe
    have hpg := dotdot_not_mem_gz p hp
    have plain : ∀ (hpl : (match openAt stack base p with
        | .ok (_, n) => DirRes.node n.id false false auto
        | .error k => DirRes.osErr k) = .node id gz ce vary), ∃ n, Within base n ∧ n.id = id := by
      intro hpl
      cases ho : openAt stack base p with
      | error k => simp [ho] at hpl
      | ok r =>
        obtain ⟨st, n⟩ := r
        simp only [ho, DirRes.node.injEq] at hpl
        exact ⟨n, open_within p st n hp ho, hpl.1⟩
    simp only [hv] at h
    cases hsg : shouldGzip ae with
    | panic => simp [hsg] at h
    | ok sg =>
      simp only [hsg] at h
      split at h
      · cases hog : openAt stack base (p ++ kDotGz) with
        | error k =>
          simp only [hog, R.ok.injEq] at h
          exact plain h
        | ok r =>
          obtain ⟨st, n⟩ := r
          simp only [hog] at h
          split at h
          · simp only [R.ok.injEq, DirRes.node.injEq] at h
            exact ⟨n, open_within _ st n hpg hog, h.1⟩
          · simp only [R.ok.injEq] at h
            exact plain h
      · simp only [R.ok.injEq] at h
        exact plain h

/-- Exactly the right file: for a safe path the answer is the `.gz` sibling iff automatic gzip is
on, the request prefers gzip, and the sibling opens and is not a directory; otherwise it is
exactly what opening the path itself gives (the node, or *its* error). `encoding()` /
`Content-Encoding: gzip` are reported exactly in the first case, `Vary` exactly when
automatic gzip is on. -/
theorem dirGet_spec (stack : List FsNode) (base : FsNode) (p : Bytes) (auto : Bool)
    (ae : Option Bytes) (sg : Bool) (hsafe : ¬ pathUnsafe p) (hsg : shouldGzip ae = .ok sg) :
    dirGetIn stack base p auto ae = .ok
      (match (if auto && sg then
                (match openAt stack base (p ++ kDotGz) with
                 | .ok (_, n) => if n.isDir then none else some n
                 | .error _ => none)
              else none) with
       | some n => .node n.id true true auto
       | none =>
         match openAt stack base p with
         | .ok (_, n) => .node n.id false false auto
         | .error k => .osErr k) := by
  have hv := (validatePath_none_iff p).mpr hsafe
  unfold dirGetIn
  simp only [hv, hsg]
  by_cases hc : (auto && sg) = true
  · simp only [hc, if_true]
    cases hog : openAt stack base (p ++ kDotGz) with
    | error k => rfl
    | ok r =>
      obtain ⟨st, n⟩ := r
      cases hd : n.isDir <;> simp [hd] <;> rfl
  · simp only [hc]
    simp
    rfl

/-- `FsDir::get` never panics. -/
theorem dirGet_total (stack : List FsNode) (base : FsNode) (p : Bytes) (auto : Bool)
    (ae : Option Bytes) : dirGetIn stack base p auto ae ≠ .panic := by
  unfold dirGetIn
  cases hv : validatePath p with
  | some e => simp
  | none =>
    cases hsg : shouldGzip ae with
    | panic => exact absurd hsg (shouldGzip_total ae)
    | ok sg =>
      simp only
      split
      · split
        · split <;> simp
        · simp
      · simp

end HS
