import HttpServeModel.Model.File
namespace HS

/-- Polls driven by `(file size at the time of the poll, bytes pread returns)`; stops after the
stream has ended (like `fileRun`). -/
def fileRunK (a b : Nat) : List (Nat × Nat) → List FOut
  | [] => []
  | (size, k) :: rest =>
    let (st, o) := filePoll a b size k
    match o with
    | .end_ => [o]
    | _ => o :: fileRunK st.1 st.2 rest

/-- Every read returns between 1 and `min cs remaining` bytes (`cs`: the read size, `CHUNK_SIZE` in the crate), and no more than the file
holds beyond the offset — whenever bytes are owed and available. Any resolution of the
short-read nondeterminism satisfies this. -/
def AdmRun (cs a b : Nat) : List (Nat × Nat) → Prop
  | [] => True
  | (size, k) :: rest =>
    if a = b then True
    else if a ≥ size then AdmRun cs a b rest
    else (1 ≤ k ∧ k ≤ min cs (b - a) ∧ k ≤ size - a) ∧ AdmRun cs (a + k) b rest

/-- The offset reached if the outcomes are well-formed chunks (non-empty, at most `cs` bytes,
each starting where the previous one ended) followed at most by the end; `none` otherwise. -/
def coverage (cs a : Nat) : List FOut → Option Nat
  | [] => some a
  | .chunk s n :: rest => if s = a ∧ 1 ≤ n ∧ n ≤ cs then coverage cs (a + n) rest else none
  | .end_ :: rest => if rest = [] then some a else none
  | .eof :: _ => none

/-- Like `coverage`, but a failed poll (`.eof`, after which the stream may be polled again)
is skipped: it delivered nothing and did not move the offset. -/
def coverageSkip (cs a : Nat) : List FOut → Option Nat
  | [] => some a
  | .chunk s n :: rest => if s = a ∧ 1 ≤ n ∧ n ≤ cs then coverageSkip cs (a + n) rest else none
  | .end_ :: rest => if rest = [] then some a else none
  | .eof :: rest => coverageSkip cs a rest

end HS

namespace HS.FileLemmas

theorem fileRunK_end (a : Nat) (size k : Nat) (rest : List (Nat × Nat)) :
    fileRunK a a ((size, k) :: rest) = [.end_] := by
  simp [fileRunK, filePoll]

theorem fileRunK_eof (a b size k : Nat) (rest : List (Nat × Nat)) (hne : a ≠ b) (h : size ≤ a) :
    fileRunK a b ((size, k) :: rest) = .eof :: fileRunK a b rest := by
  simp [fileRunK, filePoll, hne, h]

theorem fileRunK_chunk (a b size k : Nat) (rest : List (Nat × Nat)) (hne : a ≠ b) (h : a < size) :
    fileRunK a b ((size, k) :: rest) = .chunk a k :: fileRunK (a + k) b rest := by
  have h' : ¬ size ≤ a := by omega
  simp [fileRunK, filePoll, hne, h']

theorem fileRun_end (cs : Nat) (a : Nat) (size : Nat) (rest : List Nat) :
    fileRun cs a a (size :: rest) = [.end_] := by
  simp [fileRun, filePoll]

theorem fileRun_eof (cs : Nat) (a b size : Nat) (rest : List Nat) (hne : a ≠ b) (h : size ≤ a) :
    fileRun cs a b (size :: rest) = .eof :: fileRun cs a b rest := by
  simp [fileRun, filePoll, hne, h]

theorem fileRun_chunk (cs : Nat) (a b size : Nat) (rest : List Nat) (hne : a ≠ b) (h : a < size) :
    fileRun cs a b (size :: rest) =
      .chunk a (fullRead cs a b size) :: fileRun cs (a + fullRead cs a b size) b rest := by
  have h' : ¬ size ≤ a := by omega
  simp [fileRun, filePoll, hne, h']

/-- The read sizes of the deterministic run. -/
def fullKs (cs a b : Nat) : List Nat → List Nat
  | [] => []
  | size :: rest =>
    if a = b then fullRead cs a b size :: fullKs cs a b rest
    else if size ≤ a then fullRead cs a b size :: fullKs cs a b rest
    else fullRead cs a b size :: fullKs cs (a + fullRead cs a b size) b rest

theorem fullKs_length (cs : Nat) (a b : Nat) (sizes : List Nat) : (fullKs cs a b sizes).length = sizes.length := by
  induction sizes generalizing a with
  | nil => simp [fullKs]
  | cons size rest ih =>
    simp only [fullKs]
    split
    · simp [ih]
    · split <;> simp [ih]

theorem fileRun_eq (cs : Nat) (a b : Nat) (sizes : List Nat) :
    fileRun cs a b sizes = fileRunK a b (sizes.zip (fullKs cs a b sizes)) := by
  induction sizes generalizing a with
  | nil => simp [fileRun, fullKs, fileRunK]
  | cons size rest ih =>
    by_cases hab : a = b
    · subst hab
      simp only [fullKs, if_true, List.zip_cons_cons]
      rw [fileRun_end, fileRunK_end]
    · by_cases hs : size ≤ a
      · simp only [fullKs, hab, hs, if_true, if_false, List.zip_cons_cons]
        rw [fileRun_eof _ _ _ _ _ hab hs, fileRunK_eof _ _ _ _ _ hab hs, ih]
      · simp only [fullKs, hab, hs, if_false, List.zip_cons_cons]
        have hs' : a < size := by omega
        rw [fileRun_chunk _ _ _ _ _ hab hs', fileRunK_chunk _ _ _ _ _ hab hs', ih]

theorem fullKs_adm (cs : Nat) (hcs : 0 < cs) (a b : Nat) (sizes : List Nat) (hab : a ≤ b) :
    AdmRun cs a b (sizes.zip (fullKs cs a b sizes)) := by
  induction sizes generalizing a with
  | nil => simp [fullKs, AdmRun]
  | cons size rest ih =>
    by_cases he : a = b
    · subst he
      simp [fullKs, AdmRun]
    · by_cases hs : size ≤ a
      · simp only [fullKs, he, hs, if_true, if_false, List.zip_cons_cons, AdmRun]
        exact ih a hab
      · simp only [fullKs, he, hs, if_false, List.zip_cons_cons, AdmRun]
        have hk : fullRead cs a b size = min (min cs (b - a)) (size - a) := rfl
        refine ⟨⟨?_, ?_, ?_⟩, ?_⟩
        · omega
        · omega
        · omega
        · apply ih; omega

/-- Combined invariant for runs in which no poll sees a truncated file. -/
theorem exact_aux (cs : Nat) (b : Nat) (steps : List (Nat × Nat)) :
    ∀ a, a ≤ b → (∀ p ∈ steps, b ≤ p.1) → AdmRun cs a b steps → b - a < steps.length →
      (fileRunK a b steps).getLast? = some .end_ ∧ coverage cs a (fileRunK a b steps) = some b := by
  induction steps with
  | nil => intro a _ _ _ hlen; simp at hlen
  | cons p rest ih =>
    intro a hab hsize hadm hlen
    obtain ⟨size, k⟩ := p
    by_cases he : a = b
    · subst he
      rw [fileRunK_end]
      simp [coverage]
    · have hsz : b ≤ size := hsize (size, k) (by simp)
      have hs : a < size := by omega
      have hs' : ¬ size ≤ a := by omega
      rw [fileRunK_chunk _ _ _ _ _ he hs]
      simp only [AdmRun, he, ge_iff_le, hs', if_false] at hadm
      obtain ⟨⟨h1, h2, h3⟩, hrest⟩ := hadm
      have hkb : a + k ≤ b := by omega
      have hlen' : b - (a + k) < rest.length := by simp at hlen; omega
      have hsize' : ∀ p ∈ rest, b ≤ p.1 := fun p hp => hsize p (by simp [hp])
      obtain ⟨i1, i2⟩ := ih (a + k) hkb hsize' hrest hlen'
      have hne : fileRunK (a + k) b rest ≠ [] := by
        intro h; rw [h] at i1; simp at i1
      refine ⟨?_, ?_⟩
      · rw [List.getLast?_cons_of_ne_nil hne]; exact i1
      · have hk2 : k ≤ cs := by omega
        simp [coverage, h1, hk2, i2]

/-- A run that reports the end without ever failing tiled exactly `a..b`. -/
theorem ends_noeof_aux (cs : Nat) (b : Nat) (steps : List (Nat × Nat)) :
    ∀ a, a ≤ b → AdmRun cs a b steps → FOut.end_ ∈ fileRunK a b steps →
      FOut.eof ∉ fileRunK a b steps → coverage cs a (fileRunK a b steps) = some b := by
  induction steps with
  | nil => intro a _ _ h; simp [fileRunK] at h
  | cons p rest ih =>
    intro a hab hadm hend hne
    obtain ⟨size, k⟩ := p
    by_cases he : a = b
    · subst he
      rw [fileRunK_end]
      simp [coverage]
    · by_cases hs : size ≤ a
      · rw [fileRunK_eof _ _ _ _ _ he hs] at hne
        simp at hne
      · have hs' : a < size := by omega
        rw [fileRunK_chunk _ _ _ _ _ he hs'] at hend hne ⊢
        simp only [AdmRun, he, ge_iff_le, hs, if_false] at hadm
        obtain ⟨⟨h1, h2, h3⟩, hrest⟩ := hadm
        have hkb : a + k ≤ b := by omega
        simp only [List.mem_cons, reduceCtorEq, false_or] at hend hne
        have i := ih (a + k) hkb hrest hend hne
        have hk2 : k ≤ cs := by omega
        simp [coverage, h1, hk2, i]

theorem ends_skip_aux (cs : Nat) (b : Nat) (steps : List (Nat × Nat)) :
    ∀ a, a ≤ b → AdmRun cs a b steps → FOut.end_ ∈ fileRunK a b steps →
      coverageSkip cs a (fileRunK a b steps) = some b := by
  induction steps with
  | nil => intro a _ _ h; simp [fileRunK] at h
  | cons p rest ih =>
    intro a hab hadm hend
    obtain ⟨size, k⟩ := p
    by_cases he : a = b
    · subst he
      rw [fileRunK_end]
      simp [coverageSkip]
    · by_cases hs : size ≤ a
      · rw [fileRunK_eof _ _ _ _ _ he hs] at hend ⊢
        simp only [AdmRun, he, ge_iff_le, hs, if_true, if_false] at hadm
        simp only [List.mem_cons, reduceCtorEq, false_or] at hend
        simpa [coverageSkip] using ih a hab hadm hend
      · have hs' : a < size := by omega
        rw [fileRunK_chunk _ _ _ _ _ he hs'] at hend ⊢
        simp only [AdmRun, he, ge_iff_le, hs, if_false] at hadm
        obtain ⟨⟨h1, h2, h3⟩, hrest⟩ := hadm
        have hkb : a + k ≤ b := by omega
        simp only [List.mem_cons, reduceCtorEq, false_or] at hend
        have i := ih (a + k) hkb hrest hend
        have hk2 : k ≤ cs := by omega
        simp [coverageSkip, h1, hk2, i]

theorem bounded_aux (cs : Nat) (b : Nat) (steps : List (Nat × Nat)) :
    ∀ a, a ≤ b → AdmRun cs a b steps → b - a < steps.length →
      FOut.end_ ∈ fileRunK a b steps ∨ FOut.eof ∈ fileRunK a b steps := by
  induction steps with
  | nil => intro a _ _ hlen; simp at hlen
  | cons p rest ih =>
    intro a hab hadm hlen
    obtain ⟨size, k⟩ := p
    by_cases he : a = b
    · subst he
      rw [fileRunK_end]
      simp
    · by_cases hs : size ≤ a
      · rw [fileRunK_eof _ _ _ _ _ he hs]
        simp
      · have hs' : a < size := by omega
        rw [fileRunK_chunk _ _ _ _ _ he hs']
        simp only [AdmRun, he, ge_iff_le, hs, if_false] at hadm
        obtain ⟨⟨h1, h2, h3⟩, hrest⟩ := hadm
        have hkb : a + k ≤ b := by omega
        have hlen' : b - (a + k) < rest.length := by simp at hlen; omega
        rcases ih (a + k) hkb hrest hlen' with h | h
        · left; simp [h]
        · right; simp [h]

/-- Variant of `file_never_ends_short` for plain `coverage` (with which the statement is false
without the extra hypothesis, see the counterexample below): a run that reports the end and never failed with `UnexpectedEof` tiled exactly `a..b`. -/
theorem file_never_ends_short_of_no_eof (cs : Nat) (a b : Nat) (hab : a ≤ b) (steps : List (Nat × Nat))
    (hadm : AdmRun cs a b steps) (hend : FOut.end_ ∈ fileRunK a b steps)
    (hne : FOut.eof ∉ fileRunK a b steps) :
    coverage cs a (fileRunK a b steps) = some b :=
  ends_noeof_aux cs b steps a hab hadm hend hne

/-- Counterexample to `file_never_ends_short` stated with `coverage` instead of `coverageSkip`: the file is truncated to 0
bytes at the first poll (`.eof`, state unchanged), then grows back, the stream delivers the byte
and ends; `coverage` of a list containing `.eof` is `none`. -/
theorem file_never_ends_short_counterexample (cs : Nat) (hcs : 0 < cs) :
    (0 : Nat) ≤ 1 ∧ AdmRun cs 0 1 [(0, 0), (1, 1), (1, 1)] ∧
      fileRunK 0 1 [(0, 0), (1, 1), (1, 1)] = [.eof, .chunk 0 1, .end_] ∧
      FOut.end_ ∈ fileRunK 0 1 [(0, 0), (1, 1), (1, 1)] ∧
      coverage cs 0 (fileRunK 0 1 [(0, 0), (1, 1), (1, 1)]) = none := by
  refine ⟨by omega, ?_, by decide, by decide, ?_⟩
  · simp [AdmRun]; omega
  · have h : fileRunK 0 1 [(0, 0), (1, 1), (1, 1)] = [.eof, .chunk 0 1, .end_] := by decide
    rw [h]; rfl

end HS.FileLemmas

namespace HS
open HS.FileLemmas

/-- The deterministic run that the correspondence check exercises is one admissible run. -/
theorem fileRun_eq_fileRunK (cs : Nat) (hcs : 0 < cs) (a b : Nat) (sizes : List Nat) :
    ∃ ks : List Nat, ks.length = sizes.length ∧ fileRun cs a b sizes = fileRunK a b (sizes.zip ks) ∧
      (a ≤ b → AdmRun cs a b (sizes.zip ks)) :=
  ⟨fullKs cs a b sizes, fullKs_length cs a b sizes, fileRun_eq cs a b sizes, fullKs_adm cs hcs a b sizes⟩

/-- Unchanged file: for every admissible resolution of the read sizes, the stream yields
non-empty chunks of at most `cs` bytes that tile exactly `a..b`, then ends; this takes at
most `(b - a) + 1` polls. -/
theorem file_exact_bytes (cs : Nat) (a b : Nat) (hab : a ≤ b) (steps : List (Nat × Nat))
    (hsize : ∀ p ∈ steps, b ≤ p.1) (hadm : AdmRun cs a b steps) (hlen : b - a < steps.length) :
    (fileRunK a b steps).getLast? = some .end_ ∧ coverage cs a (fileRunK a b steps) = some b :=
  exact_aux cs b steps a hab hsize hadm hlen

/-- Truncation: whatever happens to the file's size between polls (even if polling continues
after an error), the stream never ends cleanly short — if it reports the end, the chunks it
delivered tiled exactly `a..b`. -/
theorem file_never_ends_short (cs : Nat) (a b : Nat) (hab : a ≤ b) (steps : List (Nat × Nat))
    (hadm : AdmRun cs a b steps) (hend : FOut.end_ ∈ fileRunK a b steps) :
    coverageSkip cs a (fileRunK a b steps) = some b :=
  ends_skip_aux cs b steps a hab hadm hend

/-- Truncation: a poll made while the file is no longer than the current offset, with bytes
still owed, fails with `UnexpectedEof`. -/
theorem file_truncated_poll_fails (a b size k : Nat) (hab : a < b) (hsz : size ≤ a) :
    (filePoll a b size k).2 = .eof := by
  have hne : a ≠ b := by omega
  simp [filePoll, hne, hsz]

/-- No livelock: every poll delivers at least one byte, fails, or ends; so within `(b - a) + 1`
polls the stream has ended or failed. -/
theorem file_bounded (cs : Nat) (a b : Nat) (hab : a ≤ b) (steps : List (Nat × Nat))
    (hadm : AdmRun cs a b steps) (hlen : b - a < steps.length) :
    FOut.end_ ∈ fileRunK a b steps ∨ FOut.eof ∈ fileRunK a b steps :=
  bounded_aux cs b steps a hab hadm hlen

end HS
