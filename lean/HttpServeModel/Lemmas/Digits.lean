/-
Helper lemmas about decimal / hexadecimal rendering and parsing.
-/
import HttpServeModel.Model.Bytes

namespace HS

theorem isDigit_iff (c : Nat) : isDigit c = true ↔ 48 ≤ c ∧ c ≤ 57 := by
  simp [isDigit]

theorem digitsVal_append_single (s : Bytes) (c : Nat) :
    digitsVal (s ++ [c]) = digitsVal s * 10 + (c - 48) := by
  simp [digitsVal, List.foldl_append]

theorem allDigits_append (s t : Bytes) : allDigits (s ++ t) = (allDigits s && allDigits t) := by
  simp [allDigits, List.all_append]

theorem dec_ne_nil (n : Nat) : dec n ≠ [] := by
  rw [dec]; split <;> simp

theorem allDigits_dec (n : Nat) : allDigits (dec n) = true := by
  induction n using Nat.strongRecOn with
  | _ n ih =>
    rw [dec]
    split
    · simp [allDigits, isDigit]; omega
    · rename_i h
      rw [allDigits_append, ih (n / 10) (by omega)]
      simp [allDigits, isDigit]; omega

theorem digitsVal_dec (n : Nat) : digitsVal (dec n) = n := by
  induction n using Nat.strongRecOn with
  | _ n ih =>
    rw [dec]
    split
    · simp [digitsVal]
    · rename_i h
      rw [digitsVal_append_single, ih (n / 10) (by omega)]
      omega

theorem digitsVal_zeros (k : Nat) (s : Bytes) :
    digitsVal (List.replicate k 48 ++ s) = digitsVal s := by
  induction k with
  | zero => simp
  | succ k ih =>
    have : ∀ (acc : Nat) (l : Bytes), List.foldl (fun acc c => acc * 10 + (c - 48)) acc l =
        List.foldl (fun acc c => acc * 10 + (c - 48)) acc l := fun _ _ => rfl
    simp only [List.replicate_succ, List.cons_append, digitsVal, List.foldl_cons] at ih ⊢
    simpa using ih

theorem allDigits_zeros (k : Nat) : allDigits (List.replicate k 48) = true := by
  simp [allDigits, isDigit]

/-- A decimal number with any number of leading zeros parses back (when it fits in u64). -/
theorem parsePos_zeros_dec (k n : Nat) (h : n < U64) :
    parsePos (List.replicate k 48 ++ dec n) = some n := by
  unfold parsePos
  have hne : (List.replicate k 48 ++ dec n).isEmpty = false := by
    cases hd : dec n with
    | nil => exact absurd hd (dec_ne_nil n)
    | cons a l => simp
  rw [hne, allDigits_append, allDigits_zeros, allDigits_dec, digitsVal_zeros, digitsVal_dec]
  simp [h]

theorem parsePos_dec (n : Nat) (h : n < U64) : parsePos (dec n) = some n := by
  simpa using parsePos_zeros_dec 0 n h

/-- Numbers that do not fit in a `u64` are rejected, whatever the leading zeros. -/
theorem parsePos_zeros_dec_big (k n : Nat) (h : U64 ≤ n) :
    parsePos (List.replicate k 48 ++ dec n) = none := by
  unfold parsePos
  have hne : (List.replicate k 48 ++ dec n).isEmpty = false := by
    cases hd : dec n with
    | nil => exact absurd hd (dec_ne_nil n)
    | cons a l => simp
  rw [hne, allDigits_append, allDigits_zeros, allDigits_dec, digitsVal_zeros, digitsVal_dec]
  simp; omega

theorem parsePos_some_lt {s : Bytes} {n : Nat} (h : parsePos s = some n) : n < U64 := by
  unfold parsePos at h
  split at h
  · simp at h
  · split at h
    · simp at h
    · split at h
      · simp at h; omega
      · simp at h

theorem parsePos_some_allDigits {s : Bytes} {n : Nat} (h : parsePos s = some n) :
    s ≠ [] ∧ allDigits s = true ∧ digitsVal s = n := by
  unfold parsePos at h
  split at h
  · simp at h
  · rename_i hne
    split at h
    · simp at h
    · rename_i hd
      split at h
      · simp at h
        refine ⟨?_, ?_, h⟩
        · intro he; simp [he] at hne
        · simpa using hd
      · simp at h

theorem foldl_digits_bound (s : Bytes) (h : allDigits s = true) (acc : Nat) :
    List.foldl (fun acc c => acc * 10 + (c - 48)) acc s + 1 ≤ (acc + 1) * 10 ^ s.length := by
  induction s generalizing acc with
  | nil => simp
  | cons c s ih =>
    have hc : 48 ≤ c ∧ c ≤ 57 := by
      have : isDigit c = true := by
        simp [allDigits] at h; exact h.1
      simpa [isDigit] using this
    have hs : allDigits s = true := by
      simp [allDigits] at h ⊢; exact h.2
    have h1 := ih hs (acc * 10 + (c - 48))
    simp only [List.foldl_cons, List.length_cons, Nat.pow_succ]
    have h2 : (acc * 10 + (c - 48) + 1) * 10 ^ s.length ≤ ((acc + 1) * 10) * 10 ^ s.length :=
      Nat.mul_le_mul_right _ (by omega)
    calc _ ≤ (acc * 10 + (c - 48) + 1) * 10 ^ s.length := h1
      _ ≤ ((acc + 1) * 10) * 10 ^ s.length := h2
      _ = (acc + 1) * (10 ^ s.length * 10) := by
        rw [Nat.mul_assoc, Nat.mul_comm 10]

theorem digitsVal_lt_pow (s : Bytes) (h : allDigits s = true) : digitsVal s < 10 ^ s.length := by
  have := foldl_digits_bound s h 0
  simp at this
  exact this

end HS
