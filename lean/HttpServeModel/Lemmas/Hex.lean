/-
Lemmas about hexadecimal rendering (`hex`) and the file ETag format (`fileEtag`).
-/
import HttpServeModel.Model.File

namespace HS

def isLowerHex (c : Nat) : Bool := (48 ≤ c && c ≤ 57) || (97 ≤ c && c ≤ 102)

/-- Value of one lower-case hex digit. -/
def hexDigitVal (c : Nat) : Nat := if c < 58 then c - 48 else c - 87

/-- Value of a lower-case hex string (inverse of `hex`). -/
def hexVal (s : Bytes) : Nat := s.foldl (fun acc c => acc * 16 + hexDigitVal c) 0

theorem hexDigitVal_hexDigit (d : Nat) (h : d < 16) : hexDigitVal (hexDigit d) = d := by
  unfold hexDigitVal hexDigit
  split <;> split <;> omega

theorem isLowerHex_hexDigit (d : Nat) (h : d < 16) : isLowerHex (hexDigit d) = true := by
  unfold hexDigit
  split <;> simp [isLowerHex] <;> omega

theorem hexVal_append_single (s : Bytes) (c : Nat) :
    hexVal (s ++ [c]) = hexVal s * 16 + hexDigitVal c := by
  simp [hexVal, List.foldl_append]

theorem hex_ne_nil (n : Nat) : hex n ≠ [] := by
  rw [hex]; split <;> simp

theorem hex_chars (n : Nat) : ∀ c ∈ hex n, isLowerHex c = true := by
  induction n using Nat.strongRecOn with
  | _ n ih =>
    rw [hex]
    split
    · rename_i h
      intro c hc
      simp only [List.mem_singleton] at hc
      subst hc
      exact isLowerHex_hexDigit n h
    · rename_i h
      intro c hc
      rw [List.mem_append] at hc
      rcases hc with hc | hc
      · exact ih (n / 16) (by omega) c hc
      · simp only [List.mem_singleton] at hc
        subst hc
        exact isLowerHex_hexDigit _ (by omega)

theorem hexVal_hex (n : Nat) : hexVal (hex n) = n := by
  induction n using Nat.strongRecOn with
  | _ n ih =>
    rw [hex]
    split
    · rename_i h
      simp [hexVal, hexDigitVal_hexDigit n h]
    · rename_i h
      rw [hexVal_append_single, ih (n / 16) (by omega), hexDigitVal_hexDigit _ (by omega)]
      omega

theorem hex_injective (a b : Nat) (h : hex a = hex b) : a = b := by
  have := congrArg hexVal h
  simpa [hexVal_hex] using this

theorem colon_not_mem_hex (n : Nat) : 58 ∉ hex n := by
  intro h
  have := hex_chars n 58 h
  simp [isLowerHex] at this

theorem quote_not_mem_hex (n : Nat) : 34 ∉ hex n := by
  intro h
  have := hex_chars n 34 h
  simp [isLowerHex] at this

/-- Splitting at the first occurrence of a separator is unique. -/
theorem split_first_unique (sep : Nat) (x x' r r' : Bytes)
    (hx : sep ∉ x) (hx' : sep ∉ x') (h : x ++ sep :: r = x' ++ sep :: r') :
    x = x' ∧ r = r' := by
  induction x generalizing x' with
  | nil =>
    cases x' with
    | nil => simpa using h
    | cons b x' =>
      simp only [List.nil_append, List.cons_append, List.cons.injEq] at h
      exact absurd (h.1 ▸ List.mem_cons_self) hx'
  | cons a x ih =>
    cases x' with
    | nil =>
      simp only [List.nil_append, List.cons_append, List.cons.injEq] at h
      exact absurd (h.1 ▸ List.mem_cons_self) hx
    | cons b x' =>
      simp only [List.cons_append, List.cons.injEq] at h
      have hx1 : sep ∉ x := fun hm => hx (List.mem_cons_of_mem _ hm)
      have hx1' : sep ∉ x' := fun hm => hx' (List.mem_cons_of_mem _ hm)
      obtain ⟨e1, e2⟩ := ih x' hx1 hx1' h.2
      exact ⟨by rw [h.1, e1], e2⟩

/-- The ETag is a syntactically valid strong entity-tag: DQUOTE, then only hex digits and
colons (so no DQUOTE inside, and it does not start with `W/`), then DQUOTE. -/
theorem fileEtag_wellformed (i l s n : Nat) :
    ∃ body : Bytes, fileEtag i l s n = [34] ++ body ++ [34] ∧
      (∀ c ∈ body, isLowerHex c = true ∨ c = 58) ∧ 34 ∉ body ∧
      (fileEtag i l s n).head? = some 34 := by
  refine ⟨hex i ++ [58] ++ hex l ++ [58] ++ hex s ++ [58] ++ hex n, ?_, ?_, ?_, ?_⟩
  · simp [fileEtag, cQuote, cColon]
  · intro c hc
    simp only [List.mem_append, List.mem_singleton] at hc
    rcases hc with (((((hc | hc) | hc) | hc) | hc) | hc) | hc
    · exact Or.inl (hex_chars _ c hc)
    · exact Or.inr hc
    · exact Or.inl (hex_chars _ c hc)
    · exact Or.inr hc
    · exact Or.inl (hex_chars _ c hc)
    · exact Or.inr hc
    · exact Or.inl (hex_chars _ c hc)
  · intro hc
    simp only [List.mem_append, List.mem_singleton] at hc
    rcases hc with (((((hc | hc) | hc) | hc) | hc) | hc) | hc
    · exact quote_not_mem_hex _ hc
    · omega
    · exact quote_not_mem_hex _ hc
    · omega
    · exact quote_not_mem_hex _ hc
    · omega
    · exact quote_not_mem_hex _ hc
  · simp [fileEtag, cQuote]

/-- Two ETags are equal only if inode, length, seconds and nanoseconds are all equal: the tag
changes whenever the file's identity, length or modification time changes. -/
theorem fileEtag_injective (i l s n i' l' s' n' : Nat)
    (h : fileEtag i l s n = fileEtag i' l' s' n') : i = i' ∧ l = l' ∧ s = s' ∧ n = n' := by
  simp only [fileEtag, cQuote, cColon, List.append_assoc, List.cons_append, List.nil_append,
    List.cons.injEq, true_and] at h
  obtain ⟨e1, h⟩ := split_first_unique 58 _ _ _ _ (colon_not_mem_hex i) (colon_not_mem_hex i') h
  obtain ⟨e2, h⟩ := split_first_unique 58 _ _ _ _ (colon_not_mem_hex l) (colon_not_mem_hex l') h
  obtain ⟨e3, h⟩ := split_first_unique 58 _ _ _ _ (colon_not_mem_hex s) (colon_not_mem_hex s') h
  obtain ⟨e4, _⟩ := split_first_unique 34 _ _ _ _ (quote_not_mem_hex n) (quote_not_mem_hex n') h
  exact ⟨hex_injective _ _ e1, hex_injective _ _ e2, hex_injective _ _ e3, hex_injective _ _ e4⟩

/-! ### Any modification time, before or after the epoch (`fileEtagS`) -/

theorem fileEtagS_false (i l s n : Nat) : fileEtagS i l false s n = fileEtag i l s n := by
  simp [fileEtagS, fileEtag, signedHex]

theorem minus_not_mem_hex (n : Nat) : 45 ∉ hex n := by
  intro h
  have := hex_chars n 45 h
  simp [isLowerHex] at this

theorem colon_not_mem_signedHex (b : Bool) (n : Nat) : 58 ∉ signedHex b n := by
  intro h
  cases b <;> simp [signedHex] at h <;> exact colon_not_mem_hex n h

theorem signedHex_injective (b b' : Bool) (s s' : Nat) (h : signedHex b s = signedHex b' s') :
    b = b' ∧ s = s' := by
  cases b <;> cases b' <;> simp only [signedHex, Bool.false_eq_true, if_false, if_true,
    List.nil_append, List.cons_append, List.cons.injEq, true_and] at h
  · exact ⟨rfl, hex_injective _ _ h⟩
  · exact absurd (h ▸ List.mem_cons_self) (minus_not_mem_hex s)
  · exact absurd (h.symm ▸ List.mem_cons_self) (minus_not_mem_hex s')
  · exact ⟨rfl, hex_injective _ _ h⟩

/-- For every modification time the ETag is a syntactically valid strong entity-tag: DQUOTE, then
only hex digits, colons and `-`, then DQUOTE. -/
theorem fileEtagS_wellformed (i l : Nat) (b : Bool) (s n : Nat) :
    ∃ body : Bytes, fileEtagS i l b s n = [34] ++ body ++ [34] ∧
      (∀ c ∈ body, isLowerHex c = true ∨ c = 58 ∨ c = 45) ∧ 34 ∉ body ∧
      (fileEtagS i l b s n).head? = some 34 := by
  refine ⟨hex i ++ [58] ++ hex l ++ [58] ++ signedHex b s ++ [58] ++ hex n, ?_, ?_, ?_, ?_⟩
  · simp [fileEtagS, cQuote, cColon]
  · intro c hc
    simp only [List.mem_append, List.mem_singleton] at hc
    rcases hc with (((((hc | hc) | hc) | hc) | hc) | hc) | hc
    · exact Or.inl (hex_chars _ c hc)
    · exact Or.inr (Or.inl hc)
    · exact Or.inl (hex_chars _ c hc)
    · exact Or.inr (Or.inl hc)
    · cases b <;> simp [signedHex] at hc
      · exact Or.inl (hex_chars _ c hc)
      · rcases hc with hc | hc
        · exact Or.inr (Or.inr hc)
        · exact Or.inl (hex_chars _ c hc)
    · exact Or.inr (Or.inl hc)
    · exact Or.inl (hex_chars _ c hc)
  · intro hc
    simp only [List.mem_append, List.mem_singleton] at hc
    rcases hc with (((((hc | hc) | hc) | hc) | hc) | hc) | hc
    · exact quote_not_mem_hex _ hc
    · omega
    · exact quote_not_mem_hex _ hc
    · omega
    · cases b <;> simp [signedHex] at hc <;> exact quote_not_mem_hex _ hc
    · omega
    · exact quote_not_mem_hex _ hc
  · simp [fileEtagS, cQuote]

/-- Two ETags are equal only if inode, length and the modification time (side of the epoch,
seconds, nanoseconds) are all equal. -/
theorem fileEtagS_injective (i l : Nat) (b : Bool) (s n i' l' : Nat) (b' : Bool) (s' n' : Nat)
    (h : fileEtagS i l b s n = fileEtagS i' l' b' s' n') :
    i = i' ∧ l = l' ∧ b = b' ∧ s = s' ∧ n = n' := by
  simp only [fileEtagS, cQuote, cColon, List.append_assoc, List.cons_append, List.nil_append,
    List.cons.injEq, true_and] at h
  obtain ⟨e1, h⟩ := split_first_unique 58 _ _ _ _ (colon_not_mem_hex i) (colon_not_mem_hex i') h
  obtain ⟨e2, h⟩ := split_first_unique 58 _ _ _ _ (colon_not_mem_hex l) (colon_not_mem_hex l') h
  obtain ⟨e3, h⟩ := split_first_unique 58 _ _ _ _ (colon_not_mem_signedHex b s)
    (colon_not_mem_signedHex b' s') h
  obtain ⟨e4, _⟩ := split_first_unique 34 _ _ _ _ (quote_not_mem_hex n) (quote_not_mem_hex n') h
  obtain ⟨eb, es⟩ := signedHex_injective _ _ _ _ e3
  exact ⟨hex_injective _ _ e1, hex_injective _ _ e2, eb, es, hex_injective _ _ e4⟩

end HS
