/-
Which `Entity` methods `serve` calls, in which order (C04, C13, C15 clauses about not touching
the entity). Helper lemmas; the property statements are in `Theorems/`.
-/
import HttpServeModel.Lemmas.ServeLemmas
namespace HS
open ServeLemmas

/-- C15: HEAD asks the entity exactly what GET asks, minus the `get_range` call — same calls,
same order. -/
theorem head_calls_eq_get_calls_sans_fetch (q : Req) (e : Ent) (now : Nat) (rg rh : Resp)
    (hg : serve { q with method := .get } e now = .ok rg)
    (hh : serve { q with method := .head } e now = .ok rh) :
    rh.calls = rg.calls.filter (fun c => !c.isGetRange) := by
  obtain ⟨rfl, _⟩ := serve_ok hg
  obtain ⟨rfl, _⟩ := serve_ok hh
  have h1 : classify { q with method := .get } e = tailBr q e := rfl
  have h2 : classify { q with method := .head } e = tailBr q e := rfl
  rw [h1, h2]
  cases tailBr q e with
  | single a b inc => cases inc <;> simp [Br.resp, simpleResp, calls1, EntCall.isGetRange]
  | m413 rs inc => cases inc <;> simp [Br.resp, calls1, calls2, EntCall.isGetRange]
  | m206 rs inc phs total => cases inc <;> simp [Br.resp, calls1, calls2, EntCall.isGetRange]
  | _ => simp [Br.resp, simpleResp, calls0, calls1, EntCall.isGetRange]

/-- C04: a response decided by the preconditions alone (400, 412, 304) — and the 405 — is
decided from the validators only: the entity is asked for its modification time and ETag and
nothing else (no `len`, no `add_headers`, no `get_range`). -/
theorem precondition_outcomes_touch_validators_only (q : Req) (e : Ent) (now : Nat) (r : Resp)
    (h : serve q e now = .ok r) (hs : r.status ∈ [304, 400, 412]) :
    r.calls = [.lastModified, .etag] := by
  obtain ⟨rfl, _⟩ := serve_ok h
  cases hbr : classify q e with
  | single a b inc => simp [hbr, Br.resp, simpleResp] at hs
  | full => simp [hbr, Br.resp, simpleResp] at hs
  | _ => first | (simp [hbr, Br.resp] at hs; done) | simp [Br.resp, calls0]

/-- C13: the order in which `serve` consults the entity is fixed: validators first, then the
length, then (GET, single range or whole) the one `get_range`, then `add_headers`. -/
theorem calls_shape (q : Req) (e : Ent) (now : Nat) (r : Resp) (h : serve q e now = .ok r) :
    r.calls = [] ∨ r.calls = [.lastModified, .etag] ∨
    ∃ tail, r.calls = [.lastModified, .etag, .len] ++ tail ∧
      (tail = [] ∨ tail = [.addHeaders] ∨
       ∃ a b, a < b + 1 ∧ (tail = [.getRange a b] ∨ tail = [.getRange a b, .addHeaders])) := by
  obtain ⟨rfl, hg⟩ := serve_ok h
  cases hbr : classify q e with
  | other => simp [Br.resp]
  | bad err => simp [Br.resp, calls0]
  | pf => simp [Br.resp, calls0]
  | nm => simp [Br.resp, calls0]
  | unsat => simp [Br.resp, calls1]
  | m413 rs inc => cases inc <;> simp [Br.resp, calls1, calls2]
  | m206 rs inc phs total => cases inc <;> simp [Br.resp, calls1, calls2]
  | full =>
    by_cases hm : q.method = .head
    · simp [Br.resp, simpleResp, calls1, hm]
    · right; right; refine ⟨[.getRange 0 e.len, .addHeaders], ?_, ?_⟩
      · simp [Br.resp, simpleResp, calls1, hm]
      · right; right; exact ⟨0, e.len, by omega, Or.inr rfl⟩
  | single a b inc =>
    by_cases hm : q.method = .head
    · cases inc <;> simp [Br.resp, simpleResp, calls1, hm]
    · right; right
      cases inc
      · exact ⟨[.getRange a b], by simp [Br.resp, simpleResp, calls1, hm],
          Or.inr (Or.inr ⟨a, b, by rw [hbr] at hg; simp [Br.good] at hg; omega, Or.inl rfl⟩)⟩
      · exact ⟨[.getRange a b, .addHeaders], by simp [Br.resp, simpleResp, calls1, hm],
          Or.inr (Or.inr ⟨a, b, by rw [hbr] at hg; simp [Br.good] at hg; omega, Or.inr rfl⟩)⟩


theorem parseModifiedHdrs_none (etag : Option Bytes) (mt : Option (Nat × Nat)) :
    parseModifiedHdrs etag none none .absent .absent mt = .ok (false, false) := by
  cases mt <;> simp [parseModifiedHdrs, precondFailed, notModified, anyMatch, noneMatch]

theorem Br.resp_method (q q' : Req) (e : Ent) (now : Nat) (b : Br) (hm : q'.method = q.method) :
    b.resp q' e now = b.resp q e now := by
  cases b <;> simp [Br.resp, simpleResp, hm]

/-- For ARBITRARY header bytes (grammatical or not): a response that is not 304, 400 or 412 is
exactly the response to the same request with the four conditional headers removed — once the
preconditions have passed they leave no trace (in particular they cannot influence what If-Range
and Range decide). -/
theorem passed_preconditions_leave_no_trace (q : Req) (e : Ent) (now : Nat) (r : Resp)
    (h : serve q e now = .ok r) (hs : r.status ∉ [304, 400, 412]) :
    serve { q with ifMatch := none, ifNoneMatch := none, ius := .absent, ims := .absent } e now
      = .ok r := by
  obtain ⟨hr, _⟩ := serve_ok h
  rw [(serve_eq _ e now).1, hr]
  suffices hc : classify ({ q with ifMatch := none, ifNoneMatch := none, ius := .absent, ims := .absent } : Req) e = classify q e by
    rw [hc]; exact congrArg _ (Br.resp_method q _ e now _ rfl)
  unfold classify
  by_cases hm : q.method = .other
  · simp [hm]
  · simp only [hm, if_false]
    unfold tailBr
    simp only [parseModifiedHdrs_none]
    cases hp : parseModifiedHdrs e.etag q.ifMatch q.ifNoneMatch q.ius q.ims e.mtime with
    | error err =>
      exfalso; apply hs; rw [hr]; simp [classify, hm, tailBr, hp, Br.resp]
    | ok p =>
      obtain ⟨pf, nm⟩ := p
      cases pf
      · cases nm
        · rfl
        · exfalso; apply hs; rw [hr]; simp [classify, hm, tailBr, hp, Br.resp]
      · exfalso; apply hs; rw [hr]; simp [classify, hm, tailBr, hp, Br.resp]

/-- Without a Range header there is never a partial answer: whatever the other headers say
(If-Range included), the status is not 206, 416 or 413, and no Content-Range is sent. -/
theorem no_range_no_partial (q : Req) (e : Ent) (now : Nat) (r : Resp)
    (hr : q.range = none) (h : serve q e now = .ok r) :
    r.status ∉ [206, 413, 416] ∧ r.header .contentRange = none := by
  obtain ⟨rfl, _⟩ := serve_ok h
  have hp : ∀ b : Bool, parseRange (if b = true then q.range else none) e.len = .ok .none := by
    intro b; cases b <;> simp [hr] <;> rfl
  unfold classify
  by_cases hm : q.method = .other
  · simp [hm, Br.resp, Resp.header]
  · simp only [hm, if_false]
    unfold tailBr
    cases hpm : parseModifiedHdrs e.etag q.ifMatch q.ifNoneMatch q.ius q.ims e.mtime with
    | error err => simp [Br.resp, Resp.header]
    | ok p =>
      obtain ⟨pf, nm⟩ := p
      cases pf <;> cases nm <;>
        simp [hp, Br.resp, simpleResp, Resp.header, List.lookup_append, lookup_common_cr,
          lookup_ent_cr, lookup_cons_if]

theorem rangesBr_m206 (e : Ent) (inc : Bool) (rs rs' : List (Nat × Nat)) (inc' : Bool)
    (phs : List Bytes) (total : Nat) (hne : rs ≠ [])
    (h : rangesBr e inc rs = .m206 rs' inc' phs total) :
    2 ≤ rs.length ∧ rs' = rs ∧ small rs e.len = true := by
  match rs, hne with
  | [(a, b)], _ => simp [rangesBr] at h
  | x :: y :: t, _ =>
    simp only [rangesBr] at h
    split at h
    · rename_i hs
      split at h
      · simp only [Br.m206.injEq] at h; exact ⟨by simp, h.1.symm, hs⟩
      · cases h
    · cases h

/-- A multipart body is sent only for at least two satisfiable ranges — a single range is never
wrapped in multipart/byteranges (RFC 7233 section 4.1) — and only when the ranges' estimated
total is below the entity's length; the parts are the resolved ranges, all of them, in order. -/
theorem multipart_only_for_two_or_more (q : Req) (e : Ent) (now : Nat) (r : Resp)
    (phs : List Bytes) (rs : List (Nat × Nat)) (total : Nat)
    (h : serve q e now = .ok r) (hp : r.plan = .multipart phs rs total) :
    2 ≤ rs.length ∧ small rs e.len = true ∧ r.status = 206 ∧
    parseRange (if (ifRangeGate e.etag q.ifRange).1 then q.range else none) e.len = .ok (.sat rs) := by
  obtain ⟨rfl, _⟩ := serve_ok h
  cases hbr : classify q e with
  | m206 rs' inc phs' total' =>
    rw [hbr] at hp
    simp only [Br.resp] at hp
    split at hp
    · cases hp
    · simp only [Plan.multipart.injEq] at hp
      obtain ⟨rfl, rfl, rfl⟩ := hp
      unfold classify at hbr
      split at hbr
      · cases hbr
      · unfold tailBr at hbr
        split at hbr <;> try (cases hbr; done)
        split at hbr <;> try (cases hbr; done)
        rename_i rs0 hpr
        obtain ⟨hne, _⟩ := parseRange_sat_bounds _ _ _ hpr
        obtain ⟨h2, rfl, hs⟩ := rangesBr_m206 _ _ _ _ _ _ _ hne hbr
        exact ⟨h2, hs, by simp [Br.resp], hpr⟩
  | single a b inc => rw [hbr] at hp; simp [Br.resp, simpleResp] at hp; split at hp <;> cases hp
  | full => rw [hbr] at hp; simp [Br.resp, simpleResp] at hp; split at hp <;> cases hp
  | _ => rw [hbr] at hp; simp [Br.resp] at hp

theorem commonHeaders_no_mtime (e : Ent) (now now' : Nat) (h : e.mtime = none) :
    commonHeaders e now = commonHeaders e now' := by
  simp [commonHeaders, h]

/-- An entity without a (usable) modification time is served without consulting the clock at
all: the whole response is the same at any time. -/
theorem no_mtime_no_clock (q : Req) (e : Ent) (now now' : Nat) (h : e.mtime = none) :
    serve q e now = serve q e now' := by
  unfold serve
  rw [commonHeaders_no_mtime e now now' h]

end HS
