import HttpServeModel.Lemmas.ServeLemmas
import HttpServeModel.Lemmas.Layout
import HttpServeModel.Lemmas.RangeParse
namespace HS.EndToEnd
open HS.ServeLemmas HS.Layout

/-- The body of an `.exact a b` plan over one script. -/
theorem ofPlan_exact (a b : Nat) (hab : a ≤ b) (script : List Ev) :
    BodyS.ofPlan (.exact a b) [script] = .ok (.exact { stream := script, remaining := b - a }) := by
  simp [BodyS.ofPlan, subChk_ok hab, bind, R.bind, pure]

/-- Trace facts of an exact body over an honest stream, including the delivered count. -/
theorem exact_run_facts (c : Content) (a b : Nat) (hab : a ≤ b) (script : List Ev)
    (hhon : HonestScript c a b script) (n : Nat) (hn : script.length + 1 ≤ n) :
    ∃ body, BodyS.ofPlan (.exact a b) [script] = .ok body ∧
      concatData (outs (body.run n)) = c.slice a b ∧ PollOut.end_ ∈ outs (body.run n) ∧
      (∀ o ∈ outs (body.run n), o.isErr = false) ∧ delivered (body.run n) = b - a := by
  refine ⟨_, ofPlan_exact a b hab script, ?_⟩
  obtain ⟨h1, h2, h3⟩ := exact_body_is_slice c a b hab script hhon n hn
  refine ⟨h1, h2, h3, ?_⟩
  exact run_clean_end_exact n (.exact { stream := script, remaining := b - a })
    (ExactLen.ok_of_not_finished rfl) h3 h2

/-- With at least two ranges and a small estimate, the branch is decided by `prepareMultipart`. -/
theorem rangesBr_multi (e : Ent) (inc : Bool) (rs : List (Nat × Nat)) (h2 : 2 ≤ rs.length)
    (hsm : small rs e.len = true) :
    rangesBr e inc rs =
      match prepareMultipart rs e.len (partEh e inc) with
      | .ok (some (phs, total)) => .m206 rs inc phs total
      | _ => .m413 rs inc := by
  match rs, h2 with
  | (a, b) :: y :: t, _ =>
    simp only [rangesBr, hsm, if_true]
    cases prepareMultipart ((a, b) :: y :: t) e.len (partEh e inc) with
    | panic => rfl
    | ok o =>
      cases o with
      | none => rfl
      | some p => rfl

theorem est_halfOpen (S : List (Nat × Nat)) :
    est (S.map toHalfOpen) = (S.map fun r => 80 + (r.2 + 1 - r.1)).sum := by
  simp [est, List.map_map, Function.comp_def, toHalfOpen]

theorem toInclusive_halfOpen (S : List (Nat × Nat)) : (S.map toHalfOpen).map toInclusive = S := by
  induction S with
  | nil => rfl
  | cons x t ih => simp [toInclusive, toHalfOpen] at ih ⊢; exact ih

end HS.EndToEnd

namespace HS
open HS.ServeLemmas HS.Layout HS.EndToEnd

/-- C02 end to end (single range): the headers name `bytes a-b/L`, and for ANY honest stream for
that range — any chunking — the body built from the response's plan delivers exactly entity bytes
a..=b, as many as announced, and ends cleanly. -/
theorem single_range_end_to_end (c : Content) (q : Req) (e : Ent) (now : Nat) (r : Resp)
    (hlen : e.len < U64) (h : serve q e now = .ok r) (hget : q.method = .get) (hs : r.status = 206)
    (cr : HVal) (hcr : r.header .contentRange = some cr) :
    ∃ a b', a < b' ∧ b' ≤ e.len ∧
      cr = .bytes (kBytesSp ++ dec a ++ [45] ++ dec (b' - 1) ++ [47] ++ dec e.len) ∧
      r.header .contentLength = some (.bytes (dec (b' - a))) ∧
      ∀ script, HonestScript c a b' script → ∀ n, script.length + 1 ≤ n →
        ∃ body, BodyS.ofPlan r.plan [script] = .ok body ∧
          concatData (outs (body.run n)) = c.slice a b' ∧ PollOut.end_ ∈ outs (body.run n) ∧
          (∀ o ∈ outs (body.run n), o.isErr = false) ∧ delivered (body.run n) = b' - a := by
  obtain ⟨a, b', hab, hbl, hcrv, hplan, _⟩ := single_range_shape q e now r hlen h hget hs cr hcr
  refine ⟨a, b', hab, hbl, hcrv, ?_, ?_⟩
  · obtain ⟨n, _, hcl, hsz⟩ := content_length_announces q e now r hlen h (Or.inr hs)
    have := hsz hget [[]] _ (by rw [hplan]; exact ofPlan_exact a b' (Nat.le_of_lt hab) [])
    simp only [BodyS.sizeHint] at this
    rw [hcl, ← this]
  · intro script hhon n hn
    rw [hplan]
    exact exact_run_facts c a b' (Nat.le_of_lt hab) script hhon n hn

/-- C02 end to end (complete 200). -/
theorem full_200_end_to_end (c : Content) (q : Req) (e : Ent) (now : Nat) (r : Resp)
    (h : serve q e now = .ok r) (hget : q.method = .get) (hs : r.status = 200) :
    r.header .contentLength = some (.bytes (dec e.len)) ∧
    ∀ script, HonestScript c 0 e.len script → ∀ n, script.length + 1 ≤ n →
      ∃ body, BodyS.ofPlan r.plan [script] = .ok body ∧
        concatData (outs (body.run n)) = c.slice 0 e.len ∧ PollOut.end_ ∈ outs (body.run n) ∧
        (∀ o ∈ outs (body.run n), o.isErr = false) := by
  obtain ⟨hplan, _, _⟩ := full_200_shape q e now r h hget hs
  refine ⟨?_, ?_⟩
  · obtain ⟨rfl, _⟩ := serve_ok h
    cases hbr : classify q e with
    | full =>
      simp [Resp.header, Br.resp, simpleResp, List.lookup_append, lookup_common_cl]
    | single a b inc => simp [hbr, Br.resp, simpleResp] at hs
    | _ => simp [hbr, Br.resp] at hs
  · intro script hhon n hn
    rw [hplan]
    obtain ⟨body, h1, h2, h3, h4, _⟩ := exact_run_facts c 0 e.len (Nat.zero_le _) script hhon n hn
    exact ⟨body, h1, h2, h3, h4⟩

/-- C03 + C06 end to end: for every grammatical range set whose satisfiable ranges number at
least two and whose estimate is below the entity length, a GET carrying only that Range header
is answered either 413 or by a multipart 206 whose Content-Length is the length of the specified
layout of exactly the satisfiable ranges in request order and whose body, over any honest
streams, is that layout byte for byte. -/
theorem multipart_end_to_end (c : Content) (es : List RangeElem) (e : Ent) (now : Nat)
    (hne : es ≠ []) (hwf : ∀ x ∈ es, x.wf) (hfit : ∀ x ∈ es, x.spec.fits) (hlen : e.len < U64)
    (h2 : 2 ≤ (satisfiable e.len es).length)
    (hest : ((satisfiable e.len es).map fun r => 80 + (r.2 + 1 - r.1)).sum < e.len) :
    ∃ r, serve (rangeOnly .get (some (renderRange es))) e now = .ok r ∧
      (r.status = 413 ∨
       (r.status = 206 ∧
        r.header .contentLength = some (.bytes (dec
          (specLayout c e.len (specEntityHeaders e.headers) (satisfiable e.len es)).length)) ∧
        ∀ scripts : List (List Ev), scripts.length = (satisfiable e.len es).length →
          (∀ i (hi : i < (satisfiable e.len es).length),
             HonestScript c ((satisfiable e.len es)[i]).1 (((satisfiable e.len es)[i]).2 + 1)
               (scripts.getD i [])) →
          ∀ n, (scripts.map List.length).sum + 2 * (satisfiable e.len es).length + 2 ≤ n →
            ∃ body, BodyS.ofPlan r.plan scripts = .ok body ∧
              concatData (outs (body.run n)) =
                specLayout c e.len (specEntityHeaders e.headers) (satisfiable e.len es) ∧
              PollOut.end_ ∈ outs (body.run n) ∧ ∀ o ∈ outs (body.run n), o.isErr = false)) := by
  generalize hS : satisfiable e.len es = S at h2 hest
  have hSne : S ≠ [] := by intro h0; simp [h0] at h2
  have hp : parseRange (some (renderRange es)) e.len = .ok (.sat (S.map toHalfOpen)) := by
    rw [parseRange_render es e.len hne hwf hfit hlen, hS]; simp [hSne]
  obtain ⟨_, hb⟩ := parseRange_sat_bounds _ _ _ hp
  have hlt : ∀ r ∈ S.map toHalfOpen, r.1 < r.2 := fun r hr => (hb r hr).1
  have hsm : small (S.map toHalfOpen) e.len = true := by
    simp only [small, decide_eq_true_eq, est_halfOpen]; exact ⟨by omega, hest⟩
  obtain ⟨hserve, hgood⟩ := serve_eq (rangeOnly .get (some (renderRange es))) e now
  refine ⟨_, hserve, ?_⟩
  rw [classify_rangeOnly .get (by simp), hp] at hgood ⊢
  simp only at hgood ⊢
  rw [rangesBr_multi e true _ (by simpa using h2) hsm] at hgood ⊢
  cases hpm : prepareMultipart (S.map toHalfOpen) e.len (partEh e true) with
  | panic =>
    obtain ⟨o, ho⟩ := prepareMultipart_ok (S.map toHalfOpen) e.len (partEh e true) hlt
    rw [ho] at hpm; cases hpm
  | ok o =>
    cases o with
    | none => left; rfl
    | some p =>
      obtain ⟨phs, total⟩ := p
      right
      have heh : partEh e true = specEntityHeaders e.headers := by
        simp [partEh, eachPartHeaders_spec]
      rw [heh] at hpm
      have htot := (prepareMultipart_layout c _ _ _ phs total hlt hpm).2
      rw [toInclusive_halfOpen] at htot
      refine ⟨rfl, ?_, ?_⟩
      · simp [Resp.header, Br.resp, List.lookup_append, lookup_common_cl, htot]
      · intro scripts hsl hhon n hn
        refine ⟨.multi (Multipart.new phs (S.map toHalfOpen) total scripts), ?_, ?_⟩
        · simp [Br.resp, rangeOnly, BodyS.ofPlan]
        · have := multipart_body_is_layout c e.len (specEntityHeaders e.headers)
            (S.map toHalfOpen) phs total scripts hlt hpm (by simpa using hsl)
            (by
              intro i hi
              have hi' : i < S.length := by simpa using hi
              simpa [toHalfOpen] using hhon i hi')
            n (by simpa using hn)
          rw [toInclusive_halfOpen] at this
          exact ⟨this.1, this.2.1, this.2.2.1⟩

end HS
