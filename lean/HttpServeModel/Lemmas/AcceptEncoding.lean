/-
`should_gzip` (Model/Negotiate.lean) against the RFC 7231 section 5.3.4 specification
(Spec/Rfc7231.lean).
-/
import HttpServeModel.Model.Negotiate
import HttpServeModel.Spec.Rfc7231
import HttpServeModel.Lemmas.Digits

namespace HS

/-! ### `parse_qvalue` -/

/-- The digit part that `u16::from_str` looks at. -/
def stripPlus (s : Bytes) : Bytes :=
  match s with
  | c :: rest => if c = cPlus then rest else s
  | [] => s

theorem stripPlus_length (s : Bytes) : (stripPlus s).length ≤ s.length := by
  cases s with
  | nil => simp [stripPlus]
  | cons c rest => simp only [stripPlus]; split <;> simp

theorem parseU16_eq (s : Bytes) : parseU16 s =
    if (stripPlus s).isEmpty then none
    else if !allDigits (stripPlus s) then none
    else if digitsVal (stripPlus s) < 65536 then some (digitsVal (stripPlus s)) else none := rfl

theorem parseU16_lt {v : Bytes} {x : Nat} (h : parseU16 v = some x) : x < 10 ^ v.length := by
  rw [parseU16_eq] at h
  have hlen := stripPlus_length v
  generalize stripPlus v = ds at h hlen
  split at h
  · simp at h
  · split at h
    · simp at h
    · rename_i hd
      split at h
      · simp at h
        subst h
        simp at hd
        have := digitsVal_lt_pow _ hd
        refine Nat.lt_of_lt_of_le this ?_
        exact Nat.pow_le_pow_right (by omega) hlen
      · simp at h

/-- No byte string makes the qvalue parser reach its (checked) multiplication overflow. -/
theorem parseQvalue_total (s : Bytes) : parseQvalue s ≠ .panic := by
  unfold parseQvalue
  split
  · simp
  · split
    · simp
    · split
      · simp
      · rename_i v _
        by_cases h1 : v.length = 1
        · simp only [h1]
          cases hp : parseU16 v with
          | none => simp
          | some x =>
            have := parseU16_lt hp
            rw [h1] at this
            simp; omega
        · by_cases h2 : v.length = 2
          · simp only [h2]
            cases hp : parseU16 v with
            | none => simp
            | some x =>
              have := parseU16_lt hp
              rw [h2] at this
              simp; omega
          · by_cases h3 : v.length = 3
            · simp only [h3]
              cases hp : parseU16 v with
              | none => simp
              | some x =>
                have := parseU16_lt hp
                rw [h3] at this
                simp; omega
            · simp [h1, h2, h3]

theorem parseQvalue_render (q : QVal) (h : q.wf) : parseQvalue q.render = .ok (some q.value) := by
  obtain ⟨isOne, dot, digits⟩ := q
  obtain ⟨hlen, hdig, hdot, hone⟩ := h
  simp only at hlen hdig hdot hone
  cases dot with
  | false =>
    have := hdot rfl
    subst this
    cases isOne <;> simp [parseQvalue, QVal.render, QVal.value]
  | true =>
    cases isOne with
    | true =>
      have hz := hone rfl
      match digits, hlen, hz with
      | [], _, _ => simp [parseQvalue, QVal.render, QVal.value]
      | [a], _, hz =>
        have : a = 0 := hz a (by simp)
        subst this
        simp [parseQvalue, QVal.render, QVal.value]
      | [a, b], _, hz =>
        have : a = 0 := hz a (by simp)
        have : b = 0 := hz b (by simp)
        subst_vars
        simp [parseQvalue, QVal.render, QVal.value]
      | [a, b, c], _, hz =>
        have : a = 0 := hz a (by simp)
        have : b = 0 := hz b (by simp)
        have : c = 0 := hz c (by simp)
        subst_vars
        simp [parseQvalue, QVal.render, QVal.value]
      | _ :: _ :: _ :: _ :: _, hl, _ => simp at hl
    | false =>
      match digits, hlen, hdig with
      | [], _, _ => simp [parseQvalue, QVal.render, QVal.value]
      | [a], _, hd =>
        have : a ≤ 9 := hd a (by simp)
        simp [parseQvalue, QVal.render, QVal.value, stripPrefix, kZeroDot, parseU16_eq, stripPlus,
          cPlus, allDigits, isDigit, digitsVal]
        rw [if_neg (by omega), if_pos (by omega)]
        simp only
        rw [if_pos (by omega)]
        try (simp; omega)
      | [a, b], _, hd =>
        have : a ≤ 9 := hd a (by simp)
        have : b ≤ 9 := hd b (by simp)
        simp [parseQvalue, QVal.render, QVal.value, stripPrefix, kZeroDot, parseU16_eq, stripPlus,
          cPlus, allDigits, isDigit, digitsVal]
        rw [if_neg (by omega), if_pos (by omega)]
        simp only
        rw [if_pos (by omega)]
        try (simp; omega)
      | [a, b, c], _, hd =>
        have : a ≤ 9 := hd a (by simp)
        have : b ≤ 9 := hd b (by simp)
        have : c ≤ 9 := hd c (by simp)
        simp [parseQvalue, QVal.render, QVal.value, stripPrefix, kZeroDot, parseU16_eq, stripPlus,
          cPlus, allDigits, isDigit, digitsVal]
        rw [if_neg (by omega), if_pos (by omega)]
        simp only
        rw [if_pos (by omega)]
        try (simp; omega)
      | _ :: _ :: _ :: _ :: _, hl, _ => simp at hl

/-! ### `split`, `split_once`, `trim` on renderings -/

theorem splitOnce_none (x : Nat) (s : Bytes) (h : ∀ c ∈ s, c ≠ x) : splitOnce x s = none := by
  induction s with
  | nil => rfl
  | cons c s ih =>
    have hc : c ≠ x := h c (by simp)
    have := ih (fun d hd => h d (by simp [hd]))
    simp [splitOnce, hc, this]

theorem ae_splitOnce_append (x : Nat) (a b : Bytes) (h : ∀ c ∈ a, c ≠ x) :
    splitOnce x (a ++ x :: b) = some (a, b) := by
  induction a with
  | nil => simp [splitOnce]
  | cons c a ih =>
    have hc : c ≠ x := h c (by simp)
    have := ih (fun d hd => h d (by simp [hd]))
    simp [splitOnce, hc, this]

theorem splitOn_noSep (x : Nat) (s : Bytes) (h : ∀ c ∈ s, c ≠ x) : splitOn x s = [s] := by
  induction s with
  | nil => rfl
  | cons c s ih =>
    have hc : c ≠ x := h c (by simp)
    have := ih (fun d hd => h d (by simp [hd]))
    simp [splitOn, hc, this]

theorem splitOn_append (x : Nat) (a b : Bytes) (h : ∀ c ∈ a, c ≠ x) :
    splitOn x (a ++ x :: b) = a :: splitOn x b := by
  induction a with
  | nil => simp [splitOn]
  | cons c a ih =>
    have hc : c ≠ x := h c (by simp)
    have := ih (fun d hd => h d (by simp [hd]))
    simp [splitOn, hc, this]

theorem dropWhile_all_pos (p : Nat → Bool) (a s : Bytes) (h : ∀ c ∈ a, p c = true) :
    (a ++ s).dropWhile p = s.dropWhile p := by
  induction a with
  | nil => rfl
  | cons c a ih =>
    have hc := h c (by simp)
    simp [hc, ih (fun d hd => h d (by simp [hd]))]

theorem dropWhile_all_neg (p : Nat → Bool) (s : Bytes) (h : ∀ c ∈ s, p c = false) :
    s.dropWhile p = s := by
  cases s with
  | nil => rfl
  | cons c s => simp [h c (by simp)]

theorem dropWhile_all_neg_append (p : Nat → Bool) (s b : Bytes) (h : ∀ c ∈ s, p c = false)
    (hb : ∀ c ∈ b, p c = true) :
    (s ++ b).dropWhile p = if s = [] then [] else s ++ b := by
  cases s with
  | nil =>
    have := dropWhile_all_pos p b [] hb
    simpa using this
  | cons c s => simp [h c (by simp)]

theorem trimOws_wrap (a s b : Bytes) (ha : ∀ c ∈ a, isOws c = true)
    (hb : ∀ c ∈ b, isOws c = true) (hs : ∀ c ∈ s, isOws c = false) :
    trimOws (a ++ s ++ b) = s := by
  unfold trimOws trimStartOws trimEndOws
  rw [List.append_assoc, dropWhile_all_pos _ _ _ ha, dropWhile_all_neg_append _ _ _ hs hb]
  by_cases he : s = []
  · simp [he]
  · rw [if_neg he, List.reverse_append, dropWhile_all_pos _ _ _ (by simpa using hb),
      dropWhile_all_neg _ _ (by simpa using hs)]
    simp

/-! ### Bytes of a rendering -/

theorem qrender_chars (q : QVal) (h : q.wf) : ∀ c ∈ q.render, c = 46 ∨ (48 ≤ c ∧ c ≤ 57) := by
  obtain ⟨_, hd, _, _⟩ := h
  intro c hc
  simp only [QVal.render, List.mem_append, List.mem_singleton] at hc
  rcases hc with hc | hc
  · split at hc <;> omega
  · split at hc
    · simp only [List.mem_append, List.mem_singleton, List.mem_map] at hc
      rcases hc with hc | ⟨d, hd', rfl⟩
      · exact Or.inl hc
      · have := hd d hd'
        omega
    · simp at hc

theorem isOwsStr_isOws {s : Bytes} (h : isOwsStr s) : ∀ c ∈ s, isOws c = true := by
  intro c hc
  rcases h c hc with rfl | rfl <;> rfl

/-- The weight part of an element rendering. -/
def AeElem.weightRender (e : AeElem) : Bytes :=
  match e.weight with
  | none => []
  | some q => e.owsBeforeSemi ++ [59] ++ e.owsAfterSemi ++ [113, 61] ++ q.render

theorem render_eq (e : AeElem) :
    e.render = e.owsBefore ++ e.coding ++ e.weightRender ++ e.owsAfter := rfl

/-- Every byte of a well-formed element rendering is visible ASCII or HTAB and is not a comma. -/
theorem render_chars (e : AeElem) (h : e.wf) :
    ∀ c ∈ e.render, c ≠ 44 ∧ isVisibleAscii c = true := by
  obtain ⟨hcod, hb, ha, hbs, has, hq, _⟩ := h
  have ows : ∀ s : Bytes, isOwsStr s → ∀ c ∈ s, c ≠ 44 ∧ isVisibleAscii c = true := by
    intro s hs c hc
    rcases hs c hc with rfl | rfl <;> simp [isVisibleAscii]
  intro c hc
  simp only [render_eq, List.mem_append] at hc
  rcases hc with ((hc | hc) | hc) | hc
  · exact ows _ hb c hc
  · have := hcod c hc
    refine ⟨this.1, ?_⟩
    simp [isVisibleAscii]; omega
  · unfold AeElem.weightRender at hc
    split at hc
    · simp at hc
    · rename_i q hw
      simp only [List.mem_append, List.mem_cons, List.not_mem_nil, or_false] at hc
      rcases hc with (((hc | hc) | hc) | hc) | hc
      · exact ows _ hbs c hc
      · subst hc; simp [isVisibleAscii]
      · exact ows _ has c hc
      · rcases hc with rfl | rfl <;> simp [isVisibleAscii]
      · have := qrender_chars q (hq q hw) c hc
        simp [isVisibleAscii]; omega
  · exact ows _ ha c hc

/-! ### One list element -/

/-- The quality an element gives its coding: 1000 without weight. -/
def AeElem.quality (e : AeElem) : Nat :=
  match e.weight with
  | none => 1000
  | some q => q.value

/-- The state update of one loop iteration, given the parsed coding and quality. -/
def QState.upd (st : QState) (coding : Bytes) (quality : Nat) : QState :=
  if coding == kGzip then { st with gzip := some quality }
  else if coding == kIdentity then { st with identity := some quality }
  else if coding == [cStar] then { st with star := some quality }
  else st

theorem gzipStep_noSemi (st : QState) (qi : Bytes) (h : splitOnce cSemi qi = none) :
    gzipStep st qi = .ok (some (st.upd (trimOws qi) 1000)) := by
  simp only [gzipStep, h, QState.upd]
  repeat (first | rfl | split)

theorem gzipStep_semi (st : QState) (qi c q qv : Bytes) (quality : Nat)
    (h1 : splitOnce cSemi qi = some (c, q)) (h2 : stripPrefix kQEq (trimOws q) = some qv)
    (h3 : parseQvalue qv = .ok (some quality)) :
    gzipStep st qi = .ok (some (st.upd (trimOws c) quality)) := by
  simp only [gzipStep, h1, h2, h3, QState.upd]
  repeat (first | rfl | split)

theorem stripPrefix_kQEq (s : Bytes) : stripPrefix kQEq (113 :: 61 :: s) = some s := by
  simp [stripPrefix, kQEq]

theorem gzipStep_render (st : QState) (e : AeElem) (h : e.wf) :
    gzipStep st e.render = .ok (some (st.upd e.coding e.quality)) := by
  obtain ⟨hcod, hb, ha, hbs, has, hq, hn⟩ := h
  have hcodOws : ∀ c ∈ e.coding, isOws c = false := by
    intro c hc
    have := hcod c hc
    simp [isOws]; omega
  have owsSemi : ∀ s : Bytes, isOwsStr s → ∀ c ∈ s, c ≠ cSemi := by
    intro s hs c hc
    rcases hs c hc with rfl | rfl <;> simp [cSemi]
  cases hw : e.weight with
  | none =>
    have hr : e.render = e.owsBefore ++ e.coding ++ e.owsAfter := by
      simp [render_eq, AeElem.weightRender, hw]
    have hns : splitOnce cSemi e.render = none := by
      apply splitOnce_none
      intro c hc
      rw [hr] at hc
      simp only [List.mem_append] at hc
      rcases hc with (hc | hc) | hc
      · exact owsSemi _ hb c hc
      · exact (hcod c hc).2.1
      · exact owsSemi _ ha c hc
    rw [gzipStep_noSemi _ _ hns, hr,
      trimOws_wrap _ _ _ (isOwsStr_isOws hb) (isOwsStr_isOws ha) hcodOws]
    simp [AeElem.quality, hw]
  | some q =>
    have hqw := hq q hw
    have hr : e.render = (e.owsBefore ++ e.coding ++ e.owsBeforeSemi) ++
        cSemi :: (e.owsAfterSemi ++ (113 :: 61 :: q.render) ++ e.owsAfter) := by
      simp [render_eq, AeElem.weightRender, hw, cSemi]
    have hs : splitOnce cSemi e.render = some (e.owsBefore ++ e.coding ++ e.owsBeforeSemi,
        e.owsAfterSemi ++ (113 :: 61 :: q.render) ++ e.owsAfter) := by
      rw [hr]
      apply ae_splitOnce_append
      intro c hc
      simp only [List.mem_append] at hc
      rcases hc with (hc | hc) | hc
      · exact owsSemi _ hb c hc
      · exact (hcod c hc).2.1
      · exact owsSemi _ hbs c hc
    have hqOws : ∀ c ∈ (113 :: 61 :: q.render), isOws c = false := by
      intro c hc
      simp only [List.mem_cons] at hc
      rcases hc with rfl | rfl | hc
      · rfl
      · rfl
      · have := qrender_chars q hqw c hc
        simp [isOws]; omega
    have h2 : stripPrefix kQEq (trimOws (e.owsAfterSemi ++ (113 :: 61 :: q.render) ++ e.owsAfter))
        = some q.render := by
      rw [trimOws_wrap _ _ _ (isOwsStr_isOws has) (isOwsStr_isOws ha) hqOws, stripPrefix_kQEq]
    rw [gzipStep_semi _ _ _ _ _ _ hs h2 (parseQvalue_render q hqw),
      trimOws_wrap _ _ _ (isOwsStr_isOws hb) (isOwsStr_isOws hbs) hcodOws]
    simp [AeElem.quality, hw]

/-! ### The whole list -/

theorem renderAe_cons_cons (e y : AeElem) (rest : List AeElem) :
    renderAe (e :: y :: rest) = e.render ++ cComma :: renderAe (y :: rest) := by
  simp [renderAe, cComma]

theorem splitOn_renderAe_cons (l : List AeElem) (e : AeElem) (h : ∀ x ∈ e :: l, x.wf) :
    splitOn cComma (renderAe (e :: l)) = (e :: l).map AeElem.render := by
  induction l generalizing e with
  | nil =>
    have he := render_chars e (h e (by simp))
    simpa [renderAe] using splitOn_noSep cComma e.render (fun c hc => (he c hc).1)
  | cons y rest ih =>
    have he := render_chars e (h e (by simp))
    rw [renderAe_cons_cons, splitOn_append cComma _ _ (fun c hc => (he c hc).1),
      ih y (fun x hx => h x (by simp [hx]))]
    simp

theorem toStrOk_renderAe (l : List AeElem) (h : ∀ x ∈ l, x.wf) : toStrOk (renderAe l) = true := by
  match l, h with
  | [], _ => rfl
  | e :: l, h =>
    induction l generalizing e with
    | nil =>
      have he := render_chars e (h e (by simp))
      simp only [renderAe, toStrOk, List.all_eq_true]
      exact fun c hc => (he c hc).2
    | cons y rest ih =>
      have he := render_chars e (h e (by simp))
      have := ih y (fun x hx => h x (by simp [hx]))
      rw [renderAe_cons_cons]
      simp only [toStrOk, List.all_append, List.all_cons, Bool.and_eq_true, List.all_eq_true] at this ⊢
      exact ⟨fun c hc => (he c hc).2, by simp [isVisibleAscii, cComma], this⟩

theorem gzipLoop_map_render (l : List AeElem) (h : ∀ x ∈ l, x.wf) (st : QState) :
    gzipLoop (l.map AeElem.render) st =
      .ok (some (l.foldl (fun st e => st.upd e.coding e.quality) st)) := by
  induction l generalizing st with
  | nil => rfl
  | cons e l ih =>
    simp only [List.map_cons, gzipLoop, gzipStep_render st e (h e (by simp)), List.foldl_cons]
    exact ih (fun x hx => h x (by simp [hx])) _

/-! ### The loop state is the specification's `qualityOf` -/

theorem upd_gzip (st : QState) (c : Bytes) (q : Nat) :
    (st.upd c q).gzip = if c == kGzip then some q else st.gzip := by
  unfold QState.upd
  repeat (first | rfl | split)

theorem upd_identity (st : QState) (c : Bytes) (q : Nat) :
    (st.upd c q).identity = if c == kIdentity then some q else st.identity := by
  unfold QState.upd
  by_cases h : c = kGzip
  · subst h; simp [kGzip, kIdentity]
  · simp only [beq_iff_eq, h, if_false]
    repeat (first | rfl | split)

theorem upd_star (st : QState) (c : Bytes) (q : Nat) :
    (st.upd c q).star = if c == [cStar] then some q else st.star := by
  unfold QState.upd
  by_cases h : c = kGzip
  · subst h; simp [kGzip, cStar]
  · by_cases h' : c = kIdentity
    · subst h'; simp [kGzip, kIdentity, cStar]
    · simp only [beq_iff_eq, h, h', if_false]
      repeat (first | rfl | split)

/-- Left-to-right computation of `qualityOf`, starting from `init`. -/
def qFrom (name : Bytes) (init : Option Nat) (l : List AeElem) : Option Nat :=
  l.foldl (fun acc e => if e.coding == name then some e.quality else acc) init

theorem qualityOf_cons (name : Bytes) (e : AeElem) (l : List AeElem) :
    qualityOf name (e :: l) =
      (qualityOf name l).or (if e.coding == name then some e.quality else none) := by
  unfold qualityOf
  rw [List.reverse_cons, List.find?_append]
  cases l.reverse.find? (fun e => e.coding == name) with
  | some x => simp
  | none =>
    by_cases h : e.coding = name
    · simp [h, AeElem.quality]; rfl
    · simp [h]

theorem qFrom_eq (name : Bytes) (l : List AeElem) (init : Option Nat) :
    qFrom name init l = (qualityOf name l).or init := by
  induction l generalizing init with
  | nil => simp [qFrom, qualityOf]
  | cons e l ih =>
    have := ih (if e.coding == name then some e.quality else init)
    unfold qFrom at this ⊢
    rw [List.foldl_cons, this, qualityOf_cons]
    cases qualityOf name l with
    | some x => simp
    | none => by_cases h : e.coding = name <;> simp [h]

theorem foldl_upd (l : List AeElem) (st : QState) :
    l.foldl (fun st e => st.upd e.coding e.quality) st =
      { gzip := qFrom kGzip st.gzip l, identity := qFrom kIdentity st.identity l,
        star := qFrom [cStar] st.star l } := by
  induction l generalizing st with
  | nil => rfl
  | cons e l ih =>
    rw [List.foldl_cons, ih, upd_gzip, upd_identity, upd_star]
    rfl

theorem gzipLoop_render (l : List AeElem) (h : ∀ x ∈ l, x.wf) :
    gzipLoop (l.map AeElem.render) {} =
      .ok (some { gzip := qualityOf kGzip l, identity := qualityOf kIdentity l,
                  star := qualityOf [cStar] l }) := by
  rw [gzipLoop_map_render l h, foldl_upd]
  simp [qFrom_eq]

theorem decide_aux (a b c : Option Nat) :
    QState.decide { gzip := a, identity := b, star := c } =
      ((match a.or c with | none => 0 | some 0 => 0 | some q => 1 + q) != 0 &&
        decide ((match a.or c with | none => 0 | some 0 => 0 | some q => 1 + q) ≥
          (match b.or c with | none => 1 | some 0 => 0 | some q => 1 + q))) := by
  unfold QState.decide
  rcases a with _ | (_ | a) <;> rcases b with _ | (_ | b) <;> rcases c with _ | (_ | c) <;>
    simp <;> omega

theorem decide_spec (l : List AeElem) :
    QState.decide { gzip := qualityOf kGzip l, identity := qualityOf kIdentity l,
                    star := qualityOf [cStar] l } = specGzip l := by
  rw [decide_aux]
  rfl

/-! ### `should_gzip` -/

theorem gzipStep_total (st : QState) (qi : Bytes) : gzipStep st qi ≠ .panic := by
  cases h1 : splitOnce cSemi qi with
  | none => rw [gzipStep_noSemi _ _ h1]; simp
  | some cq =>
    obtain ⟨c, q⟩ := cq
    cases h2 : stripPrefix kQEq (trimOws q) with
    | none => simp [gzipStep, h1, h2]
    | some qv =>
      have := parseQvalue_total qv
      cases h3 : parseQvalue qv with
      | panic => exact absurd h3 this
      | ok o =>
        cases o with
        | none => simp [gzipStep, h1, h2, h3]
        | some quality => rw [gzipStep_semi _ _ _ _ _ _ h1 h2 h3]; simp

theorem gzipLoop_total (l : List Bytes) (st : QState) : gzipLoop l st ≠ .panic := by
  induction l generalizing st with
  | nil => simp [gzipLoop]
  | cons qi rest ih =>
    unfold gzipLoop
    have := gzipStep_total st qi
    cases h : gzipStep st qi with
    | panic => exact absurd h this
    | ok o =>
      cases o with
      | none => simp
      | some st' => exact ih st'

/-- No Accept-Encoding value makes `should_gzip` panic. -/
theorem shouldGzip_total (ae : Option Bytes) : shouldGzip ae ≠ .panic := by
  unfold shouldGzip
  cases ae with
  | none => simp
  | some v =>
    simp only
    split
    · simp
    · have := gzipLoop_total (splitOn cComma v) {}
      cases h : gzipLoop (splitOn cComma v) {} with
      | panic => exact absurd h this
      | ok o => cases o <;> simp

/-- For every grammatical Accept-Encoding value (any number of elements, any optional
whitespace, any codings) the decision is exactly the RFC's preference rule. -/
theorem shouldGzip_render (l : List AeElem) (h : ∀ e ∈ l, e.wf) :
    shouldGzip (some (renderAe l)) = .ok (specGzip l) := by
  cases l with
  | nil => rfl
  | cons e l =>
    unfold shouldGzip
    simp only [toStrOk_renderAe _ h, splitOn_renderAe_cons l e h, gzipLoop_render _ h,
      decide_spec]
    rfl
