/-
Small arithmetic helpers used by the theorem files.
-/
import HttpServeModel.Model.Bytes

namespace HS

theorem sum_sizes_le_est (rs : List (Nat × Nat)) :
    (rs.map fun x => x.2 - x.1).sum ≤ (rs.map fun x => 80 + (x.2 - x.1)).sum := by
  induction rs with
  | nil => simp
  | cons r rs ih => simp only [List.map_cons, List.sum_cons]; omega


end HS
