import HttpServeModel.Model.Body
import HttpServeModel.Spec.Rfc7232
import HttpServeModel.Lemmas.EtagList
import HttpServeModel.Lemmas.RangeParse
namespace HS

def Resp.header' (r : Resp) (n : HName) : Option HVal := r.headers.lookup n

def dateOf : Option Nat → DateHdr
  | none => .absent
  | some s => .secs s

end HS

namespace HS.CondLemmas

/-! ### Bridge: `parseModifiedHdrs` on rendered headers is the RFC 7232 rule -/

theorem isSome_render (im : TagHdr) :
    im.render.isSome = (match im with | .absent => false | _ => true) := by
  cases im <;> rfl

theorem precondFailed_render (etag : Option Tag) (im : TagHdr) (ius : Option Nat)
    (mtime : Option (Nat × Nat)) (h : im.wf) :
    precondFailed (etag.map Tag.render) im.render (dateOf ius) mtime =
      .ok (spec412 etag mtime im ius) := by
  unfold precondFailed
  rw [anyMatch_render etag im h]
  cases im with
  | absent =>
    cases ius <;> cases mtime <;> simp [TagHdr.render, dateOf, spec412]
  | star => simp [TagHdr.render, spec412]
  | list ts =>
    cases etag with
    | none => simp [spec412]
    | some e =>
      simp only [spec412, TagHdr.render]
      cases ts.any fun p => p.1.strongEq e <;> simp

theorem notModified_render (etag : Option Tag) (inm : TagHdr) (ims : Option Nat)
    (mtime : Option (Nat × Nat)) (h : inm.wf) :
    notModified (etag.map Tag.render) inm.render (dateOf ims) mtime =
      .ok (spec304 etag mtime inm ims) := by
  unfold notModified
  rw [noneMatch_render etag inm h]
  cases inm with
  | absent =>
    cases ims <;> cases mtime <;> simp [dateOf, spec304]
  | star => simp [spec304]
  | list ts =>
    cases etag with
    | none => simp [spec304]
    | some e =>
      simp only [spec304]
      cases ts.any fun p => p.1.weakEq e <;> simp

theorem parseModifiedHdrs_render (etag : Option Tag) (im inm : TagHdr) (ius ims : Option Nat)
    (mtime : Option (Nat × Nat)) (h1 : im.wf) (h2 : inm.wf) :
    parseModifiedHdrs (etag.map Tag.render) im.render inm.render (dateOf ius) (dateOf ims) mtime =
      .ok (spec412 etag mtime im ius, spec304 etag mtime inm ims) := by
  unfold parseModifiedHdrs
  rw [precondFailed_render _ _ _ _ h1, notModified_render _ _ _ _ h2]

theorem parseModifiedHdrs_absent (etag : Option Bytes) (mtime : Option (Nat × Nat)) :
    parseModifiedHdrs etag none none .absent .absent mtime = .ok (false, false) := by
  cases mtime <;> simp [parseModifiedHdrs, precondFailed, notModified, anyMatch, noneMatch]

/-! ### The part of `serve` after the conditional early returns -/

/-- Verbatim copy of the tail of `serve` (after the 412 / 304 returns). -/
def serveRest (q : Req) (e : Ent) (now : Nat) (rangeHdr : Option Bytes) (includeOnRange : Bool) :
    R Resp :=
  let calls0 : List EntCall := [.lastModified, .etag]
  let hdrs := commonHeaders e now
  let calls1 := calls0 ++ [.len]
  let len := e.len
  match parseRange rangeHdr len with
  | .panic => .panic
  | .ok .none => serveSimple q e 200 hdrs 0 len true calls1
  | .ok .unsat =>
    .ok { status := 416,
          headers := hdrs ++ [(.contentRange, .bytes (kBytesStar ++ dec len))],
          plan := .empty, calls := calls1 }
  | .ok (.sat [(a, b)]) => do
    let last ← subChk b 1
    let cr := kBytesSp ++ dec a ++ [cHyphen] ++ dec last ++ [cSlash] ++ dec len
    serveSimple q e 206 (hdrs ++ [(.contentRange, .bytes cr)]) a b includeOnRange calls1
  | .ok (.sat ranges) => do
    let est ← estLen ranges 0
    let small := match est with
      | some l => decide (l < len)
      | none => false
    if small then
      let eh := if includeOnRange then eachPartHeaders e.headers else []
      let calls2 := if includeOnRange then calls1 ++ [.addHeaders] else calls1
      match ← prepareMultipart ranges len eh with
      | none =>
        pure { status := 413, headers := [], plan := .once 28, calls := calls2 }
      | some (phs, total) =>
        let hdrs := hdrs ++ [(.contentLength, .bytes (dec total)),
                             (.contentType, .bytes kMultipartCT)]
        if q.method = .head then
          pure { status := 206, headers := hdrs, plan := .empty, calls := calls2 }
        else
          pure { status := 206, headers := hdrs, plan := .multipart phs ranges total,
                 calls := calls2 }
    else serveSimple q e 200 hdrs 0 len true calls1

/-- `serve` for GET/HEAD, in terms of the `parseModifiedHdrs` result and `serveRest`. -/
theorem serve_eq (q : Req) (e : Ent) (now : Nat) (hm : q.method ≠ .other) (pf nm : Bool)
    (h : parseModifiedHdrs e.etag q.ifMatch q.ifNoneMatch q.ius q.ims e.mtime = .ok (pf, nm)) :
    serve q e now =
      if pf then
        .ok { status := 412, headers := commonHeaders e now, plan := .once 19,
              calls := [.lastModified, .etag] }
      else if nm then
        .ok { status := 304, headers := commonHeaders e now, plan := .empty,
              calls := [.lastModified, .etag] }
      else serveRest q e now (if (ifRangeGate e.etag q.ifRange).1 then q.range else none)
             (ifRangeGate e.etag q.ifRange).2 := by
  unfold serve
  rw [if_neg hm]
  simp only [h]
  cases pf
  · cases nm
    · rfl
    · rfl
  · rfl

theorem serveSimple_ok {q : Req} {e : Ent} {st : Nat} {hdrs : List (HName × HVal)} {a b : Nat}
    {inc : Bool} {calls : List EntCall} {r : Resp}
    (h : serveSimple q e st hdrs a b inc calls = .ok r) :
    a ≤ b ∧ r.status = st ∧
    r.headers = hdrs ++ [(.contentLength, .bytes (dec (b - a)))] ++ (if inc then entHeaders e else []) ∧
    r.plan = (if q.method = .head then Plan.empty else Plan.exact a b) := by
  unfold serveSimple subChk at h
  by_cases hab : a ≤ b
  · simp only [hab, if_true, R.bind_ok, R.pure_eq, R.ok.injEq] at h
    subst h
    refine ⟨hab, rfl, ?_, ?_⟩
    · cases inc <;> simp
    · by_cases hh : q.method = .head <;> simp [hh]
  · simp [hab] at h

/-- The `small` test of the multi-range branch. -/
def smallOf (est : Option Nat) (len : Nat) : Bool :=
  match est with
  | some l => decide (l < len)
  | none => false

/-- The multi-range branch was taken with the given `small` flag. -/
def Multi (rh : Option Bytes) (len : Nat) (rs : List (Nat × Nat)) (small : Bool) : Prop :=
  parseRange rh len = .ok (.sat rs) ∧ (∀ a b, rs = [(a, b)] → False) ∧
    ∃ est, estLen rs 0 = .ok est ∧ smallOf est len = small

/-- What `serveRest` can return. -/
theorem serveRest_cases {q : Req} {e : Ent} {now : Nat} {rh : Option Bytes} {inc : Bool} {r : Resp}
    (h : serveRest q e now rh inc = .ok r) :
    (r.status = 200 ∧
      r.headers = commonHeaders e now ++ [(.contentLength, .bytes (dec (e.len - 0)))] ++ entHeaders e ∧
      r.plan = (if q.method = .head then Plan.empty else Plan.exact 0 e.len) ∧
      (parseRange rh e.len = .ok .none ∨ ∃ rs, Multi rh e.len rs false)) ∨
    (parseRange rh e.len = .ok .unsat ∧ r.status = 416 ∧
      r.headers = commonHeaders e now ++ [(.contentRange, .bytes (kBytesStar ++ dec e.len))] ∧
      r.plan = .empty) ∨
    (∃ a b, parseRange rh e.len = .ok (.sat [(a, b)]) ∧ r.status = 206 ∧
      r.headers = commonHeaders e now ++
        [(.contentRange, .bytes (kBytesSp ++ dec a ++ [cHyphen] ++ dec (b - 1) ++ [cSlash] ++ dec e.len))] ++
        [(.contentLength, .bytes (dec (b - a)))] ++ (if inc then entHeaders e else []) ∧
      r.plan = (if q.method = .head then Plan.empty else Plan.exact a b)) ∨
    ((∃ rs, Multi rh e.len rs true ∧
        prepareMultipart rs e.len (if inc then eachPartHeaders e.headers else []) = .ok none) ∧
      r.status = 413 ∧ r.headers = []) ∨
    (∃ rs phs total, Multi rh e.len rs true ∧
      prepareMultipart rs e.len (if inc then eachPartHeaders e.headers else []) = .ok (some (phs, total)) ∧
      r.status = 206 ∧
      r.headers = commonHeaders e now ++ [(.contentLength, .bytes (dec total)),
                                          (.contentType, .bytes kMultipartCT)] ∧
      r.plan = (if q.method = .head then Plan.empty else Plan.multipart phs rs total)) := by
  unfold serveRest at h
  simp only at h
  split at h
  · simp at h
  · rename_i hp
    obtain ⟨_, h1, h2, h3⟩ := serveSimple_ok h
    exact .inl ⟨h1, by simpa using h2, h3, .inl hp⟩
  · rename_i hp
    simp only [R.ok.injEq] at h
    subst h
    exact .inr (.inl ⟨hp, rfl, rfl, rfl⟩)
  · rename_i a b hp
    unfold subChk at h
    by_cases hb : 1 ≤ b
    · simp only [hb, if_true, R.bind_ok] at h
      obtain ⟨_, h1, h2, h3⟩ := serveSimple_ok h
      exact .inr (.inr (.inl ⟨a, b, hp, h1, h2, h3⟩))
    · simp [hb] at h
  · rename_i rs hne hp
    cases hest : estLen rs 0 with
    | panic => simp [hest] at h
    | ok est =>
      simp only [hest, R.bind_ok] at h
      change (if smallOf est e.len = true then _ else _) = _ at h
      generalize hsm : smallOf est e.len = small at h
      revert h
      refine (?_ : _ → _)
      · intro h
        cases small
        · simp only [Bool.false_eq_true, if_false] at h
          obtain ⟨_, h1, h2, h3⟩ := serveSimple_ok h
          exact Or.inl ⟨h1, by simpa using h2, h3, .inr ⟨rs, hp, hne, est, hest, hsm⟩⟩
        · have hmulti : Multi rh e.len rs true := ⟨hp, hne, est, hest, hsm⟩
          simp only [if_true] at h
          cases hpm : prepareMultipart rs e.len (if inc then eachPartHeaders e.headers else []) with
          | panic => simp [hpm] at h
          | ok o =>
            simp only [hpm, R.bind_ok] at h
            cases o with
            | none =>
              simp only [R.pure_eq, R.ok.injEq] at h
              subst h
              exact .inr (.inr (.inr (.inl ⟨⟨rs, hmulti, hpm⟩, rfl, rfl⟩)))
            | some pt =>
              obtain ⟨phs, total⟩ := pt
              simp only at h
              refine .inr (.inr (.inr (.inr ⟨rs, phs, total, hmulti, hpm, ?_⟩)))
              by_cases hh : q.method = .head
              · simp only [hh, if_true, R.pure_eq, R.ok.injEq] at h
                subst h
                simp [hh]
              · simp only [hh, if_false, R.pure_eq, R.ok.injEq] at h
                subst h
                simp [hh]

theorem serveRest_congr (q q' : Req) (e : Ent) (now : Nat) (rh : Option Bytes) (inc : Bool)
    (h : q.method = q'.method) : serveRest q e now rh inc = serveRest q' e now rh inc := by
  unfold serveRest serveSimple
  simp only [h]

/-- Case analysis of a successful `serve`. -/
theorem serve_cases {q : Req} {e : Ent} {now : Nat} {r : Resp} (h : serve q e now = .ok r) :
    (q.method = .other ∧ r.status = 405) ∨
    (q.method ≠ .other ∧ r.status = 400 ∧
      ∃ err, parseModifiedHdrs e.etag q.ifMatch q.ifNoneMatch q.ius q.ims e.mtime = .error err) ∨
    (∃ pf nm, q.method ≠ .other ∧
      parseModifiedHdrs e.etag q.ifMatch q.ifNoneMatch q.ius q.ims e.mtime = .ok (pf, nm) ∧
      ((pf = true ∧ r.status = 412 ∧ r.headers = commonHeaders e now) ∨
       (pf = false ∧ nm = true ∧ r.status = 304 ∧ r.headers = commonHeaders e now) ∨
       (pf = false ∧ nm = false ∧
        serveRest q e now (if (ifRangeGate e.etag q.ifRange).1 then q.range else none)
          (ifRangeGate e.etag q.ifRange).2 = .ok r))) := by
  by_cases hm : q.method = .other
  · unfold serve at h
    simp only [hm, if_true, R.ok.injEq] at h
    subst h
    exact .inl ⟨hm, rfl⟩
  · cases hp : parseModifiedHdrs e.etag q.ifMatch q.ifNoneMatch q.ius q.ims e.mtime with
    | error err =>
      unfold serve at h
      simp only [hm, if_false, hp, R.ok.injEq] at h
      subst h
      exact .inr (.inl ⟨hm, rfl, err, rfl⟩)
    | ok pn =>
      obtain ⟨pf, nm⟩ := pn
      rw [serve_eq q e now hm pf nm hp] at h
      refine .inr (.inr ⟨pf, nm, hm, rfl, ?_⟩)
      cases pf
      · cases nm
        · exact .inr (.inr ⟨rfl, rfl, by simpa using h⟩)
        · simp only [Bool.false_eq_true, if_false, if_true, R.ok.injEq] at h
          subst h
          exact .inr (.inl ⟨rfl, rfl, rfl, rfl⟩)
      · simp only [if_true, R.ok.injEq] at h
        subst h
        exact .inl ⟨rfl, rfl, rfl⟩

/-! ### Header lookups -/

/-- Header names added after the common block. -/
def Extra (x : List (HName × HVal)) : Prop :=
  ∀ p ∈ x, p.1 = .contentRange ∨ p.1 = .contentLength ∨ p.1 = .contentType ∨ ∃ k, p.1 = .ent k

theorem extra_entHeaders (e : Ent) : Extra (entHeaders e) := by
  intro p hp
  simp only [entHeaders, List.mem_map] at hp
  obtain ⟨kv, _, rfl⟩ := hp
  exact .inr (.inr (.inr ⟨kv.1, rfl⟩))

theorem extra_append {x y : List (HName × HVal)} (hx : Extra x) (hy : Extra y) : Extra (x ++ y) := by
  intro p hp
  rcases List.mem_append.1 hp with h | h
  · exact hx p h
  · exact hy p h

theorem lookup_extra {x : List (HName × HVal)} (hx : Extra x) (k : HName)
    (hk : k = .acceptRanges ∨ k = .date ∨ k = .lastModified ∨ k = .etag) :
    x.lookup k = none := by
  rw [List.lookup_eq_none_iff]
  intro p hp
  rcases hx p hp with h | h | h | ⟨n, h⟩ <;> rcases hk with rfl | rfl | rfl | rfl <;> simp [h]

theorem common_lookup (e : Ent) (now : Nat) (x : List (HName × HVal)) (hx : Extra x) :
    (commonHeaders e now ++ x).lookup .acceptRanges = some (.bytes kBytes) ∧
    (commonHeaders e now ++ x).lookup .etag = e.etag.map HVal.bytes ∧
    (∀ m, e.mtime = some m →
       (commonHeaders e now ++ x).lookup .date = some (.httpDate now) ∧
       (commonHeaders e now ++ x).lookup .lastModified = some (.httpDate (min m.1 now))) ∧
    (e.mtime = none → (commonHeaders e now ++ x).lookup .date = none ∧
       (commonHeaders e now ++ x).lookup .lastModified = none) := by
  have h2 := lookup_extra hx .date (by simp)
  have h3 := lookup_extra hx .lastModified (by simp)
  have h4 := lookup_extra hx .etag (by simp)
  refine ⟨?_, ?_, ?_, ?_⟩
  · simp [commonHeaders]
  · rw [List.lookup_append, h4]
    cases hm : e.mtime <;> cases he : e.etag <;> simp [commonHeaders, List.lookup, hm, he, beq_false_of_ne]
  · intro m hm
    rw [List.lookup_append, List.lookup_append, h2, h3]
    cases he : e.etag <;> simp [commonHeaders, List.lookup, hm, he, beq_false_of_ne]
  · intro hm
    rw [List.lookup_append, List.lookup_append, h2, h3]
    cases he : e.etag <;> simp [commonHeaders, List.lookup, hm, he, beq_false_of_ne]

end HS.CondLemmas

namespace HS
open HS.CondLemmas

/-! ### C04 -/

set_option linter.unusedVariables false in
/-- C04: with well-formed validators the status is 412 exactly when the RFC 7232 rule says so,
304 exactly when it says so (and 412 does not apply), and never 400. -/
theorem cond_status (etag : Option Tag) (im inm : TagHdr) (ius ims : Option Nat)
    (q : Req) (e : Ent) (now : Nat) (r : Resp)
    (hwf : im.wf ∧ inm.wf) (hm : q.method ≠ .other)
    (hq : q.ifMatch = im.render ∧ q.ifNoneMatch = inm.render ∧ q.ius = dateOf ius ∧ q.ims = dateOf ims)
    (he : e.etag = etag.map Tag.render) (hlen : e.len < U64) (h : serve q e now = .ok r) :
    (r.status = 412 ↔ spec412 etag e.mtime im ius = true) ∧
    (r.status = 304 ↔ (spec412 etag e.mtime im ius = false ∧ spec304 etag e.mtime inm ims = true)) ∧
    r.status ≠ 400 := by
  have hb := parseModifiedHdrs_render etag im inm ius ims e.mtime hwf.1 hwf.2
  rw [← he, ← hq.1, ← hq.2.1, ← hq.2.2.1, ← hq.2.2.2] at hb
  rcases serve_cases h with ⟨h1, _⟩ | ⟨_, _, err, h2⟩ | ⟨pf, nm, _, hp, h3⟩
  · exact absurd h1 hm
  · rw [hb] at h2; cases h2
  · rw [hb] at hp
    simp only [Except.ok.injEq, Prod.mk.injEq] at hp
    obtain ⟨rfl, rfl⟩ := hp
    rcases h3 with ⟨hpf, hs, _⟩ | ⟨hpf, hnm, hs, _⟩ | ⟨hpf, hnm, hr⟩
    · simp [hpf, hs]
    · simp [hpf, hnm, hs]
    · have hst : r.status = 200 ∨ r.status = 416 ∨ r.status = 206 ∨ r.status = 413 := by
        rcases serveRest_cases hr with ⟨h, _⟩ | ⟨_, h, _⟩ | ⟨_, _, _, h, _⟩ | ⟨_, h, _⟩ | ⟨_, _, _, _, _, h, _⟩ <;>
          simp [h]
      rw [hpf, hnm]
      rcases hst with h | h | h | h <;> simp [h]

/-- C04: "otherwise processing continues to range selection" — when neither rule fires, the
response is exactly the response to the same request without the four conditional headers. -/
theorem cond_pass_through (etag : Option Tag) (im inm : TagHdr) (ius ims : Option Nat)
    (q : Req) (e : Ent) (now : Nat)
    (hwf : im.wf ∧ inm.wf) (hm : q.method ≠ .other)
    (hq : q.ifMatch = im.render ∧ q.ifNoneMatch = inm.render ∧ q.ius = dateOf ius ∧ q.ims = dateOf ims)
    (he : e.etag = etag.map Tag.render)
    (h412 : spec412 etag e.mtime im ius = false) (h304 : spec304 etag e.mtime inm ims = false) :
    serve q e now =
      serve { q with ifMatch := none, ifNoneMatch := none, ius := .absent, ims := .absent } e now := by
  have hb := parseModifiedHdrs_render etag im inm ius ims e.mtime hwf.1 hwf.2
  rw [← he, ← hq.1, ← hq.2.1, ← hq.2.2.1, ← hq.2.2.2, h412, h304] at hb
  rw [serve_eq q e now hm false false hb,
    serve_eq { q with ifMatch := none, ifNoneMatch := none, ius := .absent, ims := .absent } e now hm
      false false (parseModifiedHdrs_absent _ _)]
  simp only [Bool.false_eq_true, if_false]
  exact serveRest_congr _ _ _ _ _ _ rfl

/-- C04: sub-second modification times are compared truncated to the second. -/
theorem cond_subsecond_truncated (etag : Option Tag) (im inm : TagHdr) (ius ims : Option Nat)
    (secs n1 n2 : Nat) :
    spec412 etag (some (secs, n1)) im ius = spec412 etag (some (secs, n2)) im ius ∧
    spec304 etag (some (secs, n1)) inm ims = spec304 etag (some (secs, n2)) inm ims := by
  constructor
  · cases im <;> cases ius <;> rfl
  · cases inm <;> cases ims <;> rfl

/-- Non-vacuity of `cond_status`: a weak entity tag containing ", ", a two-element
If-None-Match list, sub-second mtime. -/
example : spec304 (some ⟨true, [97, 44, 32, 98]⟩) (some (784111777, 500000000))
    (.list [(⟨false, [120]⟩, [32]), (⟨true, [97, 44, 32, 98]⟩, [])]) none = true := by decide

end HS

namespace HS.CondLemmas

/-! ### The If-Range gate -/

theorem strongEq_true {a b : Bytes} (h : strongEq a b = true) : a = b ∧ startsWith kWeak a = false := by
  simpa [strongEq] using h

theorem gate_cases (etag : Option Bytes) (v : Bytes) :
    (ifRangeGate etag (some v) = (true, false) ∧ etag = some v ∧ startsWith kWeak v = false) ∨
    ifRangeGate etag (some v) = (false, true) := by
  unfold ifRangeGate
  simp only
  split
  · cases etag with
    | none => exact .inr rfl
    | some e' =>
      simp only
      by_cases hs : strongEq v e' = true
      · obtain ⟨rfl, h2⟩ := strongEq_true hs
        exact .inl ⟨by simp [hs], rfl, h2⟩
      · exact .inr (by simp [hs])
  · exact .inr rfl

theorem gate_match (v : Bytes) (hs : startsWith kWeak v = false) (hq : startsWith [34] v = true) :
    ifRangeGate (some v) (some v) = (true, false) := by
  simp [ifRangeGate, cQuote, hq, strongEq, hs]

theorem serveRest_none_status {q : Req} {e : Ent} {now : Nat} {inc : Bool} {r : Resp}
    (h : serveRest q e now none inc = .ok r) : r.status = 200 := by
  have hp : parseRange none e.len = .ok .none := rfl
  rcases serveRest_cases h with ⟨h, _⟩ | ⟨h, _⟩ | ⟨_, _, h, _⟩ | ⟨⟨_, ⟨h, _⟩, _⟩, _⟩ | ⟨_, _, _, ⟨h, _⟩, _⟩
  · exact h
  · rw [hp] at h; cases h
  · rw [hp] at h; cases h
  · rw [hp] at h; cases h
  · rw [hp] at h; cases h

end HS.CondLemmas

namespace HS
open HS.CondLemmas

/-! ### C05 -/

/-- C05: partial content (206 or 416) in answer to a request with If-Range only if the If-Range
value is byte-identical to the entity's ETag and that tag is strong. -/
theorem ifrange_partial_only_identical_strong (q : Req) (e : Ent) (now : Nat) (r : Resp) (v : Bytes)
    (hv : q.ifRange = some v) (h : serve q e now = .ok r) (hs : r.status = 206 ∨ r.status = 416) :
    e.etag = some v ∧ startsWith kWeak v = false := by
  rcases serve_cases h with ⟨_, h1⟩ | ⟨_, h1, _⟩ | ⟨pf, nm, _, _, h3⟩
  · rw [h1] at hs; simp at hs
  · rw [h1] at hs; simp at hs
  · rcases h3 with ⟨_, h1, _⟩ | ⟨_, _, h1, _⟩ | ⟨_, _, hr⟩
    · rw [h1] at hs; simp at hs
    · rw [h1] at hs; simp at hs
    · rw [hv] at hr
      rcases gate_cases e.etag v with ⟨_, h1, h2⟩ | hg
      · exact ⟨h1, h2⟩
      · rw [hg] at hr
        have := serveRest_none_status hr
        rw [this] at hs; simp at hs

/-- C05: for every other If-Range value — weak on either side, different bytes, no ETag, a date,
garbage — the response is exactly the one to the same request with neither Range nor If-Range:
the complete representation, with the entity's headers, without Content-Range. -/
theorem ifrange_mismatch_ignores_range (q : Req) (e : Ent) (now : Nat) (v : Bytes)
    (hv : q.ifRange = some v) (hne : ¬ (e.etag = some v ∧ startsWith kWeak v = false)) :
    serve q e now = serve { q with range := none, ifRange := none } e now := by
  have hg : ifRangeGate e.etag q.ifRange = (false, true) := by
    rw [hv]
    rcases gate_cases e.etag v with ⟨_, h1, h2⟩ | hg
    · exact absurd ⟨h1, h2⟩ hne
    · exact hg
  by_cases hm : q.method = .other
  · unfold serve
    simp only [hm, if_true]
  · cases hp : parseModifiedHdrs e.etag q.ifMatch q.ifNoneMatch q.ius q.ims e.mtime with
    | error err =>
      unfold serve
      simp only [hm, if_false, hp]
    | ok pn =>
      obtain ⟨pf, nm⟩ := pn
      rw [serve_eq q e now hm pf nm hp,
        serve_eq { q with range := none, ifRange := none } e now hm pf nm hp, hg]
      simp only [ifRangeGate, Bool.false_eq_true, if_false, if_true]
      rw [serveRest_congr q { q with range := none, ifRange := none } e now none true rfl]

end HS

namespace HS

def Plan.ranges : Plan → List (Nat × Nat)
  | .exact a b => [(a, b)]
  | .multipart _ rs _ => rs
  | _ => []

end HS

namespace HS.CondLemmas

theorem lookup_cr_common (e : Ent) (now : Nat) :
    (commonHeaders e now).lookup .contentRange = none := by
  cases hm : e.mtime <;> cases he : e.etag <;> simp [commonHeaders, List.lookup, hm, he, beq_false_of_ne]

theorem lookup_cr_ent (e : Ent) : (entHeaders e).lookup .contentRange = none := by
  rw [List.lookup_eq_none_iff]
  intro p hp
  simp only [entHeaders, List.mem_map] at hp
  obtain ⟨kv, _, rfl⟩ := hp
  simp

theorem Multi.unique {rh : Option Bytes} {len : Nat} {rs rs' : List (Nat × Nat)} {s s' : Bool}
    (h : Multi rh len rs s) (h' : Multi rh len rs' s') : rs = rs' ∧ s = s' := by
  obtain ⟨hp, _, est, he, hs⟩ := h
  obtain ⟨hp', _, est', he', hs'⟩ := h'
  rw [hp] at hp'
  simp only [R.ok.injEq, Resolved.sat.injEq] at hp'
  subst hp'
  rw [he] at he'
  simp only [R.ok.injEq] at he'
  subst he'
  exact ⟨rfl, hs.symm.trans hs'⟩

theorem Multi.not_none {rh : Option Bytes} {len : Nat} {rs : List (Nat × Nat)} {s : Bool}
    (h : Multi rh len rs s) : parseRange rh len ≠ .ok .none := by
  rw [h.1]; simp

theorem Multi.not_unsat {rh : Option Bytes} {len : Nat} {rs : List (Nat × Nat)} {s : Bool}
    (h : Multi rh len rs s) : parseRange rh len ≠ .ok .unsat := by
  rw [h.1]; simp

theorem Multi.not_single {rh : Option Bytes} {len : Nat} {rs : List (Nat × Nat)} {s : Bool}
    (h : Multi rh len rs s) (a b : Nat) : parseRange rh len ≠ .ok (.sat [(a, b)]) := by
  rw [h.1]
  intro h'
  simp only [R.ok.injEq, Resolved.sat.injEq] at h'
  exact h.2.1 a b h'

/-! ### Dropping the entity headers from the parts cannot make the multipart length overflow -/

theorem checkedAdd2_some {acc n sz acc2 : Nat}
    (h : (checkedAdd acc n).bind (fun l => checkedAdd l sz) = some acc2) :
    acc2 = acc + n + sz ∧ acc + n + sz < U64 := by
  unfold checkedAdd at h
  by_cases h1 : acc + n < U64
  · by_cases h2 : acc + n + sz < U64
    · simp [h1, h2] at h
      exact ⟨h.symm, h2⟩
    · simp [h1, h2] at h
  · simp [h1] at h

theorem checkedAdd2_of_lt {acc n sz : Nat} (h : acc + n + sz < U64) :
    (checkedAdd acc n).bind (fun l => checkedAdd l sz) = some (acc + n + sz) := by
  unfold checkedAdd
  have h1 : acc + n < U64 := by omega
  simp [h1, h]

theorem partHeader_nil {a b len : Nat} {eh ph : Bytes} (h : partHeader a b len eh = .ok ph) :
    ∃ ph', partHeader a b len [] = .ok ph' ∧ ph'.length ≤ ph.length := by
  unfold partHeader subChk at h ⊢
  by_cases hb : 1 ≤ b
  · simp only [hb, if_true, R.bind_ok, R.pure_eq, R.ok.injEq] at h ⊢
    refine ⟨_, rfl, ?_⟩
    rw [← h]
    simp only [List.length_append, List.length_nil]
    omega
  · simp [hb] at h

theorem prepareParts_mono (len : Nat) (eh : Bytes) (rs : List (Nat × Nat)) :
    ∀ (acc acc' : Nat) (phs : List Bytes) (total : Nat), acc' ≤ acc →
      prepareParts len eh rs acc = .ok (some (phs, total)) →
      ∃ phs' total', prepareParts len [] rs acc' = .ok (some (phs', total')) ∧ total' ≤ total := by
  induction rs with
  | nil =>
    intro acc acc' phs total hle h
    simp only [prepareParts, R.ok.injEq, Option.some.injEq, Prod.mk.injEq] at h
    exact ⟨[], acc', rfl, by omega⟩
  | cons p rest ih =>
    obtain ⟨a, b⟩ := p
    intro acc acc' phs total hle h
    unfold prepareParts at h ⊢
    cases hph : partHeader a b len eh with
    | panic => simp [hph] at h
    | ok ph0 =>
      obtain ⟨ph0', hph', hlen⟩ := partHeader_nil hph
      simp only [hph, hph', R.bind_ok] at h ⊢
      cases hsz : subChk b a with
      | panic => simp [hsz] at h
      | ok sz =>
        simp only [hsz, R.bind_ok] at h ⊢
        cases hacc : (checkedAdd acc ph0.length).bind (fun l => checkedAdd l sz) with
        | none => simp [hacc] at h
        | some acc2 =>
          obtain ⟨rfl, hlt⟩ := checkedAdd2_some hacc
          have hlt' : acc' + ph0'.length + sz < U64 := by omega
          simp only [hacc, checkedAdd2_of_lt hlt'] at h ⊢
          cases hrest : prepareParts len eh rest (acc + ph0.length + sz) with
          | panic => simp [hrest] at h
          | ok o =>
            simp only [hrest, R.bind_ok] at h
            cases o with
            | none => simp at h
            | some pt =>
              obtain ⟨phs1, total1⟩ := pt
              simp only [R.pure_eq, R.ok.injEq, Option.some.injEq, Prod.mk.injEq] at h
              obtain ⟨phs2, total2, h2, hle2⟩ :=
                ih (acc + ph0.length + sz) (acc' + ph0'.length + sz) phs1 total1 (by omega) hrest
              simp only [h2, R.bind_ok, R.pure_eq]
              exact ⟨_, _, rfl, by omega⟩

theorem prepareMultipart_nil {len : Nat} {eh : Bytes} {rs : List (Nat × Nat)} {phs : List Bytes}
    {total : Nat} (h : prepareMultipart rs len eh = .ok (some (phs, total))) :
    ∃ phs' total', prepareMultipart rs len [] = .ok (some (phs', total')) := by
  unfold prepareMultipart at h ⊢
  cases hp : prepareParts len eh rs 0 with
  | panic => simp [hp] at h
  | ok o =>
    simp only [hp, R.bind_ok] at h
    cases o with
    | none => simp at h
    | some pt =>
      obtain ⟨phs1, total1⟩ := pt
      obtain ⟨phs2, total2, h2, hle⟩ := prepareParts_mono len eh rs 0 0 phs1 total1 (Nat.le_refl _) hp
      simp only [h2, R.bind_ok] at h ⊢
      unfold checkedAdd at h ⊢
      by_cases hc : total1 + kTrailer.length < U64
      · have hc' : total2 + kTrailer.length < U64 := by omega
        simp [hc']
      · simp [hc] at h
/-- Coarse classification of the `parseRange` result underlying a `serveRest` outcome. -/
inductive Kind where
  | none | unsat | single (a b : Nat) | multi (rs : List (Nat × Nat)) (small : Bool)

def Kind.holds (rh : Option Bytes) (len : Nat) : Kind → Prop
  | .none => parseRange rh len = .ok .none
  | .unsat => parseRange rh len = .ok .unsat
  | .single a b => parseRange rh len = .ok (.sat [(a, b)])
  | .multi rs s => Multi rh len rs s

theorem Kind.unique {rh : Option Bytes} {len : Nat} {k k' : Kind}
    (h : k.holds rh len) (h' : k'.holds rh len) : k = k' := by
  cases k <;> cases k' <;> simp only [Kind.holds] at h h'
  all_goals first
    | rfl
    | (exfalso; rw [h] at h'; simp at h'; done)
    | (exfalso; exact Multi.not_none h' h)
    | (exfalso; exact Multi.not_none h h')
    | (exfalso; exact Multi.not_unsat h' h)
    | (exfalso; exact Multi.not_unsat h h')
    | (exfalso; exact Multi.not_single h' _ _ h)
    | (exfalso; exact Multi.not_single h _ _ h')
    | skip
  · rw [h] at h'
    simp only [R.ok.injEq, Resolved.sat.injEq, List.cons.injEq, Prod.mk.injEq, and_true] at h'
    rw [h'.1, h'.2]
  · obtain ⟨rfl, rfl⟩ := Multi.unique h h'
    rfl

def Full (q : Req) (e : Ent) (now : Nat) (r : Resp) : Prop :=
  r.status = 200 ∧
  r.headers = commonHeaders e now ++ [(.contentLength, .bytes (dec (e.len - 0)))] ++ entHeaders e ∧
  r.plan = (if q.method = .head then Plan.empty else Plan.exact 0 e.len)

def Outcome (q : Req) (e : Ent) (now : Nat) (inc : Bool) (r : Resp) : Kind → Prop
  | .none => Full q e now r
  | .multi _ false => Full q e now r
  | .unsat => r.status = 416 ∧
      r.headers = commonHeaders e now ++ [(.contentRange, .bytes (kBytesStar ++ dec e.len))] ∧
      r.plan = .empty
  | .single a b => r.status = 206 ∧
      r.headers = commonHeaders e now ++
        [(.contentRange, .bytes (kBytesSp ++ dec a ++ [cHyphen] ++ dec (b - 1) ++ [cSlash] ++ dec e.len))] ++
        [(.contentLength, .bytes (dec (b - a)))] ++ (if inc then entHeaders e else []) ∧
      r.plan = (if q.method = .head then Plan.empty else Plan.exact a b)
  | .multi rs true =>
      (prepareMultipart rs e.len (if inc then eachPartHeaders e.headers else []) = .ok none ∧
        r.status = 413 ∧ r.headers = []) ∨
      ∃ phs total,
        prepareMultipart rs e.len (if inc then eachPartHeaders e.headers else []) = .ok (some (phs, total)) ∧
        r.status = 206 ∧
        r.headers = commonHeaders e now ++ [(.contentLength, .bytes (dec total)),
                                            (.contentType, .bytes kMultipartCT)] ∧
        r.plan = (if q.method = .head then Plan.empty else Plan.multipart phs rs total)

theorem serveRest_kind {q : Req} {e : Ent} {now : Nat} {rh : Option Bytes} {inc : Bool} {r : Resp}
    (h : serveRest q e now rh inc = .ok r) :
    ∃ k : Kind, k.holds rh e.len ∧ Outcome q e now inc r k := by
  rcases serveRest_cases h with ⟨s1, hd1, p1, c1 | ⟨rs, c1⟩⟩ | ⟨c1, s1, hd1, p1⟩ | ⟨a, b, c1, s1, hd1, p1⟩ |
    ⟨⟨rs, c1, pm1⟩, s1, hd1⟩ | ⟨rs, phs, total, c1, m1, s1, hd1, p1⟩
  · exact ⟨.none, c1, s1, hd1, p1⟩
  · exact ⟨.multi rs false, c1, s1, hd1, p1⟩
  · exact ⟨.unsat, c1, s1, hd1, p1⟩
  · exact ⟨.single a b, c1, s1, hd1, p1⟩
  · exact ⟨.multi rs true, c1, .inl ⟨pm1, s1, hd1⟩⟩
  · exact ⟨.multi rs true, c1, .inr ⟨phs, total, m1, s1, hd1, p1⟩⟩

theorem lookup_cr_full {q : Req} {e : Ent} {now : Nat} {r : Resp} (h : Full q e now r) :
    r.headers.lookup .contentRange = none := by
  rw [h.2.1]
  simp [List.lookup_append, lookup_cr_common, lookup_cr_ent, List.lookup, beq_false_of_ne]

theorem serveRest_inc {q : Req} {e : Ent} {now : Nat} {rh : Option Bytes} {r r' : Resp}
    (h : serveRest q e now rh false = .ok r) (h' : serveRest q e now rh true = .ok r')
    (h413' : r'.status ≠ 413) :
    r.status = r'.status ∧ r.header' .contentRange = r'.header' .contentRange ∧
    r.plan.ranges = r'.plan.ranges := by
  obtain ⟨k, hk, ho⟩ := serveRest_kind h
  obtain ⟨k', hk', ho'⟩ := serveRest_kind h'
  have := Kind.unique hk hk'
  subst this
  unfold Resp.header'
  cases k with
  | none =>
    simp only [Outcome] at ho ho'
    exact ⟨ho.1.trans ho'.1.symm, by rw [lookup_cr_full ho, lookup_cr_full ho'], by rw [ho.2.2, ho'.2.2]⟩
  | unsat =>
    obtain ⟨s1, hd1, p1⟩ := ho
    obtain ⟨s2, hd2, p2⟩ := ho'
    exact ⟨s1.trans s2.symm, by rw [hd1, hd2], by rw [p1, p2]⟩
  | single a b =>
    obtain ⟨s1, hd1, p1⟩ := ho
    obtain ⟨s2, hd2, p2⟩ := ho'
    refine ⟨s1.trans s2.symm, ?_, by rw [p1, p2]⟩
    rw [hd1, hd2]
    simp [List.lookup_append, lookup_cr_common, List.lookup]
  | multi rs small =>
    cases small with
    | false =>
      simp only [Outcome] at ho ho'
      exact ⟨ho.1.trans ho'.1.symm, by rw [lookup_cr_full ho, lookup_cr_full ho'], by rw [ho.2.2, ho'.2.2]⟩
    | true =>
      rcases ho' with ⟨_, s2, _⟩ | ⟨phs', total', pm2, s2, hd2, p2⟩
      · exact absurd s2 h413'
      rcases ho with ⟨pm1, _⟩ | ⟨phs, total, _, s1, hd1, p1⟩
      · obtain ⟨phs0, total0, pm0⟩ := prepareMultipart_nil pm2
        simp only [Bool.false_eq_true, if_false] at pm1
        rw [pm0] at pm1
        cases pm1
      refine ⟨s1.trans s2.symm, ?_, ?_⟩
      · rw [hd1, hd2]
        simp [List.lookup_append, lookup_cr_common, List.lookup, beq_false_of_ne]
      · rw [p1, p2]
        by_cases hh : q.method = .head <;> simp [hh, Plan.ranges]

end HS.CondLemmas

namespace HS
open HS.CondLemmas

/-- C05 (closest true variant of `ifrange_match_honours_range`; the original statement is false,
see `ifrange_match_honours_range_false` below): with the matching strong tag the Range header is
still honoured — same status, same Content-Range, same ranges as without If-Range — provided the
response *without* If-Range is not the 413 of a multipart length overflow.  (With If-Range the
entity's headers are omitted from each part, so the multipart body is shorter: it can fit in a
`u64` when the body with the entity's headers does not — then 206 vs 413.  The converse cannot
happen, `prepareMultipart_nil`, so the single extra hypothesis `r'.status ≠ 413` suffices.) -/
theorem ifrange_match_honours_range_no413 (q : Req) (e : Ent) (now : Nat) (v : Bytes) (r r' : Resp)
    (hv : q.ifRange = some v) (he : e.etag = some v) (hs : startsWith kWeak v = false)
    (hq : startsWith [34] v = true)
    (h : serve q e now = .ok r) (h' : serve { q with ifRange := none } e now = .ok r')
    (h413 : r'.status ≠ 413) :
    r.status = r'.status ∧ r.header' .contentRange = r'.header' .contentRange ∧
    r.plan.ranges = r'.plan.ranges := by
  have same : serve q e now = serve { q with ifRange := none } e now →
      r.status = r'.status ∧ r.header' .contentRange = r'.header' .contentRange ∧
      r.plan.ranges = r'.plan.ranges := by
    intro heq
    rw [heq, h'] at h
    cases h
    exact ⟨rfl, rfl, rfl⟩
  by_cases hm : q.method = .other
  · apply same
    unfold serve
    simp only [hm, if_true]
  · cases hp : parseModifiedHdrs e.etag q.ifMatch q.ifNoneMatch q.ius q.ims e.mtime with
    | error err =>
      apply same
      unfold serve
      simp only [hm, if_false, hp]
    | ok pn =>
      obtain ⟨pf, nm⟩ := pn
      have e1 := serve_eq q e now hm pf nm hp
      have e2 := serve_eq { q with ifRange := none } e now hm pf nm hp
      cases pf
      · cases nm
        · rw [e1, hv, he, gate_match v hs hq] at h
          rw [e2] at h'
          simp only [Bool.false_eq_true, if_false, if_true, ifRangeGate] at h h'
          rw [← serveRest_congr q { q with ifRange := none } e now q.range true rfl] at h'
          exact serveRest_inc h h' h413
        · apply same; rw [e1, e2]; rfl
      · apply same; rw [e1, e2]; rfl

end HS

namespace HS.CondLemmas

/-! ### Counterexample to the original `ifrange_match_honours_range` -/

theorem d0 : dec 0 = [48] := by simp [dec]
theorem d1 : dec 1 = [49] := by simp [dec]
theorem dX : dec 18446744073709551452 = [49,56,52,52,54,55,52,52,48,55,51,55,48,57,53,53,49,52,53,50] := by simp [dec]
theorem dL : dec 18446744073709551615 = [49,56,52,52,54,55,52,52,48,55,51,55,48,57,53,53,49,54,49,53] := by simp [dec]

def cexRange : Bytes := [98,121,116,101,115,61,48,45,48,44,49,45,49,56,52,52,54,55,52,52,48,55,51,55,48,57,53,53,49,52,53,50]
def cexEnt : Ent :=
  { len := 18446744073709551615, etag := some [34, 97, 34],
    headers := [([99,111,110,116,101,110,116,45,116,121,112,101], [116,101,120,116,47,112,108,97,105,110])] }

theorem cex_parseRange : parseRange (some cexRange) 18446744073709551615 = .ok (.sat [(0,1),(1,18446744073709551453)]) := by decide

theorem cex_estLen : estLen [(0,1),(1,18446744073709551453)] 0 = .ok (some 18446744073709551613) := by decide

theorem cex_pm_without : ∃ phs total,
    prepareMultipart [(0,1),(1,18446744073709551453)] 18446744073709551615 [] = .ok (some (phs, total)) := by
  simp [prepareMultipart, prepareParts, partHeader, subChk, checkedAdd, d0, d1, dX, dL, kPartPre, kCRLF, kTrailer, U64, cHyphen, cSlash]

theorem cex_pm_with :
    prepareMultipart [(0,1),(1,18446744073709551453)] 18446744073709551615 (eachPartHeaders cexEnt.headers) = .ok none := by
  simp [prepareMultipart, prepareParts, partHeader, subChk, checkedAdd, d0, d1, dX, dL, kPartPre, kCRLF, kTrailer, U64, cHyphen, cSlash, eachPartHeaders, cexEnt, kColonSp]

theorem cex_rest_without (q : Req) :
    ∃ r, serveRest q cexEnt 0 (some cexRange) false = .ok r ∧ r.status = 206 := by
  obtain ⟨phs, total, hpm⟩ := cex_pm_without
  unfold serveRest
  simp only [show cexEnt.len = 18446744073709551615 from rfl, cex_parseRange, cex_estLen, R.bind_ok,
    Bool.false_eq_true, if_false, hpm]
  by_cases hh : q.method = .head <;> simp [hh]

theorem cex_rest_with (q : Req) :
    ∃ r, serveRest q cexEnt 0 (some cexRange) true = .ok r ∧ r.status = 413 := by
  have hpm := cex_pm_with
  unfold serveRest
  simp only [show cexEnt.len = 18446744073709551615 from rfl, cex_parseRange, cex_estLen, R.bind_ok,
    if_true, hpm]
  simp

def cexReq : Req := { method := .get, range := some cexRange, ifRange := some [34, 97, 34] }
end HS.CondLemmas
namespace HS
open HS.CondLemmas
/-- The original statement of `ifrange_match_honours_range` is false (also under the additional
hypothesis `e.len < U64`): entity of length 2^64-1 with ETag `"a"` and one header
`content-type: text/plain`, `Range: bytes=0-0,1-18446744073709551452`, `If-Range: "a"`.
With If-Range the parts carry no entity headers and the multipart length 18446744073709551593
fits in a `u64` (206); without If-Range each part carries the entity header, the length
overflows and the answer is 413. -/
theorem ifrange_match_honours_range_false :
    ¬ (∀ (q : Req) (e : Ent) (now : Nat) (v : Bytes) (r r' : Resp),
        q.ifRange = some v → e.etag = some v → startsWith kWeak v = false →
        startsWith [34] v = true →
        serve q e now = .ok r → serve { q with ifRange := none } e now = .ok r' →
        r.status = r'.status ∧ r.header' .contentRange = r'.header' .contentRange ∧
        r.plan.ranges = r'.plan.ranges) := by
  intro H
  have e1 := serve_eq cexReq cexEnt 0 (by decide) false false (parseModifiedHdrs_absent _ _)
  have e2 := serve_eq { cexReq with ifRange := none } cexEnt 0 (by decide) false false
    (parseModifiedHdrs_absent _ _)
  have g1 : ifRangeGate cexEnt.etag cexReq.ifRange = (true, false) :=
    gate_match [34, 97, 34] (by decide) (by decide)
  rw [g1] at e1
  simp only [Bool.false_eq_true, if_false, if_true, ifRangeGate] at e1 e2
  obtain ⟨r, hr, hs⟩ := cex_rest_without cexReq
  obtain ⟨r', hr', hs'⟩ := cex_rest_with { cexReq with ifRange := none }
  have := (H cexReq cexEnt 0 [34, 97, 34] r r' rfl rfl (by decide) (by decide)
    (e1.trans hr) (e2.trans hr')).1
  rw [hs, hs'] at this
  exact absurd this (by decide)
end HS


namespace HS.CondLemmas

/-! ### C14 helpers -/

theorem extra_single (k : HName) (v : HVal)
    (hk : k = .contentRange ∨ k = .contentLength ∨ k = .contentType) : Extra [(k, v)] := by
  intro p hp
  simp only [List.mem_singleton] at hp
  subst hp
  rcases hk with h | h | h
  · exact .inl h
  · exact .inr (.inl h)
  · exact .inr (.inr (.inl h))

theorem extra_nil : Extra [] := by
  intro p hp; cases hp

/-- Every non-413 outcome of `serveRest` starts with the common header block. -/
theorem serveRest_headers {q : Req} {e : Ent} {now : Nat} {rh : Option Bytes} {inc : Bool} {r : Resp}
    (h : serveRest q e now rh inc = .ok r) (h413 : r.status ≠ 413) :
    ∃ x, Extra x ∧ r.headers = commonHeaders e now ++ x := by
  rcases serveRest_cases h with ⟨_, hd, _⟩ | ⟨_, _, hd, _⟩ | ⟨a, b, _, _, hd, _⟩ | ⟨_, s1, _⟩ |
    ⟨rs, phs, total, _, _, _, hd, _⟩
  · refine ⟨_, ?_, by rw [hd, List.append_assoc]⟩
    exact extra_append (extra_single _ _ (by simp)) (extra_entHeaders e)
  · exact ⟨_, extra_single _ _ (by simp), hd⟩
  · refine ⟨_, ?_, by rw [hd, List.append_assoc, List.append_assoc]⟩
    refine extra_append (extra_single _ _ (by simp)) (extra_append (extra_single _ _ (by simp)) ?_)
    cases inc
    · exact extra_nil
    · exact extra_entHeaders e
  · exact absurd s1 h413
  · refine ⟨_, ?_, hd⟩
    exact extra_append (x := [_]) (y := [_]) (extra_single _ _ (by simp)) (extra_single _ _ (by simp))

theorem ent_not_mem_common (e : Ent) (now : Nat) (k : Bytes) (v : HVal) :
    (HName.ent k, v) ∉ commonHeaders e now := by
  cases hm : e.mtime <;> cases he : e.etag <;> simp [commonHeaders, hm, he]

theorem mem_entHeaders (e : Ent) (kv : Bytes × Bytes) (h : kv ∈ e.headers) :
    (HName.ent kv.1, HVal.bytes kv.2) ∈ entHeaders e := by
  simp only [entHeaders, List.mem_map]
  exact ⟨kv, h, rfl⟩

theorem partHeader_suffix {a b len : Nat} {eh ph : Bytes} (h : partHeader a b len eh = .ok ph) :
    ∃ pre, ph = pre ++ eh ++ kCRLF := by
  unfold partHeader subChk at h
  by_cases hb : 1 ≤ b
  · simp only [hb, if_true, R.bind_ok, R.pure_eq, R.ok.injEq] at h
    exact ⟨_, h.symm⟩
  · simp [hb] at h

theorem prepareParts_suffix (len : Nat) (eh : Bytes) (rs : List (Nat × Nat)) :
    ∀ (acc : Nat) (phs : List Bytes) (total : Nat),
      prepareParts len eh rs acc = .ok (some (phs, total)) →
      ∀ ph ∈ phs, ∃ pre, ph = pre ++ eh ++ kCRLF := by
  induction rs with
  | nil =>
    intro acc phs total h
    simp only [prepareParts, R.ok.injEq, Option.some.injEq, Prod.mk.injEq] at h
    intro ph hph
    rw [← h.1] at hph
    cases hph
  | cons p rest ih =>
    obtain ⟨a, b⟩ := p
    intro acc phs total h
    unfold prepareParts at h
    cases hph : partHeader a b len eh with
    | panic => simp [hph] at h
    | ok ph0 =>
      simp only [hph, R.bind_ok] at h
      cases hsz : subChk b a with
      | panic => simp [hsz] at h
      | ok sz =>
        simp only [hsz, R.bind_ok] at h
        cases hacc : (checkedAdd acc ph0.length).bind (fun l => checkedAdd l sz) with
        | none => simp [hacc] at h
        | some acc' =>
          simp only [hacc] at h
          cases hrest : prepareParts len eh rest acc' with
          | panic => simp [hrest] at h
          | ok o =>
            simp only [hrest, R.bind_ok] at h
            cases o with
            | none => simp at h
            | some pt =>
              obtain ⟨phs', total'⟩ := pt
              simp only [R.pure_eq, R.ok.injEq, Option.some.injEq, Prod.mk.injEq] at h
              intro ph hmem
              rw [← h.1] at hmem
              rcases List.mem_cons.1 hmem with rfl | hmem
              · exact partHeader_suffix hph
              · exact ih acc' phs' total' hrest ph hmem

theorem prepareMultipart_suffix {len : Nat} {eh : Bytes} {rs : List (Nat × Nat)} {phs : List Bytes}
    {total : Nat} (h : prepareMultipart rs len eh = .ok (some (phs, total))) :
    ∀ ph ∈ phs, ∃ pre, ph = pre ++ eh ++ kCRLF := by
  unfold prepareMultipart at h
  cases hp : prepareParts len eh rs 0 with
  | panic => simp [hp] at h
  | ok o =>
    simp only [hp, R.bind_ok] at h
    cases o with
    | none => simp at h
    | some pt =>
      obtain ⟨phs', total'⟩ := pt
      simp only at h
      cases hc : checkedAdd total' kTrailer.length with
      | none => simp [hc] at h
      | some t =>
        simp only [hc, R.pure_eq, R.ok.injEq, Option.some.injEq, Prod.mk.injEq] at h
        rw [← h.1]
        exact prepareParts_suffix len eh rs 0 phs' total' hp

end HS.CondLemmas

namespace HS
open HS.CondLemmas

/-! ### C14 -/

/-- C14: every 200, 206, 304, 412 and 416 carries `Accept-Ranges: bytes`, the entity's ETag
unchanged, and — when the entity has a modification time — Date = now and
Last-Modified = min(mtime truncated to the second, now). -/
theorem common_headers (q : Req) (e : Ent) (now : Nat) (r : Resp) (h : serve q e now = .ok r)
    (hs : r.status ∈ [200, 206, 304, 412, 416]) :
    r.header' .acceptRanges = some (.bytes kBytes) ∧
    r.header' .etag = e.etag.map HVal.bytes ∧
    (∀ m, e.mtime = some m →
       r.header' .date = some (.httpDate now) ∧
       r.header' .lastModified = some (.httpDate (min m.1 now))) ∧
    (e.mtime = none → r.header' .date = none ∧ r.header' .lastModified = none) := by
  have key : ∃ x, Extra x ∧ r.headers = commonHeaders e now ++ x := by
    rcases serve_cases h with ⟨_, h1⟩ | ⟨_, h1, _⟩ | ⟨pf, nm, _, _, h3⟩
    · rw [h1] at hs; simp at hs
    · rw [h1] at hs; simp at hs
    · rcases h3 with ⟨_, _, hd⟩ | ⟨_, _, _, hd⟩ | ⟨_, _, hr⟩
      · exact ⟨[], extra_nil, by rw [hd, List.append_nil]⟩
      · exact ⟨[], extra_nil, by rw [hd, List.append_nil]⟩
      · exact serveRest_headers hr (by intro h413; rw [h413] at hs; simp at hs)
  obtain ⟨x, hx, hd⟩ := key
  unfold Resp.header'
  rw [hd]
  exact common_lookup e now x hx

/-- C14: 304, 412 and 416 carry none of the entity's headers; a 200, and a single-range 206
to a request without If-Range, carry all of them. -/
theorem entity_headers_placement (q : Req) (e : Ent) (now : Nat) (r : Resp)
    (h : serve q e now = .ok r) :
    ((r.status = 304 ∨ r.status = 412 ∨ r.status = 416) → ∀ k v, (HName.ent k, v) ∉ r.headers) ∧
    (r.status = 200 → ∀ kv ∈ e.headers, (HName.ent kv.1, HVal.bytes kv.2) ∈ r.headers) ∧
    (r.status = 206 → q.ifRange = none → (r.header' .contentRange).isSome = true →
       ∀ kv ∈ e.headers, (HName.ent kv.1, HVal.bytes kv.2) ∈ r.headers) ∧
    (r.status = 206 → q.ifRange = none → ∀ phs rs total, r.plan = .multipart phs rs total →
       ∀ ph ∈ phs, ∃ pre, ph = pre ++ eachPartHeaders e.headers ++ kCRLF) := by
  rcases serve_cases h with ⟨_, h1⟩ | ⟨_, h1, _⟩ | ⟨pf, nm, _, _, h3⟩
  · simp [h1]
  · simp [h1]
  · rcases h3 with ⟨_, h1, hd⟩ | ⟨_, _, h1, hd⟩ | ⟨_, _, hr⟩
    · simp only [h1, hd]
      refine ⟨fun _ k v => ent_not_mem_common e now k v, by simp, by simp, by simp⟩
    · simp only [h1, hd]
      refine ⟨fun _ k v => ent_not_mem_common e now k v, by simp, by simp, by simp⟩
    · rcases serveRest_cases hr with ⟨s1, hd, _⟩ | ⟨_, s1, hd, _⟩ | ⟨a, b, _, s1, hd, p1⟩ | ⟨_, s1, _⟩ |
        ⟨rs, phs, total, _, hpm, s1, hd, p1⟩
      · refine ⟨by simp [s1], ?_, by simp [s1], by simp [s1]⟩
        intro _ kv hkv
        rw [hd]
        exact List.mem_append_right _ (mem_entHeaders e kv hkv)
      · refine ⟨?_, by simp [s1], by simp [s1], by simp [s1]⟩
        intro _ k v hmem
        rw [hd] at hmem
        rcases List.mem_append.1 hmem with hm | hm
        · exact ent_not_mem_common e now k v hm
        · simp at hm
      · refine ⟨by simp [s1], by simp [s1], ?_, ?_⟩
        · intro _ hir _ kv hkv
          rw [hd, hir]
          simp only [ifRangeGate, if_true]
          exact List.mem_append_right _ (mem_entHeaders e kv hkv)
        · intro _ _ phs rs total hp
          rw [p1] at hp
          split at hp <;> cases hp
      · simp [s1]
      · refine ⟨by simp [s1], by simp [s1], ?_, ?_⟩
        · intro _ _ hcr
          unfold Resp.header' at hcr
          rw [hd] at hcr
          simp [List.lookup_append, lookup_cr_common, List.lookup, beq_false_of_ne] at hcr
        · intro _ hir phs' rs' total' hp
          rw [p1] at hp
          rw [hir] at hpm
          simp only [ifRangeGate, if_true] at hpm
          by_cases hh : q.method = .head
          · simp [hh] at hp
          · simp only [hh, if_false, Plan.multipart.injEq] at hp
            obtain ⟨rfl, rfl, rfl⟩ := hp
            exact prepareMultipart_suffix hpm

end HS

namespace HS

/-- A second request that echoes served validators. `lm` is the served Last-Modified. -/
def echoReq (m : Method) (etagB : Option Bytes) (lm : Option Nat) (inm im ims ius : Bool) : Req :=
  { method := m
    ifNoneMatch := if inm then etagB else none
    ifMatch := if im then etagB else none
    ims := if ims then dateOf lm else .absent
    ius := if ius then dateOf lm else .absent }

end HS

namespace HS.CondLemmas

/-! ### Round-trip helpers -/

/-- The tag-list header that echoes the served ETag (if `b`). -/
def echoTag (t : Option Tag) (b : Bool) : TagHdr :=
  if b then (match t with | some x => .list [(x, [])] | none => .absent) else .absent

theorem echoTag_wf (t : Option Tag) (ht : ∀ x, t = some x → x.wf) (b : Bool) : (echoTag t b).wf := by
  cases b
  · trivial
  · cases t with
    | none => trivial
    | some x =>
      show TagsWf [(x, [])]
      refine ⟨List.cons_ne_nil _ _, ?_⟩
      intro p hp
      simp only [List.mem_singleton] at hp
      subst hp
      exact ⟨ht x rfl, by simp⟩

theorem echoTag_render (t : Option Tag) (b : Bool) :
    (echoTag t b).render = if b then t.map Tag.render else none := by
  cases b
  · rfl
  · cases t <;> simp [echoTag, TagHdr.render, renderTags]

def echoDate (lm : Option Nat) (b : Bool) : Option Nat := if b then lm else none

theorem echoDate_dateOf (lm : Option Nat) (b : Bool) :
    dateOf (echoDate lm b) = if b then dateOf lm else .absent := by
  cases b <;> rfl

theorem spec412_echo (t : Option Tag) (mtime : Option (Nat × Nat)) (now1 : Nat) (im ius : Bool)
    (hpast : ∀ mt, mtime = some mt → mt.1 ≤ now1)
    (him : im = true → ∃ x, t = some x ∧ x.weak = false) :
    spec412 t mtime (echoTag t im) (echoDate (mtime.map fun mt => min mt.1 now1) ius) = false := by
  cases im
  · cases ius
    · cases mtime <;> simp [echoTag, echoDate, spec412]
    · cases mtime with
      | none => simp [echoTag, echoDate, spec412]
      | some mt =>
        have hp := hpast mt rfl
        simp only [echoTag, echoDate, spec412, Bool.false_eq_true, if_false, if_true, Option.map_some,
          decide_eq_false_iff_not]
        omega
  · obtain ⟨x, rfl, hw⟩ := him rfl
    simp [echoTag, spec412, Tag.strongEq, hw]

theorem spec304_echo (t : Option Tag) (mtime : Option (Nat × Nat)) (now1 : Nat) (inm ims : Bool)
    (hpast : ∀ mt, mtime = some mt → mt.1 ≤ now1)
    (hinm : inm = true → t.isSome = true) (hims : ims = true → mtime.isSome = true)
    (hor : inm = true ∨ ims = true) :
    spec304 t mtime (echoTag t inm) (echoDate (mtime.map fun mt => min mt.1 now1) ims) = true := by
  cases inm
  · have hi : ims = true := by simpa using hor
    subst hi
    cases mtime with
    | none => simp at hims
    | some mt =>
      have hp := hpast mt rfl
      simp only [echoTag, echoDate, spec304, Bool.false_eq_true, if_false, if_true, Option.map_some,
        decide_eq_true_eq]
      omega
  · cases t with
    | none => simp at hinm
    | some x => simp [echoTag, spec304, Tag.weakEq]

end HS.CondLemmas

namespace HS
open HS.CondLemmas

set_option linter.unusedVariables false in
/-- C14 round trip (modification time not in the future at the first request, `now1 ≤ now2`):
echoing the served ETag in If-None-Match, or the served Last-Modified in If-Modified-Since
(without If-None-Match), yields 304; echoing a served strong ETag in If-Match, or the served
Last-Modified in If-Unmodified-Since, never yields 412. -/
theorem roundtrip_partial (t : Option Tag) (e : Ent) (now1 now2 : Nat) (m : Method) (hm : m ≠ .other)
    (he : e.etag = t.map Tag.render) (ht : ∀ x, t = some x → x.wf)
    (hnow : now1 ≤ now2) (hpast : ∀ mt, e.mtime = some mt → mt.1 ≤ now1) (hlen : e.len < U64)
    (inm im ims ius : Bool) (r : Resp)
    (hinm : inm = true → t.isSome = true) (him : im = true → ∃ x, t = some x ∧ x.weak = false)
    (hims : ims = true → e.mtime.isSome = true) (hius : ius = true → e.mtime.isSome = true)
    (h : serve (echoReq m e.etag (e.mtime.map fun mt => min mt.1 now1) inm im ims ius) e now2 = .ok r) :
    r.status ≠ 412 ∧ ((inm = true ∨ ims = true) → r.status = 304) := by
  have q1 : (echoReq m e.etag (e.mtime.map fun mt => min mt.1 now1) inm im ims ius).ifMatch = (echoTag t im).render := by
    rw [echoTag_render, he]; rfl
  have q2 : (echoReq m e.etag (e.mtime.map fun mt => min mt.1 now1) inm im ims ius).ifNoneMatch = (echoTag t inm).render := by
    rw [echoTag_render, he]; rfl
  have q3 : (echoReq m e.etag (e.mtime.map fun mt => min mt.1 now1) inm im ims ius).ius = dateOf (echoDate (e.mtime.map fun mt => min mt.1 now1) ius) := by
    rw [echoDate_dateOf]; rfl
  have q4 : (echoReq m e.etag (e.mtime.map fun mt => min mt.1 now1) inm im ims ius).ims = dateOf (echoDate (e.mtime.map fun mt => min mt.1 now1) ims) := by
    rw [echoDate_dateOf]; rfl
  have hwf : (echoTag t im).wf ∧ (echoTag t inm).wf := ⟨echoTag_wf t ht im, echoTag_wf t ht inm⟩
  have hm' : (echoReq m e.etag (e.mtime.map fun mt => min mt.1 now1) inm im ims ius).method ≠ .other := hm
  have hc := cond_status (etag := t) (hwf := hwf) (hm := hm') (hq := ⟨q1, q2, q3, q4⟩) (he := he)
    (hlen := hlen) (h := h)
  have h412 := spec412_echo t e.mtime now1 im ius hpast him
  refine ⟨?_, ?_⟩
  · intro hs
    have := hc.1.1 hs
    rw [h412] at this
    cases this
  · intro hor
    exact hc.2.1.2 ⟨h412, spec304_echo t e.mtime now1 inm ims hpast hinm hims hor⟩

end HS

namespace HS.CondLemmas

/-! ### `bytes=1-2` -/

theorem parseSpec_1_2 (L : Nat) (hL : 3 ≤ L) : parseSpec [49, 45, 50] L = .range 1 3 := by
  have h1 : trimOws [49, 45, 50] = [49, 45, 50] := by decide
  have h2 : splitOnce cHyphen [49, 45, 50] = some ([49], [50]) := by decide
  have h3 : parsePos [49] = some 1 := by decide
  have h4 : parsePos [50] = some 2 := by decide
  have h5 : satAdd 2 1 = 3 := by decide
  have h6 : min 3 L = 3 := by omega
  unfold parseSpec
  simp [h1, h2, h3, h4, h5, h6]

theorem parseRange_1_2 (L : Nat) (hL : 3 ≤ L) :
    parseRange (some [98, 121, 116, 101, 115, 61, 49, 45, 50]) L = .ok (.sat [(1, 3)]) := by
  have h1 : toStrOk [98, 121, 116, 101, 115, 61, 49, 45, 50] = true := by decide
  have h2 : stripPrefix kBytesEq [98, 121, 116, 101, 115, 61, 49, 45, 50] = some [49, 45, 50] := by decide
  have h3 : splitOn cComma [49, 45, 50] = [[49, 45, 50]] := by decide
  unfold parseRange
  simp [h1, h2, h3, parseSpecs, parseSpec_1_2 L hL]

theorem serveRest_1_2 (q : Req) (e : Ent) (now : Nat) (hm : q.method = .get) (hL : 3 ≤ e.len) :
    ∃ r, serveRest q e now (some [98, 121, 116, 101, 115, 61, 49, 45, 50]) false = .ok r ∧
      r.status = 206 ∧ r.plan = .exact 1 3 := by
  unfold serveRest
  simp [parseRange_1_2 e.len hL, subChk, serveSimple, hm]

end HS.CondLemmas

namespace HS
open HS.CondLemmas

set_option linter.unusedVariables false in
/-- C14 round trip, If-Range: echoing the served strong ETag in If-Range yields the 206 of the
requested range. -/
theorem roundtrip_if_range (x : Tag) (hx : x.wf) (hs : x.weak = false) (e : Ent) (now : Nat)
    (he : e.etag = some x.render) (hlen : 3 ≤ e.len) (hlen2 : e.len < U64) :
    ∃ r, serve { method := .get, range := some [98, 121, 116, 101, 115, 61, 49, 45, 50],
                 ifRange := some x.render } e now = .ok r ∧
      r.status = 206 ∧ r.plan = .exact 1 3 := by
  have hw : startsWith kWeak x.render = false := by rw [startsWith_kWeak_render, hs]
  have hq : startsWith [34] x.render = true := by
    obtain ⟨w, opq⟩ := x
    simp only at hs
    subst hs
    simp [render_strong, startsWith, stripPrefix]
  have e1 := serve_eq { method := .get, range := some [98, 121, 116, 101, 115, 61, 49, 45, 50],
                        ifRange := some x.render } e now (by simp) false false
    (parseModifiedHdrs_absent _ _)
  simp only [he, gate_match x.render hw hq, Bool.false_eq_true, if_false, if_true] at e1
  rw [e1]
  exact serveRest_1_2 _ e now rfl hlen

/-- The full round-trip clause of C14 (also for modification times in the future). -/
def roundtrip_full : Prop :=
  ∀ (e : Ent) (now1 now2 : Nat) (ims ius : Bool) (r : Resp), now1 ≤ now2 → e.mtime.isSome = true →
    serve (echoReq .get e.etag (e.mtime.map fun mt => min mt.1 now1) false false ims ius) e now2 = .ok r →
    r.status ≠ 412 ∧ (ims = true → r.status = 304)

end HS

namespace HS.CondLemmas

/-! ### K1 witness -/

def k1Ent : Ent := { len := 10, mtime := some (100, 0) }

theorem k1_serve :
    ∃ r, serve (echoReq .get k1Ent.etag (k1Ent.mtime.map fun mt => min mt.1 50) false false true false)
        k1Ent 50 = .ok r ∧ r.status = 200 := by
  have hp : parseModifiedHdrs k1Ent.etag
      (echoReq .get k1Ent.etag (k1Ent.mtime.map fun mt => min mt.1 50) false false true false).ifMatch
      (echoReq .get k1Ent.etag (k1Ent.mtime.map fun mt => min mt.1 50) false false true false).ifNoneMatch
      (echoReq .get k1Ent.etag (k1Ent.mtime.map fun mt => min mt.1 50) false false true false).ius
      (echoReq .get k1Ent.etag (k1Ent.mtime.map fun mt => min mt.1 50) false false true false).ims
      k1Ent.mtime = .ok (false, false) := by
    simp [parseModifiedHdrs, precondFailed, notModified, anyMatch, noneMatch, echoReq, k1Ent, dateOf]
  rw [serve_eq _ k1Ent 50 (by simp [echoReq]) false false hp]
  simp [echoReq, ifRangeGate, serveRest, parseRange, serveSimple, subChk]

end HS.CondLemmas

namespace HS
open HS.CondLemmas

/-- K1: the full clause is false of the code for a modification time in the future — the served
Last-Modified is clamped to Date, so the validator moves with the clock. -/
theorem roundtrip_full_false : ¬ roundtrip_full := by
  intro H
  obtain ⟨r, hr, hs⟩ := k1_serve
  have := (H k1Ent 50 50 true false r (Nat.le_refl _) rfl hr).2 rfl
  rw [hs] at this
  exact absurd this (by decide)

/-- Is this response header one supplied by the entity (`HName.ent`)? -/
def isEntHeader (p : HName × HVal) : Bool :=
  match p.1 with
  | .ent _ => true
  | _ => false

theorem entExact_filter_common (e : Ent) (now : Nat) :
    (commonHeaders e now).filter isEntHeader = [] := by
  cases hm : e.mtime <;> cases he : e.etag <;> simp [commonHeaders, hm, he, isEntHeader]

theorem entExact_filter_ent (e : Ent) : (entHeaders e).filter isEntHeader = entHeaders e := by
  rw [List.filter_eq_self]
  intro p hp
  simp only [entHeaders, List.mem_map] at hp
  obtain ⟨kv, _, rfl⟩ := hp
  rfl

/-- C14, "and nothing else": the entity-supplied header lines of a response are either exactly
the entity's own (same lines, same order, same multiplicity) or there are none. No header line of
any other origin carries an `ent` name. -/
theorem entity_headers_exact (q : Req) (e : Ent) (now : Nat) (r : Resp)
    (h : serve q e now = .ok r) :
    r.headers.filter isEntHeader = e.headers.map (fun kv => (HName.ent kv.1, HVal.bytes kv.2)) ∨
    r.headers.filter isEntHeader = [] := by
  have hmap : e.headers.map (fun kv => (HName.ent kv.1, HVal.bytes kv.2)) = entHeaders e := rfl
  rw [hmap]
  rcases serve_cases h with ⟨hm, _⟩ | ⟨hm, _, err, hp⟩ | ⟨pf, nm, _, _, h3⟩
  · unfold serve at h
    simp only [hm, if_true, R.ok.injEq] at h
    subst h
    exact .inr (by simp [isEntHeader])
  · unfold serve at h
    simp only [hm, if_false, hp, R.ok.injEq] at h
    subst h
    exact .inr rfl
  · rcases h3 with ⟨_, _, hd⟩ | ⟨_, _, _, hd⟩ | ⟨_, _, hr⟩
    · exact .inr (by rw [hd]; exact entExact_filter_common e now)
    · exact .inr (by rw [hd]; exact entExact_filter_common e now)
    · rcases serveRest_cases hr with ⟨_, hd, _⟩ | ⟨_, _, hd, _⟩ | ⟨a, b, _, _, hd, _⟩ | ⟨_, _, hd⟩ |
        ⟨rs, phs, total, _, _, _, hd, _⟩
      · refine .inl ?_
        rw [hd]
        simp [List.filter_append, entExact_filter_common, entExact_filter_ent, isEntHeader]
      · refine .inr ?_
        rw [hd]
        simp [List.filter_append, entExact_filter_common, isEntHeader]
      · rw [hd]
        cases (ifRangeGate e.etag q.ifRange).2
        · refine .inr ?_
          simp [List.filter_append, entExact_filter_common, isEntHeader]
        · refine .inl ?_
          simp [List.filter_append, entExact_filter_common, entExact_filter_ent, isEntHeader]
      · exact .inr (by rw [hd]; rfl)
      · refine .inr ?_
        rw [hd]
        simp [List.filter_append, entExact_filter_common, isEntHeader]

end HS
