/-
`write_all` (std's default loop over `write`, `Sys.writeAll`) on a live identity body accepts
everything: it never reports `WriteZero` or an error, and what it reports is the whole buffer.
-/
import HttpServeModel.Lemmas.Pipe

namespace HS

open PipeLemmas

/-- A successful `write` leaves a live raw writer live. -/
theorem pop_write_wrote_bw {s : Sys} {bs : Bytes} {s' : Sys} {n : Nat} {wk : List Nat}
    (hb : s.bw = .raw) (e : s.pop (.write bs) = (s', .wrote n, wk)) : s'.bw = .raw := by
  simp only [Sys.pop, hb] at e
  split at e
  · simp only [Prod.mk.injEq] at e
    obtain ⟨rfl, -, -⟩ := e; rfl
  · simp at e

/-- The system after a history extended by one producer operation. -/
theorem run_snoc_p_sys (h0 : Hist) (ops : List AnyOp) (op : POp) :
    (h0.run (ops ++ [.p op])).sys = ((h0.run ops).sys.pop op).1 := by
  rw [run_append]; rfl

/-- The `write_all` loop, generalised over fuel, history, running total and wake log. -/
theorem writeAllF_accepts (cap : Nat) (hc : 0 < cap) :
    ∀ (fuel : Nat) (ops : List AnyOp), (∀ op ∈ ops, op.rawPlain) →
      ∀ (bs : Bytes) (total : Nat) (wk : List Nat),
        ((Hist.init cap .raw).run ops).sys.bw = .raw → bs.length < fuel →
        (Sys.writeAllF fuel ((Hist.init cap .raw).run ops).sys bs total wk).2.1
            = .wrote (total + bs.length) ∧
        ∃ ws : List Bytes, (∀ w ∈ ws, w ≠ []) ∧
          (Sys.writeAllF fuel ((Hist.init cap .raw).run ops).sys bs total wk).1
            = ((Hist.init cap .raw).run (ops ++ ws.map fun w => .p (.write w))).sys := by
  intro fuel
  induction fuel with
  | zero => intro _ _ _ _ _ _ hl; omega
  | succ fuel ih =>
    intro ops hops bs total wk hb hl
    by_cases hbs : bs = []
    · subst hbs
      refine ⟨by simp [Sys.writeAllF], [], by simp, by simp [Sys.writeAllF]⟩
    · obtain ⟨n, hn, h1, h2⟩ := pipe_write_progress cap hc ops hops bs hbs hb
      rcases hr : ((Hist.init cap .raw).run ops).sys.pop (.write bs) with ⟨s', o, w⟩
      rw [hr] at hn
      simp only at hn
      subst hn
      obtain ⟨m, rfl⟩ : ∃ m, n = m + 1 := ⟨n - 1, by omega⟩
      have hops' : ∀ op ∈ ops ++ [AnyOp.p (.write bs)], op.rawPlain := by
        intro op hop
        rcases List.mem_append.mp hop with hop | hop
        · exact hops op hop
        · simp at hop; subst hop; trivial
      have hsys : ((Hist.init cap .raw).run (ops ++ [AnyOp.p (.write bs)])).sys = s' := by
        rw [run_snoc_p_sys, hr]
      have hb' : ((Hist.init cap .raw).run (ops ++ [AnyOp.p (.write bs)])).sys.bw = .raw := by
        rw [hsys]; exact pop_write_wrote_bw hb hr
      have hl' : (bs.drop (m + 1)).length < fuel := by
        simp only [List.length_drop]; omega
      obtain ⟨e1, ws, hws, e2⟩ :=
        ih (ops ++ [AnyOp.p (.write bs)]) hops' (bs.drop (m + 1)) (total + (m + 1)) (wk ++ w) hb' hl'
      rw [hsys] at e1 e2
      have hunf : Sys.writeAllF (fuel + 1) ((Hist.init cap .raw).run ops).sys bs total wk
          = Sys.writeAllF fuel s' (bs.drop (m + 1)) (total + (m + 1)) (wk ++ w) := by
        have : bs.isEmpty = false := by cases bs <;> simp_all
        simp [Sys.writeAllF, this, hr]
      rw [hunf]
      refine ⟨?_, bs :: ws, ?_, ?_⟩
      · rw [e1]; congr 1; simp only [List.length_drop]; omega
      · intro x hx
        rcases List.mem_cons.mp hx with rfl | hx
        · exact hbs
        · exact hws x hx
      · rw [e2]; simp [List.append_assoc]

/-- After any history of plain raw operations (writes, flushes, polls, hints — no abort, no body
drop, writer not yet dropped), `write_all bs` succeeds and accepts all of `bs`; the resulting
system is the one reached by the history extended with the individual `write` calls the loop
made, each of which accepted at least one byte. -/
theorem write_all_accepts_everything (cap : Nat) (hc : 0 < cap) (ops : List AnyOp)
    (hops : ∀ op ∈ ops, op.rawPlain) (bs : Bytes) :
    let h := (Hist.init cap .raw).run ops
    h.sys.bw = .raw →
      (h.sys.writeAll bs).2.1 = .wrote bs.length ∧
      ∃ ws : List Bytes, (∀ w ∈ ws, w ≠ []) ∧
        (h.sys.writeAll bs).1 = ((Hist.init cap .raw).run (ops ++ ws.map fun w => .p (.write w))).sys := by
  intro h hb
  have := writeAllF_accepts cap hc (bs.length + 1) ops hops bs 0 [] hb (Nat.lt_succ_self _)
  simpa [Sys.writeAll] using this

end HS
