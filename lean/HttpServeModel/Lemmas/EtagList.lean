/-
Lemmas relating the entity-tag list parser model (`Model/Etag.lean`) to the RFC 7232
specification (`Spec/Rfc7232.lean`).
-/
import HttpServeModel.Model.Etag
import HttpServeModel.Spec.Rfc7232

namespace HS

/-! ### `Tag.render` basics -/

theorem render_weak (opq : Bytes) :
    (Tag.mk true opq).render = 87 :: 47 :: 34 :: (opq ++ [34]) := by
  simp [Tag.render]

theorem render_strong (opq : Bytes) :
    (Tag.mk false opq).render = 34 :: (opq ++ [34]) := by
  simp [Tag.render]

theorem startsWith_kWeak_render (t : Tag) : startsWith kWeak t.render = t.weak := by
  obtain ⟨w, opq⟩ := t
  cases w
  · simp [render_strong, startsWith, kWeak, stripPrefix]
  · simp [render_weak, startsWith, kWeak, stripPrefix]

theorem stripWeak_render (t : Tag) : stripWeak t.render = 34 :: (t.opq ++ [34]) := by
  obtain ⟨w, opq⟩ := t
  cases w
  · simp [render_strong, stripWeak, kWeak, stripPrefix]
  · simp [render_weak, stripWeak, kWeak, stripPrefix]

theorem render_inj {a b : Tag} (h : a.render = b.render) : a = b := by
  obtain ⟨wa, oa⟩ := a
  obtain ⟨wb, ob⟩ := b
  cases wa <;> cases wb <;> simp [render_weak, render_strong] at h
  · subst h; rfl
  · subst h; rfl

theorem render_beq (a b : Tag) : (a.render == b.render) = decide (a = b) := by
  by_cases h : a = b
  · subst h; simp
  · have : a.render ≠ b.render := fun h' => h (render_inj h')
    simp [h, this]

theorem strongEq_render (a b : Tag) : strongEq a.render b.render = a.strongEq b := by
  unfold strongEq
  rw [render_beq, startsWith_kWeak_render]
  obtain ⟨wa, oa⟩ := a
  obtain ⟨wb, ob⟩ := b
  cases wa <;> cases wb <;> simp [Tag.strongEq, Tag.mk.injEq]
  by_cases e : oa = ob <;> simp [e]

theorem weakEq_render (a b : Tag) : weakEq a.render b.render = a.weakEq b := by
  unfold weakEq
  rw [stripWeak_render, stripWeak_render]
  simp [Tag.weakEq]

/-! ### One step of the iterator on a rendered tag -/

theorem takeThroughQuote_append (opq rest : Bytes) (h : 34 ∉ opq) :
    takeThroughQuote (opq ++ 34 :: rest) = some (opq ++ [34], rest) := by
  induction opq with
  | nil => simp [takeThroughQuote, cQuote]
  | cons c cs ih =>
    simp only [List.mem_cons, not_or] at h
    have hc : c ≠ 34 := fun e => h.1 e.symm
    simp [takeThroughQuote, cQuote, hc, ih h.2]

/-- What `List::next` leaves after a tag: an optional `","` and the OWS after it are eaten. -/
def afterTag (rest : Bytes) : Bytes :=
  match rest with
  | c :: r => if c = cComma then r.dropWhile isOws else rest
  | [] => rest

theorem etagNext_render (t : Tag) (rest : Bytes) (h : t.wf) :
    etagNext (t.render ++ rest) = some (t.render, afterTag rest) := by
  obtain ⟨w, opq⟩ := t
  simp only [Tag.wf] at h
  cases w
  · have hne : ¬ (87 = 34) := by decide
    simp [render_strong, etagNext, kWeakQ, cQuote, stripPrefix,
      takeThroughQuote_append opq rest h, afterTag]
    cases rest <;> rfl
  · simp [render_weak, etagNext, kWeakQ, stripPrefix,
      takeThroughQuote_append opq rest h, afterTag]
    cases rest <;> rfl

theorem tag_render_ne_nil (t : Tag) : t.render ≠ [] := by
  obtain ⟨w, opq⟩ := t
  cases w <;> simp [render_weak, render_strong]

/-- A rendered tag starts with a byte that is neither OWS nor `*`. -/
theorem render_head (t : Tag) : ∃ c r, t.render = c :: r ∧ isOws c = false ∧ c ≠ 42 := by
  obtain ⟨w, opq⟩ := t
  cases w
  · exact ⟨34, _, render_strong opq, by decide, by decide⟩
  · exact ⟨87, _, render_weak opq, by decide, by decide⟩

theorem etag_dropWhile_ows_append (ows s : Bytes) (h : ∀ c ∈ ows, c = 32 ∨ c = 9)
    (hs : ∀ c r, s = c :: r → isOws c = false) :
    (ows ++ s).dropWhile isOws = s := by
  induction ows with
  | nil =>
    cases s with
    | nil => rfl
    | cons c r => simp [hs c r rfl]
  | cons a l ih =>
    have ha : isOws a = true := by
      rcases h a (by simp) with e | e <;> subst e <;> decide
    simp only [List.cons_append, List.dropWhile, ha]
    exact ih (fun c hc => h c (by simp [hc]))

/-! ### The iterator driven to exhaustion -/

theorem etagItems_nil : etagItems [] = ([], false) := by
  rw [etagItems]; simp

theorem etagItems_cons {rem t r : Bytes} (hne : rem ≠ []) (h : etagNext rem = some (t, r)) :
    etagItems rem = (t :: (etagItems r).1, (etagItems r).2) := by
  rw [etagItems]
  have : rem.isEmpty = false := by cases rem <;> simp_all
  simp only [this, Bool.false_eq_true, if_false]
  split
  · simp_all
  · rename_i t' r' h'
    rw [h] at h'
    simp at h'
    obtain ⟨rfl, rfl⟩ := h'
    simp

theorem renderTags_cons_cons (t : Tag) (ows : Bytes) (p : Tag × Bytes) (rest : List (Tag × Bytes)) :
    renderTags ((t, ows) :: p :: rest) = t.render ++ ([44] ++ ows ++ renderTags (p :: rest)) := by
  simp [renderTags]

theorem renderTags_head (p : Tag × Bytes) (rest : List (Tag × Bytes)) :
    ∃ c r, renderTags (p :: rest) = c :: r ∧ isOws c = false ∧ c ≠ 42 := by
  obtain ⟨t, ows⟩ := p
  obtain ⟨c, r, hr, h1, h2⟩ := render_head t
  cases rest with
  | nil => exact ⟨c, r, by simp [renderTags, hr], h1, h2⟩
  | cons q rest =>
    exact ⟨c, _, by rw [renderTags_cons_cons, hr]; rfl, h1, h2⟩

/-- The list iterator yields exactly the rendered tags, in order, and is not corrupt — also
when tags contain commas or spaces. -/
theorem etagItems_render (ts : List (Tag × Bytes)) (h : TagsWf ts) :
    etagItems (renderTags ts) = (ts.map fun p => p.1.render, false) := by
  obtain ⟨hne, hall⟩ := h
  induction ts with
  | nil => exact absurd rfl hne
  | cons p rest ih =>
    obtain ⟨t, ows⟩ := p
    have hp := hall (t, ows) (by simp)
    cases rest with
    | nil =>
      have h1 := etagNext_render t [] hp.1
      simp only [List.append_nil] at h1
      have h2 : renderTags [(t, ows)] = t.render := by simp [renderTags]
      rw [h2, etagItems_cons (tag_render_ne_nil t) h1]
      simp [afterTag, etagItems_nil]
    | cons q rest =>
      have ih' := ih (by simp) (fun p hp => hall p (by simp [hp]))
      rw [renderTags_cons_cons]
      have h1 := etagNext_render t ([44] ++ ows ++ renderTags (q :: rest)) hp.1
      have h3 : afterTag ([44] ++ ows ++ renderTags (q :: rest)) = renderTags (q :: rest) := by
        obtain ⟨c, r, hr, hc, _⟩ := renderTags_head q rest
        simp only [afterTag, List.cons_append, List.nil_append, cComma, if_true]
        apply etag_dropWhile_ows_append _ _ hp.2
        intro c' r' e
        rw [hr] at e
        simp at e
        rw [← e.1]; exact hc
      rw [h3] at h1
      have hne' : t.render ++ ([44] ++ ows ++ renderTags (q :: rest)) ≠ [] := by
        simp [tag_render_ne_nil t]
      rw [etagItems_cons hne' h1, ih']
      simp

theorem renderTags_ne_star (ts : List (Tag × Bytes)) (h : TagsWf ts) :
    (renderTags ts == [cStar]) = false := by
  obtain ⟨hne, _⟩ := h
  cases ts with
  | nil => exact absurd rfl hne
  | cons p rest =>
    obtain ⟨c, r, hr, _, hc⟩ := renderTags_head p rest
    rw [hr]
    simp [cStar, hc]

theorem anyMatch_render (etag : Option Tag) (im : TagHdr) (h : im.wf) :
    anyMatch (etag.map Tag.render) im.render =
      some (match im with
            | .absent => true
            | .star => true
            | .list ts => match etag with
              | none => false
              | some e => ts.any fun p => p.1.strongEq e) := by
  cases im with
  | absent => simp [anyMatch, TagHdr.render]
  | star => simp [anyMatch, TagHdr.render, cStar]
  | list ts =>
    have hwf : TagsWf ts := h
    cases etag with
    | none => simp [anyMatch, TagHdr.render, renderTags_ne_star ts hwf]
    | some e =>
      simp only [anyMatch, TagHdr.render, Option.map_some, renderTags_ne_star ts hwf,
        etagItems_render ts hwf]
      simp [List.any_map, Function.comp_def, strongEq_render]

theorem noneMatch_render (etag : Option Tag) (inm : TagHdr) (h : inm.wf) :
    noneMatch (etag.map Tag.render) inm.render =
      (match inm with
       | .absent => none
       | .star => some false
       | .list ts => some (match etag with
          | none => true
          | some e => !(ts.any fun p => p.1.weakEq e))) := by
  cases inm with
  | absent => simp [noneMatch, TagHdr.render]
  | star => simp [noneMatch, TagHdr.render, cStar]
  | list ts =>
    have hwf : TagsWf ts := h
    cases etag with
    | none => simp [noneMatch, TagHdr.render, renderTags_ne_star ts hwf]
    | some e =>
      simp only [noneMatch, TagHdr.render, Option.map_some, renderTags_ne_star ts hwf,
        etagItems_render ts hwf]
      simp [List.any_map, Function.comp_def, weakEq_render]

end HS
