/-
The crate's own unit tests, restated on the model and checked by the kernel (`decide`): the
model gives the answers the maintainers' tests expect.  These are tests, not property theorems —
a static tie between model and code in addition to the run-time correspondence check.
(Sources: src/range.rs, src/etag.rs, src/lib.rs, src/body.rs, src/chunker.rs `mod tests`.)
-/
import HttpServeModel.Model.Range
import HttpServeModel.Model.Etag
import HttpServeModel.Model.Negotiate
import HttpServeModel.Model.Body
import HttpServeModel.Spec.Pipe

namespace HS.UnitTests
open HS

/-! ### src/range.rs -/
example : parseRange (some [98, 121, 116, 101, 115, 61, 48, 45, 52, 57, 57]) 10000 = .ok (.sat [(0, 500)]) := by decide  -- 'bytes=0-499'
example : parseRange (some [98, 121, 116, 101, 115, 61, 53, 48, 48, 45, 57, 57, 57]) 10000 = .ok (.sat [(500, 1000)]) := by decide  -- 'bytes=500-999'
example : parseRange (some [98, 121, 116, 101, 115, 61, 45, 53, 48, 48]) 10000 = .ok (.sat [(9500, 10000)]) := by decide  -- 'bytes=-500'
example : parseRange (some [98, 121, 116, 101, 115, 61, 57, 53, 48, 48, 45]) 10000 = .ok (.sat [(9500, 10000)]) := by decide  -- 'bytes=9500-'
example : parseRange (some [98, 121, 116, 101, 115, 61, 48, 45, 48, 44, 45, 49]) 10000 = .ok (.sat [(0, 1), (9999, 10000)]) := by decide  -- 'bytes=0-0,-1'
example : parseRange (some [98, 121, 116, 101, 115, 61, 53, 48, 48, 45, 54, 48, 48, 44, 32, 54, 48, 49, 45, 57, 57, 57]) 10000 = .ok (.sat [(500, 601), (601, 1000)]) := by decide  -- 'bytes=500-600, 601-999'
example : parseRange (some [98, 121, 116, 101, 115, 61, 53, 48, 48, 45, 55, 48, 48, 44, 32, 54, 48, 49, 45, 57, 57, 57]) 10000 = .ok (.sat [(500, 701), (601, 1000)]) := by decide  -- 'bytes=500-700, 601-999'
example : parseRange (some [98, 121, 116, 101, 115, 61, 49, 48, 48, 48, 48, 45]) 10000 = .ok (.unsat) := by decide  -- 'bytes=10000-'
example : parseRange (some [98, 121, 116, 101, 115, 61, 48, 45, 52, 57, 57, 44, 49, 48, 48, 48, 48, 45]) 10000 = .ok (.sat [(0, 500)]) := by decide  -- 'bytes=0-499,10000-'
example : parseRange (some [98, 121, 116, 101, 115, 61, 45, 49]) 0 = .ok (.unsat) := by decide  -- 'bytes=-1'
example : parseRange (some [98, 121, 116, 101, 115, 61, 48, 45, 48]) 0 = .ok (.unsat) := by decide  -- 'bytes=0-0'
example : parseRange (some [98, 121, 116, 101, 115, 61, 48, 45]) 0 = .ok (.unsat) := by decide  -- 'bytes=0-'
example : parseRange (some [98, 121, 116, 101, 115, 61, 48, 45, 48]) 1 = .ok (.sat [(0, 1)]) := by decide  -- 'bytes=0-0'
example : parseRange (some [98, 121, 116, 101, 115, 61, 48, 45, 49, 48, 48, 48, 48]) 500 = .ok (.sat [(0, 500)]) := by decide  -- 'bytes=0-10000'
example : parseRange none 10000 = .ok .none := by decide
example : parseRange (some [255]) 10000 = .ok .none := by decide  -- non-ASCII
/-! the repaired defects F1-F5 -/
example : parseRange (some [98, 121, 116, 101, 115, 61, 48, 45, 49, 56, 52, 52, 54, 55, 52, 52, 48, 55, 51, 55, 48, 57, 53, 53, 49, 54, 49, 53]) 10 = .ok (.sat [(0, 10)]) := by decide  -- 'bytes=0-18446744073709551615'
example : parseRange (some [98, 121, 116, 101, 115, 61, 45, 48]) 10 = .ok (.unsat) := by decide  -- 'bytes=-0'
example : parseRange (some [98, 121, 116, 101, 115, 61, 45, 49, 48]) 10 = .ok (.sat [(0, 10)]) := by decide  -- 'bytes=-10'
example : parseRange (some [98, 121, 116, 101, 115, 61, 45, 49, 49]) 10 = .ok (.sat [(0, 10)]) := by decide  -- 'bytes=-11'
example : parseRange (some [98, 121, 116, 101, 115, 61, 43, 49, 45, 50]) 10 = .ok (.none) := by decide  -- 'bytes=+1-2'
example : parseRange (some [98, 121, 116, 101, 115, 61, 45, 43, 51]) 10 = .ok (.none) := by decide  -- 'bytes=-+3'
example : parseRange (some [98, 121, 116, 101, 115, 61, 49, 45, 50, 32, 44, 51, 45, 52]) 1000 = .ok (.sat [(1, 3), (3, 5)]) := by decide  -- 'bytes=1-2 ,3-4'
/-! ### src/etag.rs -/
example : weakEq [34, 102, 111, 111, 34] [34, 102, 111, 111, 34] = true ∧ strongEq [34, 102, 111, 111, 34] [34, 102, 111, 111, 34] = true := by decide
example : weakEq [34, 102, 111, 111, 34] [34, 98, 97, 114, 34] = false ∧ strongEq [34, 102, 111, 111, 34] [34, 98, 97, 114, 34] = false := by decide
example : weakEq [87, 47, 34, 102, 111, 111, 34] [34, 102, 111, 111, 34] = true ∧ strongEq [87, 47, 34, 102, 111, 111, 34] [34, 102, 111, 111, 34] = false := by decide
example : weakEq [34, 102, 111, 111, 34] [87, 47, 34, 102, 111, 111, 34] = true ∧ strongEq [34, 102, 111, 111, 34] [87, 47, 34, 102, 111, 111, 34] = false := by decide
example : weakEq [87, 47, 34, 102, 111, 111, 34] [87, 47, 34, 102, 111, 111, 34] = true ∧ strongEq [87, 47, 34, 102, 111, 111, 34] [87, 47, 34, 102, 111, 111, 34] = false := by decide
example : weakEq [87, 47, 34, 102, 111, 111, 34] [87, 47, 34, 98, 97, 114, 34] = false ∧ strongEq [87, 47, 34, 102, 111, 111, 34] [87, 47, 34, 98, 97, 114, 34] = false := by decide
/-! ### src/lib.rs: parse_qvalue, should_gzip -/
example : parseQvalue [48] = .ok (some 0) := by decide  -- '0'
example : parseQvalue [48, 46] = .ok (some 0) := by decide  -- '0.'
example : parseQvalue [48, 46, 48] = .ok (some 0) := by decide  -- '0.0'
example : parseQvalue [48, 46, 48, 48] = .ok (some 0) := by decide  -- '0.00'
example : parseQvalue [48, 46, 48, 48, 48] = .ok (some 0) := by decide  -- '0.000'
example : parseQvalue [48, 46, 48, 48, 48, 48] = .ok (none) := by decide  -- '0.0000'
example : parseQvalue [48, 46, 50] = .ok (some 200) := by decide  -- '0.2'
example : parseQvalue [48, 46, 50, 51] = .ok (some 230) := by decide  -- '0.23'
example : parseQvalue [48, 46, 50, 51, 52] = .ok (some 234) := by decide  -- '0.234'
example : parseQvalue [49] = .ok (some 1000) := by decide  -- '1'
example : parseQvalue [49, 46] = .ok (some 1000) := by decide  -- '1.'
example : parseQvalue [49, 46, 48] = .ok (some 1000) := by decide  -- '1.0'
example : parseQvalue [49, 46, 49] = .ok (none) := by decide  -- '1.1'
example : parseQvalue [49, 46, 48, 48] = .ok (some 1000) := by decide  -- '1.00'
example : parseQvalue [49, 46, 48, 48, 48] = .ok (some 1000) := by decide  -- '1.000'
example : parseQvalue [49, 46, 48, 48, 49] = .ok (none) := by decide  -- '1.001'
example : parseQvalue [49, 46, 48, 48, 48, 48] = .ok (none) := by decide  -- '1.0000'
example : parseQvalue [50] = .ok (none) := by decide  -- '2'
example : shouldGzip none = .ok false := by decide  -- None
example : shouldGzip (some [103, 122, 105, 112]) = .ok true := by decide  -- 'gzip'
example : shouldGzip (some [103, 122, 105, 112, 59, 113, 61, 48, 46, 48, 48, 49]) = .ok true := by decide  -- 'gzip;q=0.001'
example : shouldGzip (some [103, 122, 105, 112, 59, 113, 61, 48]) = .ok false := by decide  -- 'gzip;q=0'
example : shouldGzip (some []) = .ok false := by decide  -- ''
example : shouldGzip (some [42]) = .ok true := by decide  -- '*'
example : shouldGzip (some [103, 122, 105, 112, 59, 113, 61, 48, 44, 32, 42]) = .ok false := by decide  -- 'gzip;q=0, *'
example : shouldGzip (some [105, 100, 101, 110, 116, 105, 116, 121, 61, 113, 61, 48, 44, 32, 42]) = .ok true := by decide  -- 'identity=q=0, *'
example : shouldGzip (some [105, 100, 101, 110, 116, 105, 116, 121, 59, 113, 61, 48, 46, 53, 44, 32, 103, 122, 105, 112, 59, 113, 61, 49, 46, 48]) = .ok true := by decide  -- 'identity;q=0.5, gzip;q=1.0'
example : shouldGzip (some [105, 100, 101, 110, 116, 105, 116, 121, 59, 113, 61, 49, 46, 48, 44, 32, 103, 122, 105, 112, 59, 113, 61, 48, 46, 53]) = .ok false := by decide  -- 'identity;q=1.0, gzip;q=0.5'
example : shouldGzip (some [42, 59, 113, 61, 48]) = .ok false := by decide  -- '*;q=0'
/-! ### src/body.rs: ExactLenStream -/
example : (fun tr => tr.map (·.2.2)) (BodyS.run 4 (.exact { stream := [.chunk [104], .chunk [101, 108, 108, 111]], remaining := 5 })) =
    [.data [104], .data [101, 108, 108, 111], .end_, .end_] := by decide
example : (fun tr => tr.map (·.2.2)) (BodyS.run 3 (.exact { stream := [.chunk [104, 101, 108, 108, 111]], remaining := 10 })) =
    [.data [104, 101, 108, 108, 111], .errShort 5, .end_] := by decide
example : (fun tr => tr.map (·.2.2)) (BodyS.run 3 (.exact { stream := [.chunk [104], .chunk [101, 108, 108, 111]], remaining := 3 })) =
    [.data [104], .errLong 2, .end_] := by decide

/-! ### src/chunker.rs -/
/-- just_drop -/
example : let h := (Hist.init 4 .raw).run [.c .isEndStream, .p .drop, .c .isEndStream, .c (.poll 1)]
    h.polls = [.end_] ∧ readerIsEndStream h.sys.sh = true := by decide
/-- extra_poll (the 0.4.0-rc.2 regression) -/
example : ((Hist.init 4 .raw).run [.c (.poll 0), .c (.poll 0), .p (.write [49]), .p .drop, .c (.poll 0)]).polls =
    [.pending, .pending, .data [49]] := by decide
/-- small_flush / small_drop -/
example : ((Hist.init 4 .raw).run [.p (.write [49]), .p .flush, .p .drop, .c (.poll 0), .c (.poll 0)]).polls =
    [.data [49], .end_] := by decide
example : ((Hist.init 4 .raw).run [.p (.write [49]), .p .drop, .c (.poll 0), .c (.poll 0)]).polls =
    [.data [49], .end_] := by decide
/-- chunk_write, chunk_double_write -/
example : let h := (Hist.init 4 .raw).run [.p (.write [49, 50, 51, 52]), .p (.write [53, 54, 55, 56]), .p .drop,
      .c (.poll 0), .c (.poll 0), .c (.poll 0)]
    h.pouts = [.wrote 4, .wrote 4, .unit] ∧ h.polls = [.data [49, 50, 51, 52], .data [53, 54, 55, 56], .end_] := by decide
/-- large_write, small_large_write -/
example : let h := (Hist.init 4 .raw).run [.p (.write [49, 50, 51, 52, 53, 54]), .p .drop, .c (.poll 0), .c (.poll 0)]
    h.pouts = [.wrote 4, .unit] ∧ h.polls = [.data [49, 50, 51, 52], .end_] := by decide
example : let h := (Hist.init 4 .raw).run [.p (.write [49]), .p (.write [50, 51, 52, 53]), .p .drop, .c (.poll 0), .c (.poll 0)]
    h.pouts = [.wrote 1, .wrote 3, .unit] ∧ h.polls = [.data [49, 50, 51, 52], .end_] := by decide
/-- abort -/
example : ((Hist.init 4 .raw).run [.p (.write [49, 50, 51, 52]), .p (.write [53]), .p .abort, .p .drop,
      .c (.poll 0), .c (.poll 0)]).polls = [.err, .end_] := by decide

end HS.UnitTests
