/-
Specification vocabulary for C19: what it means for a node to lie inside the base directory,
and the path-safety rule as C19 states it.
-/
import HttpServeModel.Model.Dir

namespace HS

/-- `n` is `base` itself or reachable from it by child lookups only. -/
inductive Within : FsNode → FsNode → Prop where
  | refl (b : FsNode) : Within b b
  | child (b d : FsNode) (name : Bytes) (n : FsNode) :
      Within b d → d.lookup name = some n → Within b n

/-- C19: "an error for any path that is absolute, contains a NUL byte or has a `..` segment". -/
def pathUnsafe (p : Bytes) : Prop :=
  0 ∈ p ∨ p.head? = some 47 ∨ [46, 46] ∈ splitOn 47 p

end HS
