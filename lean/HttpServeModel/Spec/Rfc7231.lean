/-
Independent specification of RFC 7231 section 5.3.4 (Accept-Encoding) as C16 words it: an AST
of the header with a `render` into bytes, qvalues, and the preference of gzip vs identity.
-/
import HttpServeModel.Model.Bytes

namespace HS

/-- `qvalue = ( "0" [ "." 0*3DIGIT ] ) / ( "1" [ "." 0*3("0") ] )`; `digits` are digit
*values* (0..9). -/
structure QVal where
  isOne : Bool
  dot : Bool
  digits : List Nat
  deriving Repr, DecidableEq

def QVal.wf (q : QVal) : Prop :=
  q.digits.length ≤ 3 ∧ (∀ d ∈ q.digits, d ≤ 9) ∧ (q.dot = false → q.digits = []) ∧
  (q.isOne = true → ∀ d ∈ q.digits, d = 0)

def QVal.render (q : QVal) : Bytes :=
  [if q.isOne then 49 else 48] ++ (if q.dot then [46] ++ q.digits.map (· + 48) else [])

/-- The weight in thousandths, 0..1000. -/
def QVal.value (q : QVal) : Nat :=
  if q.isOne then 1000
  else match q.digits with
    | [] => 0
    | [a] => a * 100
    | [a, b] => a * 100 + b * 10
    | a :: b :: c :: _ => a * 100 + b * 10 + c

/-- One list element: `codings [ OWS ";" OWS "q=" qvalue ]` with optional whitespace around
the element (RFC 7230 `#rule`). The coding is any string without `,`, `;`, SP or HTAB that
does not start or end with whitespace (a token, `*`, or even empty — empty list elements are
tolerated). -/
structure AeElem where
  coding : Bytes
  weight : Option QVal := none
  owsBefore : Bytes := []
  owsAfter : Bytes := []
  owsBeforeSemi : Bytes := []
  owsAfterSemi : Bytes := []
  deriving Repr, DecidableEq

def isOwsStr (s : Bytes) : Prop := ∀ c ∈ s, c = 32 ∨ c = 9

def AeElem.wf (e : AeElem) : Prop :=
  (∀ c ∈ e.coding, c ≠ 44 ∧ c ≠ 59 ∧ c ≠ 32 ∧ c ≠ 9 ∧ ((32 ≤ c ∧ c < 127))) ∧
  isOwsStr e.owsBefore ∧ isOwsStr e.owsAfter ∧ isOwsStr e.owsBeforeSemi ∧
  isOwsStr e.owsAfterSemi ∧
  (∀ q, e.weight = some q → q.wf) ∧
  (e.weight = none → e.owsBeforeSemi = [] ∧ e.owsAfterSemi = [])

def AeElem.render (e : AeElem) : Bytes :=
  e.owsBefore ++ e.coding ++
    (match e.weight with
     | none => []
     | some q => e.owsBeforeSemi ++ [59] ++ e.owsAfterSemi ++ [113, 61] ++ q.render) ++
    e.owsAfter

def renderAe : List AeElem → Bytes
  | [] => []
  | [x] => x.render
  | x :: y :: rest => x.render ++ [44] ++ renderAe (y :: rest)

/-- The quality a list gives a coding by name: that of the *last* element naming it (the RFC
does not address duplicates; see DESIGN section 8, C16). An element without weight has 1000. -/
def qualityOf (name : Bytes) (l : List AeElem) : Option Nat :=
  (l.reverse.find? fun e => e.coding == name).map fun e =>
    match e.weight with
    | none => 1000
    | some q => q.value

/-- Preference order of C16: 0 = unacceptable, 1 = the least-preferred acceptable coding,
`1 + q` = acceptable with quality `q > 0`. -/
def prefGzip (l : List AeElem) : Nat :=
  match (qualityOf [103, 122, 105, 112] l).or (qualityOf [42] l) with
  | none => 0
  | some 0 => 0
  | some q => 1 + q

def prefIdentity (l : List AeElem) : Nat :=
  match (qualityOf [105, 100, 101, 110, 116, 105, 116, 121] l).or (qualityOf [42] l) with
  | none => 1
  | some 0 => 0
  | some q => 1 + q

/-- "true exactly when gzip is acceptable — listed, or covered by `*`, with a non-zero quality
— and its quality is not lower than identity's, where identity takes its own quality, else
`*`'s, else counts as the least-preferred acceptable coding". -/
def specGzip (l : List AeElem) : Bool := prefGzip l != 0 && prefGzip l ≥ prefIdentity l

end HS
