/-
Specification vocabulary for C10: the interleaving model `SSys` extended with the consumer's
ghost state — with which waker it is parked, and whether that waker has been woken since.
-/
import HttpServeModel.Model.Sched

namespace HS

structure Conc where
  s : SSys
  /-- `some w`: the consumer's last poll returned `Pending` with waker `w` and it has not
  polled since -/
  parked : Option Nat := none
  /-- a `wake()` on that waker has been delivered since it parked -/
  woken : Bool := false
  /-- bytes the consumer received -/
  delivered : Bytes := []
  /-- the consumer has observed the end or the error -/
  terminal : Option ROut := none
  deriving Repr, DecidableEq

def Conc.init (cap : Nat) (prog : List PCmd) : Conc := { s := SSys.init cap prog }

def Conc.step (c : Conc) (st : SStep) : Conc :=
  let (s', o) := c.s.step st
  match o with
  | .poll .pending =>
    (match st with
     | .poll w => { c with s := s', parked := some w, woken := false }
     | _ => { c with s := s' })
  | .poll (.data d) => { c with s := s', parked := none, woken := false, delivered := c.delivered ++ d }
  | .poll r =>
    { c with s := s', parked := none, woken := false,
             terminal := if c.terminal.isSome then c.terminal else some r }
  | .wake w => { c with s := s', woken := c.woken || (c.parked == some w) }
  | .dropped => { c with s := s', parked := none, woken := false }
  | _ => { c with s := s' }

def Conc.run (c : Conc) (sched : List SStep) : Conc := sched.foldl Conc.step c

/-- Something the consumer must not sleep through: queued chunks, the end, or an error. -/
def deliverable (sh : Shared) : Prop :=
  match sh.state with
  | .ok ready _ wd => ready ≠ [] ∨ wd = true
  | .err => True
  | .fused => False

/-- Bytes accepted by `write` so far: the `wrote n` results against the program's commands. -/
def acceptedBytes : List PCmd → List POut → Bytes
  | .write bs :: cmds, .wrote n :: outs => bs.take n ++ acceptedBytes cmds outs
  | _ :: cmds, _ :: outs => acceptedBytes cmds outs
  | _, _ => []

end HS
