/-
Independent specification of RFC 7232 entity-tags and precondition evaluation, as C04 words
it: an AST for entity-tags and tag-list headers with a `render` into bytes, the two comparison
functions, and the precedence rule.
-/
import HttpServeModel.Model.Bytes

namespace HS

/-- `entity-tag = [ weak ] opaque-tag`, `opaque-tag = DQUOTE *etagc DQUOTE` -/
structure Tag where
  weak : Bool
  opq : Bytes
  deriving Repr, DecidableEq

/-- `etagc` excludes DQUOTE; anything else (commas, spaces, obs-text) is allowed. -/
def Tag.wf (t : Tag) : Prop := 34 ∉ t.opq

def Tag.render (t : Tag) : Bytes :=
  (if t.weak then [87, 47] else []) ++ [34] ++ t.opq ++ [34]

/-- RFC 7232 section 2.3.2 strong comparison -/
def Tag.strongEq (a b : Tag) : Bool := !a.weak && !b.weak && a.opq == b.opq

/-- RFC 7232 section 2.3.2 weak comparison -/
def Tag.weakEq (a b : Tag) : Bool := a.opq == b.opq

/-- `1#entity-tag`: every tag but the last is followed by "," and optional whitespace. -/
def renderTags : List (Tag × Bytes) → Bytes
  | [] => []
  | [(t, _)] => t.render
  | (t, ows) :: rest => t.render ++ [44] ++ ows ++ renderTags rest

def TagsWf (ts : List (Tag × Bytes)) : Prop :=
  ts ≠ [] ∧ ∀ p ∈ ts, p.1.wf ∧ ∀ c ∈ p.2, c = 32 ∨ c = 9

/-- If-Match / If-None-Match -/
inductive TagHdr where
  | absent
  | star
  | list (ts : List (Tag × Bytes))
  deriving Repr, DecidableEq

def TagHdr.render : TagHdr → Option Bytes
  | .absent => none
  | .star => some [42]
  | .list ts => some (renderTags ts)

def TagHdr.wf : TagHdr → Prop
  | .list ts => TagsWf ts
  | _ => True

/-- "412 exactly when If-Match is present and none of its tags strongly equals the entity's
ETag (`*` always passes), or If-Match is absent and If-Unmodified-Since is earlier than the
second in which the entity was last modified". `ius` is whole seconds; `mtime` is
`(secs, nanos)`; conditions on dates are ignored when the entity has no modification time. -/
def spec412 (etag : Option Tag) (mtime : Option (Nat × Nat)) (im : TagHdr) (ius : Option Nat) :
    Bool :=
  match im with
  | .star => false
  | .list ts =>
    match etag with
    | none => true
    | some e => !(ts.any fun p => p.1.strongEq e)
  | .absent =>
    match ius, mtime with
    | some s, some m => decide (s < m.1)
    | _, _ => false

/-- "Otherwise 304 exactly when If-None-Match is `*` or one of its tags weakly equals the
ETag, or If-None-Match is absent and the last-modified second is not later than
If-Modified-Since". -/
def spec304 (etag : Option Tag) (mtime : Option (Nat × Nat)) (inm : TagHdr) (ims : Option Nat) :
    Bool :=
  match inm with
  | .star => true
  | .list ts =>
    match etag with
    | none => false
    | some e => ts.any fun p => p.1.weakEq e
  | .absent =>
    match ims, mtime with
    | some s, some m => decide (m.1 ≤ s)
    | _, _ => false

end HS
