/-
Independent specification of RFC 7233 byte ranges, in the RFC's own terms: an AST of the
`byte-range-set` grammar, a `render` function into bytes, and the resolution rule as C03 words
it.  Nothing here mentions how the implementation parses.
-/
import HttpServeModel.Model.Bytes

namespace HS

/-- `byte-range-spec` / `suffix-byte-range-spec` -/
inductive RangeSpec where
  | fromTo (first last : Nat)     -- first-byte-pos "-" last-byte-pos
  | from (first : Nat)            -- first-byte-pos "-"
  | suffix (n : Nat)              -- "-" suffix-length
  deriving Repr, DecidableEq

/-- A list element as it appears on the wire: optional whitespace on both sides (RFC 7230
section 7 `#rule`, recipients' side) and an arbitrary number of leading zeros on each number
(`1*DIGIT`). -/
structure RangeElem where
  spec : RangeSpec
  owsBefore : Bytes := []
  owsAfter : Bytes := []
  zeros1 : Nat := 0
  zeros2 : Nat := 0
  deriving Repr, DecidableEq

def IsOws (s : Bytes) : Prop := ∀ c ∈ s, c = 32 ∨ c = 9

def num (zeros n : Nat) : Bytes := List.replicate zeros 48 ++ dec n

def RangeSpec.render (zeros1 zeros2 : Nat) : RangeSpec → Bytes
  | .fromTo a b => num zeros1 a ++ [45] ++ num zeros2 b
  | .from a => num zeros1 a ++ [45]
  | .suffix n => [45] ++ num zeros1 n

def RangeElem.render (e : RangeElem) : Bytes :=
  e.owsBefore ++ e.spec.render e.zeros1 e.zeros2 ++ e.owsAfter

/-- elements joined by "," -/
def joinComma : List Bytes → Bytes
  | [] => []
  | [x] => x
  | x :: y :: rest => x ++ [44] ++ joinComma (y :: rest)

/-- `"bytes=" 1#( byte-range-spec / suffix-byte-range-spec )` -/
def renderRange (es : List RangeElem) : Bytes :=
  [98, 121, 116, 101, 115, 61] ++ joinComma (es.map RangeElem.render)

/-- Which bytes a spec selects from an entity of length `L` (inclusive positions), exactly as
C03 states it; `none` = selects nothing. -/
def RangeSpec.resolve (L : Nat) : RangeSpec → Option (Nat × Nat)
  | .fromTo first last =>
    if L = 0 then none
    else if first ≤ min last (L - 1) then some (first, min last (L - 1)) else none
  | .from first => if first < L then some (first, L - 1) else none
  | .suffix n => if n = 0 ∨ L = 0 then none else some (L - min n L, L - 1)

/-- The satisfiable ranges, in request order (inclusive). -/
def satisfiable (L : Nat) (es : List RangeElem) : List (Nat × Nat) :=
  es.filterMap fun e => e.spec.resolve L

def RangeSpec.fits : RangeSpec → Prop
  | .fromTo a b => a < U64 ∧ b < U64
  | .from a => a < U64
  | .suffix n => n < U64

instance (s : RangeSpec) : Decidable s.fits := by
  cases s <;> simp only [RangeSpec.fits] <;> infer_instance

def RangeElem.wf (e : RangeElem) : Prop := IsOws e.owsBefore ∧ IsOws e.owsAfter

end HS
