/-
Specification vocabulary for the streaming body (C08, C09, C11, C12, C20): histories of
producer and consumer operations on the model `Sys`, with ghost logs of what the producer got
accepted and what the consumer received.  The spec a streaming body must refine is a FIFO byte
pipe: `delivered ++ (what is queued) ++ (what the writer still buffers) = accepted`.
-/
import HttpServeModel.Model.Chunker

namespace HS

inductive AnyOp where
  | p (op : POp)
  | c (op : COp)
  deriving Repr, DecidableEq

structure Hist where
  sys : Sys
  /-- raw writer: the prefixes `write` reported as accepted, concatenated;
      gzip writer: the bytes the encoder pushed during operations that succeeded -/
  accepted : Bytes := []
  /-- data frames received by the consumer, in order -/
  frames : List Bytes := []
  /-- results of producer operations, in order -/
  pouts : List POut := []
  /-- results of polls, in order -/
  polls : List ROut := []
  deriving Repr, DecidableEq

def Hist.delivered (h : Hist) : Bytes := h.frames.flatten

def Hist.init (cap : Nat) (bw : BW) : Hist := { sys := { cap := cap, bw := bw } }

def Hist.step (h : Hist) : AnyOp → Hist
  | .p op =>
    let (s', o, _) := h.sys.pop op
    let acc : Bytes :=
      match op, o with
      | .write bs, .wrote n => h.accepted ++ bs.take n
      | .gzWrite pushed _, .wrote _ => h.accepted ++ pushed
      | .gzFlush pushed, .ok => h.accepted ++ pushed
      | .gzDrop pushed, .unit => if h.sys.bw = .gz then h.accepted ++ pushed else h.accepted
      | _, _ => h.accepted
    { h with sys := s', accepted := acc, pouts := h.pouts ++ [o] }
  | .c op =>
    let (s', o) := h.sys.cop op
    match o with
    | .polled (.data d) => { h with sys := s', frames := h.frames ++ [d], polls := h.polls ++ [.data d] }
    | .polled r => { h with sys := s', polls := h.polls ++ [r] }
    | _ => { h with sys := s' }

def Hist.run (h : Hist) (ops : List AnyOp) : Hist := ops.foldl Hist.step h

/-- What is queued between writer and reader. -/
def Sys.inflight (s : Sys) : Bytes :=
  match s.sh.state with
  | .ok ready _ _ => ready.flatten
  | _ => []

/-- Operations of a history without abort and without dropping the body, on a raw writer. -/
def AnyOp.rawPlain : AnyOp → Prop
  | .p (.write _) | .p .flush | .p .drop => True
  | .c (.poll _) | .c .sizeHint | .c .isEndStream => True
  | _ => False

/-- The same for a gzip writer. -/
def AnyOp.gzPlain : AnyOp → Prop
  | .p (.gzWrite _ _) | .p (.gzFlush _) | .p (.gzDrop _) => True
  | .c (.poll _) | .c .sizeHint | .c .isEndStream => True
  | _ => False

/-- Any operation a user of a raw `BodyWriter` and of the body can perform. -/
def AnyOp.rawAny : AnyOp → Prop
  | .p (.write _) | .p .flush | .p .drop | .p .abort => True
  | .c _ => True
  | _ => False

/-- Any operation on a gzip `BodyWriter` and the body. -/
def AnyOp.gzAny : AnyOp → Prop
  | .p (.gzWrite _ _) | .p (.gzFlush _) | .p (.gzDrop _) | .p .abort => True
  | .c _ => True
  | _ => False

end HS
