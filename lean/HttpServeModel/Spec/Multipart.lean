/-
Specification of the byte layout of a `multipart/byteranges` body (C06) and of what it means
for an entity to honour its contract (C01, C02, C06, C12).
-/
import HttpServeModel.Model.Body

namespace HS

/-- Entity content: the byte at every position. -/
abbrev Content := Nat → Nat

/-- Entity bytes `a .. b-1` (half-open, as `get_range` is called). -/
def Content.slice (c : Content) (a b : Nat) : Bytes := (List.range (b - a)).map fun i => c (a + i)

/-- The entity's own headers as they appear inside a part: `name ": " value CRLF` each. -/
def specEntityHeaders (hs : List (Bytes × Bytes)) : Bytes :=
  hs.flatMap fun (k, v) => k ++ [58, 32] ++ v ++ [13, 10]

/-- The head of one body part for the inclusive range `a-b` of an entity of length `L`:
delimiter line, `Content-Range` line, entity headers, blank line. -/
def specPartHead (L : Nat) (eh : Bytes) (a b : Nat) : Bytes :=
  [13, 10, 45, 45, 66, 13, 10]                                      -- CRLF "--B" CRLF
  ++ [67, 111, 110, 116, 101, 110, 116, 45, 82, 97, 110, 103, 101, 58, 32]   -- "Content-Range: "
  ++ [98, 121, 116, 101, 115, 32] ++ dec a ++ [45] ++ dec b ++ [47] ++ dec L ++ [13, 10]
  ++ eh ++ [13, 10]

/-- One body part: its head, then exactly entity bytes `a..=b`. -/
def specPart (c : Content) (L : Nat) (eh : Bytes) (a b : Nat) : Bytes :=
  specPartHead L eh a b ++ c.slice a (b + 1)

/-- The whole body for inclusive ranges `rs` in request order, with the closing delimiter. -/
def specLayout (c : Content) (L : Nat) (eh : Bytes) (rs : List (Nat × Nat)) : Bytes :=
  (rs.flatMap fun r => specPart c L eh r.1 r.2) ++ [13, 10, 45, 45, 66, 45, 45, 13, 10]

/-- Bytes a script delivers (ignoring `pending`), up to its end. -/
def scriptBytes : List Ev → Bytes
  | [] => []
  | .chunk bs :: rest => bs ++ scriptBytes rest
  | _ :: rest => scriptBytes rest

/-- A stream honours the contract for the half-open range `a..b`: it never fails and its
chunks — however many, of whatever sizes, empty ones and `Pending` polls included —
concatenate to exactly the entity's bytes of that range. -/
def HonestScript (c : Content) (a b : Nat) (evs : List Ev) : Prop :=
  Ev.err ∉ evs ∧ scriptBytes evs = c.slice a b

/-- All data bytes of a poll trace, concatenated. -/
def concatData : List PollOut → Bytes
  | [] => []
  | .data d :: rest => d ++ concatData rest
  | _ :: rest => concatData rest

end HS
