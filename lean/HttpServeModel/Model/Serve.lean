/-
Model of `serve` / `serve_inner` / `prepare_multipart` (src/serving.rs): request +
entity + clock ↦ status, headers (in the order the code adds them), a body plan and the
log of calls made on the entity.
-/
import HttpServeModel.Model.Range
import HttpServeModel.Model.Cond

namespace HS

/-- 'bytes ' -/
def kBytesSp : Bytes := [98, 121, 116, 101, 115, 32]
/-- 'bytes */' -/
def kBytesStar : Bytes := [98, 121, 116, 101, 115, 32, 42, 47]
/-- '\r\n--B\r\nContent-Range: bytes ' -/
def kPartPre : Bytes := [13, 10, 45, 45, 66, 13, 10, 67, 111, 110, 116, 101, 110, 116, 45, 82, 97, 110, 103, 101, 58, 32, 98, 121, 116, 101, 115, 32]
/-- '\r\n' -/
def kCRLF : Bytes := [13, 10]
/-- ': ' -/
def kColonSp : Bytes := [58, 32]
/-- '\r\n--B--\r\n' (`PART_TRAILER`) -/
def kTrailer : Bytes := [13, 10, 45, 45, 66, 45, 45, 13, 10]
/-- 'multipart/byteranges; boundary=B' -/
def kMultipartCT : Bytes := [109, 117, 108, 116, 105, 112, 97, 114, 116, 47, 98, 121, 116, 101, 114, 97, 110, 103, 101, 115, 59, 32, 98, 111, 117, 110, 100, 97, 114, 121, 61, 66]
/-- 'get, head' -/
def kGetHead : Bytes := [103, 101, 116, 44, 32, 104, 101, 97, 100]
/-- 'bytes' -/
def kBytes : Bytes := [98, 121, 116, 101, 115]

inductive Method where
  | get | head | other
  deriving Repr, DecidableEq

inductive HName where
  | acceptRanges | date | lastModified | etag | contentRange | contentLength | contentType
  | allow
  | ent (name : Bytes)      -- a header supplied by the entity's `add_headers`
  deriving Repr, DecidableEq

inductive HVal where
  | bytes (b : Bytes)
  | httpDate (secs : Nat)   -- `fmt_http_date` of a time in that second
  deriving Repr, DecidableEq

/-- What `serve` decided the body is. -/
inductive Plan where
  | once (len : Nat)        -- `Body::from(<static message of that length>)`
  | empty                   -- `Body::empty()`
  | exact (a b : Nat)       -- `ExactLenStream::new(b - a, ent.get_range(a..b))`
  | multipart (partHeaders : List Bytes) (ranges : List (Nat × Nat)) (len : Nat)
  deriving Repr, DecidableEq

inductive EntCall where
  | lastModified | etag | len | addHeaders
  | getRange (a b : Nat)
  deriving Repr, DecidableEq

structure Req where
  method : Method
  range : Option Bytes := none
  ifRange : Option Bytes := none
  ifMatch : Option Bytes := none
  ifNoneMatch : Option Bytes := none
  ius : DateHdr := .absent
  ims : DateHdr := .absent
  deriving Repr, DecidableEq

structure Ent where
  len : Nat
  etag : Option Bytes := none
  mtime : Option (Nat × Nat) := none
  /-- in `HeaderMap` iteration order -/
  headers : List (Bytes × Bytes) := []
  deriving Repr, DecidableEq

/-- What `Entity::last_modified` may return: nothing, a time at or after the Unix epoch (whole
seconds, nanoseconds), or a time before it. -/
inductive MTime where
  | absent
  | at (secs nanos : Nat)
  | preEpoch
  deriving Repr, DecidableEq

/-- `ent.last_modified().filter(|m| *m >= UNIX_EPOCH)` at the top of `serve_inner`: an HTTP-date
cannot express a time before the epoch, so such an entity is served as one without a
modification time. `Ent.mtime` is the value after this filter. -/
def usableMtime : MTime → Option (Nat × Nat)
  | .absent => none
  | .at s n => some (s, n)
  | .preEpoch => none

structure Resp where
  status : Nat
  headers : List (HName × HVal)
  plan : Plan
  calls : List EntCall
  deriving Repr, DecidableEq

def entHeaders (e : Ent) : List (HName × HVal) := e.headers.map fun (k, v) => (.ent k, .bytes v)

/-- The bytes `prepare_multipart` renders for the entity headers inside each part. -/
def eachPartHeaders (hs : List (Bytes × Bytes)) : Bytes :=
  hs.flatMap fun (k, v) => k ++ kColonSp ++ v ++ kCRLF

/-- One part's header block. `b` is the exclusive end, so `b - 1` is checked. -/
def partHeader (a b len : Nat) (eh : Bytes) : R Bytes := do
  let last ← subChk b 1
  pure (kPartPre ++ dec a ++ [cHyphen] ++ dec last ++ [cSlash] ++ dec len ++ kCRLF ++ eh ++ kCRLF)

/-- The `for r in ranges` loop of `prepare_multipart`: part headers and the running
`body_len`; `none` = `MultipartLenOverflowError`. -/
def prepareParts (len : Nat) (eh : Bytes) : List (Nat × Nat) → Nat → R (Option (List Bytes × Nat))
  | [], acc => .ok (some ([], acc))
  | (a, b) :: rest, acc => do
    let ph ← partHeader a b len eh
    let sz ← subChk b a
    match (checkedAdd acc ph.length).bind (fun l => checkedAdd l sz) with
    | none => pure none
    | some acc' =>
      match ← prepareParts len eh rest acc' with
      | none => pure none
      | some (phs, total) => pure (some (ph :: phs, total))

def prepareMultipart (ranges : List (Nat × Nat)) (len : Nat) (eh : Bytes) :
    R (Option (List Bytes × Nat)) := do
  match ← prepareParts len eh ranges 0 with
  | none => pure none
  | some (phs, total) =>
    match checkedAdd total kTrailer.length with
    | none => pure none
    | some t => pure (some (phs, t))

/-- `ranges.iter().try_fold(0u64, |acc, r| acc.checked_add(80).and_then(|a|
a.checked_add(r.end - r.start)))` -/
def estLen : List (Nat × Nat) → Nat → R (Option Nat)
  | [], acc => .ok (some acc)
  | (a, b) :: rest, acc => do
    let sz ← subChk b a
    match (checkedAdd acc 80).bind (fun x => checkedAdd x sz) with
    | none => pure none
    | some acc' => estLen rest acc'

/-- The headers added before any conditional early return (src/serving.rs:172-185). -/
def commonHeaders (e : Ent) (now : Nat) : List (HName × HVal) :=
  [(.acceptRanges, .bytes kBytes)]
  ++ (match e.mtime with
      | some m => [(.date, .httpDate now), (.lastModified, .httpDate (min m.1 now))]
      | none => [])
  ++ (match e.etag with
      | some t => [(.etag, .bytes t)]
      | none => [])

/-- The tail of `serve_inner` for a single resolved range (or the whole entity). -/
def serveSimple (q : Req) (e : Ent) (status : Nat) (hdrs : List (HName × HVal))
    (a b : Nat) (includeEnt : Bool) (calls : List EntCall) : R Resp := do
  let n ← subChk b a
  let hdrs := hdrs ++ [(.contentLength, .bytes (dec n))]
  let (plan, calls) :=
    if q.method = .head then (Plan.empty, calls)
    else (Plan.exact a b, calls ++ [.getRange a b])
  pure {
    status := status
    headers := if includeEnt then hdrs ++ entHeaders e else hdrs
    plan := plan
    calls := if includeEnt then calls ++ [.addHeaders] else calls }

/-- `serve_inner` (+ the wrapping done by `serve`). `now` is the clock reading in whole
seconds (only consulted when the entity has a modification time). -/
def serve (q : Req) (e : Ent) (now : Nat) : R Resp :=
  if q.method = .other then
    .ok { status := 405, headers := [(.allow, .bytes kGetHead)], plan := .once 41, calls := [] }
  else
    let calls0 : List EntCall := [.lastModified, .etag]
    match parseModifiedHdrs e.etag q.ifMatch q.ifNoneMatch q.ius q.ims e.mtime with
    | .error err =>
      .ok { status := 400, headers := [], plan := .once err.msgLen, calls := calls0 }
    | .ok (pf, nm) =>
      let (rangeUsable, includeOnRange) := ifRangeGate e.etag q.ifRange
      let rangeHdr := if rangeUsable then q.range else none
      let hdrs := commonHeaders e now
      if pf then
        .ok { status := 412, headers := hdrs, plan := .once 19, calls := calls0 }
      else if nm then
        .ok { status := 304, headers := hdrs, plan := .empty, calls := calls0 }
      else
        let calls1 := calls0 ++ [.len]
        let len := e.len
        match parseRange rangeHdr len with
        | .panic => .panic
        | .ok .none => serveSimple q e 200 hdrs 0 len true calls1
        | .ok .unsat =>
          .ok { status := 416,
                headers := hdrs ++ [(.contentRange, .bytes (kBytesStar ++ dec len))],
                plan := .empty, calls := calls1 }
        | .ok (.sat [(a, b)]) => do
          let last ← subChk b 1
          let cr := kBytesSp ++ dec a ++ [cHyphen] ++ dec last ++ [cSlash] ++ dec len
          serveSimple q e 206 (hdrs ++ [(.contentRange, .bytes cr)]) a b includeOnRange calls1
        | .ok (.sat ranges) => do
          let est ← estLen ranges 0
          let small := match est with
            | some l => decide (l < len)
            | none => false
          if small then
            let eh := if includeOnRange then eachPartHeaders e.headers else []
            let calls2 := if includeOnRange then calls1 ++ [.addHeaders] else calls1
            match ← prepareMultipart ranges len eh with
            | none =>
              pure { status := 413, headers := [], plan := .once 28, calls := calls2 }
            | some (phs, total) =>
              let hdrs := hdrs ++ [(.contentLength, .bytes (dec total)),
                                   (.contentType, .bytes kMultipartCT)]
              if q.method = .head then
                pure { status := 206, headers := hdrs, plan := .empty, calls := calls2 }
              else
                pure { status := 206, headers := hdrs, plan := .multipart phs ranges total,
                       calls := calls2 }
          else serveSimple q e 200 hdrs 0 len true calls1

end HS
