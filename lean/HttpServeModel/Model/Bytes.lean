/-
Bytes, ASCII classes, decimal / hex rendering and parsing, the result monad with an
explicit `panic` outcome.  Core Lean only (no imports), so that the driver links as a
`lean_exe`.

Bytes are `List Nat` (each element < 256 in every value that comes from the
implementation; the model functions are total on all `Nat` lists, which is a superset).
-/

namespace HS

abbrev Bytes := List Nat

/-- 2^64: `u64` quantities are `Nat`s below this bound. -/
def U64 : Nat := 18446744073709551616

/-! ### Result type with an explicit panic outcome

Every place where the Rust can panic (checked arithmetic in the dev profile, indexing,
`unwrap`, `assert!`) is an explicit `R.panic` in the model.  -/

inductive R (α : Type) where
  | ok : α → R α
  | panic : R α
  deriving Repr, DecidableEq

namespace R
@[inline] def bind {α β : Type} (x : R α) (f : α → R β) : R β :=
  match x with
  | ok a => f a
  | panic => panic

instance : Monad R where
  pure := R.ok
  bind := R.bind

@[simp] theorem bind_ok {α β : Type} (a : α) (f : α → R β) : (R.ok a >>= f) = f a := rfl
@[simp] theorem bind_panic {α β : Type} (f : α → R β) : ((R.panic : R α) >>= f) = R.panic := rfl
@[simp] theorem pure_eq {α : Type} (a : α) : (pure a : R α) = R.ok a := rfl

def isOk {α : Type} : R α → Bool
  | ok _ => true
  | panic => false
end R

/-- `a - b` as the dev profile computes it on `u64`/`usize`: panics on underflow. -/
def subChk (a b : Nat) : R Nat := if b ≤ a then .ok (a - b) else .panic

/-- `a + b` on `u64` in the dev profile: panics on overflow. -/
def addChk (a b : Nat) : R Nat := if a + b < U64 then .ok (a + b) else .panic

/-- `u64::checked_add`. -/
def checkedAdd (a b : Nat) : Option Nat := if a + b < U64 then some (a + b) else none

/-- `u64::saturating_add`. -/
def satAdd (a b : Nat) : Nat := if a + b < U64 then a + b else U64 - 1

/-! ### ASCII classes and constants -/

def isDigit (c : Nat) : Bool := 48 ≤ c && c ≤ 57
/-- OWS = SP / HTAB -/
def isOws (c : Nat) : Bool := c == 32 || c == 9

def cSP : Nat := 32
def cHT : Nat := 9
def cQuote : Nat := 34
def cStar : Nat := 42
def cPlus : Nat := 43
def cComma : Nat := 44
def cHyphen : Nat := 45
def cDot : Nat := 46
def cSlash : Nat := 47
def cColon : Nat := 58
def cSemi : Nat := 59
def cEq : Nat := 61
def cCR : Nat := 13
def cLF : Nat := 10

/-- ASCII bytes of a string literal (used by the driver and for readable constants; the
constants that proofs look into are written as explicit lists below). -/
def ofString (s : String) : Bytes := s.toUTF8.toList.map (·.toNat)

/-- `HeaderValue::to_str` succeeds iff every byte is visible ASCII (0x20..=0x7E) or TAB. -/
def isVisibleAscii (c : Nat) : Bool := (32 ≤ c && c < 127) || c == 9
def toStrOk (v : Bytes) : Bool := v.all isVisibleAscii

/-! ### Decimal -/

/-- Value of a digit string (meaningful when all bytes are digits). -/
def digitsVal (s : Bytes) : Nat := s.foldl (fun acc c => acc * 10 + (c - 48)) 0

def allDigits (s : Bytes) : Bool := s.all isDigit

/-- `range::parse_pos`: `1*DIGIT` that fits in a `u64` (no sign accepted). -/
def parsePos (s : Bytes) : Option Nat :=
  if s.isEmpty then none
  else if !allDigits s then none
  else if digitsVal s < U64 then some (digitsVal s) else none

/-- `{}` formatting of an unsigned integer. -/
def dec (n : Nat) : Bytes :=
  if _h : n < 10 then [48 + n] else dec (n / 10) ++ [48 + n % 10]
termination_by n
decreasing_by omega

def hexDigit (d : Nat) : Nat := if d < 10 then 48 + d else 87 + d

/-- `{:x}` formatting (lower case, no leading zeros). -/
def hex (n : Nat) : Bytes :=
  if _h : n < 16 then [hexDigit n] else hex (n / 16) ++ [hexDigit (n % 16)]
termination_by n
decreasing_by omega

/-! ### `str` helpers on ASCII input -/

/-- `str::split(sep)` for a one-byte separator: always yields at least one piece. -/
def splitOn (sep : Nat) : Bytes → List Bytes
  | [] => [[]]
  | c :: cs =>
    if c = sep then [] :: splitOn sep cs
    else match splitOn sep cs with
      | [] => [[c]]
      | h :: t => (c :: h) :: t

def trimStartOws (s : Bytes) : Bytes := s.dropWhile isOws
def trimEndOws (s : Bytes) : Bytes := (s.reverse.dropWhile isOws).reverse
/-- `trim_matches([' ', '\t'])`; also `str::trim` on strings that passed `to_str` (the only
ASCII whitespace such a string can contain is SP and HTAB). -/
def trimOws (s : Bytes) : Bytes := trimEndOws (trimStartOws s)

/-- `strip_prefix`. -/
def stripPrefix (p : Bytes) (s : Bytes) : Option Bytes :=
  match p, s with
  | [], s => some s
  | _ :: _, [] => none
  | a :: p', b :: s' => if a = b then stripPrefix p' s' else none

def startsWith (p s : Bytes) : Bool := (stripPrefix p s).isSome

/-- Split at the first occurrence of `c`: `(before, after)`; `none` if absent. -/
def splitOnce (c : Nat) : Bytes → Option (Bytes × Bytes)
  | [] => none
  | x :: xs =>
    if x = c then some ([], xs)
    else match splitOnce c xs with
      | none => none
      | some (a, b) => some (x :: a, b)

def sumList (l : List Nat) : Nat := l.foldl (· + ·) 0

end HS
