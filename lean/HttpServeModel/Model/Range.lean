/-
Model of `src/range.rs` (`parse`), function by function.  Ranges are half-open
`(start, end)` pairs as in the Rust (`std::ops::Range<u64>`).
-/
import HttpServeModel.Model.Bytes

namespace HS

inductive Resolved where
  | none                                 -- no (usable) Range header
  | unsat                                -- NotSatisfiable
  | sat (rs : List (Nat × Nat))          -- Satisfiable, in request order
  deriving Repr, DecidableEq

/-- "bytes=" -/
def kBytesEq : Bytes := [98, 121, 116, 101, 115, 61]

/-- Result of looking at one list element. -/
inductive SpecRes where
  | bad                      -- unparseable: the whole header is ignored
  | skip                     -- syntactically fine, selects nothing
  | range (a b : Nat)        -- half-open
  | panic                    -- a Rust panic site was reached
  deriving Repr, DecidableEq

/-- The loop body of `range::parse` for one (already `split(',')`) element. -/
def parseSpec (r0 : Bytes) (len : Nat) : SpecRes :=
  let r := trimOws r0
  match splitOnce cHyphen r with
  | none => .bad
  | some (before, after) =>
    if before.isEmpty then
      -- suffix-byte-range-spec: `&r[1..]`
      match parsePos after with
      | none => .bad
      | some last =>
        let last := min last len
        if last == 0 then .skip
        else
          -- `len - last` (checked in the dev profile)
          if last ≤ len then .range (len - last) len else .panic
    else
      match parsePos before with
      | none => .bad
      | some first =>
        -- `r.len() > hyphen + 1`
        if !after.isEmpty then
          match parsePos after with
          | none => .bad
          | some l =>
            let e := min (satAdd l 1) len
            if first ≥ e then .skip else .range first e
        else
          if first ≥ len then .skip else .range first len

/-- The `for r in bytes.split(',')` loop: `none` = unparseable, `some (R.panic)` impossible
by theorem; accumulates in order. -/
def parseSpecs : List Bytes → Nat → R (Option (List (Nat × Nat)))
  | [], _ => .ok (some [])
  | r :: rest, len =>
    match parseSpec r len with
    | .bad => .ok none
    | .panic => .panic
    | .skip => parseSpecs rest len
    | .range a b =>
      match parseSpecs rest len with
      | .panic => .panic
      | .ok none => .ok none
      | .ok (some rs) => .ok (some ((a, b) :: rs))

/-- `range::parse(range: Option<&HeaderValue>, len)`.

Note on early return: the Rust returns `None` as soon as it meets an unparseable element,
and a panic site before that element would fire first; `parseSpecs` above evaluates the tail
before consing, so to keep the order of effects it reports `.bad` of an earlier element
before looking at later ones, and panics are shown unreachable anyway (`parseRange_total`). -/
def parseRange (hdr : Option Bytes) (len : Nat) : R Resolved :=
  match hdr with
  | none => .ok .none
  | some v =>
    if !toStrOk v then .ok .none
    else match stripPrefix kBytesEq v with
      | none => .ok .none
      | some rest =>
        match parseSpecs (splitOn cComma rest) len with
        | .panic => .panic
        | .ok none => .ok .none
        | .ok (some []) => .ok .unsat
        | .ok (some rs) => .ok (.sat rs)

end HS
