/-
Model of `parse_modified_hdrs` (src/serving.rs) and the If-Range gate.

Dates: the request's `If-Modified-Since` / `If-Unmodified-Since` values are handed to the
model already classified by the real `httpdate::parse_http_date` (a parameter of the model,
see DESIGN §7): absent, unparseable (also: not `to_str`-able), or whole seconds since the
epoch.  An entity modification time is `(secs, nanos)` since the epoch.
-/
import HttpServeModel.Model.Etag

namespace HS

inductive DateHdr where
  | absent
  | bad
  | secs (s : Nat)
  deriving Repr, DecidableEq

/-- The three `&'static str` errors that become a 400 body. -/
inductive CondErr where
  | ifMatch            -- "Unparseable If-Match header"
  | ifUnmodifiedSince  -- "Unparseable If-Unmodified-Since"
  | ifModifiedSince    -- "Unparseable If-Modified-Since"
  deriving Repr, DecidableEq

def CondErr.msgLen : CondErr → Nat
  | .ifMatch => 27
  | .ifUnmodifiedSince => 31
  | .ifModifiedSince => 29

/-- `precondition_failed` of `parse_modified_hdrs`. `truncate_to_secs(m)` is `m.1`. -/
def precondFailed (etag im : Option Bytes) (ius : DateHdr) (mtime : Option (Nat × Nat)) :
    Except CondErr Bool :=
  match anyMatch etag im with
  | none => .error .ifMatch
  | some false => .ok true
  | some true =>
    if im.isSome then .ok false
    else match mtime, ius with
      | some m, .secs s => .ok (decide (m.1 > s))
      | some _, .bad => .error .ifUnmodifiedSince
      | _, _ => .ok false

/-- `not_modified` of `parse_modified_hdrs`. -/
def notModified (etag inm : Option Bytes) (ims : DateHdr) (mtime : Option (Nat × Nat)) :
    Except CondErr Bool :=
  match noneMatch etag inm with
  | some true => .ok false
  | some false => .ok true
  | none =>
    match mtime, ims with
    | some m, .secs s => .ok (decide (m.1 ≤ s))
    | some _, .bad => .error .ifModifiedSince
    | _, _ => .ok false

def parseModifiedHdrs (etag im inm : Option Bytes) (ius ims : DateHdr)
    (mtime : Option (Nat × Nat)) : Except CondErr (Bool × Bool) :=
  match precondFailed etag im ius mtime with
  | .error e => .error e
  | .ok pf =>
    match notModified etag inm ims mtime with
    | .error e => .error e
    | .ok nm => .ok (pf, nm)

/-- The If-Range gate (src/serving.rs:143-170): returns
`(range header still usable, include_entity_headers_on_range)`. -/
def ifRangeGate (etag ifRange : Option Bytes) : Bool × Bool :=
  match ifRange with
  | none => (true, true)
  | some v =>
    if startsWith kWeakQ v || startsWith [cQuote] v then
      match etag with
      | some e => if strongEq v e then (true, false) else (false, true)
      | none => (false, true)
    else (false, true)

end HS
