/-
Model of `src/etag.rs`: `weak_eq`, `strong_eq`, the `List` iterator, `none_match`,
`any_match`.
-/
import HttpServeModel.Model.Bytes

namespace HS

/-- "W/" -/
def kWeak : Bytes := [87, 47]
/-- "W/\"" -/
def kWeakQ : Bytes := [87, 47, 34]

/-- `a.strip_prefix(b"W/").unwrap_or(a)` -/
def stripWeak (a : Bytes) : Bytes := (stripPrefix kWeak a).getD a

/-- `etag::weak_eq` -/
def weakEq (a b : Bytes) : Bool := stripWeak a == stripWeak b

/-- `etag::strong_eq` -/
def strongEq (a b : Bytes) : Bool := a == b && !startsWith kWeak a

/-- Split after the first `"`: `(up to and including the quote, rest)`. -/
def takeThroughQuote : Bytes → Option (Bytes × Bytes)
  | [] => none
  | c :: cs =>
    if c = cQuote then some ([c], cs)
    else match takeThroughQuote cs with
      | none => none
      | some (a, b) => some (c :: a, b)

/-- One step of `List::next` on a non-empty remainder: the tag and the remainder after the
optional `","` and the OWS following it; `none` = corrupt. -/
def etagNext (rem : Bytes) : Option (Bytes × Bytes) :=
  let body : Option (Bytes × Bytes × Bytes) :=
    match stripPrefix kWeakQ rem with
    | some r => (takeThroughQuote r).map fun (t, rest) => (kWeakQ, t, rest)
    | none =>
      match stripPrefix [cQuote] rem with
      | some r => (takeThroughQuote r).map fun (t, rest) => ([cQuote], t, rest)
      | none => none
  match body with
  | none => none
  | some (pre, t, rest) =>
    let rest' := match rest with
      | c :: r => if c = cComma then r.dropWhile isOws else rest
      | [] => rest
    some (pre ++ t, rest')

theorem takeThroughQuote_length {s t r : Bytes} (h : takeThroughQuote s = some (t, r)) :
    r.length < s.length := by
  induction s generalizing t r with
  | nil => simp [takeThroughQuote] at h
  | cons c cs ih =>
    unfold takeThroughQuote at h
    split at h
    · simp at h; obtain ⟨_, rfl⟩ := h; simp
    · split at h
      · simp at h
      · rename_i a b heq
        simp at h; obtain ⟨_, rfl⟩ := h
        have := ih heq
        simp; omega

theorem stripPrefix_length {p s r : Bytes} (h : stripPrefix p s = some r) :
    r.length + p.length = s.length := by
  induction p generalizing s with
  | nil => simp [stripPrefix] at h; subst h; simp
  | cons a p ih =>
    cases s with
    | nil => simp [stripPrefix] at h
    | cons b s =>
      simp [stripPrefix] at h
      have := ih h.2
      simp; omega

theorem dropWhile_length_le (p : Nat → Bool) (l : Bytes) : (l.dropWhile p).length ≤ l.length := by
  induction l with
  | nil => simp
  | cons a l ih =>
    simp only [List.dropWhile]
    split
    · simp only [List.length_cons]; omega
    · simp

theorem etagNext_length {rem t r : Bytes} (h : etagNext rem = some (t, r)) :
    r.length < rem.length := by
  unfold etagNext at h
  simp only at h
  split at h
  · simp at h
  · rename_i pre t' rest hb
    simp at h
    obtain ⟨_, rfl⟩ := h
    have hrest : rest.length < rem.length := by
      split at hb
      · rename_i r0 hp
        have h1 := stripPrefix_length hp
        cases htq : takeThroughQuote r0 with
        | none => simp [htq] at hb
        | some v =>
          obtain ⟨a, b⟩ := v
          simp [htq] at hb
          obtain ⟨_, _, rfl⟩ := hb
          have := takeThroughQuote_length htq
          omega
      · split at hb
        · rename_i r0 hp
          have h1 := stripPrefix_length hp
          cases htq : takeThroughQuote r0 with
          | none => simp [htq] at hb
          | some v =>
            obtain ⟨a, b⟩ := v
            simp [htq] at hb
            obtain ⟨_, _, rfl⟩ := hb
            have := takeThroughQuote_length htq
            omega
        · simp at hb
    split
    · rename_i c r
      split
      · have := dropWhile_length_le isOws r
        simp at hrest; omega
      · exact hrest
    · exact hrest

/-- Drives `List::next` to exhaustion: the items in order and the final `corrupt` flag. -/
def etagItems (rem : Bytes) : List Bytes × Bool :=
  if rem.isEmpty then ([], false)
  else match h : etagNext rem with
    | none => ([], true)
    | some (t, r) =>
      let (ts, c) := etagItems r
      (t :: ts, c)
termination_by rem.length
decreasing_by exact etagNext_length h

/-- `etag::none_match`: `none` = header absent or ignored. -/
def noneMatch (etag : Option Bytes) (inm : Option Bytes) : Option Bool :=
  match inm with
  | none => none
  | some m =>
    if m == [cStar] then some false
    else match etag with
      | none => some true
      | some e =>
        let (items, corrupt) := etagItems m
        if corrupt then none
        else some (!(items.any fun it => weakEq it e))

/-- `etag::any_match`: `none` = `Err("Unparseable If-Match header")`. -/
def anyMatch (etag : Option Bytes) (im : Option Bytes) : Option Bool :=
  match im with
  | none => some true
  | some m =>
    if m == [cStar] then some true
    else match etag with
      | none => some false
      | some e =>
        let (items, corrupt) := etagItems m
        if corrupt then none
        else some (items.any fun it => strongEq it e)

end HS
