/-
Small-step interleaving model of a producer thread using a raw `BodyWriter` and a consumer
polling the body (C10, C11).  Block points of the producer are exactly the points where the
real code is about to acquire the chunker's lock or about to call `wake()`; everything
between two block points is one atomic step (see `Model/Chunker.lean` for why that is
sound).  The harness's scheduler has the same block points (instrumented mutex + harness
wakers), so a real execution under a schedule is a list of `SStep`s.
-/
import HttpServeModel.Model.Chunker

namespace HS

/-- Producer commands on a raw `BodyWriter`. -/
inductive PCmd where
  | write (bs : Bytes)
  | flush
  | abort
  | drop
  deriving Repr, DecidableEq

/-- What follows a critical section (after its `wake()`, if any). -/
inductive Next where
  | finish (r : POut) (bw : BW)      -- the command returns `r`; the `BodyWriter` is now `bw`
  | cs2 (r : POut) (bw : BW)         -- the chunker `Writer` is dropped first: `flush_helper(true)`
  deriving Repr, DecidableEq

inductive Stage where
  | fetch                            -- between commands (transient; `advance` moves on)
  | csFlush (n : Option Nat)         -- at Acquire: `flush_helper(false)`; `some n` = inside `write`
  | csAbort                          -- at Acquire: `Writer::abort`
  | csDrop (r : POut) (bw : BW)      -- at Acquire: `flush_helper(true)`, then return `r`
  | wake (w : Nat) (next : Next)     -- about to call `wake()` on waker `w`
  | done
  deriving Repr, DecidableEq

structure SSys where
  sh : Shared := {}
  buf : Bytes := []
  cap : Nat
  bw : BW := .raw
  prog : List PCmd
  stage : Stage := .fetch
  results : List POut := []
  readerAlive : Bool := true
  deriving Repr, DecidableEq

/-- Run lock-free producer commands from `prog` until the next block point. -/
def runFree (s : SSys) : List PCmd → SSys
  | [] => { s with stage := .done, prog := [] }
  | cmd :: rest =>
    match s.bw, cmd with
    | .raw, .write bs =>
      let remaining := s.cap - s.buf.length
      let full := decide (remaining ≤ bs.length)
      let n := if full then remaining else bs.length
      let s := { s with buf := s.buf ++ bs.take n }
      if full then { s with stage := .csFlush (some n), prog := rest }
      else runFree { s with results := s.results ++ [.wrote n] } rest
    | .raw, .flush => { s with stage := .csFlush none, prog := rest }
    | .raw, .abort => { s with stage := .csAbort, prog := rest }
    | .raw, .drop => { s with stage := .csDrop .unit .gone, prog := rest }
    | .dead, .write _ => runFree { s with results := s.results ++ [.err] } rest
    | .dead, .flush => runFree { s with results := s.results ++ [.err] } rest
    | .dead, .abort => runFree { s with results := s.results ++ [.unit] } rest
    | .dead, .drop => runFree { s with results := s.results ++ [.unit], bw := .gone } rest
    | _, _ => runFree { s with results := s.results ++ [.unit] } rest

/-- From `fetch`, move to the next block point; otherwise nothing to do. -/
def advance (s : SSys) : SSys :=
  match s.stage with
  | .fetch => runFree s s.prog
  | _ => s

def goNext (s : SSys) (nx : Next) : SSys :=
  match nx with
  | .finish r bw => advance { s with results := s.results ++ [r], bw := bw, stage := .fetch }
  | .cs2 r bw => { s with stage := .csDrop r bw }

def afterCs (s : SSys) (wk : Option Nat) (nx : Next) : SSys :=
  match wk with
  | some w => { s with stage := .wake w nx }
  | none => goNext s nx

inductive SStep where
  | prod            -- grant the producer at an Acquire block point: one critical section
  | wake            -- grant the producer at a Wake block point
  | poll (w : Nat)  -- the consumer polls with a waker of identity `w`
  | dropBody        -- the consumer drops the body
  deriving Repr, DecidableEq

inductive SObs where
  | prod
  | wake (w : Nat)
  | poll (o : ROut)
  | dropped
  | disabled
  deriving Repr, DecidableEq

def SSys.init (cap : Nat) (prog : List PCmd) : SSys := advance { cap := cap, prog := prog }

def SSys.step (s : SSys) (st : SStep) : SSys × SObs :=
  match st with
  | .prod =>
    match s.stage with
    | .csFlush n =>
      let (sh, buf, okay, wk) := flushHelper s.sh s.buf false
      let s := { s with sh := sh, buf := buf }
      let nx : Next :=
        if okay then .finish (match n with | some k => .wrote k | none => .ok) .raw
        else .cs2 .err .dead
      (afterCs s wk nx, .prod)
    | .csAbort =>
      let (sh, wk) := writerAbort s.sh
      (afterCs { s with sh := sh } wk (.cs2 .unit .dead), .prod)
    | .csDrop r bw =>
      let (sh, buf, _, wk) := flushHelper s.sh s.buf true
      (afterCs { s with sh := sh, buf := buf } wk (.finish r bw), .prod)
    | _ => (s, .disabled)
  | .wake =>
    match s.stage with
    | .wake w nx => (goNext s nx, .wake w)
    | _ => (s, .disabled)
  | .poll w =>
    if s.readerAlive then
      let (sh, o) := readerPoll s.sh w
      ({ s with sh := sh }, .poll o)
    else (s, .disabled)
  | .dropBody =>
    if s.readerAlive then ({ s with sh := readerDrop s.sh, readerAlive := false }, .dropped)
    else (s, .disabled)

def SSys.run : SSys → List SStep → SSys × List SObs
  | s, [] => (s, [])
  | s, st :: rest =>
    let (s', o) := s.step st
    let (s'', os) := SSys.run s' rest
    (s'', o :: os)

end HS
