/-
Model of `src/chunker.rs` (`Writer`, `Reader`, `Shared`) and of the `BodyWriter` wrapper
(`src/gzip.rs`) at critical-section granularity.

One *step* is one lock-protected section together with the thread-local work that precedes
it (which touches only that thread's own data and therefore commutes with every step of
the other thread), or one `wake()` call made after the lock was released.  Every chunker
operation contains at most one critical section, so an interleaving of the real code is a
sequence of these steps.
-/
import HttpServeModel.Model.Bytes

namespace HS

inductive SState where
  | ok (ready : List Bytes) (readyBytes : Nat) (writerDropped : Bool)
  | err
  | fused
  deriving Repr, DecidableEq

structure Shared where
  state : SState := .ok [] 0 false
  /-- identity of the registered waker -/
  waker : Option Nat := none
  deriving Repr, DecidableEq

/-- Result of an `io::Result<usize>` / `io::Result<()>` returning operation. -/
inductive WOut where
  | ok (n : Nat)
  | err
  deriving Repr, DecidableEq

/-! ### `chunker::Writer` -/

/-- `flush_helper(dropping)`: new shared state, new buffer, `Ok`/`Err`, waker taken. -/
def flushHelper (sh : Shared) (buf : Bytes) (dropping : Bool) :
    Shared × Bytes × Bool × Option Nat :=
  match sh.state with
  | .ok ready rb _wd =>
    if buf.isEmpty && !dropping then (sh, buf, true, none)
    else
      let (ready', rb') := if buf.isEmpty then (ready, rb) else (ready ++ [buf], rb + buf.length)
      ({ state := .ok ready' rb' dropping, waker := none }, [], true, sh.waker)
  | _ => (sh, buf, false, none)

/-- `Writer::write(bs)`: `(shared, buf, result, waker taken)`. -/
def writerWrite (sh : Shared) (buf : Bytes) (cap : Nat) (bs : Bytes) :
    Shared × Bytes × WOut × Option Nat :=
  let remaining := cap - buf.length
  let full := decide (remaining ≤ bs.length)
  let n := if full then remaining else bs.length
  let buf' := buf ++ bs.take n
  if full then
    let (sh', buf'', okay, wk) := flushHelper sh buf' false
    (sh', buf'', if okay then .ok n else .err, wk)
  else (sh, buf', .ok n, none)

/-- `Writer::abort` -/
def writerAbort (sh : Shared) : Shared × Option Nat :=
  match sh.state with
  | .ok _ _ _ => ({ state := .err, waker := none }, sh.waker)
  | _ => (sh, none)

/-! ### `chunker::Reader` -/

inductive ROut where
  | data (bs : Bytes)
  | err
  | end_
  | pending
  | panic
  deriving Repr, DecidableEq

def ROut.isTerminal : ROut → Bool
  | .err | .end_ => true
  | _ => false

/-- `Reader::poll_next` with a waker of identity `w`. -/
def readerPoll (sh : Shared) (w : Nat) : Shared × ROut :=
  match sh.state with
  | .ok (c :: rest) rb wd =>
    if c.length ≤ rb then
      if !rest.isEmpty || !wd then ({ sh with state := .ok rest (rb - c.length) wd }, .data c)
      else ({ sh with state := .fused }, .data c)
    else ({ sh with state := .fused }, .panic)
  | .ok [] rb wd =>
    if rb != 0 then ({ sh with state := .fused }, .panic)   -- debug_assert_eq!(ready_bytes, 0)
    else if !wd then ({ state := .ok [] rb wd, waker := some w }, .pending)
    else ({ sh with state := .fused }, .end_)
  | .err => ({ sh with state := .fused }, .err)
  | .fused => (sh, .end_)

/-- `Drop for Reader` -/
def readerDrop (_sh : Shared) : Shared := { state := .fused, waker := none }

/-- `Reader::size_hint`: `(lower, upper)` -/
def readerSizeHint (sh : Shared) : Nat × Option Nat :=
  match sh.state with
  | .ok _ rb wd => (rb, if wd then some rb else none)
  | _ => (0, none)

/-- `Reader::is_end_stream` -/
def readerIsEndStream (sh : Shared) : Bool :=
  match sh.state with
  | .ok _ rb wd => rb == 0 && wd
  | .err => false
  | .fused => true

/-! ### `BodyWriter` over the chunker, and the whole system -/

inductive BW where
  | raw | gz | dead
  | gone        -- the `BodyWriter` has been dropped
  deriving Repr, DecidableEq

structure Sys where
  sh : Shared := {}
  buf : Bytes := []
  cap : Nat
  bw : BW := .raw
  /-- waker taken inside the last critical section whose `wake()` has not run yet -/
  pendingWake : Option Nat := none
  /-- is the `Reader` (response body) still alive -/
  readerAlive : Bool := true
  deriving Repr, DecidableEq

/-- `write_all`-style loop used by the gzip encoder's `dump` and header writing: keeps
calling `Writer::write` until everything is accepted; fails on an error.  Each call is a
separate critical section in the real code; the wakes are delivered between them
(sequential producer), which this sequential helper records in `wakes`. -/
def writerWriteAll (fuel : Nat) (sh : Shared) (buf : Bytes) (cap : Nat) (bs : Bytes)
    (wakes : List Nat) : Shared × Bytes × Bool × List Nat :=
  match fuel with
  | 0 => (sh, buf, false, wakes)
  | fuel + 1 =>
    if bs.isEmpty then (sh, buf, true, wakes)
    else
      let (sh', buf', r, wk) := writerWrite sh buf cap bs
      let wakes' := match wk with | some w => wakes ++ [w] | none => wakes
      match r with
      | .err => (sh', buf', false, wakes')
      | .ok 0 => (sh', buf', false, wakes')     -- `WriteZero`
      | .ok n => writerWriteAll fuel sh' buf' cap (bs.drop n) wakes'

/-- Producer-side operations on a `BodyWriter`.  For a gzip writer the bytes the encoder
pushes into the chunker during the call are a parameter (`pushed`, see DESIGN §8 C09). -/
inductive POp where
  | write (bs : Bytes)
  | flush
  | abort
  | drop
  | gzWrite (pushed : Bytes) (accepted : Nat)
  | gzFlush (pushed : Bytes)
  | gzDrop (pushed : Bytes)
  deriving Repr, DecidableEq

inductive POut where
  | wrote (n : Nat)
  | ok
  | err
  | unit
  deriving Repr, DecidableEq

/-- A sequential producer operation (all its critical sections and wakes, in order):
new system, result, wakes delivered. -/
def Sys.pop (s : Sys) (op : POp) : Sys × POut × List Nat :=
  match s.bw, op with
  | .gone, _ => (s, .unit, [])
  | .dead, .write _ => (s, .err, [])
  | .dead, .gzWrite _ _ => (s, .err, [])
  | .dead, .flush => (s, .err, [])
  | .dead, .gzFlush _ => (s, .err, [])
  | .dead, .abort => (s, .unit, [])
  | .dead, .drop => ({ s with bw := .gone }, .unit, [])
  | .dead, .gzDrop _ => ({ s with bw := .gone }, .unit, [])
  | .raw, .write bs =>
    let (sh, buf, r, wk) := writerWrite s.sh s.buf s.cap bs
    match r with
    | .ok n => ({ s with sh := sh, buf := buf }, .wrote n, wk.toList)
    | .err =>
      -- `self.0 = Inner::Dead` drops the chunker writer: `flush_helper(true)`
      let (sh', buf', _, wk') := flushHelper sh buf true
      ({ s with sh := sh', buf := buf', bw := .dead }, .err, wk.toList ++ wk'.toList)
  | .raw, .flush =>
    let (sh, buf, okay, wk) := flushHelper s.sh s.buf false
    if okay then ({ s with sh := sh, buf := buf }, .ok, wk.toList)
    else
      let (sh', buf', _, wk') := flushHelper sh buf true
      ({ s with sh := sh', buf := buf', bw := .dead }, .err, wk.toList ++ wk'.toList)
  | .raw, .abort =>
    let (sh, wk) := writerAbort s.sh
    let (sh', buf', _, wk') := flushHelper sh s.buf true
    ({ s with sh := sh', buf := buf', bw := .dead }, .unit, wk.toList ++ wk'.toList)
  | .raw, .drop =>
    let (sh, buf, _, wk) := flushHelper s.sh s.buf true
    ({ s with sh := sh, buf := buf, bw := .gone }, .unit, wk.toList)
  | .gz, .gzWrite pushed accepted =>
    let (sh, buf, okay, wakes) := writerWriteAll (pushed.length + 1) s.sh s.buf s.cap pushed []
    if okay then ({ s with sh := sh, buf := buf }, .wrote accepted, wakes)
    else
      -- Dead: the encoder is dropped (it tries to finish; nothing more can be published
      -- because the shared state is no longer `Ok`), then the chunker writer is dropped.
      let (sh', buf', _, wk') := flushHelper sh buf true
      ({ s with sh := sh', buf := buf', bw := .dead }, .err, wakes ++ wk'.toList)
  | .gz, .gzFlush pushed =>
    let (sh, buf, okay, wakes) := writerWriteAll (pushed.length + 1) s.sh s.buf s.cap pushed []
    if okay then
      let (sh2, buf2, okay2, wk2) := flushHelper sh buf false
      if okay2 then ({ s with sh := sh2, buf := buf2 }, .ok, wakes ++ wk2.toList)
      else
        let (sh', buf', _, wk') := flushHelper sh2 buf2 true
        ({ s with sh := sh', buf := buf', bw := .dead }, .err, wakes ++ wk2.toList ++ wk'.toList)
    else
      let (sh', buf', _, wk') := flushHelper sh buf true
      ({ s with sh := sh', buf := buf', bw := .dead }, .err, wakes ++ wk'.toList)
  | .gz, .gzDrop pushed =>
    let (sh, buf, _, wakes) := writerWriteAll (pushed.length + 1) s.sh s.buf s.cap pushed []
    let (sh', buf', _, wk') := flushHelper sh buf true
    ({ s with sh := sh', buf := buf', bw := .gone }, .unit, wakes ++ wk'.toList)
  | .gz, .abort =>
    let (sh, wk) := writerAbort s.sh
    let (sh', buf', _, wk') := flushHelper sh s.buf true
    ({ s with sh := sh', buf := buf', bw := .dead }, .unit, wk.toList ++ wk'.toList)
  -- operations of the wrong flavour for the writer kind: not generated by the harness
  | .raw, .gzWrite _ _ => (s, .unit, [])
  | .raw, .gzFlush _ => (s, .unit, [])
  | .raw, .gzDrop _ => (s, .unit, [])
  | .gz, .write _ => (s, .unit, [])
  | .gz, .flush => (s, .unit, [])
  | .gz, .drop => (s, .unit, [])

/-- Consumer-side operations. -/
inductive COp where
  | poll (w : Nat)
  | sizeHint
  | isEndStream
  | drop
  deriving Repr, DecidableEq

inductive COut where
  | polled (o : ROut)
  | hint (lower : Nat) (upper : Option Nat)
  | eos (b : Bool)
  | unit
  deriving Repr, DecidableEq

def Sys.cop (s : Sys) (op : COp) : Sys × COut :=
  if !s.readerAlive then (s, .unit)
  else match op with
    | .poll w => let (sh, o) := readerPoll s.sh w; ({ s with sh := sh }, .polled o)
    | .sizeHint => let (l, u) := readerSizeHint s.sh; (s, .hint l u)
    | .isEndStream => (s, .eos (readerIsEndStream s.sh))
    | .drop => ({ s with sh := readerDrop s.sh, readerAlive := false }, .unit)

/-- The slice std's default `Write::write_vectored` hands to `write`: the first non-empty one
(an empty slice when there is none). `BodyWriter` does not override `write_vectored`. -/
def firstNonEmpty : List Bytes → Bytes
  | [] => []
  | s :: rest => if s = [] then firstNonEmpty rest else s

/-- std's default `Write::write_all` (which `BodyWriter` does not override): `write` until the
buffer is used up; `Ok(0)` is `WriteZero`, an error ends it. Reports the bytes accepted when all
were, `err` otherwise. Fuel `bs.length + 1` suffices because every successful step consumes at
least one byte. -/
def Sys.writeAllF : Nat → Sys → Bytes → Nat → List Nat → Sys × POut × List Nat
  | 0, s, _, _, wk => (s, .err, wk)
  | fuel + 1, s, bs, total, wk =>
    if bs.isEmpty then (s, .wrote total, wk)
    else
      match s.pop (.write bs) with
      | (s', .wrote 0, w) => (s', .err, wk ++ w)
      | (s', .wrote n, w) => Sys.writeAllF fuel s' (bs.drop n) (total + n) (wk ++ w)
      | (s', _, w) => (s', .err, wk ++ w)

def Sys.writeAll (s : Sys) (bs : Bytes) : Sys × POut × List Nat :=
  Sys.writeAllF (bs.length + 1) s bs 0 []

/-- `BodyWriter::write_vectored(slices)` on a raw writer. -/
def Sys.writeVectored (s : Sys) (slices : List Bytes) : Sys × POut × List Nat :=
  s.pop (.write (firstNonEmpty slices))

end HS
