/-
A gzip / DEFLATE decoder (RFC 1951, RFC 1952) as total Lean functions.

Structure (chosen so that the theorems in `Lemmas/Inflate.lean` are compositional):

* `Dec α` is a free monad of input requests (`bit`, `byte`, `cstr`).  Every piece of the
  decoder that reads input is a `Dec` program; `run` is the only function that touches the
  input.  Facts about "what happens when more input is appended" are proved once, for `run`.
* the stream is `(v, n, l)`: `n` unread bits of the byte being consumed (their value `v`,
  LSB first) and the whole bytes `l` not yet touched.
* `loop` drives one `step` per symbol / stored byte / block header, with fuel; the output
  is an `Array Nat` so that back references are O(1).

Elements `≥ 256` in the input: `gunzip` / `gunzipAvail` treat such input as malformed.
`inflate` itself looks only at the low 8 bits when reading bits and copies stored bytes as
they are.
-/
import HttpServeModel.Model.Bytes

namespace HS.Inflate
open HS

/-! ### little endian, CRC-32 -/

/-- The four little-endian bytes of `n % 2^32`. -/
def le32 (n : Nat) : Bytes :=
  [n % 256, n / 256 % 256, n / 65536 % 256, n / 16777216 % 256]

def crcEntry (i : Nat) : Nat :=
  let f := fun (c : Nat) => if c % 2 = 1 then 3988292384 ^^^ (c >>> 1) else c >>> 1
  f (f (f (f (f (f (f (f i)))))))

def crcTable : Array Nat := (Array.range 256).map crcEntry

@[inline] def crcUpdate (c b : Nat) : Nat :=
  crcTable[(c ^^^ b) % 256]! ^^^ (c >>> 8)

/-- Running CRC state after the bytes `bs`, from state `c`. -/
def crcFold (c : Nat) (bs : Bytes) : Nat := bs.foldl crcUpdate c

/-- The gzip CRC-32 (polynomial 0xEDB88320, reflected, init and final xor 0xFFFFFFFF). -/
def crc32 (bs : Bytes) : Nat := crcFold 4294967295 bs ^^^ 4294967295

/-! ### The input-request monad -/

inductive Dec (α : Type) where
  | pure (a : α)
  | fail
  /-- next bit of the stream (LSB first within a byte) -/
  | bit (k : Bool → Dec α)
  /-- drop the unread bits of the current byte, then the next whole byte -/
  | byte (k : Nat → Dec α)
  /-- (aligned) the bytes up to and including the next zero byte -/
  | cstr (k : Bytes → Dec α)

namespace Dec
def bind {α β : Type} : Dec α → (α → Dec β) → Dec β
  | .pure a, f => f a
  | .fail, _ => .fail
  | .bit k, f => .bit (fun b => bind (k b) f)
  | .byte k, f => .byte (fun b => bind (k b) f)
  | .cstr k, f => .cstr (fun b => bind (k b) f)

instance : Monad Dec where
  pure := Dec.pure
  bind := Dec.bind
end Dec

inductive Res (α : Type) where
  | ok (a : α) (v n : Nat) (l : Bytes)
  | eof
  | err

/-- Split after the first zero byte: `(through the zero, rest)`. -/
def splitZ : Bytes → Option (Bytes × Bytes)
  | [] => none
  | x :: xs =>
    if x = 0 then some ([0], xs)
    else match splitZ xs with
      | none => none
      | some (a, r) => some (x :: a, r)

def run {α : Type} : Dec α → (v n : Nat) → (l : Bytes) → Res α
  | .pure a, v, n, l => .ok a v n l
  | .fail, _, _, _ => .err
  | .bit k, v, n, l =>
    if n = 0 then
      match l with
      | [] => .eof
      | x :: t => run (k (x % 2 == 1)) (x % 256 / 2) 7 t
    else run (k (v % 2 == 1)) (v / 2) (n - 1) l
  | .byte k, _, _, l =>
    match l with
    | [] => .eof
    | x :: t => run (k x) 0 0 t
  | .cstr k, _, _, l =>
    match splitZ l with
    | none => .eof
    | some (a, r) => run (k a) 0 0 r

/-! ### Huffman tables (canonical codes, decoded bit by bit as in zlib's `puff`) -/

structure Huff where
  /-- `count[len]` = number of symbols with code length `len` (size 16) -/
  count : Array Nat
  /-- symbols ordered by code length, then by value -/
  symbol : Array Nat
  /-- number of symbols that have a code -/
  total : Nat

def countLens (lens : Array Nat) : Array Nat :=
  lens.foldl (fun c l => c.modify l (· + 1)) (Array.replicate 16 0)

/-- Kraft check: `none` = over-subscribed, `some 0` = complete, `some (k+1)` = incomplete. -/
def kraft (count : Array Nat) : Option Nat :=
  (List.range' 1 15).foldl (fun (acc : Option Nat) len =>
    match acc with
    | none => none
    | some left => if count[len]! > 2 * left then none else some (2 * left - count[len]!))
    (some 1)

def mkOffs (count : Array Nat) : Array Nat :=
  (List.range' 1 14).foldl (fun (o : Array Nat) l => o.push (o[l]! + count[l]!)) #[0, 0]

def mkSymbols (lens count : Array Nat) : Array Nat :=
  ((List.range lens.size).foldl (fun (p : Array Nat × Array Nat) i =>
      let l := lens[i]!
      if l = 0 then p else (p.1.modify l (· + 1), p.2.set! (p.1[l]!) i))
    (mkOffs count, Array.replicate lens.size 0)).2

def mkHuff (lens : Array Nat) : Huff :=
  let count := countLens lens
  { count := count, symbol := mkSymbols lens count, total := lens.size - count[0]! }

/-- Decode one symbol.  Call with `fuel = 15, len = 1, code = first = index = 0`. -/
def decodeSym (h : Huff) : (fuel len code first index : Nat) → Dec Nat
  | 0, _, _, _, _ => .fail
  | f + 1, len, code, first, index => .bit fun b =>
    let code := code + b.toNat
    let count := h.count[len]!
    if code < first + count then .pure h.symbol[index + (code - first)]!
    else if index + count ≥ h.total then .fail
    else decodeSym h f (len + 1) (2 * code) (2 * (first + count)) (index + count)

def sym (h : Huff) : Dec Nat := decodeSym h 15 1 0 0 0

/-- `n` bits, least significant first. -/
def bitsAux : (n : Nat) → (shift acc : Nat) → Dec Nat
  | 0, _, acc => .pure acc
  | n + 1, shift, acc => .bit fun b => bitsAux n (2 * shift) (if b then acc + shift else acc)

def bits (n : Nat) : Dec Nat := bitsAux n 1 0

def lbase : Array Nat := #[3,4,5,6,7,8,9,10,11,13,15,17,19,23,27,31,35,43,51,59,67,83,99,115,
  131,163,195,227,258]
def lext : Array Nat := #[0,0,0,0,0,0,0,0,1,1,1,1,2,2,2,2,3,3,3,3,4,4,4,4,5,5,5,5,0]
def dbase : Array Nat := #[1,2,3,4,5,7,9,13,17,25,33,49,65,97,129,193,257,385,513,769,1025,
  1537,2049,3073,4097,6145,8193,12289,16385,24577]
def dext : Array Nat := #[0,0,0,0,1,1,2,2,3,3,4,4,5,5,6,6,7,7,8,8,9,9,10,10,11,11,12,12,13,13]
def clOrder : List Nat := [16,17,18,0,8,7,9,6,10,5,11,4,12,3,13,2,14,1,15]

def fixedLit : Huff :=
  mkHuff (Array.replicate 144 8 ++ Array.replicate 112 9 ++ Array.replicate 24 7
    ++ Array.replicate 8 8)
def fixedDist : Huff := mkHuff (Array.replicate 32 5)

/-! ### Blocks -/

inductive St where
  /-- at a block header -/
  | hdr
  /-- inside a stored block, `n ≥ 1` bytes to go -/
  | stored (n : Nat) (fin : Bool)
  /-- inside a Huffman block -/
  | huff (lit dist : Huff) (fin : Bool)

inductive Emit where
  | none
  | lit (b : Nat)
  | copy (len dist : Nat)

/-- State after a block: `none` = the stream is finished. -/
def endBlock (fin : Bool) : Option St := if fin then none else some .hdr

def storedHdr (fin : Bool) : Dec (Emit × Option St) :=
  .byte fun a => .byte fun b => .byte fun c => .byte fun d =>
    let len := a + 256 * b
    if len + (c + 256 * d) = 65535 then
      .pure (.none, if len = 0 then endBlock fin else some (.stored len fin))
    else .fail

/-- The code lengths of a dynamic block (`total = HLIT + HDIST`). -/
def readLens (cl : Huff) (total : Nat) : (fuel : Nat) → (acc : Array Nat) → Dec (Array Nat)
  | 0, _ => .fail
  | f + 1, acc =>
    if acc.size ≥ total then .pure acc
    else sym cl >>= fun s =>
      if s < 16 then readLens cl total f (acc.push s)
      else if s = 16 then
        if acc.size = 0 then .fail
        else bits 2 >>= fun r =>
          if acc.size + (3 + r) > total then .fail
          else readLens cl total f (acc ++ Array.replicate (3 + r) acc.back!)
      else if s = 17 then
        bits 3 >>= fun r =>
          if acc.size + (3 + r) > total then .fail
          else readLens cl total f (acc ++ Array.replicate (3 + r) 0)
      else
        bits 7 >>= fun r =>
          if acc.size + (11 + r) > total then .fail
          else readLens cl total f (acc ++ Array.replicate (11 + r) 0)

/-- `n` three-bit code-length-code lengths, stored in the order `clOrder`. -/
def readCl : (order : List Nat) → (n : Nat) → (acc : Array Nat) → Dec (Array Nat)
  | _, 0, acc => .pure acc
  | [], _, acc => .pure acc
  | o :: os, n + 1, acc => bits 3 >>= fun v => readCl os n (acc.set! o v)

def dynHdr (fin : Bool) : Dec (Emit × Option St) :=
  bits 5 >>= fun hl => bits 5 >>= fun hd => bits 4 >>= fun hc =>
    let hlit := hl + 257
    let hdist := hd + 1
    if hlit > 286 ∨ hdist > 30 then .fail
    else readCl clOrder (hc + 4) (Array.replicate 19 0) >>= fun cll =>
      if kraft (countLens cll) ≠ some 0 then .fail
      else readLens (mkHuff cll) (hlit + hdist) (hlit + hdist + 1) #[] >>= fun lens =>
        let ll := lens.extract 0 hlit
        let dl := lens.extract hlit (hlit + hdist)
        let lit := mkHuff ll
        let dist := mkHuff dl
        if ll[256]! = 0 then .fail
        else if kraft lit.count ≠ some 0 then .fail
        else if kraft dist.count = some 0 ∨ dist.total = 0
            ∨ (dist.total = 1 ∧ dist.count[1]! = 1) then
          .pure (.none, some (.huff lit dist fin))
        else .fail

def huffStep (lit dist : Huff) (fin : Bool) : Dec (Emit × Option St) :=
  sym lit >>= fun s =>
    if s < 256 then .pure (.lit s, some (.huff lit dist fin))
    else if s = 256 then .pure (.none, endBlock fin)
    else if s ≥ 286 then .fail
    else bits lext[s - 257]! >>= fun eb =>
      sym dist >>= fun ds =>
        if ds ≥ 30 then .fail
        else bits dext[ds]! >>= fun de =>
          .pure (.copy (lbase[s - 257]! + eb) (dbase[ds]! + de), some (.huff lit dist fin))

def step : St → Dec (Emit × Option St)
  | .hdr => .bit fun fin => .bit fun t0 => .bit fun t1 =>
    match t0, t1 with
    | false, false => storedHdr fin
    | true, false => .pure (.none, some (.huff fixedLit fixedDist fin))
    | false, true => dynHdr fin
    | true, true => .fail
  | .stored n fin => .byte fun b =>
    .pure (.lit b, if n ≤ 1 then endBlock fin else some (.stored (n - 1) fin))
  | .huff lit dist fin => huffStep lit dist fin

/-- `len` bytes from `dist` back, one at a time (so that overlapping copies work). -/
def copyBack (dist : Nat) : (len : Nat) → Array Nat → Array Nat
  | 0, out => out
  | n + 1, out => copyBack dist n (out.push out[out.size - dist]!)

inductive Outcome where
  /-- final block finished; `rest` = whole bytes not consumed -/
  | done (out : Bytes) (rest : Bytes)
  /-- input ran out inside the stream; `out` = everything decodable so far -/
  | more (out : Bytes)
  /-- malformed; `out` = what was decoded before the defect -/
  | bad (out : Bytes)
  deriving Repr, DecidableEq

/-- Apply an emission to the output; `false` = a distance reaching before the start. -/
def emit : Emit → Array Nat → Bool × Array Nat
  | .none, out => (true, out)
  | .lit b, out => (true, out.push b)
  | .copy len dist, out =>
    if dist > out.size then (false, out) else (true, copyBack dist len out)

/-- One step per unit of fuel; every step consumes at least one bit, so `8 * length + 8`
units always suffice (running out of fuel is reported as `more`). -/
def loop : (fuel : Nat) → St → (out : Array Nat) → (v n : Nat) → (l : Bytes) → Outcome
  | 0, _, out, _, _, _ => .more out.toList
  | f + 1, st, out, v, n, l =>
    match run (step st) v n l with
    | .eof => .more out.toList
    | .err => .bad out.toList
    | .ok (e, nx) v' n' l' =>
      match emit e out with
      | (false, out') => .bad out'.toList
      | (true, out') =>
        match nx with
        | none => .done out'.toList l'
        | some st' => loop f st' out' v' n' l'

def inflate (input : Bytes) : Outcome := loop (8 * input.length + 8) .hdr #[] 0 0 input

/-! ### gzip framing (RFC 1952) -/

def takeN : (n : Nat) → (acc : Bytes) → Dec Bytes
  | 0, acc => .pure acc.reverse
  | n + 1, acc => .byte fun b => takeN n (b :: acc)

/-- FEXTRA; `c` is the running CRC state of the header. -/
def optExtra (flg c : Nat) : Dec Nat :=
  if flg / 4 % 2 = 1 then
    .byte fun a => .byte fun b => takeN (a + 256 * b) [] >>= fun xs =>
      .pure (crcFold c (a :: b :: xs))
  else .pure c

/-- FNAME / FCOMMENT. -/
def optStr (on : Bool) (c : Nat) : Dec Nat :=
  if on then .cstr fun s => .pure (crcFold c s) else .pure c

def optHcrc (flg c : Nat) : Dec Unit :=
  if flg / 2 % 2 = 1 then
    .byte fun a => .byte fun b =>
      if a + 256 * b = (c ^^^ 4294967295) % 65536 then .pure () else .fail
  else .pure ()

def hdrTail (flg c : Nat) : Dec Unit :=
  optExtra flg c >>= fun c1 => optStr (flg / 8 % 2 == 1) c1 >>= fun c2 =>
    optStr (flg / 16 % 2 == 1) c2 >>= fun c3 => optHcrc flg c3

def header : Dec Unit :=
  .byte fun b0 => if b0 ≠ 31 then .fail else
  .byte fun b1 => if b1 ≠ 139 then .fail else
  .byte fun b2 => if b2 ≠ 8 then .fail else
  .byte fun flg => if flg ≥ 32 then .fail else
  .byte fun m0 => .byte fun m1 => .byte fun m2 => .byte fun m3 =>
  .byte fun xfl => .byte fun os =>
    hdrTail flg (crcFold 4294967295 [31, 139, 8, flg, m0, m1, m2, m3, xfl, os])

def trailer (out : Bytes) : Bytes :=
  le32 (crc32 out) ++ le32 (out.length % 4294967296)

def allBytes (input : Bytes) : Bool := input.all (· < 256)

/-- Exactly one well-formed member and nothing else.  `none` otherwise. -/
def gunzip (input : Bytes) : Option Bytes :=
  if allBytes input then
    match run header 0 0 input with
    | .ok _ _ _ l =>
      match inflate l with
      | .done out rest => if rest = trailer out then some out else none
      | _ => none
    | _ => none
  else none

/-- Streaming view: `(ok, produced so far)`. -/
def gunzipAvail (input : Bytes) : Bool × Bytes :=
  if allBytes input then
    match run header 0 0 input with
    | .eof => (true, [])
    | .err => (false, [])
    | .ok _ _ _ l =>
      match inflate l with
      | .done out rest => (rest.isPrefixOf (trailer out), out)
      | .more out => (true, out)
      | .bad out => (false, out)
  else (false, [])

end HS.Inflate
