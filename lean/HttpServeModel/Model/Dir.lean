/-
Model of `dir::validate_path`, `FsDir::get` and `Node::{encoding, add_encoding_headers}`
(src/dir.rs) over an abstract, symlink-free directory tree with POSIX-style resolution of
a relative path (the crate documents that it does not check symlinks).
-/
import HttpServeModel.Model.Negotiate

namespace HS

/-- '.gz' -/
def kDotGz : Bytes := [46, 103, 122]
/-- '..' -/
def kDotDot : Bytes := [46, 46]

inductive FsNode where
  | file (id : Nat)
  | dir (id : Nat) (children : List (Bytes × FsNode))
  /-- an entry that exists but cannot be opened (a symlink loop, a socket, no permission):
  `openat` fails with an error other than ENOENT / ENOTDIR / ENAMETOOLONG -/
  | blocked (id : Nat)
  deriving Repr

def FsNode.id : FsNode → Nat
  | .file i => i
  | .dir i _ => i
  | .blocked i => i

def FsNode.isDir : FsNode → Bool
  | .dir _ _ => true
  | .file _ => false
  | .blocked _ => false

def FsNode.lookup : FsNode → Bytes → Option FsNode
  | .dir _ cs, name => (cs.find? fun c => c.1 == name).map (·.2)
  | .file _, _ => none
  | .blocked _, _ => none

inductive PathErr where
  | nul | absolute | dotdot
  deriving Repr, DecidableEq

/-- `validate_path` -/
def validatePath (p : Bytes) : Option PathErr :=
  if p.contains 0 then some .nul
  else if p.head? == some cSlash then some .absolute
  else if (splitOn cSlash p).contains kDotDot then some .dotdot
  else none

inductive OsErr where
  | notFound | notDir | nameTooLong
  | other     -- any other errno (ELOOP, ENXIO, EACCES, ...)
  deriving Repr, DecidableEq

/-- Walk the segments. `stack` holds the ancestors of `cur` (nearest first); the walk may
pop it on `..` — `Theorems/C19` shows a validated path never does. -/
def walk (stack : List FsNode) (cur : FsNode) : List Bytes → Except OsErr (List FsNode × FsNode)
  | [] => .ok (stack, cur)
  | seg :: rest =>
    if !cur.isDir then .error .notDir
    else if seg.isEmpty || seg == [cDot] then walk stack cur rest
    else if seg == kDotDot then
      match stack with
      | [] => walk [] cur rest
      | p :: ps => walk ps p rest
    else if seg.length > 255 then .error .nameTooLong
    else match cur.lookup seg with
      | none => .error .notFound
      | some (.blocked _) => .error .other
      | some child => walk (cur :: stack) child rest

/-- `openat(base_fd, path, O_RDONLY)` where `base` has ancestors `stack`. -/
def openAt (stack : List FsNode) (base : FsNode) (path : Bytes) : Except OsErr (List FsNode × FsNode) :=
  if path.isEmpty then .error .notFound
  else if path.length ≥ 4096 then .error .nameTooLong
  else walk stack base (splitOn cSlash path)

inductive DirRes where
  | invalid (e : PathErr)
  | osErr (k : OsErr)
  /-- node id, `is_gzipped`, and what `add_encoding_headers` sets:
  `Content-Encoding: gzip`, `Vary: accept-encoding` -/
  | node (id : Nat) (gz : Bool) (ce : Bool) (vary : Bool)
  deriving Repr, DecidableEq

/-- 'base' -/
def kBase : Bytes := [98, 97, 115, 101]

/-- `FsDir::get` on the directory named `base` inside `outer` (the model keeps the parent so
that escaping the base is expressible). -/
def dirGetIn (stack : List FsNode) (base : FsNode) (path : Bytes) (autoGzip : Bool)
    (ae : Option Bytes) : R DirRes :=
  match validatePath path with
  | some e => .ok (.invalid e)
  | none =>
    match shouldGzip ae with
    | .panic => .panic
    | .ok sg =>
      let plain : DirRes :=
        match openAt stack base path with
        | .ok (_, n) => .node n.id false false autoGzip
        | .error k => .osErr k
      if autoGzip && sg then
        match openAt stack base (path ++ kDotGz) with
        | .ok (_, n) => if !n.isDir then .ok (.node n.id true true autoGzip) else .ok plain
        | .error _ => .ok plain
      else .ok plain

def dirGet (outer : FsNode) (path : Bytes) (autoGzip : Bool) (ae : Option Bytes) : R DirRes :=
  match outer.lookup kBase with
  | some base => dirGetIn [outer] base path autoGzip ae
  | none => .ok (.osErr .notFound)

end HS
