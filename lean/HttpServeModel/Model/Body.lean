/-
Model of the body state machines: `BodyStream::Once`, `ExactLenStream` (src/body.rs) and
`MultipartStream` (src/serving.rs), with `size_hint` / `is_end_stream`.

An entity stream is a script: a list of events consumed one per poll.  After the list is
exhausted the stream reports the end forever.  An `err` event is the stream failing once: what
the script holds after it is what the stream yields when polled again (a transient failure);
a stream that stays failed once it has failed — C20's proviso — is a script with nothing after
its first `err` (`StaysFailed`), and theorems that need the proviso say so.
-/
import HttpServeModel.Model.Serve

namespace HS

inductive Ev where
  | chunk (bs : Bytes)
  | pending
  | err
  deriving Repr, DecidableEq

inductive PollOut where
  | data (bs : Bytes)
  | errEntity                 -- the entity stream's own error, passed through
  | errShort (remaining : Nat)   -- StreamTooShortError
  | errLong (extra : Nat)        -- StreamTooLongError
  | end_
  | pending
  | panic
  | diverge                   -- model fuel exhausted (shown unreachable)
  deriving Repr, DecidableEq

def PollOut.isErr : PollOut → Bool
  | .errEntity | .errShort _ | .errLong _ => true
  | _ => false

def PollOut.isTerminal : PollOut → Bool
  | .errEntity | .errShort _ | .errLong _ | .end_ => true
  | _ => false

def PollOut.dataLen : PollOut → Nat
  | .data bs => bs.length
  | _ => 0

/-- "The entity's stream stays failed once it has failed": nothing follows an error in its
script. (C20's proviso; `ChunkedReadFile` does not satisfy it — its stream retries the read.) -/
def StaysFailed (script : List Ev) : Prop :=
  ∀ pre post, script = pre ++ Ev.err :: post → post = []

structure ExactLen where
  stream : List Ev
  remaining : Nat
  /-- `finished`: set once the entity's stream has reported its end; it is not polled again
  (fix F13: a `Stream` may panic when polled after its end, `stream::unfold` does). -/
  finished : Bool := false
  /-- Ghost (not in the Rust): the entity's stream has reported its end. -/
  innerEnded : Bool := false
  /-- Ghost (not in the Rust): how often the entity's stream has been polled AFTER it had
  reported its end. `C20_finished_stream_is_never_polled_again` shows it stays 0. -/
  overpolls : Nat := 0
  deriving Repr, DecidableEq

/-- `ExactLenStream::poll_next` -/
def ExactLen.poll (s : ExactLen) : ExactLen × PollOut :=
  if s.finished then (s, .end_) else
  match s.stream with
  | [] =>
    -- the entity's stream is polled and reports its end (the script has run out)
    let s := { s with finished := true, innerEnded := true,
                      overpolls := if s.innerEnded then s.overpolls + 1 else s.overpolls }
    if s.remaining ≠ 0 then ({ s with remaining := 0 }, .errShort s.remaining)
    else (s, .end_)
  | .pending :: rest => ({ s with stream := rest }, .pending)
  -- the entity's error is passed through; whether the stream then stays failed is the entity's
  -- business (`StaysFailed`), not something `ExactLenStream` enforces
  | .err :: rest => ({ s with stream := rest }, .errEntity)
  | .chunk bs :: rest =>
    if bs.length ≤ s.remaining then
      ({ s with stream := rest, remaining := s.remaining - bs.length }, .data bs)
    else
      ({ s with stream := rest, remaining := 0 }, .errLong (bs.length - s.remaining))

structure Multipart where
  cur : Option ExactLen
  state : Nat
  partHeaders : List Bytes
  ranges : List (Nat × Nat)
  /-- scripts for the `get_range` calls still to come, in call order -/
  scripts : List (List Ev)
  remaining : Nat
  /-- log of `get_range` arguments so far -/
  calls : List (Nat × Nat)
  deriving Repr, DecidableEq

def Multipart.new (phs : List Bytes) (ranges : List (Nat × Nat)) (len : Nat)
    (scripts : List (List Ev)) : Multipart :=
  { cur := none, state := 0, partHeaders := phs, ranges := ranges, scripts := scripts,
    remaining := len, calls := [] }

/-- `MultipartStream::poll_next`; the Rust `loop` needs at most three iterations from any
reachable state, `fuel` bounds it and `.diverge` marks exhaustion. -/
def Multipart.pollF : Nat → Multipart → Multipart × PollOut
  | 0, m => (m, .diverge)
  | fuel + 1, m =>
    let n := m.ranges.length
    match m.cur with
    | some c =>
      let (c', o) := c.poll
      match o with
      | .data d =>
        match subChk m.remaining d.length with
        | .ok r => ({ m with cur := some c', remaining := r }, .data d)
        | .panic => (m, .panic)
      | .end_ => Multipart.pollF fuel { m with cur := none, state := m.state + 1 }
      | .pending => ({ m with cur := some c' }, .pending)
      | e => ({ m with cur := none, remaining := 0, state := 2 * n + 1 }, e)
    | none =>
      let i := m.state / 2
      let odd := m.state % 2 == 1
      if i == n && odd then
        -- `debug_assert_eq!(this.remaining, 0)`
        if m.remaining == 0 then (m, .end_) else (m, .panic)
      else if i == n then
        match subChk m.remaining kTrailer.length with
        | .ok r => ({ m with state := m.state + 1, remaining := r }, .data kTrailer)
        | .panic => (m, .panic)
      else if odd then
        match m.ranges[i]? with
        | none => (m, .panic)
        | some (a, b) =>
          match subChk b a with
          | .panic => (m, .panic)
          | .ok sz =>
            Multipart.pollF fuel
              { m with cur := some { stream := m.scripts.headD [], remaining := sz },
                       scripts := m.scripts.tail, calls := m.calls ++ [(a, b)] }
      else
        match m.partHeaders[i]? with
        | none => (m, .panic)
        | some v =>
          match subChk m.remaining v.length with
          | .ok r =>
            ({ m with state := m.state + 1, remaining := r,
                      partHeaders := m.partHeaders.set i [] }, .data v)
          | .panic => (m, .panic)

def Multipart.poll (m : Multipart) : Multipart × PollOut := Multipart.pollF 4 m

/-- `BodyStream` for bodies made by `serve`. -/
inductive BodyS where
  | once (payload : Option Nat)     -- `Once(Some(Ok(d)))` with `d.len()`, or `Once(None)`
  | exact (e : ExactLen)
  | multi (m : Multipart)
  deriving Repr, DecidableEq

def BodyS.poll : BodyS → BodyS × PollOut
  | .once (some n) => (.once none, .data (List.replicate n 0))
  | .once none => (.once none, .end_)
  | .exact e => let (e', o) := e.poll; (.exact e', o)
  | .multi m => let (m', o) := m.poll; (.multi m', o)

/-- `Body::size_hint`: always exact for these kinds, so one number. -/
def BodyS.sizeHint : BodyS → Nat
  | .once (some n) => n
  | .once none => 0
  | .exact e => e.remaining
  | .multi m => m.remaining

/-- Ghost: polls of an entity stream after its end, by the stream this body currently holds. -/
def BodyS.overpolls : BodyS → Nat
  | .once _ => 0
  | .exact e => e.overpolls
  | .multi m => (m.cur.map (·.overpolls)).getD 0

/-- `Body::is_end_stream` -/
def BodyS.isEndStream : BodyS → Bool
  | .once p => p.isNone
  | .exact e => e.remaining == 0
  | .multi m => m.remaining == 0

/-- The body a plan denotes; `scripts` are the entity streams for the `get_range` calls in
call order. -/
def BodyS.ofPlan (p : Plan) (scripts : List (List Ev)) : R BodyS :=
  match p with
  | .once n => .ok (.once (some n))
  | .empty => .ok (.once none)
  | .exact a b => do
    let n ← subChk b a
    pure (.exact { stream := scripts.headD [], remaining := n })
  | .multipart phs ranges len => .ok (.multi (Multipart.new phs ranges len scripts))

/-- Poll `n` times, recording `(size_hint, is_end_stream)` sampled before each poll and the
outcome. -/
def BodyS.run : Nat → BodyS → List (Nat × Bool × PollOut)
  | 0, _ => []
  | n + 1, b =>
    let (b', o) := b.poll
    (b.sizeHint, b.isEndStream, o) :: BodyS.run n b'

/-- The state after `n` polls. -/
def BodyS.after : Nat → BodyS → BodyS
  | 0, b => b
  | n + 1, b => BodyS.after n b.poll.1

end HS
