/-
Model of `ChunkedReadFile` (src/file.rs) and `FileExt::read_at` (src/platform.rs, unix):
the ETag format and the `unfold` read loop over an abstract file whose size may change
between polls.

OS behaviour assumed (DESIGN §7): `pread(fd, buf, n, off)` on a regular file of size `S`
returns `min n (S - off)` bytes when `off < S` (no short reads on the file systems the
harness uses; the theorems in `Theorems/C18.lean` are nevertheless stated for every
admissible read size) and 0 bytes when `off ≥ S`.
-/
import HttpServeModel.Model.Bytes

namespace HS

/-- `CHUNK_SIZE`: the value the pinned crate uses. The semantics below take the read size as a
parameter `cs`; this constant only serves as a default and in examples. -/
def kChunkSize : Nat := 65536

/-- `ChunkedReadFile::etag`: `"{inode:x}:{len:x}:{secs:x}:{nanos:x}"` in double quotes. -/
def fileEtag (ino len secs nanos : Nat) : Bytes :=
  [cQuote] ++ hex ino ++ [cColon] ++ hex len ++ [cColon] ++ hex secs ++ [cColon] ++ hex nanos
    ++ [cQuote]

/-- The seconds field of the tag: `{sign}{secs:x}`, `sign` being `-` for a modification time
before the epoch (then `secs`, `nanos` are its distance from the epoch) and empty otherwise. -/
def signedHex (neg : Bool) (secs : Nat) : Bytes := (if neg then [45] else []) ++ hex secs

/-- `ChunkedReadFile::etag` for any modification time:
`"{inode:x}:{len:x}:{sign}{secs:x}:{nanos:x}"`. -/
def fileEtagS (ino len : Nat) (neg : Bool) (secs nanos : Nat) : Bytes :=
  [cQuote] ++ hex ino ++ [cColon] ++ hex len ++ [cColon] ++ signedHex neg secs ++ [cColon]
    ++ hex nanos ++ [cQuote]

inductive FOut where
  | chunk (start n : Nat)     -- `n ≥ 1` file bytes starting at offset `start`
  | eof                       -- `Err(UnexpectedEof)`; the unfold state is unchanged
  | end_                      -- `None`
  deriving Repr, DecidableEq

/-- One poll of the `unfold` stream of `get_range(a..b)` when the file currently has `size`
bytes and `pread` returns `k` bytes (`k` is only consulted when bytes are available). -/
def filePoll (a b size k : Nat) : (Nat × Nat) × FOut :=
  if a == b then ((a, b), .end_)
  else if a ≥ size then ((a, b), .eof)
  else ((a + k, b), .chunk a k)

/-- The read size the deterministic OS model picks when at most `cs` bytes are read per poll:
everything available up to the request. -/
def fullRead (cs a b size : Nat) : Nat := min (min cs (b - a)) (size - a)

/-- Poll once per element of `sizes` (the file's size at the time of each poll), stopping
after the stream has ended. -/
def fileRun (cs a b : Nat) : List Nat → List FOut
  | [] => []
  | size :: rest =>
    let (st, o) := filePoll a b size (fullRead cs a b size)
    match o with
    | .end_ => [o]
    | _ => o :: fileRun cs st.1 st.2 rest

end HS

namespace HS

/-- What `fstat` says the opened object is. -/
inductive FileKind where
  | regular | directory | charDevice | fifo | other
  deriving Repr, DecidableEq

/-- `ChunkedReadFile::new_with_metadata`: `true` = constructed, `false` = refused
(`"expected a file"`): `metadata.is_file()`. -/
def newWithMetadata (k : FileKind) : Bool := k == .regular

end HS
