/-
Model of `parse_qvalue`, `should_gzip`, `streaming_body(..).build()` (src/lib.rs).
-/
import HttpServeModel.Model.Bytes

namespace HS

/-- 'gzip' -/
def kGzip : Bytes := [103, 122, 105, 112]
/-- 'identity' -/
def kIdentity : Bytes := [105, 100, 101, 110, 116, 105, 116, 121]
/-- 'q=' -/
def kQEq : Bytes := [113, 61]
/-- '0.' -/
def kZeroDot : Bytes := [48, 46]

/-- `u16::from_str`: optional `+`, then `1*DIGIT`, value ≤ 65535. -/
def parseU16 (s : Bytes) : Option Nat :=
  let ds := match s with
    | c :: rest => if c = cPlus then rest else s
    | [] => s
  if ds.isEmpty then none
  else if !allDigits ds then none
  else if digitsVal ds < 65536 then some (digitsVal ds) else none

/-- `parse_qvalue`: `.ok none` = `Err(())`. The `u16` multiplication `v * factor` is
checked (dev profile). -/
def parseQvalue (s : Bytes) : R (Option Nat) :=
  if s == [49] || s == [49, 46] || s == [49, 46, 48] || s == [49, 46, 48, 48]
      || s == [49, 46, 48, 48, 48] then .ok (some 1000)
  else if s == [48] || s == [48, 46] then .ok (some 0)
  else match stripPrefix kZeroDot s with
    | none => .ok none
    | some v =>
      let factor : Option Nat :=
        if v.length == 1 then some 100
        else if v.length == 2 then some 10
        else if v.length == 3 then some 1
        else none
      match factor with
      | none => .ok none
      | some f =>
        match parseU16 v with
        | none => .ok none
        | some x => if x * f < 65536 then .ok (some (x * f)) else .panic

structure QState where
  gzip : Option Nat := none
  identity : Option Nat := none
  star : Option Nat := none
  deriving Repr, DecidableEq

/-- One `qi` of the `for qi in parts` loop: `.ok none` = `return false` (unparseable). -/
def gzipStep (st : QState) (qi : Bytes) : R (Option QState) :=
  let parsed : R (Option (Bytes × Nat)) :=
    match splitOnce cSemi qi with
    | none => .ok (some (trimOws qi, 1000))
    | some (c, q) =>
      match stripPrefix kQEq (trimOws q) with
      | none => .ok none
      | some qv =>
        match parseQvalue qv with
        | .panic => .panic
        | .ok none => .ok none
        | .ok (some quality) => .ok (some (trimOws c, quality))
  match parsed with
  | .panic => .panic
  | .ok none => .ok none
  | .ok (some (coding, quality)) =>
    if coding == kGzip then .ok (some { st with gzip := some quality })
    else if coding == kIdentity then .ok (some { st with identity := some quality })
    else if coding == [cStar] then .ok (some { st with star := some quality })
    else .ok (some st)

def gzipLoop : List Bytes → QState → R (Option QState)
  | [], st => .ok (some st)
  | qi :: rest, st =>
    match gzipStep st qi with
    | .panic => .panic
    | .ok none => .ok none
    | .ok (some st') => gzipLoop rest st'

def QState.decide (st : QState) : Bool :=
  let g := (st.gzip.or st.star).getD 0
  let i := (st.identity.or st.star).getD 1
  g > 0 && g ≥ i

/-- `should_gzip` applied to the (first) `Accept-Encoding` header value, if any. -/
def shouldGzip (ae : Option Bytes) : R Bool :=
  match ae with
  | none => .ok false
  | some v =>
    if !toStrOk v then .ok false
    else match gzipLoop (splitOn cComma v) {} with
      | .panic => .panic
      | .ok none => .ok false
      | .ok (some st) => .ok st.decide

inductive WriterKind where
  | none | raw | gzip
  deriving Repr, DecidableEq

structure StreamingResp where
  /-- `Vary: accept-encoding` present -/
  vary : Bool
  /-- `Content-Encoding: gzip` present -/
  contentEncodingGzip : Bool
  writer : WriterKind
  deriving Repr, DecidableEq

/-- `streaming_body(req).with_chunk_size(c).with_gzip_level(l).build()`; `isHead` is
`*req.method() == Method::HEAD`. `assert!(cap > 0)` in `Writer::with_chunk_size`. -/
def streamingBuild (isHead : Bool) (ae : Option Bytes) (chunkSize level : Nat) :
    R StreamingResp :=
  match shouldGzip ae with
  | .panic => .panic
  | .ok sg =>
    if chunkSize == 0 then .panic
    else
      let gz := sg && level > 0
      .ok { vary := true, contentEncodingGzip := gz,
            writer := if isHead then .none else if gz then .gzip else .raw }

/-- A builder call between `streaming_body(req)` and `build()`. -/
inductive BCall where
  | chunkSize (n : Nat)     -- `with_chunk_size(n)`
  | gzipLevel (n : Nat)     -- `with_gzip_level(n)`
  deriving Repr, DecidableEq

/-- The builder's settings; `streaming_body` starts from chunk size 4096 and gzip level 6 (the
negotiation result and the method are fixed at `streaming_body(req)` and not settable). -/
structure SBuilder where
  chunkSize : Nat := 4096
  gzipLevel : Nat := 6
  deriving Repr, DecidableEq

/-- `StreamingBodyBuilder { chunk_size, ..self }` / `StreamingBodyBuilder { gzip_level, ..self }` -/
def SBuilder.call (b : SBuilder) : BCall → SBuilder
  | .chunkSize n => { b with chunkSize := n }
  | .gzipLevel n => { b with gzipLevel := n }

/-- `streaming_body(req)`, any sequence of builder calls, `build()`. -/
def streamingBuildCalls (isHead : Bool) (ae : Option Bytes) (calls : List BCall) :
    R StreamingResp :=
  let b := calls.foldl SBuilder.call {}
  streamingBuild isHead ae b.chunkSize b.gzipLevel

end HS
