/-
Line-protocol driver around the executable model definitions (lean_exe `hsmodel`).
One request line in, one reply line out.  Only parsing/printing lives here; every
decision is made by a `HS.*` definition from `HttpServeModel/Model`.
-/
import HttpServeModel.Model.Bytes
import HttpServeModel.Model.Range
import HttpServeModel.Model.Etag
import HttpServeModel.Model.Cond
import HttpServeModel.Model.Serve
import HttpServeModel.Model.Body
import HttpServeModel.Model.Negotiate
import HttpServeModel.Model.Chunker
import HttpServeModel.Model.Sched
import HttpServeModel.Model.File
import HttpServeModel.Model.Dir
import HttpServeModel.Model.Inflate

open HS

namespace Drv

def hexVal (c : Char) : Option Nat :=
  if '0' ≤ c && c ≤ '9' then some (c.toNat - 48)
  else if 'a' ≤ c && c ≤ 'f' then some (c.toNat - 87)
  else if 'A' ≤ c && c ≤ 'F' then some (c.toNat - 55)
  else none

def unhexL : List Char → Option Bytes
  | [] => some []
  | [_] => none
  | a :: b :: rest => do
    let x ← hexVal a
    let y ← hexVal b
    let r ← unhexL rest
    pure ((x * 16 + y) :: r)

def unhex (s : String) : Option Bytes := unhexL s.toList

def hexChar (d : Nat) : Char := Char.ofNat (if d < 10 then 48 + d else 87 + d)

def hexStr (b : Bytes) : String :=
  String.ofList (b.flatMap fun x => [hexChar ((x / 16) % 16), hexChar (x % 16)])

/-- `-` = none, `x<hex>` = some -/
def optBytes (s : String) : Option (Option Bytes) :=
  if s == "-" then some none
  else match s.toList with
    | 'x' :: rest => (unhexL rest).map some
    | _ => none

def kv (toks : List String) (key : String) : Option String :=
  toks.findSome? fun t =>
    match t.splitOn "=" with
    | k :: rest => if k == key then some ("=".intercalate rest) else none
    | [] => none

def asText (b : Bytes) : String := String.ofList (b.map Char.ofNat)

def showName : HName → String
  | .acceptRanges => "accept-ranges"
  | .date => "date"
  | .lastModified => "last-modified"
  | .etag => "etag"
  | .contentRange => "content-range"
  | .contentLength => "content-length"
  | .contentType => "content-type"
  | .allow => "allow"
  | .ent n => asText n

def showVal : HVal → String
  | .bytes b => hexStr b
  | .httpDate s => "@" ++ toString s

def showPlan : Plan → String
  | .once n => s!"once:{n}"
  | .empty => "empty"
  | .exact a b => s!"exact:{a}-{b}"
  | .multipart phs rs len =>
    "multipart:" ++ "/".intercalate (phs.map hexStr) ++ ":" ++
      "/".intercalate (rs.map fun (a, b) => s!"{a}-{b}") ++ s!":{len}"

def showCall : EntCall → String
  | .lastModified => "lm"
  | .etag => "etag"
  | .len => "len"
  | .addHeaders => "ah"
  | .getRange a b => s!"gr:{a}-{b}"

def parseDate (s : String) : Option DateHdr :=
  if s == "-" then some .absent
  else if s == "bad" then some .bad
  else s.toNat?.map .secs

def parseMtime (s : String) : Option (Option (Nat × Nat)) :=
  if s == "-" then some (usableMtime .absent)
  else if s == "neg" then some (usableMtime .preEpoch)
  else match s.splitOn "." with
    | [a, b] => do pure (usableMtime (.at (← a.toNat?) (← b.toNat?)))
    | _ => none

def parseMethod (s : String) : Option Method :=
  if s == "G" then some .get else if s == "H" then some .head
  else if s == "O" then some .other else none

/-- `k:v,k:v` with hex names and values; `-` for none -/
def parseEh (s : String) : Option (List (Bytes × Bytes)) :=
  if s == "-" || s == "" then some []
  else (s.splitOn ",").mapM fun kvs =>
    match kvs.splitOn ":" with
    | [k, v] => do pure (← unhex k, ← unhex v)
    | _ => none

def parseRangePair (s : String) : Option (Nat × Nat) :=
  match s.splitOn "-" with
  | [a, b] => do pure (← a.toNat?, ← b.toNat?)
  | _ => none

def parsePlan (s : String) : Option Plan :=
  match s.splitOn ":" with
  | ["once", n] => n.toNat?.map .once
  | ["empty"] => some .empty
  | ["exact", r] => (parseRangePair r).map fun (a, b) => .exact a b
  | ["multipart", phs, rs, len] => do
    let phs ← (if phs == "" then some [] else (phs.splitOn "/").mapM unhex)
    let rs ← (if rs == "" then some [] else (rs.splitOn "/").mapM parseRangePair)
    pure (.multipart phs rs (← len.toNat?))
  | _ => none

def parseEv (s : String) : Option Ev :=
  match s.toList with
  | ['p'] => some .pending
  | ['e'] => some .err
  | 'c' :: rest => (unhexL rest).map .chunk
  | _ => none

def parseScript (s : String) : Option (List Ev) :=
  if s == "" then some [] else (s.splitOn ",").mapM parseEv

def parseScripts (s : String) : Option (List (List Ev)) :=
  if s == "-" then some [] else (s.splitOn "|").mapM parseScript

def showOut (isOnce : Bool) : PollOut → String
  | .data bs => if isOnce then s!"D#{bs.length}" else "D" ++ hexStr bs
  | .errEntity => "EE"
  | .errShort r => s!"ES{r}"
  | .errLong x => s!"EL{x}"
  | .end_ => "END"
  | .pending => "PEND"
  | .panic => "PANIC"
  | .diverge => "DIVERGE"

def cmdServe (toks : List String) : Option String := do
  let m ← parseMethod (← kv toks "m")
  let len ← (← kv toks "len").toNat?
  let etag ← optBytes (← kv toks "etag")
  let mtime ← parseMtime (← kv toks "mtime")
  let now ← (← kv toks "now").toNat?
  let range ← optBytes (← kv toks "range")
  let ifrange ← optBytes (← kv toks "ifrange")
  let im ← optBytes (← kv toks "im")
  let inm ← optBytes (← kv toks "inm")
  let ius ← parseDate (← kv toks "ius")
  let ims ← parseDate (← kv toks "ims")
  let eh ← parseEh (← kv toks "eh")
  let q : Req := { method := m, range := range, ifRange := ifrange, ifMatch := im,
                   ifNoneMatch := inm, ius := ius, ims := ims }
  let e : Ent := { len := len, etag := etag, mtime := mtime, headers := eh }
  match serve q e now with
  | .panic => pure "PANIC"
  | .ok r =>
    let hs := (r.headers.map fun (n, v) => showName n ++ "=" ++ showVal v)
    let hs := hs.mergeSort (fun a b => a ≤ b)
    pure (s!"{r.status} hdrs=" ++ ",".intercalate hs ++ " plan=" ++ showPlan r.plan ++
      " calls=" ++ ",".intercalate (r.calls.map showCall))

def cmdBody (toks : List String) : Option String := do
  let plan ← parsePlan (← kv toks "plan")
  let scripts ← parseScripts (← kv toks "scripts")
  let polls ← (← kv toks "polls").toNat?
  let isOnce := match plan with | .once _ => true | _ => false
  match BodyS.ofPlan plan scripts with
  | .panic => pure "PANIC"
  | .ok b =>
    let tr := BodyS.run polls b
    let final := BodyS.after polls b
    let calls := match final with
      | .multi m => ",".intercalate (m.calls.map fun (a, b) => s!"{a}-{b}")
      | _ => ""
    pure (" | ".intercalate (tr.map fun (h, e, o) =>
        s!"{h} {if e then 1 else 0} {showOut isOnce o}") ++ " calls=" ++ calls ++
      s!" over={final.overpolls}")

def cmdGzipQ (toks : List String) : Option String := do
  let ae ← optBytes (← kv toks "ae")
  match shouldGzip ae with
  | .panic => pure "PANIC"
  | .ok b => pure (if b then "T" else "F")

/-- `GUNZIP mode=full|avail data=<hex>`: the model's gzip decoder on bytes the real encoder
produced. `full`: exactly one member → `some len=<n> crc=<crc-32 of the content>` / `none`;
`avail`: the streaming view → `ok=<0|1> len=<n> crc=<…>` of what has been produced so far. -/
def cmdGunzip (toks : List String) : Option String := do
  let mode ← kv toks "mode"
  let data ← unhex (← kv toks "data")
  if mode == "full" then
    match Inflate.gunzip data with
    | some out => pure s!"some len={out.length} crc={Inflate.crc32 out}"
    | none => pure "none"
  else if mode == "avail" then
    let (ok, out) := Inflate.gunzipAvail data
    pure s!"ok={if ok then 1 else 0} len={out.length} crc={Inflate.crc32 out}"
  else none

def cmdSBuild (toks : List String) : Option String := do
  let head := (← kv toks "head") == "1"
  let ae ← optBytes (← kv toks "ae")
  -- `calls=c4096,l0,l6` (`-` for none): the builder calls in order
  let callsS ← kv toks "calls"
  let calls ← (if callsS == "-" then [] else callsS.splitOn ",").mapM fun (t : String) =>
    if t.startsWith "c" then (t.drop 1).toString.toNat?.map BCall.chunkSize
    else if t.startsWith "l" then (t.drop 1).toString.toNat?.map BCall.gzipLevel
    else none
  match streamingBuildCalls head ae calls with
  | .panic => pure "PANIC"
  | .ok r =>
    let w := match r.writer with | .none => "none" | .raw => "raw" | .gzip => "gzip"
    pure s!"vary={if r.vary then 1 else 0} ce={if r.contentEncodingGzip then 1 else 0} w={w}"

/-! ### CHUNK: sequential op sequences on a streaming body -/

inductive AnyOp where
  | p (op : POp)
  | c (op : COp)
  | writeAll (bs : Bytes)     -- `write_all` on a raw writer (`Sys.writeAll`)

def parseAnyOp (s : String) : Option AnyOp :=
  match s.toList with
  | ['F'] => some (.p .flush)
  | ['A'] => some (.p .abort)
  | ['D'] => some (.p .drop)
  | ['H'] => some (.c .sizeHint)
  | ['E'] => some (.c .isEndStream)
  | ['X'] => some (.c .drop)
  | 'W' :: rest => (unhexL rest).map fun b => .p (.write b)
  | 'L' :: rest => (unhexL rest).map fun b => .writeAll b
  | 'V' :: rest =>   -- `write_vectored`: comma-separated hex slices
    ((String.ofList rest).splitOn ",").mapM unhex |>.map fun ss => .p (.write (firstNonEmpty ss))
  | 'P' :: rest => (String.ofList rest).toNat?.map fun w => .c (.poll w)
  | 'G' :: 'W' :: rest =>
    match (String.ofList rest).splitOn ":" with
    | [h, a] => do pure (.p (.gzWrite (← unhex h) (← a.toNat?)))
    | _ => none
  | 'G' :: 'F' :: rest => (unhexL rest).map fun b => .p (.gzFlush b)
  | 'G' :: 'D' :: rest => (unhexL rest).map fun b => .p (.gzDrop b)
  | _ => none

def showWakes (ws : List Nat) : String := String.join (ws.map fun w => s!"^{w}")

def showPOut : POut → String
  | .wrote n => s!"w{n}"
  | .ok => "ok"
  | .err => "err"
  | .unit => "u"

def showROut : ROut → String
  | .data bs => "D" ++ hexStr bs
  | .err => "ERR"
  | .end_ => "END"
  | .pending => "PEND"
  | .panic => "PANIC"

def showCOut : COut → String
  | .polled o => showROut o
  | .hint l u => s!"h{l}," ++ (match u with | some x => toString x | none => "-")
  | .eos b => if b then "e1" else "e0"
  | .unit => "u"

def runOps : Sys → List AnyOp → List String
  | _, [] => []
  | s, .p op :: rest =>
    let (s', o, wakes) := s.pop op
    (showPOut o ++ showWakes wakes) :: runOps s' rest
  | s, .c op :: rest =>
    let (s', o) := s.cop op
    showCOut o :: runOps s' rest
  | s, .writeAll bs :: rest =>
    let (s', o, wakes) := s.writeAll bs
    (showPOut o ++ showWakes wakes) :: runOps s' rest

def cmdChunk (toks : List String) : Option String := do
  let cap ← (← kv toks "cap").toNat?
  let kind ← kv toks "kind"
  let opsS ← kv toks "ops"
  let ops ← (if opsS == "" then some [] else (opsS.splitOn ";").mapM parseAnyOp)
  if cap == 0 then pure "PANIC"
  else
    let s : Sys := { cap := cap, bw := if kind == "gz" then .gz else .raw }
    pure (" ".intercalate (runOps s ops))

/-! ### SCHED: interleavings (C10/C11) -/

def parseSchedStep (s : String) : Option SStep :=
  match s.toList with
  | ['p'] => some .prod
  | ['w'] => some .wake
  | 'c' :: rest => (String.ofList rest).toNat?.map .poll
  | ['x'] => some .dropBody
  | _ => none

def parsePProg (s : String) : Option (List PCmd) :=
  if s == "" then some [] else (s.splitOn ";").mapM fun t =>
    match t.toList with
    | ['F'] => some .flush
    | ['A'] => some .abort
    | ['D'] => some .drop
    | 'W' :: rest => (unhexL rest).map .write
    | _ => none

def showSObs : SObs → String
  | .prod => "p"
  | .wake w => s!"w:{w}"
  | .poll o => "c:" ++ showROut o
  | .dropped => "x"
  | .disabled => "!"

def cmdSched (toks : List String) : Option String := do
  let cap ← (← kv toks "cap").toNat?
  let prog ← parsePProg (← kv toks "prog")
  let schedS ← kv toks "sched"
  let sched ← (if schedS == "" then some [] else (schedS.splitOn ",").mapM parseSchedStep)
  if cap == 0 then pure "PANIC"
  else
    let (fin, obs) := SSys.run (SSys.init cap prog) sched
    let stage := match fin.stage with
      | .done => "done" | .fetch => "fetch" | .csFlush _ => "acq" | .csAbort => "acq"
      | .csDrop _ _ => "acq" | .wake _ _ => "wake"
    pure (" ".intercalate (obs.map showSObs) ++ " results=" ++
      ",".intercalate (fin.results.map showPOut) ++ " stage=" ++ stage)

/-! ### FILE / ETAG (C18) -/

def cmdEtag (toks : List String) : Option String := do
  let ino ← (← kv toks "ino").toNat?
  let len ← (← kv toks "len").toNat?
  let secsS ← kv toks "secs"
  let neg := secsS.startsWith "-"
  let secs ← (if neg then (secsS.drop 1).toString else secsS).toNat?
  let nanos ← (← kv toks "nanos").toNat?
  pure (hexStr (fileEtagS ino len neg secs nanos))

def cmdFile (toks : List String) : Option String := do
  let a ← (← kv toks "start").toNat?
  let b ← (← kv toks "end").toNat?
  let sizesS ← kv toks "sizes"
  let sizes ← (if sizesS == "" then some [] else (sizesS.splitOn ",").mapM (·.toNat?))
  -- `cs=<n>`: the read size measured from the implementation; absent: the pinned crate's value
  let cs ← (match kv toks "cs" with
    | none => some kChunkSize
    | some t => t.toNat?)
  if cs == 0 then none
  let outs := fileRun cs a b sizes
  pure (" ".intercalate (outs.map fun o =>
    match o with
    | .chunk s n => s!"C{s}+{n}"
    | .eof => "EOF"
    | .end_ => "END"))

def cmdFileNew (toks : List String) : Option String := do
  let k ← kv toks "kind"
  let kind ← (if k == "regular" then some FileKind.regular else if k == "directory" then some .directory
    else if k == "chardev" then some .charDevice else if k == "fifo" then some .fifo
    else if k == "other" then some .other else none)
  pure (if newWithMetadata kind then "ACCEPTED" else "REFUSED")

/-! ### DIR (C19) -/

def parseNode (fuel : Nat) (toks : List String) : Option (FsNode × List String) :=
  match fuel with
  | 0 => none
  | fuel + 1 =>
    match toks with
    | "f" :: id :: rest => do pure (.file (← id.toNat?), rest)
    | "b" :: id :: rest => do pure (.blocked (← id.toNat?), rest)
    | "d" :: id :: n :: rest => do
      let id ← id.toNat?
      let n ← n.toNat?
      let rec loop (k : Nat) (toks : List String) (acc : List (Bytes × FsNode)) :
          Option (List (Bytes × FsNode) × List String) :=
        match k with
        | 0 => some (acc.reverse, toks)
        | k + 1 =>
          match toks with
          | name :: rest => do
            let nm ← unhex name
            let (child, rest') ← parseNode fuel rest
            loop k rest' ((nm, child) :: acc)
          | [] => none
      let (children, rest') ← loop n rest []
      pure (.dir id children, rest')
    | _ => none

structure DirCtx where
  tree : Option FsNode := none

def cmdTree (toks : List String) : Option FsNode :=
  match parseNode 4096 toks with
  | some (n, []) => some n
  | _ => none

def cmdDir (ctx : DirCtx) (toks : List String) : Option String := do
  let tree ← ctx.tree
  let path ← unhex (← kv toks "path")
  let auto := (← kv toks "auto") == "1"
  let ae ← optBytes (← kv toks "ae")
  match dirGet tree path auto ae with
  | .panic => pure "PANIC"
  | .ok (.invalid e) => pure (match e with
      | .nul => "INVALID:nul" | .absolute => "INVALID:absolute" | .dotdot => "INVALID:dotdot")
  | .ok (.osErr k) => pure (match k with
      | .notFound => "ERR:notfound" | .notDir => "ERR:notdir" | .nameTooLong => "ERR:toolong"
      | .other => "ERR:other")
  | .ok (.node id gz enc vary) =>
    pure s!"OK id={id} gz={if gz then 1 else 0} ce={if enc then 1 else 0} vary={if vary then 1 else 0}"

def handle (ctx : DirCtx) (line : String) : DirCtx × String :=
  let toks := (line.trimAscii.toString.splitOn " ").filter (· != "")
  match toks with
  | "SERVE" :: rest => (ctx, (cmdServe rest).getD "BAD-REQUEST")
  | "BODY" :: rest => (ctx, (cmdBody rest).getD "BAD-REQUEST")
  | "GZIPQ" :: rest => (ctx, (cmdGzipQ rest).getD "BAD-REQUEST")
  | "GUNZIP" :: rest => (ctx, (cmdGunzip rest).getD "BAD-REQUEST")
  | "SBUILD" :: rest => (ctx, (cmdSBuild rest).getD "BAD-REQUEST")
  | "CHUNK" :: rest => (ctx, (cmdChunk rest).getD "BAD-REQUEST")
  | "SCHED" :: rest => (ctx, (cmdSched rest).getD "BAD-REQUEST")
  | "ETAG" :: rest => (ctx, (cmdEtag rest).getD "BAD-REQUEST")
  | "FILE" :: rest => (ctx, (cmdFile rest).getD "BAD-REQUEST")
  | "FILENEW" :: rest => (ctx, (cmdFileNew rest).getD "BAD-REQUEST")
  | "TREE" :: rest =>
    match cmdTree rest with
    | some t => ({ ctx with tree := some t }, "TREE-OK")
    | none => (ctx, "BAD-REQUEST")
  | "DIR" :: rest => (ctx, (cmdDir ctx rest).getD "BAD-REQUEST")
  | _ => (ctx, "BAD-REQUEST")

partial def loop (h : IO.FS.Stream) (out : IO.FS.Stream) (ctx : DirCtx) : IO Unit := do
  let line ← h.getLine
  if line.isEmpty then return ()
  let (ctx', reply) := handle ctx line
  out.putStrLn reply
  loop h out ctx'

end Drv

def main : IO Unit := do
  let stdin ← IO.getStdin
  let stdout ← IO.getStdout
  Drv.loop stdin stdout {}
  stdout.flush
