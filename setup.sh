#!/bin/sh
# Build the framework from files on disk only (offline): the Lean development (model, lemmas,
# theorems, the hsmodel driver) and the Rust harness against /repo's current working tree.
set -e
cd "$(dirname "$0")"
export CARGO_NET_OFFLINE=true
(cd lean && lake build HttpServeModel hsmodel)
(cd harness && cp -n /repo/Cargo.lock Cargo.lock 2>/dev/null || true; cargo build --offline)
echo "setup ok"
