//! Cases about the PROCESS the crate runs in rather than about a request: many bodies alive at
//! once, tokio runtime contexts that are entered but idle / current-thread / absent, free-running
//! threads racing the body's getters. Each is a `PRED` record (the model has nothing to say: its
//! bodies do not know what process they are in).

use crate::common::*;
use bytes::Bytes;
use http_body::Body as _;
use std::io::Write as _;
use std::sync::{Arc, Mutex};

type BoxError = Box<dyn std::error::Error + Send + Sync>;
type SBody = http_serve::Body<Bytes, BoxError>;

fn build(gz: bool, cap: usize) -> (std::pin::Pin<Box<SBody>>, http::HeaderMap, http_serve::BodyWriter<Bytes, BoxError>) {
    let mut rb = http::Request::get("/");
    if gz {
        rb = rb.header("accept-encoding", "gzip");
    }
    let req = rb.body(()).unwrap();
    let (resp, w) = http_serve::streaming_body(&req).with_chunk_size(cap).with_gzip_level(6).build::<Bytes, BoxError>();
    let (parts, body) = resp.into_parts();
    (Box::pin(body), parts.headers, w.unwrap())
}

fn drain(body: &mut std::pin::Pin<Box<SBody>>) -> (Vec<u8>, &'static str) {
    let waker = noop_waker();
    let mut cx = std::task::Context::from_waker(&waker);
    let mut out = vec![];
    for _ in 0..1_000_000 {
        match body.as_mut().poll_frame(&mut cx) {
            std::task::Poll::Ready(Some(Ok(f))) => out.extend_from_slice(&f.into_data().map(|d| d.to_vec()).unwrap_or_default()),
            std::task::Poll::Ready(Some(Err(_))) => return (out, "error"),
            std::task::Poll::Ready(None) => return (out, "end"),
            std::task::Poll::Pending => return (out, "pending"),
        }
    }
    (out, "no end")
}

/// C09 / C17: a gzip body negotiated while several hundred other gzip writers are alive in the
/// process is still one gzip member of the bytes written, and says so in its headers.
pub fn many_live_gzip_writers(em: &mut Emit) {
    let r = std::panic::catch_unwind(std::panic::AssertUnwindSafe(|| {
        let mut alive = vec![];
        for i in 0..300 {
            let (b, _, mut w) = build(true, 4096);
            let _ = w.write_all(format!("stream {}\n", i).as_bytes());
            alive.push((b, w));
        }
        let (mut body, headers, mut w) = build(true, 64);
        let payload: Vec<u8> = b"hello hello hello ".iter().cycle().take(5000).copied().collect();
        w.write_all(&payload[..100]).unwrap();
        w.flush().unwrap();
        w.write_all(&payload[100..]).unwrap();
        drop(w);
        let (bytes, end) = drain(&mut body);
        drop(alive);
        (headers.get("content-encoding").map(|v| v.as_bytes().to_vec()), bytes, end, payload)
    }));
    let (ok, why) = match &r {
        Err(_) => (false, "panic".to_string()),
        Ok((ce, bytes, end, payload)) => {
            if ce.as_deref() != Some(b"gzip") {
                (false, "Content-Encoding: gzip missing although gzip was negotiated".to_string())
            } else if *end != "end" {
                (false, format!("body did not end cleanly: {}", end))
            } else if !crate::suites_neg::gunzip_ok(bytes, payload) {
                (false, format!("the body ({} bytes, starts {}) is not one gzip member of the {} bytes written", bytes.len(), hex(&bytes[..bytes.len().min(12)]), payload.len()))
            } else {
                (true, String::new())
            }
        }
    };
    if let Ok((_, bytes, _, payload)) = &r {
        if ok {
            em.note("gz", &format!("1 {} {} 0", hex(bytes), hex(payload)));
        }
    }
    em.pred_only(
        "gzip negotiated while 300 other gzip writers are alive in the process: write, flush, write, drop, drain",
        &pred(ok, || why.clone()),
        "many-live",
    );
}

/// C10: the producer runs on a thread that has ENTERED a tokio runtime nobody is driving (a
/// current-thread runtime's handle, as a blocking helper thread of such a server has): the parked
/// consumer must be woken by the flush / the drop / the abort all the same.
pub fn idle_runtime_producer(em: &mut Emit) {
    for what in ["flush", "drop", "abort"] {
        let rt = tokio::runtime::Builder::new_current_thread().enable_all().build().unwrap();
        let (mut body, _, mut w) = build(false, 8);
        let log = Arc::new(Mutex::new(vec![]));
        let waker = mk_waker(1, &log);
        let mut cx = std::task::Context::from_waker(&waker);
        let first = matches!(body.as_mut().poll_frame(&mut cx), std::task::Poll::Pending);
        let handle = rt.handle().clone();
        let t = std::thread::spawn(move || {
            let _g = handle.enter();
            match what {
                "flush" => {
                    let _ = w.write_all(b"data");
                    let _ = w.flush();
                    std::mem::forget(w);
                }
                "drop" => drop(w),
                _ => {
                    w.abort(Box::new(std::io::Error::other("aborted by harness")));
                    std::mem::forget(w);
                }
            }
        });
        let joined = t.join().is_ok();
        // (the runtime is never driven: a wake-up that was handed to it as a task never happens)
        std::thread::sleep(std::time::Duration::from_millis(20));
        let woken = !log.lock().unwrap().is_empty();
        em.pred_only(
            &format!("consumer parked; the producer thread has entered an idle current-thread tokio runtime and does: {}", what),
            &pred(first && joined && woken, || format!("parked={} producer returned={} consumer woken={}", first, joined, woken)),
            "idle-runtime",
        );
        drop(body);
        drop(rt);
    }
}

/// C10 with a chunk size above 64 KiB: one write that fills the chunk (an automatic flush of more
/// than 64 KiB into an empty queue), or an explicit flush of as much, while the consumer is
/// parked and the writer stays alive: the consumer must be woken.
pub fn large_chunk_wake(em: &mut Emit) {
    for (cap, n, explicit) in [(70_000usize, 70_000usize, false), (200_000, 150_000, true), (65_537, 65_537, false), (65_536, 65_536, false)] {
        let (mut body, _, mut w) = build(false, cap);
        let log = Arc::new(Mutex::new(vec![]));
        let waker = mk_waker(1, &log);
        let mut cx = std::task::Context::from_waker(&waker);
        let parked = matches!(body.as_mut().poll_frame(&mut cx), std::task::Poll::Pending);
        let payload = vec![b'k'; n];
        let _ = w.write_all(&payload);
        if explicit {
            let _ = w.flush();
        }
        let woken = !log.lock().unwrap().is_empty();
        let (got, _) = drain(&mut body);
        em.pred_only(
            &format!("chunk size {}, consumer parked, one write of {} bytes{}; the writer stays alive", cap, n, if explicit { " and a flush" } else { "" }),
            &pred(parked && woken && got.len() == n, || format!("parked={} woken={} bytes available afterwards={}", parked, woken, got.len())),
            "large-chunk-wake",
        );
        drop(w);
    }
}

/// C11: the body is dropped on a thread inside a current-thread tokio runtime (where
/// `block_in_place` panics) with thousands of chunks queued: the writer is still told, nothing panics.
pub fn body_dropped_in_current_thread_runtime(em: &mut Emit) {
    for (chunks, multi) in [(5000usize, false), (10, false), (5000, true)] {
        let rt = if multi {
            tokio::runtime::Builder::new_multi_thread().worker_threads(2).enable_all().build().unwrap()
        } else {
            tokio::runtime::Builder::new_current_thread().enable_all().build().unwrap()
        };
        let r = std::panic::catch_unwind(std::panic::AssertUnwindSafe(|| {
            let (body, _, mut w) = build(false, 1);
            let payload = vec![b'q'; chunks];
            let _ = w.write_all(&payload);
            let _ = w.flush();
            let dropped_ok = rt.block_on(async move {
                tokio::spawn(async move { std::panic::catch_unwind(std::panic::AssertUnwindSafe(move || drop(body))).is_ok() }).await.unwrap_or(false)
            });
            let told = { let _ = w.write_all(b"x"); w.flush().is_err() };
            (dropped_ok, told)
        }));
        let (ok, why) = match r {
            Err(_) => (false, "panic".to_string()),
            Ok((dropped_ok, told)) => (dropped_ok && told, format!("dropping the body panicked: {}; the writer was told afterwards: {}", !dropped_ok, told)),
        };
        em.pred_only(
            &format!("{} one-byte chunks queued, body dropped inside a {} tokio runtime task", chunks, if multi { "multi-thread" } else { "current-thread" }),
            &pred(ok, || why.clone()),
            "drop-in-runtime",
        );
    }
}

/// C12 with free-running threads: the writer is dropped on another thread with one unflushed
/// byte while this thread spins on `is_end_stream()` / `size_hint()`: whenever the body says it is
/// at its end (or that exactly 0 bytes are left), the next poll must not deliver data.
pub fn hint_race(em: &mut Emit, trials: usize) {
    let mut bad: Option<String> = None;
    let (tx, rx) = std::sync::mpsc::channel::<http_serve::BodyWriter<Bytes, BoxError>>();
    let dropper = std::thread::spawn(move || {
        for w in rx {
            drop(w);
        }
    });
    for t in 0..trials {
        heartbeat(|| "hint race trial".into());
        let (mut body, _, mut w) = build(false, 4096);
        let _ = w.write(b"z");
        tx.send(w).unwrap();
        let waker = noop_waker();
        let mut cx = std::task::Context::from_waker(&waker);
        for _ in 0..200_000 {
            let eos = body.is_end_stream();
            let exact0 = body.size_hint().exact() == Some(0);
            if eos || exact0 {
                match body.as_mut().poll_frame(&mut cx) {
                    std::task::Poll::Ready(Some(Ok(f))) if f.data_ref().map_or(false, |d| !d.is_empty()) => {
                        bad = Some(format!("trial {}: is_end_stream()={} size_hint exactly 0={} and the next poll delivered data", t, eos, exact0));
                    }
                    _ => {}
                }
                break;
            }
            // (the hint is `0..` and the flag false until the drop has published the byte)
            if let std::task::Poll::Ready(Some(Ok(_))) = body.as_mut().poll_frame(&mut cx) {
                // got the byte the honest way; wait for the end
            }
            std::hint::spin_loop();
        }
        if bad.is_some() {
            break;
        }
    }
    drop(tx);
    let _ = dropper.join();
    em.pred_only(
        &format!("{} trials: the writer is dropped on another thread with an unflushed byte while this thread spins on is_end_stream()/size_hint()", trials),
        &match bad { None => "ok".to_string(), Some(b) => format!("FAIL:{}", b) },
        "hint-race",
    );
}
