//! C10 and the interleaving half of C11: schedules of the real chunker.

use crate::common::*;
use crate::sched::*;

/// Producer programs: every word of up to `max_len` letters over the alphabet, followed by a
/// drop. With `with_wait` one letter is "flush, then wait until delivered" (two operations).
fn programs(max_len: usize, with_abort: bool, with_wait: bool, cap: usize) -> Vec<Vec<PCmd>> {
    let mut al = vec![
        vec![PCmd::Write(vec![0x61])],
        vec![PCmd::Write((0..cap).map(|i| 0x30 + i as u8).collect())],
        vec![PCmd::Write((0..cap + 1).map(|i| 0x41 + i as u8).collect())],
        vec![PCmd::Flush],
    ];
    if with_abort {
        al.push(vec![PCmd::Abort]);
    }
    if with_wait {
        al.push(vec![PCmd::Flush, PCmd::Wait]);
    }
    let mut out: Vec<Vec<PCmd>> = vec![vec![]];
    let mut frontier: Vec<Vec<PCmd>> = vec![vec![]];
    for _ in 0..max_len {
        let mut next = vec![];
        for p in &frontier {
            for a in &al {
                let mut q = p.clone();
                q.extend(a.iter().cloned());
                next.push(q);
            }
        }
        out.extend(next.clone());
        frontier = next;
    }
    for p in out.iter_mut() {
        p.push(PCmd::Drop);
    }
    out
}

fn class(prog: &Program, r: &RunResult) -> String {
    format!(
        "{:?}:s{}:{}:{}",
        prog.policy,
        prog.spurious,
        r.consumer_saw_terminal.clone().unwrap_or_else(|| "none".into()),
        r.trace.iter().filter(|t| matches!(t, TraceStep::Wake(_))).count().min(3)
    )
}

/// After the first terminal poll result, no later poll may return data (C20).
pub fn pred_c20_sched(_prog: &Program, r: &RunResult) -> String {
    if r.panicked {
        return "FAIL:panic".into();
    }
    let mut seen = false;
    for t in &r.trace {
        if let TraceStep::Poll(_, s) = t {
            if seen && (s.starts_with('D') || s == "PEND") {
                return format!("FAIL:{} after a terminal event", s);
            }
            if s == "END" || s == "ERR" {
                seen = true;
            }
        }
    }
    "ok".into()
}

pub fn run_suite(em: &mut Emit, thorough: bool, _seed: u64, abort: bool, body_drop: bool) {
    run_suite_with(em, thorough, abort, body_drop, false)
}

/// `HS_SHARD=i/k`: this process handles every k-th program starting at i (the orchestrator
/// runs k processes in parallel in the thorough tier).
fn shard() -> (usize, usize) {
    std::env::var("HS_SHARD")
        .ok()
        .and_then(|s| {
            let (a, b) = s.split_once('/')?;
            Some((a.parse().ok()?, b.parse().ok()?))
        })
        .unwrap_or((0, 1))
}

pub fn run_suite_with(em: &mut Emit, thorough: bool, abort: bool, body_drop: bool, c20: bool) {
    install_hook();
    let max_len = if thorough { 4 } else { 3 };
    let per_prog_limit = if thorough { 700 } else { 150 };
    let mut total = 0usize;
    let mut exhausted = 0usize;
    let mut nprog = 0usize;
    let (shard_i, shard_k) = shard();
    let mut counter = 0usize;
    for cap in [2usize] {
        for prod in programs(max_len, abort, !body_drop, cap) {
            if abort && !prod.contains(&PCmd::Abort) && !body_drop {
                continue;
            }
            for policy in [WakerPolicy::Same, WakerPolicy::Fresh, WakerPolicy::Alternate] {
                for spurious in [0usize, 2] {
                    let drops: Vec<Option<usize>> = if body_drop {
                        vec![Some(0), Some(1), Some(2)]
                    } else {
                        vec![None]
                    };
                    for drop_body_after in drops {
                        if body_drop && (policy != WakerPolicy::Same || spurious != 0) {
                            continue;
                        }
                        let prog = Program {
                            cap,
                            prod: prod.clone(),
                            policy,
                            extra_polls: if c20 { 3 } else { 1 },
                            spurious,
                            drop_body_after,
                            gz_level: 0,
                        };
                        counter += 1;
                        if counter % shard_k != shard_i {
                            continue;
                        }
                        nprog += 1;
                        let (n, ex) = explore(&prog, per_prog_limit, |r| {
                            let p = if c20 { pred_c20_sched(&prog, r) } else if body_drop { pred_c11_sched(&prog, r) } else { pred_c10(&prog, r) };
                            em.case(&sched_line(&prog, r), &sched_out(r), &p, &class(&prog, r));
                        });
                        total += n;
                        if ex {
                            exhausted += 1;
                        }
                    }
                }
            }
        }
    }
    em.note("sched", &format!("programs={} schedules={} programs_exhausted={}", nprog, total, exhausted));
}

/// After the body is dropped: every flush fails, and once an operation failed all fail.
pub fn pred_c11_sched(prog: &Program, r: &RunResult) -> String {
    if r.panicked {
        return "FAIL:panic".into();
    }
    // position of the body drop among the producer's critical sections is not directly
    // observable per command; check the monotone part: after the first error every write/flush
    // fails, and a flush that *started* after the drop fails.
    let mut dead = false;
    for (cmd, res) in prog.prod.iter().zip(r.results.iter()) {
        let fallible = matches!(cmd, PCmd::Write(_) | PCmd::Flush);
        if dead && fallible && res != "err" {
            return format!("FAIL:{:?} succeeded after an earlier failure", cmd);
        }
        if res == "err" {
            dead = true;
        }
    }
    // trace order: once `x` (body drop) is in the trace, a later producer critical section of a
    // flush command must not return ok. Commands completing after the drop are those whose
    // result index >= number of results completed before the drop; approximated by requiring
    // that the *last* flush of the program fails if the drop happened before its critical
    // section. The exact per-step agreement is what the model comparison checks.
    let drop_pos = r.trace.iter().position(|t| *t == TraceStep::DropBody);
    if let Some(dp) = drop_pos {
        let cs_after = r.trace[dp..].iter().filter(|t| **t == TraceStep::Prod).count();
        let total_cs = r.trace.iter().filter(|t| **t == TraceStep::Prod).count();
        if cs_after == total_cs && total_cs > 0 {
            // the body was dropped before the producer touched the shared state at all
            for (cmd, res) in prog.prod.iter().zip(r.results.iter()) {
                if *cmd == PCmd::Flush && res != "err" {
                    return "FAIL:flush succeeded although the body was dropped before it started".into();
                }
            }
        }
    }
    "ok".into()
}

/// C10 for gzip writers: the encoder's traffic through the chunk writer under all schedules
/// (bounded per program), compared with the raw-writer model run on the chunker-level writes.
/// C08 under thread interleavings ("any interleaving of consumer polls" taken at its widest): a
/// small slice of the C10 exploration — every producer program of up to two operations plus the
/// drop, same / fresh wakers, up to one spurious poll — judged on C08's clauses: a clean end
/// after exactly the accepted bytes, and the end is reached.
pub fn run_small_for_c08(em: &mut Emit, thorough: bool) {
    install_hook();
    let limit = if thorough { 400 } else { 60 };
    let mut total = 0usize;
    for cap in [2usize] {
        for prod in programs(2, false, true, cap) {
            for policy in [WakerPolicy::Same, WakerPolicy::Fresh] {
                for spurious in [0usize, 1] {
                    let prog = Program { cap, prod: prod.clone(), policy, extra_polls: 1, spurious, drop_body_after: None, gz_level: 0 };
                    let (n, _) = explore(&prog, limit, |r| {
                        em.case(&sched_line(&prog, r), &sched_out(r), &pred_c10(&prog, r), &format!("sched:{}", class(&prog, r)));
                    });
                    total += n;
                }
            }
        }
    }
    em.note("sched", &format!("schedules={}", total));
}

/// C09 under thread interleavings: a slice of the gzip exploration below.
pub fn run_small_for_c09(em: &mut Emit, thorough: bool) {
    run_gz_suite_with(em, if thorough { 400 } else { 40 }, &[3usize, 4096], &[1u32, 9]);
}

pub fn run_gz_suite(em: &mut Emit, thorough: bool) {
    run_gz_suite_with(em, if thorough { 3000 } else { 120 }, &[3usize, 7, 4096], &[1u32, 6, 9]);
}

fn run_gz_suite_with(em: &mut Emit, per_prog_limit: usize, caps: &[usize], levels: &[u32]) {
    install_hook();
    let (shard_i, shard_k) = shard();
    let payloads: [&[u8]; 3] = [b"", b"hello", b"aaaaaaaaaaaaaaaaaaaaaaaaaaaaaaaaaaaaaaaaaaaaaaaaaaaaaaaaaaaaaa"];
    let mut counter = 0usize;
    let mut total = 0usize;
    for &cap in caps {
        for &level in levels {
            for p1 in payloads {
                for shape in 0..3 {
                    counter += 1;
                    if counter % shard_k != shard_i {
                        continue;
                    }
                    let prod = match shape {
                        0 => vec![PCmd::Write(p1.to_vec()), PCmd::Drop],
                        1 => vec![PCmd::Write(p1.to_vec()), PCmd::Flush, PCmd::Drop],
                        _ => vec![PCmd::Flush, PCmd::Write(p1.to_vec()), PCmd::Flush, PCmd::Write(b"x".to_vec()), PCmd::Drop],
                    };
                    let prog = Program {
                        cap,
                        prod,
                        policy: if shape == 1 { WakerPolicy::Fresh } else { WakerPolicy::Same },
                        extra_polls: 1,
                        spurious: if shape == 2 { 1 } else { 0 },
                        drop_body_after: None,
                        gz_level: level,
                    };
                    let (n, _) = explore(&prog, per_prog_limit, |r| {
                        let p = pred_c10(&prog, r);
                        // the bytes received must be one gzip member decoding to what was written
                        let p = if p == "ok"
                            && r.consumer_saw_terminal.as_deref() == Some("END")
                            && !crate::suites_neg::gunzip_ok(&r.delivered, &r.accepted)
                        {
                            "FAIL:delivered bytes do not gunzip to the bytes written".to_string()
                        } else {
                            p
                        };
                        em.case(&sched_line(&prog, r), &sched_out_gz(r), &p, &format!("gz:cap{}:{}", cap.min(8), class(&prog, r)));
                    });
                    total += n;
                }
            }
        }
    }
    em.note("sched-gz", &format!("schedules={}", total));
}

// ---------------------------------------------------------------------------------------
// Free-running threads (no controlled scheduler): the interleavings the scheduler cannot produce
// are those in which one thread runs while the other is INSIDE a critical section; code that
// bypasses the lock (try_lock, an atomic fast path) only misbehaves there.

struct ParkWaker(std::thread::Thread);

impl std::task::Wake for ParkWaker {
    fn wake(self: std::sync::Arc<Self>) {
        self.0.unpark();
    }
}

/// One trial: a producer thread runs `prog` (writes of 1-3 bytes, flushes, then a drop or an
/// abort) on a body with a tiny chunk size while this thread consumes it, parking on `Pending` with
/// a waker that unparks it. Every poll presents a fresh waker. The consumer must observe the end (or
/// the error) within 5 s of the producer having finished, and on a clean end must have received
/// exactly what was accepted.
fn free_running_trial(t: usize, gz: bool) -> Result<(), String> {
    use bytes::Bytes;
    use http_body::Body as _;
    use std::io::Write as _;
    choose_drop_mode();
    let mut rb = http::Request::get("/");
    if gz {
        rb = rb.header("accept-encoding", "gzip");
    }
    let req = rb.body(()).unwrap();
    let (resp, w) = http_serve::streaming_body(&req).with_chunk_size(1 + t % 3).with_gzip_level(1).build::<Bytes, BoxError>();
    let mut w = w.unwrap();
    let abort = t % 5 == 4;
    let nops = 3 + t % 17;
    let done = std::sync::Arc::new(std::sync::atomic::AtomicBool::new(false));
    let d2 = done.clone();
    let producer = std::thread::spawn(move || -> Vec<u8> {
        let mut accepted = vec![];
        let mut x = t as u8;
        for i in 0..nops {
            x = x.wrapping_mul(31).wrapping_add(11);
            let bs = [x, x ^ 0x5a, x.wrapping_add(1)];
            let bs = &bs[..1 + (i + t) % 3];
            if w.write_all(bs).is_ok() {
                accepted.extend_from_slice(bs);
            }
            if (i + t) % 2 == 0 {
                let _ = w.flush();
            }
            if (i * 7 + t) % 5 == 0 {
                std::thread::yield_now();
            }
        }
        if abort {
            w.abort(Box::new(std::io::Error::other("aborted by harness")));
        }
        drop_in_mode(w);
        d2.store(true, std::sync::atomic::Ordering::SeqCst);
        accepted
    });
    let mut body = Box::pin(resp.into_body());
    let mut delivered = vec![];
    let mut terminal: Option<&'static str> = None;
    let mut waited_after_done = 0;
    while terminal.is_none() {
        let waker = std::task::Waker::from(std::sync::Arc::new(ParkWaker(std::thread::current())));
        let mut cx = std::task::Context::from_waker(&waker);
        match body.as_mut().poll_frame(&mut cx) {
            std::task::Poll::Ready(Some(Ok(f))) => delivered.extend_from_slice(&f.into_data().unwrap()),
            std::task::Poll::Ready(Some(Err(_))) => terminal = Some("ERR"),
            std::task::Poll::Ready(None) => terminal = Some("END"),
            std::task::Poll::Pending => {
                let was_done = done.load(std::sync::atomic::Ordering::SeqCst);
                std::thread::park_timeout(std::time::Duration::from_millis(if was_done { 1000 } else { 50 }));
                if was_done {
                    waited_after_done += 1;
                    if waited_after_done > 5 {
                        let _ = producer.join();
                        return Err(format!("trial {} (gzip={}, abort={}): the producer finished, the consumer is parked and nobody wakes it", t, gz, abort));
                    }
                }
            }
        }
    }
    let accepted = producer.join().map_err(|_| format!("trial {}: producer panicked", t))?;
    match (terminal, abort) {
        (Some("END"), false) => {
            let got = if gz {
                let mut d = flate2::read::GzDecoder::new(&delivered[..]);
                let mut out = vec![];
                use std::io::Read as _;
                d.read_to_end(&mut out).map_err(|e| format!("trial {}: gzip body does not decode: {}", t, e))?;
                out
            } else {
                delivered
            };
            if got != accepted {
                return Err(format!("trial {} (gzip={}): clean end after {} bytes, {} were accepted", t, gz, got.len(), accepted.len()));
            }
            Ok(())
        }
        (Some("END"), true) => Err(format!("trial {}: clean end although the producer aborted", t)),
        (Some("ERR"), false) => Err(format!("trial {}: error without an abort", t)),
        _ => Ok(()),
    }
}

pub fn free_running(em: &mut Emit, thorough: bool) {
    let (shard_i, _) = shard();
    if shard_i != 0 {
        return;
    }
    let trials = if thorough { 4000 } else { 400 };
    for gz in [false, true] {
        let mut res = Ok(());
        for t in 0..trials {
            res = free_running_trial(t, gz);
            if res.is_err() {
                break;
            }
        }
        em.pred_only(
            &format!("{} trials with free-running producer and consumer threads (gzip={})", trials, gz),
            &match res { Ok(()) => "ok".to_string(), Err(e) => format!("FAIL:{}", e) },
            "free-running",
        );
    }
}

/// A consumer whose waker polls the body INLINE, on whatever thread calls `wake()` (some executors
/// do). The producer's flush / drop must return all the same: it must not call `wake()` while it
/// holds the chunker's lock, or the inline poll re-enters that lock on the same thread.
struct InlineWaker {
    body: std::sync::Arc<std::sync::Mutex<std::pin::Pin<Box<SBody>>>>,
    got: std::sync::Arc<std::sync::Mutex<Vec<String>>>,
}

impl std::task::Wake for InlineWaker {
    fn wake(self: std::sync::Arc<Self>) {
        inline_poll(&self.body, &self.got);
    }
}

fn inline_poll(body: &std::sync::Arc<std::sync::Mutex<std::pin::Pin<Box<SBody>>>>, got: &std::sync::Arc<std::sync::Mutex<Vec<String>>>) {
    use http_body::Body as _;
    let waker = std::task::Waker::from(std::sync::Arc::new(InlineWaker { body: body.clone(), got: got.clone() }));
    let mut cx = std::task::Context::from_waker(&waker);
    let mut b = body.lock().unwrap();
    loop {
        match b.as_mut().poll_frame(&mut cx) {
            std::task::Poll::Ready(Some(Ok(f))) => got.lock().unwrap().push(format!("D{}", hex(&f.into_data().unwrap()))),
            std::task::Poll::Ready(Some(Err(_))) => {
                got.lock().unwrap().push("ERR".into());
                break;
            }
            std::task::Poll::Ready(None) => {
                got.lock().unwrap().push("END".into());
                break;
            }
            std::task::Poll::Pending => break,
        }
    }
}

pub fn inline_waker(em: &mut Emit) {
    use bytes::Bytes;
    use std::io::Write as _;
    let (shard_i, _) = shard();
    if shard_i != 0 {
        return;
    }
    for (gz, abort, unwinding) in [(false, false, false), (true, false, false), (false, true, false), (false, false, true), (true, false, true)] {
        UNWIND_DROPS.store(unwinding, std::sync::atomic::Ordering::SeqCst);
        let mut rb = http::Request::get("/");
        if gz {
            rb = rb.header("accept-encoding", "gzip");
        }
        let req = rb.body(()).unwrap();
        let (resp, w) = http_serve::streaming_body(&req).with_chunk_size(16).with_gzip_level(6).build::<Bytes, BoxError>();
        let mut w = w.unwrap();
        let body = std::sync::Arc::new(std::sync::Mutex::new(Box::pin(resp.into_body())));
        let got: std::sync::Arc<std::sync::Mutex<Vec<String>>> = Default::default();
        inline_poll(&body, &got); // parks: Pending, inline waker registered
        let (tx, rx) = std::sync::mpsc::channel();
        std::thread::spawn(move || {
            let _ = w.write_all(b"hello");
            let _ = w.flush();
            let _ = w.write_all(b"0123456789abcdefXYZ");
            if abort {
                w.abort(Box::new(std::io::Error::other("aborted by harness")));
            }
            drop_in_mode(w);
            let _ = tx.send(());
        });
        let returned = rx.recv_timeout(std::time::Duration::from_secs(10)).is_ok();
        let seen = got.lock().map(|g| g.clone()).unwrap_or_default();
        let terminal = seen.last().map(|s| s.as_str());
        let ok = returned && ((abort && terminal == Some("ERR")) || (!abort && terminal == Some("END")));
        em.pred_only(
            &format!("consumer whose waker polls the body inline on the waking thread (gzip={}, abort={})", gz, abort),
            &pred(ok, || {
                if !returned {
                    "the producer's write/flush/drop did not return within 10 s: wake() is called while the lock is held and the inline poll deadlocks on it".to_string()
                } else {
                    format!("consumer saw {:?}", seen)
                }
            }),
            "inline-waker",
        );
    }
}
