//! Controlled scheduler for the real chunker (C10, C11): producer and consumer run on two OS
//! threads; the instrumented mutex (`verif-hooks`) and the harness wakers make every lock
//! acquisition and every `wake()` a block point at which the thread waits for the scheduler.
//! Block points: before an acquisition (`Acquire`; enabled only while nobody holds the lock, which
//! the scheduler tracks), right after one (`Held`: the thread is INSIDE its critical section; the
//! other thread may run meanwhile — it can do nothing to the shared state there unless it
//! bypasses the lock, which is what this point is for), before a `try_lock` (`TryAcquire`),
//! before a `wake()`, and before each poll of the consumer (`PollStart`, where the parking rules
//! apply).

use crate::common::*;
use bytes::Bytes;
use http_body::Body as _;
use std::cell::Cell;
use std::io::Write as _;
use std::sync::{Arc, Condvar, Mutex, OnceLock};
use std::task::{Context, Poll};

#[derive(Clone, Copy, Debug, PartialEq, Eq)]
enum At {
    Running,
    Acquire,
    /// inside a critical section, just after acquiring the lock
    Held,
    /// about to `try_lock`
    TryAcquire,
    /// (consumer) about to poll the body
    PollStart,
    Wake(u64),
    /// the producer waits until this many bytes have been delivered to the consumer
    Wait(usize),
    Finished,
}

struct CtlState {
    at: [At; 2],
    grant: [bool; 2],
    /// which thread holds the chunker's lock (from `Acquired` to `Release`)
    holder: Option<usize>,
}

struct Ctl {
    st: Mutex<CtlState>,
    cv: Condvar,
}

static CTL: OnceLock<Ctl> = OnceLock::new();

fn ctl() -> &'static Ctl {
    CTL.get_or_init(|| Ctl {
        st: Mutex::new(CtlState {
            at: [At::Finished; 2],
            grant: [false; 2],
            holder: None,
        }),
        cv: Condvar::new(),
    })
}

thread_local! {
    static TID: Cell<Option<usize>> = const { Cell::new(None) };
}

fn block(kind: At) {
    let Some(tid) = TID.with(|t| t.get()) else {
        return;
    };
    let c = ctl();
    let mut st = c.st.lock().unwrap();
    if kind == At::Held {
        st.holder = Some(tid);
    }
    st.at[tid] = kind;
    c.cv.notify_all();
    while !st.grant[tid] {
        st = c.cv.wait(st).unwrap();
    }
    st.grant[tid] = false;
    st.at[tid] = At::Running;
}

fn finish_thread() {
    let Some(tid) = TID.with(|t| t.get()) else {
        return;
    };
    let c = ctl();
    let mut st = c.st.lock().unwrap();
    st.at[tid] = At::Finished;
    c.cv.notify_all();
}

/// Called by every harness waker before it records a wake.
pub fn on_wake(id: u64) {
    block(At::Wake(id));
}

/// Installs the mutex callback (once per process).
pub fn install_hook() {
    use http_serve::verif_hooks::Event;
    http_serve::verif_hooks::set_callback(Some(Arc::new(|ev| match ev {
        Event::Acquire => block(At::Acquire),
        Event::TryAcquire => block(At::TryAcquire),
        Event::Acquired => block(At::Held),
        Event::Release => {
            if let Some(tid) = TID.with(|t| t.get()) {
                let c = ctl();
                let mut st = c.st.lock().unwrap();
                if st.holder == Some(tid) {
                    st.holder = None;
                }
            }
        }
    })));
}

#[derive(Clone, Debug, PartialEq, Eq)]
pub enum PCmd {
    Write(Vec<u8>),
    Flush,
    Abort,
    Drop,
    /// wait until everything accepted before the last successful flush has been delivered to
    /// the consumer (no critical section of its own; a no-op after an abort)
    Wait,
}

#[derive(Clone, Copy, Debug, PartialEq, Eq)]
pub enum WakerPolicy {
    Same,
    Fresh,
    Alternate,
}

#[derive(Clone, Debug)]
pub struct Program {
    pub cap: usize,
    pub prod: Vec<PCmd>,
    pub policy: WakerPolicy,
    /// polls after the first terminal event
    pub extra_polls: usize,
    /// spurious re-polls allowed while parked
    pub spurious: usize,
    /// drop the body after this many polls (None = never)
    pub drop_body_after: Option<usize>,
    /// 0 = raw writer; 1..9 = gzip writer at that level (`Write` then means `write_all`)
    pub gz_level: u32,
}

#[derive(Clone, Debug, PartialEq, Eq)]
pub enum TraceStep {
    Prod,
    Wake(u64),
    Poll(u64, String),
    DropBody,
}

#[derive(Clone, Debug)]
pub struct RunResult {
    pub trace: Vec<TraceStep>,
    pub results: Vec<String>,
    /// for every decision point: (choice taken, number of options)
    pub decisions: Vec<(usize, usize)>,
    pub producer_finished: bool,
    pub consumer_saw_terminal: Option<String>,
    pub consumer_parked_forever: bool,
    pub delivered: Vec<u8>,
    pub accepted: Vec<u8>,
    pub polls_after_writer_gone: usize,
    pub data_after_writer_gone: usize,
    pub panicked: bool,
    /// the producer waited for the delivery of flushed bytes while the consumer was parked with
    /// no wake outstanding and no spurious poll left
    pub wait_deadlock: bool,
}

struct Shared {
    stop: std::sync::atomic::AtomicBool,
    results: Mutex<Vec<String>>,
    accepted: Mutex<Vec<u8>>,
    polls: Mutex<Vec<(u64, String, Vec<u8>)>>,
    panicked: Mutex<bool>,
}

/// Runs `prog` once under the schedule `prefix` (thread choices at decision points; after the
/// prefix the first enabled thread is taken).
pub fn run_schedule(prog: &Program, prefix: &[usize]) -> RunResult {
    choose_drop_mode();
    heartbeat(|| {
        format!(
            "scheduled run, chunk size {}, gzip level {}, producer {:?}, consumer wakers {:?} with {} spurious polls, schedule choices {:?}: did not finish",
            prog.cap, prog.gz_level, prog.prod, prog.policy, prog.spurious, prefix
        )
    });
    let c = ctl();
    {
        let mut st = c.st.lock().unwrap();
        st.at = [At::Running; 2];
        st.grant = [false; 2];
        st.holder = None;
    }
    let mut rb = http::Request::get("/");
    if prog.gz_level > 0 {
        rb = rb.header("accept-encoding", "gzip");
    }
    let req = rb.body(()).unwrap();
    let (resp, w) = http_serve::streaming_body(&req)
        .with_chunk_size(prog.cap)
        .with_gzip_level(prog.gz_level.max(1))
        .build::<Bytes, BoxError>();
    let gz = prog.gz_level > 0;
    let mut w = w.unwrap();
    let body = resp.into_body();
    let shared = Arc::new(Shared {
        stop: Default::default(),
        results: Default::default(),
        accepted: Default::default(),
        polls: Default::default(),
        panicked: Mutex::new(false),
    });
    let wake_log: Arc<Mutex<Vec<u64>>> = Default::default();

    // producer
    let sh = shared.clone();
    let cmds = prog.prod.clone();
    let producer = std::thread::spawn(move || {
        TID.with(|t| t.set(Some(0)));
        let r = std::panic::catch_unwind(std::panic::AssertUnwindSafe(|| {
            let mut w_opt = Some(&mut w);
            let mut dropped = false;
            let mut flushed = 0usize;
            for cmd in &cmds {
                if dropped {
                    break;
                }
                let w = w_opt.as_mut().unwrap();
                let res = match cmd {
                    PCmd::Write(bs) if gz => match w.write_all(bs) {
                        Ok(()) => {
                            sh.accepted.lock().unwrap().extend_from_slice(bs);
                            "ok".into()
                        }
                        Err(_) => "err".into(),
                    },
                    PCmd::Write(bs) => match w.write(bs) {
                        Ok(n) => {
                            sh.accepted.lock().unwrap().extend_from_slice(&bs[..n]);
                            format!("w{}", n)
                        }
                        Err(_) => "err".into(),
                    },
                    PCmd::Flush => match w.flush() {
                        Ok(()) => {
                            flushed = sh.accepted.lock().unwrap().len();
                            "ok".into()
                        }
                        Err(_) => "err".into(),
                    },
                    PCmd::Abort => {
                        w.abort(Box::new(std::io::Error::other("aborted by harness")));
                        flushed = 0;
                        "u".into()
                    }
                    PCmd::Wait => {
                        block(At::Wait(flushed));
                        continue;
                    }
                    PCmd::Drop => {
                        dropped = true;
                        "u".to_string()
                    }
                };
                if dropped {
                    break;
                }
                sh.results.lock().unwrap().push(res);
            }
            dropped
        }));
        match r {
            Ok(true) => {
                // the drop itself: block points inside
                if drop_in_mode(w) {
                    *sh.panicked.lock().unwrap() = true;
                } else {
                    sh.results.lock().unwrap().push("u".into());
                }
            }
            Ok(false) => {
                // program without a drop: keep the writer alive until the run is over
                std::mem::forget(w);
            }
            Err(_) => {
                *sh.panicked.lock().unwrap() = true;
                std::mem::forget(w);
            }
        }
        finish_thread();
    });

    // consumer
    let sh = shared.clone();
    let policy = prog.policy;
    let extra = prog.extra_polls;
    let drop_after = prog.drop_body_after;
    let wl = wake_log.clone();
    let consumer = std::thread::spawn(move || {
        TID.with(|t| t.set(Some(1)));
        let r = std::panic::catch_unwind(std::panic::AssertUnwindSafe(|| {
            let mut body = Box::pin(body);
            let mut n_polls = 0usize;
            let mut after_terminal = 0usize;
            let mut terminal = false;
            let mut wakers: std::collections::HashMap<u64, std::task::Waker> = Default::default();
            loop {
                if Some(n_polls) == drop_after {
                    if drop_in_mode(body) {
                        panic!("dropping the body panicked");
                    }
                    sh.polls.lock().unwrap().push((0, "X".into(), vec![]));
                    return;
                }
                if (terminal && after_terminal >= extra)
                    || sh.stop.load(std::sync::atomic::Ordering::SeqCst)
                {
                    break;
                }
                let id = match policy {
                    WakerPolicy::Same => 1,
                    WakerPolicy::Fresh => 1 + n_polls as u64,
                    WakerPolicy::Alternate => 1 + (n_polls as u64 % 2),
                };
                let waker = wakers.entry(id).or_insert_with(|| mk_waker(id, &wl)).clone();
                let mut cx = Context::from_waker(&waker);
                block(At::PollStart);
                let (s, d) = match body.as_mut().poll_frame(&mut cx) {
                    Poll::Ready(Some(Ok(f))) => {
                        let d = f.into_data().unwrap().to_vec();
                        (format!("D{}", hex(&d)), d)
                    }
                    Poll::Ready(Some(Err(_))) => ("ERR".to_string(), vec![]),
                    Poll::Ready(None) => ("END".to_string(), vec![]),
                    Poll::Pending => ("PEND".to_string(), vec![]),
                };
                n_polls += 1;
                if terminal {
                    after_terminal += 1;
                }
                if s == "ERR" || s == "END" {
                    terminal = true;
                }
                sh.polls.lock().unwrap().push((id, s, d));
            }
            // dropping the body takes the lock once more (Drop for Reader)
            if drop_in_mode(body) {
                panic!("dropping the body panicked");
            }
            sh.polls.lock().unwrap().push((0, "X".into(), vec![]));
        }));
        if r.is_err() {
            *sh.panicked.lock().unwrap() = true;
        }
        finish_thread();
    });

    // scheduler
    let mut trace = vec![];
    let mut decisions = vec![];
    let mut parked: Option<u64> = None; // waker id of the last Pending poll
    let mut woken = false;
    let mut spurious_left = prog.spurious;
    let mut polls_seen = 0usize;
    let mut producer_done_at_poll: Option<usize> = None;
    let mut consumer_terminal: Option<String> = None;
    let mut parked_forever = false;
    let mut wait_deadlock = false;
    let mut step_no = 0usize;
    // a thread that must run next without this being a scheduling decision (the consumer from
    // `PollStart` to its first lock operation: nothing it does in between is visible)
    let mut forced: Option<usize> = None;
    // wake() calls delivered since the consumer's current poll started
    let mut wakes_since_pollstart: Vec<u64> = vec![];
    loop {
        // wait until both threads are blocked or finished
        let (at, holder) = {
            let mut st = c.st.lock().unwrap();
            while st.at.iter().any(|a| *a == At::Running) || st.grant.iter().any(|g| *g) {
                st = c.cv.wait(st).unwrap();
            }
            (st.at, st.holder)
        };
        if at[0] == At::Finished && producer_done_at_poll.is_none() {
            producer_done_at_poll = Some(polls_seen);
        }
        let delivered_now: usize =
            shared.polls.lock().unwrap().iter().map(|(_, _, d)| d.len()).sum();
        // a blocking acquisition can only proceed while nobody holds the lock
        let p_enabled = match at[0] {
            At::Acquire => holder.is_none(),
            At::Held | At::TryAcquire | At::Wake(_) => true,
            At::Wait(target) => wait_deadlock || delivered_now >= target,
            _ => false,
        };
        // the consumer only STARTS a poll when it is not parked, was woken, or polls spuriously
        let poll_gate = parked.is_none() || woken || spurious_left > 0 || consumer_terminal.is_some();
        let c_blocked = at[1] == At::PollStart && !poll_gate;
        let c_enabled = match at[1] {
            At::PollStart => poll_gate,
            At::Acquire => holder.is_none(),
            At::Held | At::TryAcquire => true,
            _ => false,
        };
        let mut options = vec![];
        if p_enabled {
            options.push(0usize);
        }
        if c_enabled {
            options.push(1usize);
        }
        if let Some(f) = forced.take() {
            if options.contains(&f) {
                options = vec![f];
            }
        }
        if options.is_empty() {
            if c_blocked && matches!(at[0], At::Wait(_)) {
                // flushed bytes are queued, the consumer sleeps and nothing will wake it
                wait_deadlock = true;
                continue;
            }
            if c_blocked && at[0] == At::Finished {
                // consumer parked, nobody will ever wake it
                parked_forever = true;
                shared.stop.store(true, std::sync::atomic::Ordering::SeqCst);
                // let it poll once more (beyond its budget) so that the threads can be joined
                spurious_left += 1;
                continue;
            }
            break;
        }
        let choice = if step_no < prefix.len() {
            prefix[step_no].min(options.len() - 1)
        } else {
            0
        };
        if options.len() > 1 {
            decisions.push((choice, options.len()));
            step_no += 1;
        }
        let tid = options[choice];
        let at_before = at[tid];
        if tid == 1 && at_before == At::PollStart {
            if parked.is_some() && !woken && consumer_terminal.is_none() {
                spurious_left -= 1;
            }
            wakes_since_pollstart.clear();
            forced = Some(1);
        }
        {
            let mut st = c.st.lock().unwrap();
            st.grant[tid] = true;
            c.cv.notify_all();
            while st.grant[tid] || st.at[tid] == At::Running {
                st = c.cv.wait(st).unwrap();
            }
        }
        let at_after = c.st.lock().unwrap().at[tid];
        match (tid, at_before) {
            // a producer critical section begins when the lock has been obtained
            (0, At::Acquire) | (0, At::TryAcquire) => {
                if at_after == At::Held {
                    trace.push(TraceStep::Prod);
                }
            }
            (0, At::Wake(id)) => {
                trace.push(TraceStep::Wake(id));
                wakes_since_pollstart.push(id);
                if parked == Some(id) {
                    woken = true;
                }
            }
            (0, _) => {}
            (1, _) => {
                let polls = shared.polls.lock().unwrap();
                if polls.len() > polls_seen {
                    let (id, s, _) = polls[polls_seen].clone();
                    polls_seen += 1;
                    if s == "X" {
                        trace.push(TraceStep::DropBody);
                    } else {
                        if s == "PEND" {
                            // (a wake() of this very waker that arrived while the poll was in
                            // progress counts: an executor polls such a task again)
                            parked = Some(id);
                            woken = wakes_since_pollstart.contains(&id);
                        } else {
                            parked = None;
                            woken = false;
                        }
                        if (s == "END" || s == "ERR") && consumer_terminal.is_none() {
                            consumer_terminal = Some(s.clone());
                        }
                        trace.push(TraceStep::Poll(id, s));
                    }
                }
            }
            _ => {}
        }
    }
    producer.join().unwrap();
    consumer.join().unwrap();
    TID.with(|t| t.set(None));
    let polls = shared.polls.lock().unwrap().clone();
    let mut delivered = vec![];
    for (_, _, d) in &polls {
        delivered.extend_from_slice(d);
    }
    let pd = producer_done_at_poll.unwrap_or(polls.len());
    let mut polls_after = 0;
    let mut data_after = 0;
    for (_, s, _) in polls.iter().skip(pd) {
        if s == "X" {
            break;
        }
        polls_after += 1;
        if s.starts_with('D') {
            data_after += 1;
        }
        if s == "END" || s == "ERR" {
            break;
        }
    }
    let results = shared.results.lock().unwrap().clone();
    let accepted = shared.accepted.lock().unwrap().clone();
    let panicked = *shared.panicked.lock().unwrap();
    RunResult {
        trace,
        results,
        decisions,
        producer_finished: true,
        consumer_saw_terminal: consumer_terminal.filter(|s| s != "FORCED"),
        consumer_parked_forever: parked_forever,
        delivered,
        accepted,
        polls_after_writer_gone: polls_after,
        data_after_writer_gone: data_after,
        panicked,
        wait_deadlock,
    }
}

/// For a gzip producer: the raw chunker operations its encoder performs, obtained from a
/// reference encoder run on the same commands. Each `write_all` of the pushed bytes is cut at
/// chunk boundaries (every piece is accepted whole), so the sequence of critical sections is
/// the real one (DESIGN section 0, C10).
fn gz_model_prog(prog: &Program) -> Vec<PCmd> {
    let mut enc = flate2::GzBuilder::new().write(vec![], flate2::Compression::new(prog.gz_level));
    let mut out = vec![];
    let mut fill = 0usize;
    let mut push = |bytes: &[u8], out: &mut Vec<PCmd>, fill: &mut usize| {
        let mut rest = bytes;
        while !rest.is_empty() {
            let n = (prog.cap - *fill).min(rest.len());
            out.push(PCmd::Write(rest[..n].to_vec()));
            *fill = (*fill + n) % prog.cap;
            rest = &rest[n..];
        }
    };
    for cmd in &prog.prod {
        let before = enc.get_ref().len();
        match cmd {
            PCmd::Write(bs) => {
                enc.write_all(bs).unwrap();
                let p = enc.get_ref()[before..].to_vec();
                push(&p, &mut out, &mut fill);
            }
            PCmd::Flush => {
                enc.flush().unwrap();
                let p = enc.get_ref()[before..].to_vec();
                push(&p, &mut out, &mut fill);
                out.push(PCmd::Flush);
                fill = 0;
            }
            PCmd::Drop => {
                enc.try_finish().unwrap();
                let p = enc.get_ref()[before..].to_vec();
                push(&p, &mut out, &mut fill);
                out.push(PCmd::Drop);
            }
            PCmd::Abort => out.push(PCmd::Abort),
            PCmd::Wait => {}
        }
    }
    out
}

pub fn sched_line(prog: &Program, r: &RunResult) -> String {
    // `Wait` has no critical section: the model program is the program without it
    let model_prog: Vec<PCmd> = if prog.gz_level > 0 { gz_model_prog(prog) } else { prog.prod.clone() }
        .into_iter()
        .filter(|c| *c != PCmd::Wait)
        .collect();
    let prog_s = model_prog
        .iter()
        .map(|c| match c {
            PCmd::Write(b) => format!("W{}", hex(b)),
            PCmd::Flush => "F".into(),
            PCmd::Abort => "A".into(),
            PCmd::Drop => "D".into(),
            PCmd::Wait => unreachable!(),
        })
        .collect::<Vec<_>>()
        .join(";");
    let sched = r
        .trace
        .iter()
        .map(|s| match s {
            TraceStep::Prod => "p".to_string(),
            TraceStep::Wake(_) => "w".to_string(),
            TraceStep::Poll(id, _) => format!("c{}", id),
            TraceStep::DropBody => "x".to_string(),
        })
        .collect::<Vec<_>>()
        .join(",");
    format!(
        "SCHED cap={} prog={} sched={}{}",
        prog.cap,
        prog_s,
        sched,
        if prog.gz_level > 0 { " gz=1" } else { "" }
    )
}

pub fn sched_out(r: &RunResult) -> String {
    let obs = r
        .trace
        .iter()
        .map(|s| match s {
            TraceStep::Prod => "p".to_string(),
            TraceStep::Wake(id) => format!("w:{}", id),
            TraceStep::Poll(_, s) => format!("c:{}", s),
            TraceStep::DropBody => "x".to_string(),
        })
        .collect::<Vec<_>>()
        .join(" ");
    format!("{} results={} stage=done", obs, r.results.join(","))
}

/// For gzip producers the command results are per `BodyWriter` call, not per chunker write:
/// only the shared-state trace is compared.
pub fn sched_out_gz(r: &RunResult) -> String {
    let s = sched_out(r);
    let cut = s.find(" results=").unwrap_or(s.len());
    format!("{} results=* stage=done", &s[..cut])
}

/// The C10 predicate on one real execution.
pub fn pred_c10(prog: &Program, r: &RunResult) -> String {
    if r.panicked {
        return "FAIL:panic".into();
    }
    if r.consumer_parked_forever {
        return "FAIL:consumer parked with the termination pending and no wake outstanding (lost wakeup)".into();
    }
    if r.wait_deadlock {
        return "FAIL:consumer parked with flushed chunks pending and no wake outstanding while the producer waits for their delivery".into();
    }
    let ends_with_drop = prog.prod.last() == Some(&PCmd::Drop);
    let aborted = prog.prod.contains(&PCmd::Abort);
    if prog.drop_body_after.is_none() {
        match (&r.consumer_saw_terminal, aborted) {
            (None, _) if ends_with_drop || aborted => {
                return "FAIL:consumer never observed the end or the error".into()
            }
            (Some(t), false) if t == "END" => {
                // (for a gzip producer the bytes are compared after decoding, by the caller)
                if prog.gz_level == 0 && r.delivered != r.accepted {
                    return format!(
                        "FAIL:clean end after {} bytes, {} were accepted",
                        r.delivered.len(),
                        r.accepted.len()
                    );
                }
            }
            (Some(t), false) if t == "ERR" => return "FAIL:error without abort".into(),
            _ => {}
        }
        if prog.gz_level == 0 && !r.accepted.starts_with(&r.delivered) {
            return "FAIL:delivered bytes are not a prefix of the accepted bytes".into();
        }
        // bounded number of polls once the writer is gone: queued frames + 1, plus the
        // spurious re-polls the schedule spent
        if r.polls_after_writer_gone > r.data_after_writer_gone + 1 + prog.spurious {
            return format!(
                "FAIL:{} polls after the writer was gone for {} queued frames",
                r.polls_after_writer_gone, r.data_after_writer_gone
            );
        }
    }
    "ok".into()
}

/// Enumerates every schedule of `prog` (stateless DFS), calling `f` on each execution, up to
/// `limit` executions. Returns (executions, exhausted?).
pub fn explore(prog: &Program, limit: usize, mut f: impl FnMut(&RunResult)) -> (usize, bool) {
    let mut prefix: Vec<usize> = vec![];
    let mut n = 0;
    loop {
        let r = run_schedule(prog, &prefix);
        n += 1;
        f(&r);
        // next schedule: bump the last decision that still has an untried option
        let mut d = r.decisions.clone();
        loop {
            match d.pop() {
                None => return (n, true),
                Some((c, k)) if c + 1 < k => {
                    prefix = d.iter().map(|x| x.0).collect();
                    prefix.push(c + 1);
                    break;
                }
                Some(_) => {}
            }
        }
        if n >= limit {
            return (n, false);
        }
    }
}
