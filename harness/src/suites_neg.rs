//! C16 (`should_gzip`), C17 (`streaming_body` headers vs body coding), the streaming half
//! of C15.

use crate::common::*;
use crate::gen::*;
use bytes::Bytes;
use http::header::{HeaderMap, HeaderValue};
use std::io::Write as _;

thread_local! {
    static LAST_GZ_DRESS: std::cell::Cell<u32> = const { std::cell::Cell::new(0) };
}

/// The protocol line of the last `call_should_gzip` (names the unrelated header lines it added).
fn gzipq_line(ae: Option<&[u8]>) -> String {
    format!("GZIPQ ae={} dress={}", opt_hex(ae), LAST_GZ_DRESS.with(|d| d.get()))
}

pub fn call_should_gzip(ae: Option<&[u8]>) -> Result<bool, ()> {
    let mut h = HeaderMap::new();
    // unrelated header lines around the one that matters (see `UNRELATED_HEADERS`)
    let d = next_dress();
    LAST_GZ_DRESS.with(|c| c.set(d));
    if d != 0 {
        for k in 0..((d >> 10) % 4) {
            let (name, value) = UNRELATED_HEADERS[((d >> (12 + 6 * k)) as usize) % UNRELATED_HEADERS.len()];
            if name != "accept-encoding" {
                h.append(name, HeaderValue::from_static(value));
            }
        }
    }
    if let Some(v) = ae {
        h.insert("accept-encoding", HeaderValue::from_bytes(v).unwrap());
    }
    std::panic::catch_unwind(|| http_serve::should_gzip(&h)).map_err(|_| ())
}

fn show_bool(r: Result<bool, ()>) -> &'static str {
    match r {
        Ok(true) => "T",
        Ok(false) => "F",
        Err(()) => "PANIC",
    }
}

fn emit_c16(em: &mut Emit, elems: &[AeElem], ows: u8) {
    let v = render_ae(elems, ows);
    let r = call_should_gzip(Some(&v));
    let want = spec_gzip(elems);
    let p = pred(r == Ok(want), || {
        format!("should_gzip={} but RFC 7231 says {}", show_bool(r), want)
    });
    let has = |n: &str| elems.iter().any(|e| e.coding == n);
    let class = format!(
        "n{}:{}{}{}:{}",
        elems.len(),
        if has("gzip") { "g" } else { "-" },
        if has("identity") { "i" } else { "-" },
        if has("*") { "s" } else { "-" },
        show_bool(r)
    );
    em.case(&gzipq_line(Some(&v)), show_bool(r), &p, &class);
}

/// Header values for the call-history cases: every ordered pair (x, y) is exercised as "a call
/// with x, then a call with y" on one thread, y's outcome being the case. Letter-case variants are
/// included (the code matches codings and `q` case-sensitively, so they are other values);
/// `Some(b)` is the RFC oracle where the value is inside C16's grammar.
pub fn history_values() -> Vec<(Option<Vec<u8>>, Option<bool>)> {
    let v = |s: &str, w: Option<bool>| (Some(s.as_bytes().to_vec()), w);
    vec![
        (None, Some(false)),
        v("gzip", Some(true)),
        v("GZIP", None),
        v("Gzip;q=1", None),
        v("identity", Some(false)),
        v("gzip;q=0", Some(false)),
        v("gzip;Q=0", None),
        v("*", Some(true)),
        v("*;q=0", Some(false)),
        v("gzip, identity;q=0", Some(true)),
        v("GZIP, IDENTITY;Q=0", None),
        v("br", Some(false)),
    ]
}

pub fn all_elems() -> Vec<AeElem> {
    let mut v = vec![];
    for c in CODINGS {
        for w in WEIGHTS {
            v.push(AeElem {
                coding: c,
                weight: w,
            });
        }
    }
    v
}

pub fn c16(em: &mut Emit, thorough: bool, seed: u64) {
    let mut rng = Rng::new(seed ^ 0xC16);
    // absent / empty
    {
        let r = call_should_gzip(None);
        em.case(&gzipq_line(None), show_bool(r), &pred(r == Ok(false), || "absent header".into()), "absent");
        let r = call_should_gzip(Some(b""));
        em.case("GZIPQ ae=x", show_bool(r), &pred(r == Ok(false), || "empty header".into()), "empty");
    }
    // what browsers and tools actually send, verbatim, and the same with one more element behind
    // it (or before it) that changes or ought not to change the answer
    {
        let real: [&[&'static str]; 9] = [
            &["gzip", "deflate"],
            &["gzip", "deflate", "br"],
            &["gzip", "deflate", "br", "zstd"],
            &["gzip", "deflate", "br", "zstd", "dcb", "dcz"],
            &["br", "gzip"],
            &["deflate", "gzip"],
            &["compress", "gzip"],
            &["identity"],
            &["gzip"],
        ];
        let extras: [(&'static str, Option<&'static str>); 8] = [
            ("gzip", Some("0")), ("gzip", Some("0.5")), ("gzip", Some("0.001")), ("identity", None),
            ("identity", Some("0")), ("*", Some("0")), ("*", None), ("x-gzip", None),
        ];
        for list in real {
            let base: Vec<AeElem> = list.iter().map(|c| AeElem { coding: c, weight: None }).collect();
            for ows in [0u8, 1] {
                emit_c16(em, &base, ows);
                for (c, w) in extras {
                    let mut after = base.clone();
                    after.push(AeElem { coding: c, weight: w });
                    emit_c16(em, &after, ows);
                    let mut before = vec![AeElem { coding: c, weight: w }];
                    before.extend(base.iter().cloned());
                    emit_c16(em, &before, ows);
                }
            }
        }
    }
    let elems = all_elems();
    for ows in 0..3u8 {
        for a in &elems {
            emit_c16(em, &[a.clone()], ows);
        }
    }
    for ows in 0..3u8 {
        for a in &elems {
            for b in &elems {
                emit_c16(em, &[a.clone(), b.clone()], ows);
            }
        }
    }
    if thorough {
        for a in &elems {
            for b in &elems {
                for c in &elems {
                    emit_c16(em, &[a.clone(), b.clone(), c.clone()], (a.coding.len() % 3) as u8);
                }
            }
        }
    }
    let n = if thorough { 500_000 } else { 20_000 };
    for _ in 0..n {
        let k = 3 + rng.usize(2);
        let l: Vec<AeElem> = (0..k).map(|_| rng.pick(&elems).clone()).collect();
        emit_c16(em, &l, rng.below(3) as u8);
    }
    // long lists: the element that decides comes last (or first), after many that do not
    let filler: Vec<AeElem> = elems.iter().filter(|e| e.coding != "gzip" && e.coding != "identity" && e.coding != "*").cloned().collect();
    for total in [16usize, 63, 64, 65, 66, 128, 129, 300, 1000] {
        for decisive in [("gzip", ""), ("gzip", "0"), ("gzip", "0.001"), ("*", "0"), ("identity", "0"), ("identity", "1"), ("*", "1")] {
            let d = elems.iter().find(|e| e.coding == decisive.0 && e.weight == (if decisive.1.is_empty() { None } else { Some(decisive.1) })).cloned();
            let Some(d) = d else { continue };
            for first in [false, true] {
                let mut l: Vec<AeElem> = (0..total - 2).map(|_| rng.pick(&filler).clone()).collect();
                // a second element of interest somewhere in the middle
                l.insert(total / 2, rng.pick(&elems).clone());
                if first { l.insert(0, d.clone()) } else { l.push(d.clone()) }
                emit_c16(em, &l, rng.below(3) as u8);
            }
        }
    }
    // call histories: should_gzip(x), then should_gzip(y); the outcome for y is the case
    let hv = history_values();
    for (x, _) in &hv {
        for (y, want) in &hv {
            let _ = call_should_gzip(x.as_deref());
            let r = call_should_gzip(y.as_deref());
            let p = match want {
                Some(w) => pred(r == Ok(*w), || {
                    format!("after a call with {:?}: should_gzip={} but RFC 7231 says {}", x.as_ref().map(|b| String::from_utf8_lossy(b).to_string()), show_bool(r), w)
                }),
                None => pred(r.is_ok(), || "should_gzip panicked".into()),
            };
            em.case(&gzipq_line(y.as_deref()), show_bool(r), &p, &format!("history:{}", show_bool(r)));
        }
    }
    let n = if thorough { 200_000 } else { 10_000 };
    for _ in 0..n {
        let v = malformed_ae(&mut rng);
        let r = call_should_gzip(Some(&v));
        em.case(
            &gzipq_line(Some(&v)),
            show_bool(r),
            &pred(r.is_ok(), || "should_gzip panicked".into()),
            &format!("mal:{}", show_bool(r)),
        );
    }
}

// ---------------------------------------------------------------------------------------
// C17

thread_local! {
    static VECTORED: std::cell::Cell<u8> = const { std::cell::Cell::new(0) };
}

struct PartsOrReq {
    method: http::Method,
    ae: Option<Vec<u8>>,
    /// further Accept-Encoding header LINES after the first (`should_gzip`, and so the model,
    /// read the first line only)
    ae_more: Vec<Vec<u8>>,
    as_parts: bool,
    /// version, request target, unrelated header lines (see `dress_request`)
    dress: u32,
}

type BoxError = Box<dyn std::error::Error + Send + Sync>;

/// Builds via `streaming_body`, writes a payload, drops the writer, drains the body.
/// Returns (vary values, content-encoding values, writer present, body bytes) or Err on panic.
#[allow(clippy::type_complexity)]
/// A builder call between `streaming_body(req)` and `build()`.
#[derive(Clone, Copy, Debug, PartialEq, Eq)]
pub enum BCall {
    Chunk(usize),
    Level(u32),
}

/// The call sequences a (chunk, level) pair is exercised with: the plain one, then (rotating on
/// `k`) the same settings reached after earlier calls that set something else, in either order,
/// or - when they are the defaults - without any call.
fn call_sequence(chunk: usize, level: u32, k: usize) -> Vec<BCall> {
    use BCall::*;
    let other = if level == 0 { 6 } else { 0 };
    match k % 8 {
        0 | 1 => vec![Chunk(chunk), Level(level)],
        2 => vec![Level(level), Chunk(chunk)],
        3 => vec![Level(other), Chunk(1), Level(level), Chunk(chunk)],
        4 => vec![Level(other), Level(level), Chunk(chunk)],
        5 => vec![Chunk(chunk), Level(9), Level(other), Level(level)],
        6 => vec![Level(level), Chunk(3), Chunk(chunk), Level(level)],
        _ if chunk == 4096 && level == 6 => vec![],
        _ if level == 6 => vec![Chunk(chunk)],
        _ if chunk == 4096 => vec![Level(level)],
        _ => vec![Chunk(chunk), Level(0), Level(level)],
    }
}

fn show_calls(calls: &[BCall]) -> String {
    if calls.is_empty() {
        return "-".into();
    }
    calls
        .iter()
        .map(|c| match c {
            BCall::Chunk(n) => format!("c{}", n),
            BCall::Level(l) => format!("l{}", l),
        })
        .collect::<Vec<_>>()
        .join(",")
}

fn build_and_drain(
    r: &PartsOrReq,
    calls: &[BCall],
    payload: &[u8],
) -> Result<(Vec<Vec<u8>>, Vec<Vec<u8>>, bool, Vec<u8>), ()> {
    history_noise();
    std::panic::catch_unwind(std::panic::AssertUnwindSafe(|| {
        let mut b = dress_request(http::Request::builder().method(r.method.clone()), r.dress, true);
        if let Some(v) = &r.ae {
            b = b.header("accept-encoding", HeaderValue::from_bytes(v).unwrap());
        }
        for v in &r.ae_more {
            b = b.header("accept-encoding", HeaderValue::from_bytes(v).unwrap());
        }
        let req = b.body(()).unwrap();
        let mut b = if r.as_parts {
            let (parts, _) = req.into_parts();
            http_serve::streaming_body(&parts)
        } else {
            http_serve::streaming_body(&req)
        };
        for c in calls {
            b = match c {
                BCall::Chunk(n) => b.with_chunk_size(*n),
                BCall::Level(l) => b.with_gzip_level(*l),
            };
        }
        let (resp, w) = b.build::<Bytes, BoxError>();
        let vary = resp
            .headers()
            .get_all("vary")
            .iter()
            .map(|v| v.as_bytes().to_vec())
            .collect();
        let ce = resp
            .headers()
            .get_all("content-encoding")
            .iter()
            .map(|v| v.as_bytes().to_vec())
            .collect();
        let has_w = w.is_some();
        if let Some(mut w) = w {
            // payload == [] means "never write"; a single 0 byte means "only an empty write";
            // a single 1 byte means "only a flush"
            match payload {
                [] => {}
                [0] => {
                    let _ = w.write(&[]).unwrap();
                }
                [1] => w.flush().unwrap(),
                p if VECTORED.with(|v| v.get()) == 2 => {
                    let mut off = 0;
                    while off < p.len() {
                        let n = w.write(&p[off..]).unwrap();
                        assert!(n > 0 && n <= p.len() - off, "write reported {}", n);
                        off += n;
                    }
                }
                p if VECTORED.with(|v| v.get()) == 1 => {
                    // two slices per call, until everything has been taken
                    let mut off = 0;
                    while off < p.len() {
                        let mid = off + (p.len() - off) / 2;
                        let n = w.write_vectored(&[std::io::IoSlice::new(&p[off..mid]), std::io::IoSlice::new(&p[mid..])]).unwrap();
                        assert!(n > 0 && n <= p.len() - off, "write_vectored reported {}", n);
                        off += n;
                    }
                }
                p => w.write_all(p).unwrap(),
            }
            choose_drop_mode();
            if drop_in_mode(w) {
                panic!("the writer's drop panicked");
            }
        }
        let recs = drive_to_end(resp.into_body(), 100_000);
        let mut body = vec![];
        for p in recs {
            match p.out {
                Out::Data(d) => body.extend_from_slice(&d),
                Out::End => break,
                _ => break,
            }
        }
        (vary, ce, has_w, body)
    }))
    .map_err(|_| ())
}

pub fn gunzip_ok(data: &[u8], expect: &[u8]) -> bool {
    use std::io::Read;
    let mut d = flate2::read::GzDecoder::new(data);
    let mut out = vec![];
    d.read_to_end(&mut out).is_ok() && out == expect
}

pub fn c17(em: &mut Emit, thorough: bool, seed: u64) {
    let mut rng = Rng::new(seed ^ 0xC17);
    let elems = all_elems();
    // (header value, RFC oracle if grammatical, history entry?)
    let mut aes: Vec<(Option<Vec<u8>>, Option<bool>, bool)> = vec![(None, Some(false), false), (Some(vec![]), Some(false), false)];
    for a in &elems {
        aes.push((Some(render_ae(&[a.clone()], 0)), Some(spec_gzip(&[a.clone()])), false));
    }
    // call histories: a response built for x, then responses built for y (one thread)
    let hv = history_values();
    for (x, wx) in &hv {
        for (y, wy) in &hv {
            aes.push((x.clone(), *wx, true));
            aes.push((y.clone(), *wy, true));
        }
    }
    let n = if thorough { 3000 } else { 60 };
    for _ in 0..n {
        let k = 2 + rng.usize(3);
        let l: Vec<AeElem> = (0..k).map(|_| rng.pick(&elems).clone()).collect();
        aes.push((Some(render_ae(&l, rng.below(3) as u8)), Some(spec_gzip(&l)), false));
    }
    for _ in 0..(n / 3) {
        aes.push((Some(malformed_ae(&mut rng)), None, false));
    }
    // (every third case: a payload that is itself a gzip document — it begins with the gzip magic)
    let plain_payload: Vec<u8> = b"hello, hello, hello, streaming world ".repeat(8);
    let gz_payload: Vec<u8> = [&[0x1f, 0x8b, 0x08, 0x00][..], &plain_payload[..]].concat();
    let big: Vec<u8> = {
        let mut x = 0x2545_F491_4F6C_DD1Du64;
        (0..100_000).map(|_| { x ^= x << 13; x ^= x >> 7; x ^= x << 17; x as u8 }).collect()
    };
    let methods = ["GET", "HEAD", "POST", "PUT", "X-EXT"];
    let mut case_no = 0usize;
    for (ae, want, history) in &aes {
        for level in 0..=9u32 {
            // not the full product with chunk sizes and methods: rotate them
            let chunk = *rng.pick(&[1usize, 2, 4, 7, 4096, 4096, 65536]);
            for (mi, m) in methods.iter().enumerate() {
                if mi >= 3 && level % 3 != 0 {
                    continue;
                }
                for as_parts in [false, true] {
                    // history entries: one GET at level 6 and one HEAD at level 9 each
                    if *history && !((level == 6 && mi == 0 && !as_parts) || (level == 9 && mi == 1 && as_parts)) {
                        continue;
                    }
                    case_no += 1;
                    // every fifth case with a first line: one or two more Accept-Encoding lines
                    // that would decide otherwise
                    let ae_more: Vec<Vec<u8>> = if ae.is_some() && case_no % 5 == 0 {
                        let other: &[u8] = if *want == Some(true) { b"gzip;q=0, identity" } else { b"gzip" };
                        if case_no % 10 == 0 { vec![other.to_vec(), b"*;q=0.5".to_vec()] } else { vec![other.to_vec()] }
                    } else {
                        vec![]
                    };
                    let r = PartsOrReq {
                        method: http::Method::from_bytes(m.as_bytes()).unwrap(),
                        ae: ae.clone(),
                        ae_more,
                        as_parts,
                        dress: next_dress(),
                    };
                    let calls = call_sequence(chunk, level, case_no);
                    let payload: &Vec<u8> = if case_no % 3 == 2 { &gz_payload } else { &plain_payload };
                    let line = format!(
                        "SBUILD head={} ae={} calls={} dress={}",
                        if *m == "HEAD" { 1 } else { 0 },
                        opt_hex(ae.as_deref()),
                        show_calls(&calls),
                        r.dress
                    );
                    // what the handler does with the writer: rotate through the patterns
                    let pattern = (level as usize + mi + as_parts as usize + case_no) % 7;
                    let (arg, expect): (&[u8], &[u8]) = match pattern {
                        0 => (&[], &[]),
                        1 => (&[0], &[]),
                        2 => (&[1], &[]),
                        // 100 000 incompressible bytes in single `write` calls, honouring the
                        // count each call reports (an encoder takes such a write in pieces)
                        6 if chunk >= 64 => (&big, &big),
                        _ => (&payload, &payload),
                    };
                    // pattern 5: the payload goes in through `write_vectored`; 6: a `write` loop
                    VECTORED.with(|v| v.set(match pattern { 5 => 1, 6 => 2, _ => 0 }));
                    let payload: &[u8] = expect;
                    match build_and_drain(&r, &calls, arg) {
                        Err(()) => em.case(&line, "PANIC", "FAIL:panic", "panic"),
                        Ok((vary, ce, has_w, body)) => {
                            let ce_gzip = ce == vec![b"gzip".to_vec()];
                            let kind = if !has_w {
                                "none"
                            } else if body.starts_with(&[0x1f, 0x8b]) && gunzip_ok(&body, &payload) {
                                "gzip"
                            } else if body == payload {
                                "raw"
                            } else {
                                "garbled"
                            };
                            let mut ok = vary == vec![b"accept-encoding".to_vec()];
                            let mut why = "Vary: accept-encoding missing".to_string();
                            if ok && !(ce.is_empty() || ce_gzip) {
                                ok = false;
                                why = "unexpected Content-Encoding".into();
                            }
                            if let Some(w) = want {
                                if ok && ce_gzip != (*w && level > 0) {
                                    ok = false;
                                    why = format!(
                                        "Content-Encoding gzip={} but negotiation says {} at level {}",
                                        ce_gzip, w, level
                                    );
                                }
                            }
                            if ok && has_w != (*m != "HEAD") {
                                ok = false;
                                why = "writer presence wrong for method".into();
                            }
                            if ok && has_w && (kind == "gzip") != ce_gzip {
                                ok = false;
                                why = format!("body coding {} disagrees with header", kind);
                            }
                            if ok && kind == "garbled" {
                                ok = false;
                                why = "body is neither the payload nor its gzip".into();
                            }
                            if ok && !has_w && !body.is_empty() {
                                ok = false;
                                why = "HEAD body not empty".into();
                            }
                            let out = format!(
                                "vary={} ce={} w={}",
                                if vary.is_empty() { 0 } else { 1 },
                                if ce_gzip { 1 } else { 0 },
                                kind
                            );
                            em.case(
                                &line,
                                &out,
                                &pred(ok, || why.clone()),
                                &format!("{}:l{}:{}", m, level.min(1), out),
                            );
                            // a body announced as gzip is also judged by decoders that share
                            // nothing with the encoder (the model's, and zlib; see C09)
                            if ce_gzip && has_w {
                                em.note("gz", &format!("1 {} {} 0", hex(&body), hex(payload)));
                            }
                        }
                    }
                }
            }
        }
    }
}
