//! Structured generators built from the same ASTs the Lean specifications use, plus the
//! independent oracles (written from the RFC text, not from the crate's code) that the
//! implementation-side predicates use.

use crate::common::*;

// ---------------------------------------------------------------------------------------
// RFC 7233 byte-range-set

#[derive(Clone, Debug, PartialEq, Eq)]
pub enum Spec {
    FromTo(u128, u128),
    From(u128),
    Suffix(u128),
}

#[derive(Clone, Debug)]
pub struct RenderedSpec {
    pub spec: Spec,
    pub ows_before: Vec<u8>,
    pub ows_after: Vec<u8>,
    pub zeros: usize,
}

pub fn render_specs(specs: &[RenderedSpec]) -> Vec<u8> {
    let mut v = b"bytes=".to_vec();
    for (i, s) in specs.iter().enumerate() {
        if i > 0 {
            v.push(b',');
        }
        v.extend_from_slice(&s.ows_before);
        let z = "0".repeat(s.zeros);
        match &s.spec {
            Spec::FromTo(a, b) => v.extend_from_slice(format!("{z}{a}-{z}{b}").as_bytes()),
            Spec::From(a) => v.extend_from_slice(format!("{z}{a}-").as_bytes()),
            Spec::Suffix(n) => v.extend_from_slice(format!("-{z}{n}").as_bytes()),
        }
        v.extend_from_slice(&s.ows_after);
    }
    v
}

/// RFC 7233 section 2.1, as C03 words it. `None` = selects nothing. Result is inclusive.
pub fn resolve(spec: &Spec, len: u128) -> Option<(u128, u128)> {
    if len == 0 {
        return None;
    }
    match *spec {
        Spec::FromTo(a, b) => {
            let last = b.min(len - 1);
            if a <= last {
                Some((a, last))
            } else {
                None
            }
        }
        Spec::From(a) => {
            if a < len {
                Some((a, len - 1))
            } else {
                None
            }
        }
        Spec::Suffix(n) => {
            if n == 0 {
                None
            } else {
                let k = n.min(len);
                Some((len - k, len - 1))
            }
        }
    }
}

pub fn spec_numbers_fit(specs: &[RenderedSpec]) -> bool {
    let fits = |x: u128| x <= u64::MAX as u128;
    specs.iter().all(|s| match s.spec {
        Spec::FromTo(a, b) => fits(a) && fits(b),
        Spec::From(a) => fits(a),
        Spec::Suffix(n) => fits(n),
    })
}

pub const OWS_CHOICES: [&[u8]; 4] = [b"", b" ", b"\t ", b" \t"];

pub fn boundary_numbers(len: u64) -> Vec<u128> {
    let l = len as u128;
    let mut v = vec![
        0,
        1,
        l.saturating_sub(1),
        l,
        l + 1,
        1 << 32,
        1 << 63,
        (1u128 << 64) - 2,
        (1u128 << 64) - 1,
        1u128 << 64,
    ];
    v.sort();
    v.dedup();
    v
}

pub fn random_spec(rng: &mut Rng, len: u64) -> Spec {
    let nums = boundary_numbers(len);
    let mut num = |rng: &mut Rng| -> u128 {
        if rng.chance(2, 3) {
            *rng.pick(&nums)
        } else if len > 0 {
            rng.below(len.saturating_add(3).max(1)) as u128
        } else {
            rng.below(4) as u128
        }
    };
    match rng.below(3) {
        0 => {
            let a = num(rng);
            let b = num(rng);
            Spec::FromTo(a, b)
        }
        1 => Spec::From(num(rng)),
        _ => Spec::Suffix(num(rng)),
    }
}

pub fn random_rendered(rng: &mut Rng, len: u64) -> RenderedSpec {
    RenderedSpec {
        spec: random_spec(rng, len),
        ows_before: rng.pick(&OWS_CHOICES).to_vec(),
        ows_after: rng.pick(&OWS_CHOICES).to_vec(),
        zeros: if rng.chance(1, 5) { rng.usize(3) + 1 } else { 0 },
    }
}

pub fn plain(spec: Spec) -> RenderedSpec {
    RenderedSpec {
        spec,
        ows_before: vec![],
        ows_after: vec![],
        zeros: 0,
    }
}

/// Near-misses of the Range grammar and arbitrary bytes (the "malformed stream").
pub fn malformed_range(rng: &mut Rng) -> Vec<u8> {
    const FIXED: [&[u8]; 34] = [
        b"",
        b"bytes",
        b"bytes=",
        b"bytes=,",
        b"bytes=1-2,",
        b"bytes=,1-2",
        b"bytes=1-2,,3-4",
        b"bytes=-",
        b"bytes=--1",
        b"bytes=1--2",
        b"bytes=+1-2",
        b"bytes=1-+2",
        b"bytes=-+2",
        b"bytes=1 -2",
        b"bytes=1- 2",
        b"bytes=- 2",
        b"bytes=1-2;3-4",
        b"bytes=a-b",
        b"bytes=1-2x",
        b"bytes=0x1-2",
        b"bytes=1.0-2",
        b"bytes=1-2-3",
        b"BYTES=1-2",
        b"Bytes=1-2",
        b"bytes =1-2",
        b" bytes=1-2",
        b"octets=1-2",
        b"items=1-2",
        b"bytes=18446744073709551616-",
        b"bytes=-18446744073709551616",
        b"bytes=0-18446744073709551616",
        b"bytes=99999999999999999999999999-",
        b"bytes=\xff-1",
        b"bytes=1-2\xc2\xa0",
    ];
    match rng.below(5) {
        0 | 1 => rng.pick(&FIXED).to_vec(),
        4 => {
            let v = render_specs(&[random_rendered(rng, 100), random_rendered(rng, 100)]);
            mutate_bytes(rng, &v)
        }
        2 => {
            // mutate a valid header
            let mut v = render_specs(&[random_rendered(rng, 100), random_rendered(rng, 100)]);
            let k = rng.usize(3) + 1;
            for _ in 0..k {
                let pos = rng.usize(v.len() + 1);
                match rng.below(3) {
                    0 if pos < v.len() => {
                        v.remove(pos);
                    }
                    1 => v.insert(pos, *rng.pick(b"+-, \t=0a;./x")),
                    _ if pos < v.len() => v[pos] = *rng.pick(b"+-, \t=9b\x80\xff"),
                    _ => {}
                }
            }
            v
        }
        _ => random_header_bytes(rng, 12),
    }
}

/// Byte-level mutation of a (usually grammatical) header value: 1-3 of truncate / delete / insert
/// / replace / duplicate, the inserted material being grammar punctuation, digits, lone
/// high bytes, or a whole multi-byte UTF-8 character (a `&str` API handed such a value must not
/// slice inside one). Everything stays within what `HeaderValue::from_bytes` accepts.
/// How a Range header value stands with RFC 7233's `bytes=` grammar, judged by an independent
/// recogniser (nothing of the crate's parser): `Outside` = no reading of the grammar accepts it —
/// another prefix than `bytes=` in any letter case, an element that is no byte-range-spec, or no
/// element at all; `Strict` = the sender grammar with optional whitespace around commas;
/// `Lenient` = everything in between, where a recipient may go either way (empty list elements,
/// `Bytes=`, last < first, numbers beyond 64 bits, whitespace inside an element).
#[derive(Clone, Copy, Debug, PartialEq, Eq)]
pub enum RangeGrammar {
    Strict,
    Lenient,
    Outside,
}

pub fn range_grammar(v: &[u8]) -> RangeGrammar {
    use RangeGrammar::*;
    if v.len() < 6 || !v[..6].eq_ignore_ascii_case(b"bytes=") {
        return Outside;
    }
    let mut lenient = &v[..6] != b"bytes=";
    let is_ows = |c: &u8| *c == b' ' || *c == b'\t';
    let mut specs = 0;
    for el in v[6..].split(|c| *c == b',') {
        let start = el.iter().position(|c| !is_ows(c)).unwrap_or(el.len());
        let end = el.iter().rposition(|c| !is_ows(c)).map_or(start, |i| i + 1);
        let t = &el[start..end];
        if t.is_empty() {
            lenient = true; // an empty list element
            continue;
        }
        let Some(h) = t.iter().position(|c| *c == b'-') else { return Outside };
        let (a, b) = (&t[..h], &t[h + 1..]);
        let digits = |s: &[u8]| s.iter().all(|c| c.is_ascii_digit());
        if !digits(a) || !digits(b) || (a.is_empty() && b.is_empty()) {
            // (whitespace inside an element counts as outside: no list rule allows it)
            return Outside;
        }
        let num = |s: &[u8]| -> Option<u64> { std::str::from_utf8(s).ok()?.parse().ok() };
        if (!a.is_empty() && num(a).is_none()) || (!b.is_empty() && num(b).is_none()) {
            lenient = true; // beyond 64 bits
        } else if !a.is_empty() && !b.is_empty() && num(b) < num(a) {
            lenient = true; // last-byte-pos < first-byte-pos: an invalid spec
        }
        specs += 1;
    }
    if specs == 0 {
        Outside
    } else if lenient {
        Lenient
    } else {
        Strict
    }
}

/// Words of the protocol family (codings, units, markers that proxies and caches add or strip):
/// the dictionary for splicing mutations.
pub const PROTOCOL_WORDS: [&[u8]; 16] = [
    b"gzip", b"-gzip", b";gzip", b"--gzip", b"-br", b"-deflate", b"identity", b"bytes", b"W/", b"GMT", b";q=0", b"q=1",
    b"none", b"*", b"-df", b":",
];

pub fn mutate_bytes(rng: &mut Rng, base: &[u8]) -> Vec<u8> {
    const PIECES: [&[u8]; 24] = [
        b",", b";", b"=", b".", b"-", b"/", b"\"", b"*", b" ", b"\t", b"q", b"W", b"0", b"1", b"9",
        b"\x80", b"\xff", b"\xc3", b"\xc3\xa9", b"\xe2\x82\xac", b"\xf0\x9f\x98\x80", b"\xc2\xa0",
        b"\xef\xbb\xbf", b"\xe2\x80\x8b",
    ];
    let mut v = base.to_vec();
    for _ in 0..1 + rng.usize(3) {
        let pos = rng.usize(v.len() + 1);
        match rng.below(6) {
            0 => v.truncate(pos),
            1 if pos < v.len() => {
                v.remove(pos);
            }
            2 => {
                let piece = rng.pick(&PIECES);
                v.splice(pos..pos, piece.iter().copied());
            }
            3 => {
                let piece = rng.pick(&PROTOCOL_WORDS);
                v.splice(pos..pos, piece.iter().copied());
            }
            4 if pos < v.len() => {
                let piece = rng.pick(&PIECES);
                v.splice(pos..pos + 1, piece.iter().copied());
            }
            5 if pos < v.len() => {
                let end = (pos + 1 + rng.usize(4)).min(v.len());
                let dup = v[pos..end].to_vec();
                v.splice(pos..pos, dup);
            }
            _ => {}
        }
    }
    v
}

/// Arbitrary bytes the `http` crate accepts in a `HeaderValue`: >= 0x20 except 0x7f, or TAB.
pub fn random_header_bytes(rng: &mut Rng, max: usize) -> Vec<u8> {
    let n = rng.usize(max + 1);
    (0..n)
        .map(|_| loop {
            let b = match rng.below(4) {
                0 => *rng.pick(b"bytes=-,0123456789 \t\"W/*q;.+"),
                1 => 0x80 + rng.below(0x80) as u8,
                _ => 0x20 + rng.below(0x5f) as u8,
            };
            if b == 9 || (b >= 0x20 && b != 0x7f) {
                break b;
            }
        })
        .collect()
}

// ---------------------------------------------------------------------------------------
// RFC 7232 entity-tags

#[derive(Clone, Debug, PartialEq, Eq)]
pub struct Tag {
    pub weak: bool,
    pub opaque: Vec<u8>,
}

impl Tag {
    pub fn render(&self) -> Vec<u8> {
        let mut v = vec![];
        if self.weak {
            v.extend_from_slice(b"W/");
        }
        v.push(b'"');
        v.extend_from_slice(&self.opaque);
        v.push(b'"');
        v
    }
    pub fn strong_eq(&self, o: &Tag) -> bool {
        !self.weak && !o.weak && self.opaque == o.opaque
    }
    pub fn weak_eq(&self, o: &Tag) -> bool {
        self.opaque == o.opaque
    }
}

#[derive(Clone, Debug, PartialEq, Eq)]
pub enum TagHdr {
    Absent,
    Star,
    /// tags, each followed (except the last) by `,` and that much OWS
    List(Vec<(Tag, Vec<u8>)>),
}

impl TagHdr {
    pub fn render(&self) -> Option<Vec<u8>> {
        match self {
            TagHdr::Absent => None,
            TagHdr::Star => Some(b"*".to_vec()),
            TagHdr::List(ts) => {
                let mut v = vec![];
                for (i, (t, ows)) in ts.iter().enumerate() {
                    v.extend_from_slice(&t.render());
                    if i + 1 < ts.len() {
                        v.push(b',');
                        v.extend_from_slice(ows);
                    }
                }
                Some(v)
            }
        }
    }
}

/// RFC 7232 precedence, as C04 words it: `(412?, 304?)`.
pub fn spec_cond(
    etag: Option<&Tag>,
    mtime_secs: Option<u64>,
    im: &TagHdr,
    inm: &TagHdr,
    ius: Option<u64>,
    ims: Option<u64>,
) -> (bool, bool) {
    let s412 = match im {
        TagHdr::Star => false,
        TagHdr::List(ts) => match etag {
            None => true,
            Some(e) => !ts.iter().any(|(t, _)| t.strong_eq(e)),
        },
        TagHdr::Absent => match (ius, mtime_secs) {
            (Some(s), Some(m)) => s < m,
            _ => false,
        },
    };
    if s412 {
        return (true, false);
    }
    let s304 = match inm {
        TagHdr::Star => true,
        TagHdr::List(ts) => match etag {
            None => false,
            Some(e) => ts.iter().any(|(t, _)| t.weak_eq(e)),
        },
        TagHdr::Absent => match (ims, mtime_secs) {
            (Some(s), Some(m)) => m <= s,
            _ => false,
        },
    };
    (false, s304)
}

// ---------------------------------------------------------------------------------------
// RFC 7231 Accept-Encoding

pub const CODINGS: [&str; 6] = ["gzip", "identity", "*", "br", "deflate", "x-gzip"];
pub const WEIGHTS: [Option<&str>; 11] = [
    None,
    Some("0"),
    Some("0."),
    Some("0.0"),
    Some("0.000"),
    Some("0.001"),
    Some("0.5"),
    Some("0.999"),
    Some("1"),
    Some("1."),
    Some("1.000"),
];

#[derive(Clone, Debug)]
pub struct AeElem {
    pub coding: &'static str,
    pub weight: Option<&'static str>,
}

/// qvalue in thousandths, from the RFC 7231 5.3.1 grammar (input is grammatical).
pub fn qvalue_milli(w: &str) -> u32 {
    let mut it = w.split('.');
    let int = it.next().unwrap();
    let frac = it.next().unwrap_or("");
    let mut f = frac.to_string();
    while f.len() < 3 {
        f.push('0');
    }
    int.parse::<u32>().unwrap() * 1000 + f.parse::<u32>().unwrap()
}

/// 0 = none, 1 = SP after separators, 2 = mixed TAB/SP on both sides
pub fn render_ae(elems: &[AeElem], ows: u8) -> Vec<u8> {
    let (c_pre, c_post, s_pre, s_post): (&str, &str, &str, &str) = match ows {
        0 => ("", "", "", ""),
        1 => ("", " ", "", " "),
        _ => (" \t", "\t ", " ", "\t"),
    };
    let mut s = String::new();
    for (i, e) in elems.iter().enumerate() {
        if i > 0 {
            s.push_str(c_pre);
            s.push(',');
            s.push_str(c_post);
        }
        s.push_str(e.coding);
        if let Some(w) = e.weight {
            s.push_str(s_pre);
            s.push(';');
            s.push_str(s_post);
            s.push_str("q=");
            s.push_str(w);
        }
    }
    s.into_bytes()
}

/// RFC 7231 section 5.3.4 as C16 words it. Duplicates: the last element naming a coding wins
/// (the RFC is silent; recorded in DESIGN §8 C16).
pub fn spec_gzip(elems: &[AeElem]) -> bool {
    let q = |name: &str| -> Option<u32> {
        elems
            .iter()
            .rev()
            .find(|e| e.coding == name)
            .map(|e| e.weight.map(qvalue_milli).unwrap_or(1000))
    };
    // preference: 0 = unacceptable, 1 = least-preferred acceptable, 1 + q otherwise
    let star = q("*");
    let gzip_pref = match q("gzip").or(star) {
        Some(0) | None => 0,
        Some(v) => 1 + v,
    };
    let identity_pref = match q("identity").or(star) {
        Some(0) => 0,
        Some(v) => 1 + v,
        None => 1,
    };
    gzip_pref != 0 && gzip_pref >= identity_pref
}

pub fn malformed_ae(rng: &mut Rng) -> Vec<u8> {
    const FIXED: [&[u8]; 26] = [
        b"",
        b",",
        b"gzip;",
        b"gzip;q",
        b"gzip;q=",
        b"gzip;q=2",
        b"gzip;q=1.001",
        b"gzip;q=0.0000",
        b"gzip;q=0.+5",
        b"gzip;q=0.-5",
        b"gzip;q=+0.5",
        b"gzip;q=.5",
        b"gzip;q=0.5;x=1",
        b"gzip;Q=0.5",
        b"GZIP",
        b"gzip ;q= 0.5",
        b"gzip;q=0,5",
        b"gzip;;q=1",
        b"gzip=q=1",
        b"gzip;q=1,",
        b"gzip;q=0.\xff",
        b"\xff",
        b"gzip;q=0.65536",
        b"gzip;q=0.999999999999999999999",
        b"gzip;q=1.0000",
        b"identity;q=0,gzip;q=0.+1",
    ];
    match rng.below(4) {
        0 => rng.pick(&FIXED).to_vec(),
        1 => random_header_bytes(rng, 16),
        _ => {
            const VALID: [&[u8]; 8] = [
                b"gzip",
                b"gzip;q=0.5",
                b"gzip;q=0.123, identity;q=1.000",
                b"gzip, identity;q=1",
                b"gzip, *;q=0",
                b"identity;q=0.5, gzip;q=1.0, br",
                b"gzip ; q=0.8 , * ; q=0.1",
                b"*;q=1, gzip;q=0",
            ];
            { let b: &[u8] = VALID[rng.usize(VALID.len())]; mutate_bytes(rng, b) }
        }
    }
}

/// Near-misses of the `1#entity-tag` grammar: every truncation of a valid list, single-byte
/// deletions/insertions, and fixed troublemakers (bare `W/`, unterminated quotes, ...).
pub fn malformed_tags(rng: &mut Rng) -> Vec<u8> {
    const FIXED: [&[u8]; 22] = [
        b"W/",
        b"W",
        b"W/\"",
        b"\"",
        b"\"x\", W/",
        b"\"x\",W",
        b"\"x\", W/\"",
        b"\"x\", \"",
        b"\"x\" ,\"y\"",
        b"\"x\"\"y\"",
        b"\"x",
        b"x",
        b"W/x",
        b"w/\"x\"",
        b"\"x\",",
        b",\"x\"",
        b"\"x\", ",
        b"* ",
        b"\"x\" \"y\"",
        b"",
        b"\"x\",\t\t",
        b"W/W/\"x\"",
    ];
    match rng.below(4) {
        0 => rng.pick(&FIXED).to_vec(),
        3 => {
            let valid: [&[u8]; 4] =
                [b"\"x\", W/\"y\"", b"W/\"a, b\",\"x\"", b"\"x\"", b"W/\"x\", W/\"x\", \"zz\""];
            { let b: &[u8] = valid[rng.usize(valid.len())]; mutate_bytes(rng, b) }
        }
        1 => {
            let valid: [&[u8]; 4] = [
                b"\"x\", W/\"y\"",
                b"W/\"a, b\",\"x\"",
                b"\"x\"",
                b"W/\"x\", W/\"x\", \"zz\"",
            ];
            let v = rng.pick(&valid).to_vec();
            let k = rng.usize(v.len() + 1);
            v[..k].to_vec()
        }
        _ => {
            let mut v = b"\"x\", W/\"y\", \"a, b\"".to_vec();
            let pos = rng.usize(v.len());
            match rng.below(3) {
                0 => {
                    v.remove(pos);
                }
                1 => v.insert(pos, *rng.pick(b"W/\", x\t")),
                _ => v[pos] = *rng.pick(b"W/\", x\t\xff"),
            }
            v
        }
    }
}
