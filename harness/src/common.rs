//! Shared building blocks: PRNG, hex, the harness entity, wakers, the poll driver and the
//! observation of a `serve` response in the canonical form of the line protocol.

use bytes::Bytes;
use futures_core::Stream;
use http::header::{HeaderMap, HeaderName, HeaderValue};
use http_body::Body as _;
use std::collections::VecDeque;
use std::ops::Range;
use std::pin::Pin;
use std::sync::atomic::{AtomicU64, Ordering};
use std::sync::{Arc, Mutex};
use std::task::{Context, Poll, Wake, Waker};
use std::time::{Duration, SystemTime, UNIX_EPOCH};

pub type BoxError = Box<dyn std::error::Error + Send + Sync>;

// ---------------------------------------------------------------------------------------
// PRNG: one splitmix64 state; every random choice derives from it.

#[derive(Clone)]
pub struct Rng(pub u64);

impl Rng {
    pub fn new(seed: u64) -> Self {
        Rng(seed.wrapping_mul(0x9E37_79B9_7F4A_7C15) ^ 0xD1B5_4A32_D192_ED03)
    }
    pub fn next(&mut self) -> u64 {
        self.0 = self.0.wrapping_add(0x9E37_79B9_7F4A_7C15);
        let mut z = self.0;
        z = (z ^ (z >> 30)).wrapping_mul(0xBF58_476D_1CE4_E5B9);
        z = (z ^ (z >> 27)).wrapping_mul(0x94D0_49BB_1331_11EB);
        z ^ (z >> 31)
    }
    pub fn below(&mut self, n: u64) -> u64 {
        if n == 0 {
            0
        } else {
            self.next() % n
        }
    }
    pub fn usize(&mut self, n: usize) -> usize {
        self.below(n as u64) as usize
    }
    pub fn chance(&mut self, num: u64, den: u64) -> bool {
        self.below(den) < num
    }
    pub fn pick<'a, T>(&mut self, v: &'a [T]) -> &'a T {
        &v[self.usize(v.len())]
    }
}

// ---------------------------------------------------------------------------------------
// hex / option encodings of the line protocol

pub fn hex(b: &[u8]) -> String {
    let mut s = String::with_capacity(b.len() * 2);
    for x in b {
        s.push_str(&format!("{:02x}", x));
    }
    s
}

pub fn unhex(s: &str) -> Vec<u8> {
    (0..s.len() / 2)
        .map(|i| u8::from_str_radix(&s[2 * i..2 * i + 2], 16).unwrap())
        .collect()
}

/// `-` = none, `x<hex>` = some
pub fn opt_hex(b: Option<&[u8]>) -> String {
    match b {
        None => "-".to_string(),
        Some(b) => format!("x{}", hex(b)),
    }
}

// ---------------------------------------------------------------------------------------
// Entity content: position-dependent, so any shifted, swapped, repeated or dropped byte shows.

pub fn mix(p: u64) -> u8 {
    let z = p.wrapping_add(0x1234_5678_9ABC_DEF1).wrapping_mul(0x9E37_79B9_7F4A_7C15);
    ((z >> 56) ^ (z >> 24)) as u8
}

pub fn content(r: Range<u64>) -> Vec<u8> {
    (r.start..r.end).map(mix).collect()
}

// ---------------------------------------------------------------------------------------
// Entity stream scripts

#[derive(Clone, Debug, PartialEq, Eq)]
pub enum Ev {
    Chunk(Vec<u8>),
    Pending,
    Err,
}

pub fn show_script(s: &[Ev]) -> String {
    s.iter()
        .map(|e| match e {
            Ev::Chunk(b) => format!("c{}", hex(b)),
            Ev::Pending => "p".to_string(),
            Ev::Err => "e".to_string(),
        })
        .collect::<Vec<_>>()
        .join(",")
}

pub fn show_scripts(s: &[Vec<Ev>]) -> String {
    if s.is_empty() {
        "-".to_string()
    } else {
        s.iter().map(|x| show_script(x)).collect::<Vec<_>>().join("|")
    }
}

#[derive(Debug)]
pub struct EntityFailure;
impl std::fmt::Display for EntityFailure {
    fn fmt(&self, f: &mut std::fmt::Formatter<'_>) -> std::fmt::Result {
        write!(f, "entity failure")
    }
}
impl std::error::Error for EntityFailure {}

/// A stream that follows a script, then reports the end forever; after `Err` it reports the
/// end forever (C20's proviso).
thread_local! {
    /// How often an entity stream of the current body was polled again AFTER it had reported
    /// its end (`Stream`s may panic then; `stream::unfold` does — F13). Printed as `over=`.
    pub static OVERPOLLS: std::cell::Cell<u64> = const { std::cell::Cell::new(0) };
}

pub struct ScriptStream {
    /// the stream has returned `None` once
    ended: bool,
    /// like `futures::stream::unfold` (and so `ChunkedReadFile`): polling after the end panics
    /// instead of answering `None` again (about one stream in three)
    strict_end: bool,
    evs: VecDeque<Ev>,
    /// what `Stream::size_hint` claims (advisory; nothing in `serve` may trust it): 0 = the
    /// default `(0, None)`, 1 = exact and honest, 2 = "nothing left" `(0, Some(0))`, 3 = huge,
    /// 4 = contradictory
    hint: u8,
}

impl ScriptStream {
    pub fn new(script: Vec<Ev>) -> Self {
        static TICK: std::sync::atomic::AtomicU64 = std::sync::atomic::AtomicU64::new(0);
        let t = TICK.fetch_add(1, std::sync::atomic::Ordering::Relaxed);
        let h = (t.wrapping_mul(0x9E37_79B9_7F4A_7C15) >> 40) % 10;
        // half default, the rest spread
        let hint = if h < 5 { 0 } else { (h - 4) as u8 % 5 };
        if hint >= 2 {
            case_note(match hint {
                2 => "an entity stream's size_hint claimed (0, Some(0))",
                3 => "an entity stream's size_hint claimed (usize::MAX, Some(usize::MAX))",
                _ => "an entity stream's size_hint claimed (5, Some(1))",
            });
        }
        let strict_end = (t.wrapping_mul(0xD1B5_4A32_D192_ED03) >> 41) % 3 == 0;
        ScriptStream { ended: false, strict_end, evs: script.into_iter().collect(), hint }
    }
}

impl Stream for ScriptStream {
    type Item = Result<Bytes, BoxError>;
    fn size_hint(&self) -> (usize, Option<usize>) {
        match self.hint {
            0 => (0, None),
            1 => {
                let n = self.evs.iter().filter(|e| !matches!(e, Ev::Pending)).count();
                (n, Some(n))
            }
            2 => (0, Some(0)),
            3 => (usize::MAX, Some(usize::MAX)),
            _ => (5, Some(1)),
        }
    }
    fn poll_next(mut self: Pin<&mut Self>, cx: &mut Context<'_>) -> Poll<Option<Self::Item>> {
        match self.evs.pop_front() {
            None => {
                if self.ended {
                    OVERPOLLS.with(|c| c.set(c.get() + 1));
                    if self.strict_end {
                        panic!("entity stream polled after it had reported its end (a Stream may panic then; stream::unfold does)");
                    }
                }
                self.ended = true;
                Poll::Ready(None)
            }
            Some(Ev::Chunk(b)) => Poll::Ready(Some(Ok(Bytes::from(b)))),
            Some(Ev::Pending) => {
                cx.waker().wake_by_ref();
                Poll::Pending
            }
            // (what follows an error in the script is yielded by later polls: whether a stream
            // stays failed is up to the script, see `stay_failed`)
            Some(Ev::Err) => Poll::Ready(Some(Err(Box::new(EntityFailure)))),
        }
    }
}

#[derive(Clone, Debug, PartialEq, Eq)]
pub enum Call {
    LastModified,
    Etag,
    Len,
    AddHeaders,
    GetRange(u64, u64),
}

pub fn show_calls(c: &[Call]) -> String {
    c.iter()
        .map(|c| match c {
            Call::LastModified => "lm".to_string(),
            Call::Etag => "etag".to_string(),
            Call::Len => "len".to_string(),
            Call::AddHeaders => "ah".to_string(),
            Call::GetRange(a, b) => format!("gr:{}-{}", a, b),
        })
        .collect::<Vec<_>>()
        .join(",")
}

/// How `get_range` answers when no script is queued.
#[derive(Clone, Copy, PartialEq, Eq, Debug)]
pub enum DefaultStream {
    /// the honest content in one chunk (ranges up to `HONEST_CAP` bytes), else nothing
    Honest,
}

pub const HONEST_CAP: u64 = 1 << 20;

#[derive(Clone)]
pub struct HEntity {
    pub len: u64,
    pub etag: Option<Vec<u8>>,
    pub mtime: Option<SystemTime>,
    pub headers: Vec<(String, Vec<u8>)>,
    pub scripts: Arc<Mutex<VecDeque<Vec<Ev>>>>,
    pub log: Arc<Mutex<Vec<Call>>>,
    /// what further `len()` calls after the first answer, if the entity's length changes while it
    /// is being served (a log being appended to or rotated); empty = `len` every time
    pub later_lens: Arc<Mutex<VecDeque<u64>>>,
    len_calls: Arc<AtomicU64>,
    /// an entity that panics (history calls only): 1 = in `add_headers`, after it has inserted
    /// its headers; 2 = `etag`; 3 = `last_modified`; 4 = `len`; 5 = `get_range`
    pub panic_at: u8,
}

impl HEntity {
    pub fn new(len: u64) -> Self {
        HEntity {
            len,
            etag: None,
            mtime: None,
            headers: vec![],
            scripts: Default::default(),
            log: Default::default(),
            later_lens: Default::default(),
            len_calls: Default::default(),
            panic_at: 0,
        }
    }
    /// A fresh copy sharing nothing (own log, own script queue).
    pub fn fresh(&self, scripts: Vec<Vec<Ev>>) -> Self {
        HEntity {
            len: self.len,
            etag: self.etag.clone(),
            mtime: self.mtime,
            headers: self.headers.clone(),
            scripts: Arc::new(Mutex::new(scripts.into_iter().collect())),
            log: Default::default(),
            later_lens: Arc::new(Mutex::new(self.later_lens.lock().unwrap().clone())),
            len_calls: Default::default(),
            panic_at: self.panic_at,
        }
    }
    pub fn header_map(&self) -> HeaderMap {
        let mut h = HeaderMap::new();
        for (k, v) in &self.headers {
            let mut value = HeaderValue::from_bytes(v).unwrap();
            // (`HeaderValue`'s "sensitive" flag — a hint for HPACK and for `Debug` — on some of
            // them: a flagged value is as much one of the entity's headers as any other)
            if k == "set-cookie" || k == "x-ent-b" || k == "content-disposition" {
                value.set_sensitive(true);
            }
            h.append(HeaderName::from_bytes(k.as_bytes()).unwrap(), value);
        }
        h
    }
    /// Entity headers in `HeaderMap` iteration order, as the protocol's `eh=` field.
    pub fn eh_field(&self) -> String {
        let h = self.header_map();
        if h.is_empty() {
            return "-".to_string();
        }
        h.iter()
            .map(|(k, v)| format!("{}:{}", hex(k.as_str().as_bytes()), hex(v.as_bytes())))
            .collect::<Vec<_>>()
            .join(",")
    }
    pub fn mtime_field(&self) -> String {
        match self.mtime {
            None => "-".to_string(),
            Some(t) => match t.duration_since(UNIX_EPOCH) {
                Ok(d) => format!("{}.{}", d.as_secs(), d.subsec_nanos()),
                // a modification time before the epoch (the model's `MTime.preEpoch`)
                Err(_) => "neg".to_string(),
            },
        }
    }
}

pub fn honest_one_chunk(r: &Range<u64>) -> Vec<Ev> {
    if r.end > r.start && r.end - r.start <= HONEST_CAP {
        vec![Ev::Chunk(content(r.clone()))]
    } else {
        vec![]
    }
}

impl http_serve::Entity for HEntity {
    type Error = BoxError;
    type Data = Bytes;
    fn len(&self) -> u64 {
        self.log.lock().unwrap().push(Call::Len);
        if self.panic_at == 4 {
            panic!("entity panics in len");
        }
        if self.len_calls.fetch_add(1, Ordering::Relaxed) == 0 {
            return self.len;
        }
        let mut l = self.later_lens.lock().unwrap();
        if l.len() > 1 { l.pop_front().unwrap() } else { l.front().copied().unwrap_or(self.len) }
    }
    fn get_range(
        &self,
        range: Range<u64>,
    ) -> Pin<Box<dyn Stream<Item = Result<Bytes, BoxError>> + Send + Sync>> {
        self.log
            .lock()
            .unwrap()
            .push(Call::GetRange(range.start, range.end));
        if self.panic_at == 5 {
            panic!("entity panics in get_range");
        }
        // the trait's contract: the range lies within the entity; like a slice, this entity
        // refuses anything else
        assert!(
            range.start <= range.end && range.end <= self.len,
            "get_range({}..{}) outside an entity of {} bytes",
            range.start,
            range.end,
            self.len
        );
        let script = self
            .scripts
            .lock()
            .unwrap()
            .pop_front()
            .unwrap_or_else(|| honest_one_chunk(&range));
        Box::pin(ScriptStream::new(script))
    }
    fn add_headers(&self, h: &mut HeaderMap) {
        self.log.lock().unwrap().push(Call::AddHeaders);
        // (through `header_map`, so that the "sensitive" flags are the same)
        for (k, v) in self.header_map().iter() {
            h.append(k.clone(), v.clone());
        }
        if self.panic_at == 1 {
            panic!("entity panics in add_headers");
        }
    }
    fn etag(&self) -> Option<HeaderValue> {
        self.log.lock().unwrap().push(Call::Etag);
        if self.panic_at == 2 {
            panic!("entity panics in etag");
        }
        self.etag
            .as_ref()
            .map(|e| HeaderValue::from_bytes(e).unwrap())
    }
    fn last_modified(&self) -> Option<SystemTime> {
        self.log.lock().unwrap().push(Call::LastModified);
        if self.panic_at == 3 {
            panic!("entity panics in last_modified");
        }
        self.mtime
    }
}

// ---------------------------------------------------------------------------------------
// Wakers with identity and a wake log

pub struct HWaker {
    pub id: u64,
    pub log: Arc<Mutex<Vec<u64>>>,
    pub count: AtomicU64,
}

impl Wake for HWaker {
    fn wake(self: Arc<Self>) {
        self.wake_by_ref()
    }
    fn wake_by_ref(self: &Arc<Self>) {
        crate::sched::on_wake(self.id);
        self.count.fetch_add(1, Ordering::SeqCst);
        self.log.lock().unwrap().push(self.id);
    }
}

/// Which kind of waker `mk_waker` hands out for the current case: `false` = one allocation per
/// waker id (wakers differ in their data pointer, share a vtable), `true` = all wakers of a wake
/// log share ONE data pointer and differ in their vtable (as two `Waker`s of different types
/// built over the same task state do). `will_wake` tells both kinds apart; the data pointer alone
/// does not. Chosen with the drop mode, by `choose_drop_mode`.
pub static SHARED_DATA_WAKERS: std::sync::atomic::AtomicBool = std::sync::atomic::AtomicBool::new(false);

mod raw_wakers {
    use super::*;
    use std::task::{RawWaker, RawWakerVTable};

    type Log = Mutex<Vec<u64>>;

    unsafe fn clone<const ID: u64>(p: *const ()) -> RawWaker {
        Arc::increment_strong_count(p as *const Log);
        RawWaker::new(p, vtable::<ID>())
    }
    unsafe fn wake<const ID: u64>(p: *const ()) {
        wake_by_ref::<ID>(p);
        drop_raw::<ID>(p);
    }
    unsafe fn wake_by_ref<const ID: u64>(p: *const ()) {
        crate::sched::on_wake(ID);
        (*(p as *const Log)).lock().unwrap().push(ID);
    }
    unsafe fn drop_raw<const ID: u64>(p: *const ()) {
        Arc::decrement_strong_count(p as *const Log);
    }
    fn vtable<const ID: u64>() -> &'static RawWakerVTable {
        struct V<const ID: u64>;
        impl<const ID: u64> V<ID> {
            const T: RawWakerVTable = RawWakerVTable::new(clone::<ID>, wake::<ID>, wake_by_ref::<ID>, drop_raw::<ID>);
        }
        &V::<ID>::T
    }
    /// A waker for `id` (1..=8) whose data pointer is the wake log itself.
    pub fn make(id: u64, log: &Arc<Log>) -> Option<Waker> {
        let vt = match id {
            1 => vtable::<1>(),
            2 => vtable::<2>(),
            3 => vtable::<3>(),
            4 => vtable::<4>(),
            5 => vtable::<5>(),
            6 => vtable::<6>(),
            7 => vtable::<7>(),
            8 => vtable::<8>(),
            _ => return None,
        };
        let p = Arc::into_raw(log.clone()) as *const ();
        Some(unsafe { Waker::from_raw(RawWaker::new(p, vt)) })
    }
}

pub fn mk_waker(id: u64, log: &Arc<Mutex<Vec<u64>>>) -> Waker {
    if SHARED_DATA_WAKERS.load(Ordering::SeqCst) {
        if let Some(w) = raw_wakers::make(id, log) {
            return w;
        }
    }
    Waker::from(Arc::new(HWaker {
        id,
        log: log.clone(),
        count: AtomicU64::new(0),
    }))
}

pub fn noop_waker() -> Waker {
    mk_waker(0, &Arc::new(Mutex::new(vec![])))
}

// ---------------------------------------------------------------------------------------
// Requests

#[derive(Clone, Debug, PartialEq, Eq)]
pub enum DateH {
    Absent,
    /// raw header bytes that `httpdate` (or `to_str`) rejects
    Bad(Vec<u8>),
    Secs(u64),
}

#[derive(Clone, Debug)]
pub struct HReq {
    /// any method token
    pub method: String,
    pub range: Option<Vec<u8>>,
    pub if_range: Option<Vec<u8>>,
    pub if_match: Option<Vec<u8>>,
    pub if_none_match: Option<Vec<u8>>,
    pub ius: DateH,
    pub ims: DateH,
    /// extra repeated header lines: `(name, value)` appended *after* the first ones, which a
    /// correct implementation ignores (`HeaderMap::get` returns the first value)
    pub repeats: Vec<(String, Vec<u8>)>,
    /// how well-formed dates are written: 0 = IMF-fixdate, 1 = RFC 850, 2 = asctime (all three
    /// are HTTP-dates a recipient must accept, RFC 7231 section 7.1.1.1)
    pub date_fmt: u8,
    /// "dressing": parts of a request the crate must not look at — the HTTP version, the request
    /// target, unrelated header lines (0 = a plain HTTP/1.1 `GET /`). Printed in the protocol line
    /// (`dress=`, ignored by the model) so that a failing case names it.
    pub dress: u32,
}

/// Header lines that `serve` has no business reading (real-world request headers, some of them
/// easily mistaken for something a file server should act on).
pub const UNRELATED_HEADERS: &[(&str, &str)] = &[
    ("cache-control", "no-cache"),
    ("cache-control", "max-age=0, no-store"),
    ("cache-control", "only-if-cached"),
    ("pragma", "no-cache"),
    ("te", "trailers, deflate;q=0.5"),
    ("expect", "100-continue"),
    ("connection", "close"),
    ("connection", "keep-alive, TE"),
    ("upgrade", "h2c"),
    ("accept", "multipart/byteranges;q=0, */*;q=0.1"),
    ("accept", "text/html"),
    ("accept-encoding", "identity;q=0, gzip"),
    ("accept-ranges", "none"),
    ("content-length", "0"),
    ("content-length", "5"),
    ("content-range", "bytes 0-0/1"),
    ("content-type", "multipart/byteranges; boundary=B"),
    ("transfer-encoding", "chunked"),
    ("host", "example.com"),
    ("user-agent", "Wget/1.21 (resume)"),
    ("user-agent", "Mozilla/4.0 (compatible; MSIE 6.0)"),
    ("referer", "http://example.com/"),
    ("x-http-method-override", "HEAD"),
    ("x-http-method", "POST"),
    ("x-forwarded-for", "10.0.0.1"),
    ("forwarded", "for=10.0.0.1;proto=http"),
    ("via", "1.0 proxy"),
    ("max-forwards", "0"),
    ("request-range", "bytes=0-0"),
    ("unless-modified-since", "Thu, 01 Jan 1970 00:00:00 GMT"),
    ("last-modified", "Thu, 01 Jan 1970 00:00:00 GMT"),
    ("etag", "\"x\""),
    ("date", "Thu, 01 Jan 2037 00:00:00 GMT"),
    ("date", "Thu, 01 Jan 1970 00:00:00 GMT"),
    ("if", "(<urn:x> [\"x\"])"),
    ("if-schedule-tag-match", "\"x\""),
    ("a-im", "feed"),
    ("prefer", "return=minimal"),
    ("authorization", "Basic Og=="),
    ("cookie", "range=bytes=0-0"),
    ("origin", "null"),
    ("dnt", "1"),
    ("save-data", "on"),
    ("sec-fetch-mode", "no-cors"),
    ("priority", "u=7, i"),
    ("vary", "*"),
    ("trailer", "etag"),
    ("keep-alive", "timeout=0"),
    ("x-range", "bytes=0-0"),
    ("ranges", "bytes=0-0"),
];

const DRESS_VERSIONS: [http::Version; 5] =
    [http::Version::HTTP_11, http::Version::HTTP_10, http::Version::HTTP_09, http::Version::HTTP_2, http::Version::HTTP_3];
const DRESS_URIS: [&str; 8] = ["/", "/a/b.txt?range=bytes=0-0", "*", "http://example.com/x", "/%2e%2e/", "/x.gz", "example.com:443", "/?"];

/// Applies a dressing to a request under construction: version, request target and 0–3 unrelated
/// header lines (placed before the ones that matter). `negotiating`: the request is for
/// `should_gzip` / `streaming_body`, so `Accept-Encoding` is not unrelated.
pub fn dress_request(b: http::request::Builder, d: u32, negotiating: bool) -> http::request::Builder {
    if d == 0 {
        return b.uri("/");
    }
    // half of the dressed requests keep HTTP/1.1, the others are spread over the rest
    let v = if (d >> 1) % 2 == 0 { 0 } else { 1 + ((d >> 2) % 4) as usize };
    let u = if (d >> 5) % 3 == 0 { ((d >> 7) % 8) as usize } else { 0 };
    let mut b = b.version(DRESS_VERSIONS[v]).uri(DRESS_URIS[u]);
    let n = ((d >> 10) % 4) as usize;
    for k in 0..n {
        let (name, value) = UNRELATED_HEADERS[((d >> (12 + 6 * k as u32)) as usize) % UNRELATED_HEADERS.len()];
        if negotiating && name == "accept-encoding" {
            continue;
        }
        b = b.header(name, value);
    }
    b
}

pub fn next_dress() -> u32 {
    static TICK: std::sync::atomic::AtomicU64 = std::sync::atomic::AtomicU64::new(0);
    let t = TICK.fetch_add(1, std::sync::atomic::Ordering::Relaxed);
    let h = (t.wrapping_add(1)).wrapping_mul(0x9E37_79B9_7F4A_7C15) ^ (t >> 7);
    let h = (h ^ (h >> 29)).wrapping_mul(0xBF58_476D_1CE4_E5B9);
    let h = (h ^ (h >> 32)) as u32;
    // about two requests in five are plain
    if h % 5 < 2 { 0 } else { h | 1 }
}

/// `secs` after the epoch in one of the three HTTP-date formats.
pub fn fmt_date(secs: u64, fmt: u8) -> Vec<u8> {
    if fmt == 0 {
        return httpdate::fmt_http_date(UNIX_EPOCH + Duration::from_secs(secs)).into_bytes();
    }
    // civil date from days since the epoch (proleptic Gregorian)
    let days = (secs / 86_400) as i64;
    let (h, mi, s) = ((secs % 86_400) / 3600, (secs % 3600) / 60, secs % 60);
    let z = days + 719_468;
    let era = z.div_euclid(146_097);
    let doe = z.rem_euclid(146_097);
    let yoe = (doe - doe / 1460 + doe / 36_524 - doe / 146_096) / 365;
    let doy = doe - (365 * yoe + yoe / 4 - yoe / 100);
    let mp = (5 * doy + 2) / 153;
    let d = doy - (153 * mp + 2) / 5 + 1;
    let m = if mp < 10 { mp + 3 } else { mp - 9 };
    let y = yoe + era * 400 + if m <= 2 { 1 } else { 0 };
    let wd = (days + 4).rem_euclid(7) as usize; // 1970-01-01 was a Thursday
    const MON: [&str; 12] = ["Jan", "Feb", "Mar", "Apr", "May", "Jun", "Jul", "Aug", "Sep", "Oct", "Nov", "Dec"];
    const WD3: [&str; 7] = ["Sun", "Mon", "Tue", "Wed", "Thu", "Fri", "Sat"];
    const WDL: [&str; 7] = ["Sunday", "Monday", "Tuesday", "Wednesday", "Thursday", "Friday", "Saturday"];
    if fmt == 1 {
        format!("{}, {:02}-{}-{:02} {:02}:{:02}:{:02} GMT", WDL[wd], d, MON[(m - 1) as usize], y % 100, h, mi, s).into_bytes()
    } else {
        format!("{} {} {:2} {:02}:{:02}:{:02} {}", WD3[wd], MON[(m - 1) as usize], d, h, mi, s, y).into_bytes()
    }
}

impl HReq {
    pub fn get() -> Self {
        HReq {
            method: "GET".into(),
            range: None,
            if_range: None,
            if_match: None,
            if_none_match: None,
            ius: DateH::Absent,
            ims: DateH::Absent,
            repeats: vec![],
            date_fmt: 0,
            dress: next_dress(),
        }
    }
    pub fn m_field(&self) -> &'static str {
        match self.method.as_str() {
            "GET" => "G",
            "HEAD" => "H",
            _ => "O",
        }
    }
    pub fn build(&self) -> http::Request<()> {
        let mut b = dress_request(
            http::Request::builder().method(http::Method::from_bytes(self.method.as_bytes()).unwrap()),
            self.dress,
            false,
        );
        let add = |b: http::request::Builder, n: &str, v: &Option<Vec<u8>>| match v {
            Some(v) => b.header(n, HeaderValue::from_bytes(v).unwrap()),
            None => b,
        };
        b = add(b, "range", &self.range);
        b = add(b, "if-range", &self.if_range);
        b = add(b, "if-match", &self.if_match);
        b = add(b, "if-none-match", &self.if_none_match);
        let date = |d: &DateH| match d {
            DateH::Absent => None,
            DateH::Bad(v) => Some(v.clone()),
            DateH::Secs(s) => Some(fmt_date(*s, self.date_fmt)),
        };
        b = add(b, "if-unmodified-since", &date(&self.ius));
        b = add(b, "if-modified-since", &date(&self.ims));
        for (n, v) in &self.repeats {
            b = b.header(n.as_str(), HeaderValue::from_bytes(v).unwrap());
        }
        b.body(()).unwrap()
    }
    fn date_field(d: &DateH) -> String {
        match d {
            DateH::Absent => "-".into(),
            DateH::Bad(_) => "bad".into(),
            DateH::Secs(s) => s.to_string(),
        }
    }
}

/// Is this header value usable by `parse_http_date(v.to_str()?)`? Classifies raw bytes the way
/// the real `httpdate` crate does (a parameter of the model).
pub fn classify_date(v: &[u8]) -> DateH {
    let hv = match HeaderValue::from_bytes(v) {
        Ok(h) => h,
        Err(_) => return DateH::Bad(v.to_vec()),
    };
    match hv.to_str().ok().and_then(|s| httpdate::parse_http_date(s).ok()) {
        Some(t) => match t.duration_since(UNIX_EPOCH) {
            Ok(d) => DateH::Secs(d.as_secs()),
            Err(_) => DateH::Bad(v.to_vec()),
        },
        None => DateH::Bad(v.to_vec()),
    }
}

// ---------------------------------------------------------------------------------------
// Observation of a response and its body

#[derive(Clone, Debug, PartialEq, Eq)]
pub enum Out {
    Data(Vec<u8>),
    ErrEntity,
    ErrShort(u64),
    ErrLong(u64),
    ErrOther(String),
    End,
    Pending,
    Panic,
}

impl Out {
    pub fn show(&self, once: bool) -> String {
        match self {
            Out::Data(b) => {
                if once {
                    format!("D#{}", b.len())
                } else {
                    format!("D{}", hex(b))
                }
            }
            Out::ErrEntity => "EE".into(),
            Out::ErrShort(n) => format!("ES{}", n),
            Out::ErrLong(n) => format!("EL{}", n),
            Out::ErrOther(s) => format!("E?{}", hex(s.as_bytes())),
            Out::End => "END".into(),
            Out::Pending => "PEND".into(),
            Out::Panic => "PANIC".into(),
        }
    }
    pub fn is_err(&self) -> bool {
        matches!(
            self,
            Out::ErrEntity | Out::ErrShort(_) | Out::ErrLong(_) | Out::ErrOther(_)
        )
    }
    pub fn is_terminal(&self) -> bool {
        self.is_err() || matches!(self, Out::End)
    }
}

pub fn classify_err(e: &BoxError) -> Out {
    let s = e.to_string();
    if s == "entity failure" {
        return Out::ErrEntity;
    }
    // The crate's two length errors are private types; their `Debug` form (type and field name)
    // identifies them independently of how their message is worded.
    let d = format!("{:?}", e);
    let field = |prefix: &str| -> Option<u64> {
        d.strip_prefix(prefix)?.trim_end_matches([' ', '}']).trim().parse().ok()
    };
    if let Some(n) = field("StreamTooShortError { remaining:") {
        return Out::ErrShort(n);
    }
    if let Some(n) = field("StreamTooLongError { extra:") {
        return Out::ErrLong(n);
    }
    if let Some(r) = s
        .strip_prefix("stream ended with ")
        .and_then(|r| r.strip_suffix(" bytes still expected"))
    {
        if let Ok(n) = r.parse() {
            return Out::ErrShort(n);
        }
    }
    if let Some(r) = s
        .strip_prefix("stream returned (at least) ")
        .and_then(|r| r.strip_suffix(" bytes more than expected"))
    {
        if let Ok(n) = r.parse() {
            return Out::ErrLong(n);
        }
    }
    Out::ErrOther(s)
}

#[derive(Clone, Debug)]
pub struct PollRec {
    pub lower: u64,
    pub upper: Option<u64>,
    pub eos: bool,
    pub out: Out,
}

pub type SBody = http_serve::Body<Bytes, BoxError>;

/// Poll `n` times, sampling `size_hint`/`is_end_stream` before every poll; stops early after a
/// panic (the body is then in an unknown state).
pub fn drive(body: SBody, n: usize) -> Vec<PollRec> {
    drive_opt(body, n, false)
}

/// Like `drive`, but stops after the first terminal event.
pub fn drive_to_end(body: SBody, max: usize) -> Vec<PollRec> {
    drive_opt(body, max, true)
}

fn drive_opt(body: SBody, n: usize, stop_at_terminal: bool) -> Vec<PollRec> {
    drive_any(body, n, stop_at_terminal)
}

/// All bytes of a `Buf`, whatever its segmentation.
pub fn buf_to_vec<D: bytes::Buf>(mut d: D) -> Vec<u8> {
    let mut v = Vec::with_capacity(d.remaining());
    while d.has_remaining() {
        let c = d.chunk();
        let n = c.len();
        v.extend_from_slice(c);
        d.advance(n);
    }
    v
}

/// `drive` for a body over any data type.
pub fn drive_any<D: bytes::Buf + From<Vec<u8>> + From<&'static [u8]> + 'static>(body: http_serve::Body<D, BoxError>, n: usize, stop_at_terminal: bool) -> Vec<PollRec> {
    let mut body = Box::pin(body);
    let waker = noop_waker();
    let mut cx = Context::from_waker(&waker);
    let mut recs = vec![];
    for _ in 0..n {
        let r = std::panic::catch_unwind(std::panic::AssertUnwindSafe(|| {
            let h = body.size_hint();
            let eos = body.is_end_stream();
            let out = match body.as_mut().poll_frame(&mut cx) {
                Poll::Ready(Some(Ok(f))) => match f.into_data() {
                    Ok(d) => Out::Data(buf_to_vec(d)),
                    Err(_) => Out::ErrOther("non-data frame".into()),
                },
                Poll::Ready(Some(Err(e))) => classify_err(&e),
                Poll::Ready(None) => Out::End,
                Poll::Pending => Out::Pending,
            };
            PollRec {
                lower: h.lower(),
                upper: h.upper(),
                eos,
                out,
            }
        }));
        match r {
            Ok(rec) => {
                let term = rec.out.is_terminal();
                recs.push(rec);
                if term && stop_at_terminal {
                    return recs;
                }
            }
            Err(_) => {
                recs.push(PollRec {
                    lower: 0,
                    upper: None,
                    eos: false,
                    out: Out::Panic,
                });
                std::mem::forget(body);
                return recs;
            }
        }
    }
    recs
}

#[derive(Clone, Debug, PartialEq, Eq)]
pub enum Plan {
    Once(u64),
    Empty,
    Exact(u64, u64),
    /// part headers, ranges, announced length
    Multipart(Vec<Vec<u8>>, Vec<(u64, u64)>, u64),
    /// a multipart body too large to drain honestly: only the first part header is known
    MultipartHead(Vec<u8>, u64),
    Unknown(String),
}

impl Plan {
    pub fn show(&self) -> String {
        match self {
            Plan::Once(n) => format!("once:{}", n),
            Plan::Empty => "empty".into(),
            Plan::Exact(a, b) => format!("exact:{}-{}", a, b),
            Plan::Multipart(phs, rs, len) => format!(
                "multipart:{}:{}:{}",
                phs.iter().map(|p| hex(p)).collect::<Vec<_>>().join("/"),
                rs.iter()
                    .map(|(a, b)| format!("{}-{}", a, b))
                    .collect::<Vec<_>>()
                    .join("/"),
                len
            ),
            Plan::MultipartHead(ph, len) => format!("multipart1:{}:{}", hex(ph), len),
            Plan::Unknown(s) => format!("unknown:{}", s.replace(|c: char| c.is_whitespace() || c == ':', "_")),
        }
    }
}

#[derive(Clone, Debug)]
pub struct Observed {
    pub panicked: bool,
    pub status: u16,
    /// sorted `name=value` (hex value, or `@secs` for Date/Last-Modified)
    pub headers: Vec<(String, String)>,
    pub raw_headers: Vec<(String, Vec<u8>)>,
    pub plan: Plan,
    pub calls: Vec<Call>,
    /// clock reading for the model: the `Date` header if present, else 0
    pub now: u64,
    pub clock_ok: bool,
}

impl Observed {
    pub fn header(&self, name: &str) -> Option<&[u8]> {
        self.raw_headers
            .iter()
            .find(|(n, _)| n == name)
            .map(|(_, v)| &v[..])
    }
    pub fn header_all(&self, name: &str) -> Vec<&[u8]> {
        self.raw_headers
            .iter()
            .filter(|(n, _)| n == name)
            .map(|(_, v)| &v[..])
            .collect()
    }
    pub fn date_secs(&self, name: &str) -> Option<u64> {
        self.header(name).and_then(|v| match classify_date(v) {
            DateH::Secs(s) => Some(s),
            _ => None,
        })
    }
    pub fn show(&self) -> String {
        if self.panicked {
            return "PANIC".into();
        }
        format!(
            "{} hdrs={} plan={} calls={}",
            self.status,
            self.headers
                .iter()
                .map(|(n, v)| format!("{}={}", n, v))
                .collect::<Vec<_>>()
                .join(","),
            self.plan.show(),
            show_calls(&self.calls)
        )
    }
}

fn secs_now() -> u64 {
    SystemTime::now()
        .duration_since(UNIX_EPOCH)
        .unwrap()
        .as_secs()
}

/// The `SERVE` request line for this request/entity, given the clock value observed.
pub fn serve_line(q: &HReq, e: &HEntity, now: u64) -> String {
    format!(
        "SERVE m={} len={} etag={} mtime={} now={} range={} ifrange={} im={} inm={} ius={} ims={} eh={} dress={}",
        q.m_field(),
        e.len,
        opt_hex(e.etag.as_deref()),
        e.mtime_field(),
        now,
        opt_hex(q.range.as_deref()),
        opt_hex(q.if_range.as_deref()),
        opt_hex(q.if_match.as_deref()),
        opt_hex(q.if_none_match.as_deref()),
        HReq::date_field(&q.ius),
        HReq::date_field(&q.ims),
        e.eh_field(),
        q.dress
    )
}

/// Calls the real `serve` and returns the response with its body (no draining).
// ---- call histories: what was served before must not matter
//
// About every 4th `serve` / `streaming_body` call a suite makes is preceded, on the same thread, by one of
// a few unrelated calls (another entity's multipart, conditional and error responses, drained or
// dropped; streaming bodies negotiated for other header values). A correct crate keeps no state
// between calls, so this changes nothing; state that leaks (a cache, a recycled buffer or header
// map) shows up in the case that follows, whose failure message then names the call before it.

static HISTORY_TICK: AtomicU64 = AtomicU64::new(0);
/// How writers are dropped for the current case: `false` = an ordinary `drop`, `true` = by stack
/// unwinding (the producer "panics" while it owns the writer, `std::thread::panicking()` is true in
/// the writer's `Drop`). The properties speak of the writer being dropped, however that happens.
pub static UNWIND_DROPS: std::sync::atomic::AtomicBool = std::sync::atomic::AtomicBool::new(false);
/// Set when a writer was dropped by unwinding since the last record (named in a failed predicate).
static UNWOUND: std::sync::atomic::AtomicBool = std::sync::atomic::AtomicBool::new(false);
struct HarnessUnwind;

/// Chooses the drop mode for the next case from a deterministic counter (about one case in four
/// drops its writer by unwinding).
pub fn choose_drop_mode() {
    static TICK: std::sync::atomic::AtomicU64 = std::sync::atomic::AtomicU64::new(0);
    let t = TICK.fetch_add(1, std::sync::atomic::Ordering::Relaxed);
    let h = t.wrapping_mul(0x9E37_79B9_7F4A_7C15) >> 33;
    UNWIND_DROPS.store(h % 4 == 0, std::sync::atomic::Ordering::SeqCst);
    SHARED_DATA_WAKERS.store((h >> 3) % 3 == 0, std::sync::atomic::Ordering::SeqCst);
}

/// Drops `v` in the current drop mode; `true` if the drop itself panicked (with an ordinary drop)
/// — a panic of the code under test inside a drop that runs during unwinding aborts the process,
/// which the orchestrator reports as a harness death.
pub fn drop_in_mode<T>(v: T) -> bool {
    if UNWIND_DROPS.load(std::sync::atomic::Ordering::SeqCst) {
        UNWOUND.store(true, std::sync::atomic::Ordering::SeqCst);
        let r = std::panic::catch_unwind(std::panic::AssertUnwindSafe(move || {
            let _v = v;
            std::panic::resume_unwind(Box::new(HarnessUnwind));
        }));
        match r {
            Err(p) => !p.is::<HarnessUnwind>(),
            Ok(()) => false,
        }
    } else {
        std::panic::catch_unwind(std::panic::AssertUnwindSafe(move || drop(v))).is_err()
    }
}

fn take_unwound() -> bool {
    UNWOUND.swap(false, std::sync::atomic::Ordering::SeqCst)
}

/// Circumstances of the current case that the protocol line does not show (appended to a failed
/// predicate, cleared with every record).
static CASE_NOTES: Mutex<Vec<&'static str>> = Mutex::new(Vec::new());
pub fn case_note(n: &'static str) {
    if let Ok(mut v) = CASE_NOTES.lock() {
        if !v.contains(&n) {
            v.push(n);
        }
    }
}
fn take_case_notes() -> Vec<&'static str> {
    CASE_NOTES.lock().map(|mut v| std::mem::take(&mut *v)).unwrap_or_default()
}

static LAST_HISTORY: Mutex<String> = Mutex::new(String::new());

pub fn last_history() -> String {
    LAST_HISTORY.lock().map(|s| s.clone()).unwrap_or_default()
}

/// Called by the harness before each call into the crate on behalf of a case.
/// While set, `history_noise` makes no calls (for cases that are themselves about what two
/// consecutive calls on one thread do).
pub static HISTORY_QUIET: std::sync::atomic::AtomicBool = std::sync::atomic::AtomicBool::new(false);

pub fn history_noise() {
    if HISTORY_QUIET.load(Ordering::Relaxed) {
        LAST_HISTORY.lock().unwrap().clear();
        return;
    }
    let t = HISTORY_TICK.fetch_add(1, Ordering::Relaxed);
    // pseudo-random in the call number (not periodic, so that it cannot fall into step with a
    // suite that makes a fixed number of calls per case), deterministic across runs
    let mut z = t.wrapping_add(0x9E3779B97F4A7C15);
    z = (z ^ (z >> 30)).wrapping_mul(0xBF58476D1CE4E5B9);
    z = (z ^ (z >> 27)).wrapping_mul(0x94D049BB133111EB);
    z ^= z >> 31;
    if z % 4 != 0 {
        LAST_HISTORY.lock().unwrap().clear();
        return;
    }
    let k = (z >> 8) % 19;
    let mut e = HEntity::new(1000);
    e.etag = Some(b"\"other-entity\"".to_vec());
    e.mtime = Some(UNIX_EPOCH + Duration::new(1_000_000_000, 123));
    e.headers = vec![
        ("content-encoding".into(), b"gzip".to_vec()),
        ("vary".into(), b"accept-encoding".to_vec()),
        ("x-other-entity".into(), b"leak".to_vec()),
        ("content-type".into(), b"application/x-other".to_vec()),
    ];
    let mut q = HReq::get();
    let mut drain = true;
    let what = match k {
        0 => { q.range = Some(b"bytes=0-0, 5-5".to_vec()); "multipart GET of another entity, drained" }
        1 => { q.range = Some(b"bytes=0-0, 5-5".to_vec()); drain = false; "multipart GET of another entity, body dropped unpolled" }
        2 => { q.range = Some(b"bytes=0-0, 5-5".to_vec()); q.method = "HEAD".into(); "multipart HEAD of another entity" }
        3 => { q.if_none_match = Some(b"*".to_vec()); "304 for another entity" }
        4 => { q.if_match = Some(b"\"nope\"".to_vec()); "412 for another entity" }
        5 => { q.range = Some(b"bytes=5000-".to_vec()); "416 for another entity" }
        6 => { q.range = Some(b"bytes=7-".to_vec()); "single-range GET of another entity, drained" }
        7 => { "plain GET of another entity, drained" }
        // requests abandoned half-way through parsing
        10 => { q.range = Some(b"bytes=900-901,oops".to_vec()); "a Range list with a valid spec and then a malformed one" }
        11 => { q.if_none_match = Some(b"\"other-entity\", \"b\", oops".to_vec()); q.if_match = Some(b"\"a\", W/".to_vec()); "entity-tag lists that turn malformed after valid tags" }
        12 => { q.range = Some(b"bytes=0-0,5-5".to_vec()); q.if_range = Some(b"\"other-entity\"".to_vec()); "multipart GET of another entity with a matching If-Range, drained" }
        // a handler that panicked half-way (the panic caught, the thread reused, as a tokio
        // worker is after a task panicked)
        13 => { q.range = Some(b"bytes=0-0, 5-5".to_vec()); e.panic_at = 1; "multipart GET of another entity whose add_headers panicked after adding its headers" }
        14 => { e.panic_at = 1; "plain GET of another entity whose add_headers panicked after adding its headers" }
        15 => { q.range = Some(b"bytes=0-0, 5-5".to_vec()); e.panic_at = 5; "multipart GET of another entity whose get_range panicked" }
        16 => { q.if_none_match = Some(b"\"x\"".to_vec()); e.panic_at = 2; "conditional GET of another entity whose etag() panicked" }
        17 => { q.range = Some(b"bytes=1-2".to_vec()); e.panic_at = 3; "range GET of another entity whose last_modified() panicked" }
        18 => { q.range = Some(b"bytes=1-2,4-5".to_vec()); e.panic_at = 4; "multi-range GET of another entity whose len() panicked" }
        8 | _ => {
            // a streaming body negotiated for another client
            let ae: &[u8] = if k == 8 { b"gzip" } else { b"GZIP;q=0, identity" };
            let _ = std::panic::catch_unwind(std::panic::AssertUnwindSafe(|| {
                let req = http::Request::get("/").header("accept-encoding", HeaderValue::from_bytes(ae).unwrap()).body(()).unwrap();
                let (resp, w) = http_serve::streaming_body(&req).with_chunk_size(5).with_gzip_level(if k == 8 { 9 } else { 0 }).build::<Bytes, BoxError>();
                if let Some(mut w) = w {
                    use std::io::Write as _;
                    let _ = w.write_all(b"other client's bytes");
                    let _ = w.flush();
                }
                drop(drive_to_end(resp.into_body(), 64));
            }));
            *LAST_HISTORY.lock().unwrap() = format!("a streaming body for Accept-Encoding: {}", String::from_utf8_lossy(ae));
            return;
        }
    };
    let _ = std::panic::catch_unwind(std::panic::AssertUnwindSafe(|| {
        let resp = http_serve::serve(e.clone(), &q.build());
        if drain {
            drop(drive_to_end(resp.into_body(), 64));
        }
    }));
    *LAST_HISTORY.lock().unwrap() = what.to_string();
}

pub fn call_serve(
    q: &HReq,
    e: &HEntity,
) -> Result<(http::Response<SBody>, u64, u64), ()> {
    history_noise();
    let req = q.build();
    let before = secs_now();
    let ent = e.clone();
    let r = std::panic::catch_unwind(std::panic::AssertUnwindSafe(|| {
        http_serve::serve(ent, &req)
    }));
    let after = secs_now();
    r.map(|resp| (resp, before, after)).map_err(|_| ())
}

/// Canonical `name=value` list (sorted; Date/Last-Modified as `@secs`) of a header map, and the
/// clock value read off the `Date` header.
pub fn canon_headers(h: &HeaderMap) -> (Vec<(String, String)>, u64) {
    let mut now = 0;
    let mut headers: Vec<(String, String)> = h
        .iter()
        .map(|(k, v)| {
            let n = k.as_str().to_string();
            if n == "date" || n == "last-modified" {
                if let DateH::Secs(s) = classify_date(v.as_bytes()) {
                    if n == "date" {
                        now = s;
                    }
                    return (n, format!("@{}", s));
                }
            }
            (n, hex(v.as_bytes()))
        })
        .collect();
    headers.sort_by(|a, b| format!("{}={}", a.0, a.1).cmp(&format!("{}={}", b.0, b.1)));
    (headers, now)
}

/// Observe the response to `q` on a fresh copy of `e`: status, headers, entity calls, and the
/// body plan (for multipart harvested from an honest reference drain).
pub fn observe_serve(q: &HReq, e0: &HEntity) -> Observed {
    let e = e0.fresh(vec![]);
    let (resp, before, after) = match call_serve(q, &e) {
        Ok(x) => x,
        Err(()) => {
            return Observed {
                panicked: true,
                status: 0,
                headers: vec![],
                raw_headers: vec![],
                plan: Plan::Unknown("panic".into()),
                calls: e.log.lock().unwrap().clone(),
                now: 0,
                clock_ok: true,
            }
        }
    };
    let status = resp.status().as_u16();
    let mut raw_headers: Vec<(String, Vec<u8>)> = resp
        .headers()
        .iter()
        .map(|(k, v)| (k.as_str().to_string(), v.as_bytes().to_vec()))
        .collect();
    raw_headers.sort();
    let mut now = 0;
    let mut clock_ok = true;
    let mut headers: Vec<(String, String)> = raw_headers
        .iter()
        .map(|(n, v)| {
            if n == "date" || n == "last-modified" {
                match classify_date(v) {
                    DateH::Secs(s) => {
                        if n == "date" {
                            now = s;
                            clock_ok = before <= s && s <= after;
                        }
                        (n.clone(), format!("@{}", s))
                    }
                    _ => (n.clone(), hex(v)),
                }
            } else {
                (n.clone(), hex(v))
            }
        })
        .collect();
    headers.sort_by(|a, b| format!("{}={}", a.0, a.1).cmp(&format!("{}={}", b.0, b.1)));
    let calls_at_serve = e.log.lock().unwrap().clone();
    let body = resp.into_body();
    let hint = body.size_hint();
    let eos = body.is_end_stream();
    let exact_call = calls_at_serve.iter().find_map(|c| match c {
        Call::GetRange(a, b) => Some((*a, *b)),
        _ => None,
    });
    let is_multipart = status == 206
        && raw_headers
            .iter()
            .any(|(n, v)| n == "content-type" && v.starts_with(b"multipart/byteranges"))
        && q.method != "HEAD";
    let plan = if let Some((a, b)) = exact_call {
        Plan::Exact(a, b)
    } else if is_multipart {
        harvest_multipart(body, &e, hint.lower())
    } else if eos && hint.lower() == 0 {
        Plan::Empty
    } else if hint.upper() == Some(hint.lower()) {
        Plan::Once(hint.lower())
    } else {
        Plan::Unknown(format!("hint={:?}", hint))
    };
    Observed {
        panicked: false,
        status,
        headers,
        raw_headers,
        plan,
        calls: calls_at_serve,
        now,
        clock_ok,
    }
}

/// Drains a multipart body whose entity answers honestly (one chunk per range) and reads the
/// part headers off the frame sequence: header, chunk, header, chunk, ..., trailer.
fn harvest_multipart(body: SBody, e: &HEntity, len: u64) -> Plan {
    let mut body = Box::pin(body);
    let waker = noop_waker();
    let mut cx = Context::from_waker(&waker);
    let mut frames: Vec<Vec<u8>> = vec![];
    let mut first: Option<Vec<u8>> = None;
    loop {
        let before_calls = e.log.lock().unwrap().len();
        let r = std::panic::catch_unwind(std::panic::AssertUnwindSafe(|| {
            body.as_mut().poll_frame(&mut cx)
        }));
        match r {
            Err(_) => {
                std::mem::forget(body);
                return Plan::Unknown("panic-during-harvest".into());
            }
            Ok(Poll::Ready(Some(Ok(f)))) => {
                let d = f.into_data().map(|d| d.to_vec()).unwrap_or_default();
                if first.is_none() {
                    first = Some(d.clone());
                }
                frames.push(d);
            }
            Ok(Poll::Ready(Some(Err(_)))) => {
                // The range was too large for an honest answer: only the head is known.
                return match first {
                    Some(ph) => Plan::MultipartHead(ph, len),
                    None => Plan::Unknown("error-before-first-frame".into()),
                };
            }
            Ok(Poll::Ready(None)) => break,
            Ok(Poll::Pending) => {}
        }
        let _ = before_calls;
        if frames.len() > 10_000 {
            return Plan::Unknown("harvest-too-long".into());
        }
    }
    let ranges: Vec<(u64, u64)> = e
        .log
        .lock()
        .unwrap()
        .iter()
        .filter_map(|c| match c {
            Call::GetRange(a, b) => Some((*a, *b)),
            _ => None,
        })
        .collect();
    // frames: ph0, data0, ph1, data1, ..., trailer   (every honest range is non-empty)
    if frames.len() != 2 * ranges.len() + 1 {
        return Plan::Unknown(format!(
            "frames={} ranges={}",
            frames.len(),
            ranges.len()
        ));
    }
    let phs = (0..ranges.len()).map(|i| frames[2 * i].clone()).collect();
    Plan::Multipart(phs, ranges, len)
}

/// Run the real body for `q` on `e` with the given scripts; returns the poll records and the
/// `get_range` log. `None` if `serve` itself panicked.
pub fn run_body(
    q: &HReq,
    e0: &HEntity,
    scripts: &[Vec<Ev>],
    polls: usize,
) -> Option<(Vec<PollRec>, Vec<(u64, u64)>)> {
    let e = e0.fresh(scripts.to_vec());
    let (resp, _, _) = call_serve(q, &e).ok()?;
    OVERPOLLS.with(|c| c.set(0));
    let recs = drive(resp.into_body(), polls);
    let calls = e
        .log
        .lock()
        .unwrap()
        .iter()
        .filter_map(|c| match c {
            Call::GetRange(a, b) => Some((*a, *b)),
            _ => None,
        })
        .collect();
    Some((recs, calls))
}

/// Canonical form of a poll trace, as the model's `BODY` reply.
pub fn show_body(recs: &[PollRec], once: bool, multipart_calls: Option<&[(u64, u64)]>, over: u64) -> String {
    let polls = recs
        .iter()
        .map(|r| {
            let h = if r.upper == Some(r.lower) {
                r.lower.to_string()
            } else {
                format!("{}..{:?}", r.lower, r.upper)
            };
            format!("{} {} {}", h, if r.eos { 1 } else { 0 }, r.out.show(once))
        })
        .collect::<Vec<_>>()
        .join(" | ");
    let calls = multipart_calls
        .map(|c| {
            c.iter()
                .map(|(a, b)| format!("{}-{}", a, b))
                .collect::<Vec<_>>()
                .join(",")
        })
        .unwrap_or_default();
    format!("{} calls={} over={}", polls, calls, over)
}

pub fn body_line(plan: &Plan, scripts: &[Vec<Ev>], polls: usize) -> String {
    format!(
        "BODY plan={} scripts={} polls={}",
        plan.show(),
        show_scripts(scripts),
        polls
    )
}

// ---------------------------------------------------------------------------------------
// Output records

pub struct Emit {
    pub out: Box<dyn std::io::Write>,
    pub n: u64,
}

// ---- watchdog: a hang or livelock of the code under test becomes a reported failing input

static PROGRESS: std::sync::atomic::AtomicU64 = std::sync::atomic::AtomicU64::new(0);
static CURRENT: Mutex<String> = Mutex::new(String::new());

/// Says what the harness is about to run (cheap: the closure only builds a short description).
/// Counts as progress.
pub fn heartbeat(desc: impl FnOnce() -> String) {
    *CURRENT.lock().unwrap() = desc();
    PROGRESS.fetch_add(1, std::sync::atomic::Ordering::Relaxed);
}

/// What the last heartbeat said was running.
pub fn current_desc() -> String {
    let cur = CURRENT.lock().map(|c| c.clone()).unwrap_or_default();
    if cur.is_empty() {
        "(the case after the last record)".to_string()
    } else {
        cur.replace(['\t', '\n'], " ")
    }
}

/// Standard output shared between the suites and the watchdog.
#[derive(Clone)]
pub struct SharedOut(pub Arc<Mutex<std::io::BufWriter<std::io::Stdout>>>);

impl std::io::Write for SharedOut {
    fn write(&mut self, buf: &[u8]) -> std::io::Result<usize> {
        PROGRESS.fetch_add(1, std::sync::atomic::Ordering::Relaxed);
        self.0.lock().unwrap().write(buf)
    }
    fn flush(&mut self) -> std::io::Result<()> {
        self.0.lock().unwrap().flush()
    }
}

/// Starts the watchdog thread: when neither a record nor a heartbeat has happened for `secs`
/// seconds, it emits a failed predicate naming what was running and ends the process (the
/// records written so far stay valid).
pub fn start_watchdog(out: SharedOut, secs: u64) {
    std::thread::spawn(move || {
        use std::io::Write as _;
        let mut last = PROGRESS.load(std::sync::atomic::Ordering::Relaxed);
        let mut idle = 0u64;
        loop {
            std::thread::sleep(Duration::from_secs(1));
            let now = PROGRESS.load(std::sync::atomic::Ordering::Relaxed);
            if now != last {
                last = now;
                idle = 0;
                continue;
            }
            idle += 1;
            if idle >= secs {
                let cur = CURRENT.lock().map(|c| c.clone()).unwrap_or_default();
                let desc = if cur.is_empty() { "(the case after the last record)".to_string() } else { cur };
                let mut o = out.0.lock().unwrap_or_else(|e| e.into_inner());
                let _ = writeln!(
                    o,
                    "PRED\t{}\tFAIL:no progress for {} s: hang or livelock in the code under test\thang",
                    desc.replace(['\t', '\n'], " "),
                    secs
                );
                let _ = o.flush();
                std::process::exit(0);
            }
        }
    });
}

impl Emit {
    /// One case: the protocol line for the model, the implementation's canonical output, the
    /// verdict of the implementation-side predicate (`ok` or `FAIL:<why>`), a class key for the
    /// coverage histogram.
    pub fn case(&mut self, line: &str, impl_out: &str, pred: &str, class: &str) {
        debug_assert!(!line.contains('\t') && !impl_out.contains('\t'));
        // a failure right after a history call names that call (see `history_noise`)
        let h = if pred == "ok" { String::new() } else { last_history() };
        let pred = if h.is_empty() { pred.to_string() } else { format!("{} [the call before this one on the same thread: {}]", pred, h) };
        let unwound = take_unwound();
        let notes = take_case_notes();
        let pred = if pred != "ok" && !notes.is_empty() { format!("{} [{}]", pred, notes.join("; ")) } else { pred };
        let pred = if pred != "ok" && unwound { format!("{} [a writer or body was dropped by stack unwinding (its owner panicked)]", pred) } else { pred };
        writeln!(self.out, "CASE\t{}\t{}\t{}\t{}", line, impl_out, pred, class).unwrap();
        self.n += 1;
    }
    /// A known finding matched by this case (the check prints it and does not count it).
    pub fn known(&mut self, id: &str, what: &str) {
        writeln!(self.out, "KNOWN\t{}\t{}", id, what).unwrap();
    }
    /// A check of the implementation alone (nothing for the model to say).
    pub fn pred_only(&mut self, desc: &str, pred: &str, class: &str) {
        let notes = take_case_notes();
        let unwound = take_unwound();
        let mut pred = pred.to_string();
        if pred != "ok" {
            if !notes.is_empty() {
                pred = format!("{} [{}]", pred, notes.join("; "));
            }
            if unwound {
                pred = format!("{} [a writer or body was dropped by stack unwinding]", pred);
            }
        }
        writeln!(self.out, "PRED\t{}\t{}\t{}", desc, pred, class).unwrap();
        self.n += 1;
    }
    pub fn note(&mut self, k: &str, v: &str) {
        writeln!(self.out, "NOTE\t{}\t{}", k, v).unwrap();
    }
}

pub fn pred(ok: bool, why: impl FnOnce() -> String) -> String {
    if ok {
        "ok".into()
    } else {
        format!("FAIL:{}", why().replace(['\t', '\n'], " "))
    }
}


// ---------------------------------------------------------------------------------------
// A data type that is not one contiguous slice: `Entity::Data` only has to be a `Buf`.

/// A rope: `remaining()` is the total, `chunk()` only the first segment.
#[derive(Clone, Debug, Default)]
pub struct Rope(pub VecDeque<Bytes>);

impl Rope {
    /// `bytes` cut into up to three segments (never an empty first segment unless all is empty).
    pub fn split(bytes: &[u8]) -> Rope {
        let n = bytes.len();
        let cuts: Vec<usize> = if n >= 3 { vec![1, n - 1] } else if n == 2 { vec![1] } else { vec![] };
        let mut segs = VecDeque::new();
        let mut prev = 0;
        for c in cuts.into_iter().chain(std::iter::once(n)) {
            if c > prev {
                segs.push_back(Bytes::copy_from_slice(&bytes[prev..c]));
                prev = c;
            }
        }
        Rope(segs)
    }
}

impl bytes::Buf for Rope {
    fn remaining(&self) -> usize {
        self.0.iter().map(|b| b.len()).sum()
    }
    fn chunk(&self) -> &[u8] {
        self.0.front().map_or(&[], |b| &b[..])
    }
    fn advance(&mut self, mut cnt: usize) {
        while cnt > 0 {
            let front = self.0.front_mut().expect("advance past the end");
            if cnt >= front.len() {
                cnt -= front.len();
                self.0.pop_front();
            } else {
                bytes::Buf::advance(front, cnt);
                cnt = 0;
            }
        }
        while self.0.front().map_or(false, |b| b.is_empty()) {
            self.0.pop_front();
        }
    }
}

impl From<Vec<u8>> for Rope {
    fn from(v: Vec<u8>) -> Rope {
        Rope::split(&v)
    }
}

impl From<&'static [u8]> for Rope {
    fn from(v: &'static [u8]) -> Rope {
        Rope::split(v)
    }
}

/// The harness entity with `Data = Rope`: the same scripts, every chunk handed over in segments.
#[derive(Clone)]
pub struct RopeEntity(pub HEntity);

impl http_serve::Entity for RopeEntity {
    type Error = BoxError;
    type Data = Rope;
    fn len(&self) -> u64 {
        http_serve::Entity::len(&self.0)
    }
    fn get_range(&self, range: Range<u64>) -> Pin<Box<dyn Stream<Item = Result<Rope, BoxError>> + Send + Sync>> {
        let inner = self.0.get_range(range);
        Box::pin(RopeStream(inner))
    }
    fn add_headers(&self, h: &mut HeaderMap) {
        self.0.add_headers(h)
    }
    fn etag(&self) -> Option<HeaderValue> {
        self.0.etag()
    }
    fn last_modified(&self) -> Option<SystemTime> {
        self.0.last_modified()
    }
}

struct RopeStream(Pin<Box<dyn Stream<Item = Result<Bytes, BoxError>> + Send + Sync>>);

impl Stream for RopeStream {
    type Item = Result<Rope, BoxError>;
    fn size_hint(&self) -> (usize, Option<usize>) {
        self.0.size_hint()
    }
    fn poll_next(mut self: Pin<&mut Self>, cx: &mut Context<'_>) -> Poll<Option<Self::Item>> {
        match self.0.as_mut().poll_next(cx) {
            Poll::Ready(Some(Ok(b))) => Poll::Ready(Some(Ok(Rope::split(&b)))),
            Poll::Ready(Some(Err(e))) => Poll::Ready(Some(Err(e))),
            Poll::Ready(None) => Poll::Ready(None),
            Poll::Pending => Poll::Pending,
        }
    }
}

/// `run_body` with the segmented data type.
pub fn run_body_rope(q: &HReq, e0: &HEntity, scripts: &[Vec<Ev>], polls: usize) -> Option<(Vec<PollRec>, Vec<(u64, u64)>)> {
    let e = e0.fresh(scripts.to_vec());
    history_noise();
    let req = q.build();
    let ent = RopeEntity(e.clone());
    let resp = std::panic::catch_unwind(std::panic::AssertUnwindSafe(|| http_serve::serve(ent, &req))).ok()?;
    OVERPOLLS.with(|c| c.set(0));
    let recs = drive_any(resp.into_body(), polls, false);
    let calls = e.log.lock().unwrap().iter().filter_map(|c| match c {
        Call::GetRange(a, b) => Some((*a, *b)),
        _ => None,
    }).collect();
    Some((recs, calls))
}
