//! C18 (`ChunkedReadFile`) and C19 (`dir::FsDir`) on real temporary files.

use crate::common::*;
use std::os::unix::fs::FileExt as _;
use bytes::Bytes;
use http::header::{HeaderMap, HeaderValue};
use http_serve::Entity;
use std::os::unix::fs::{MetadataExt, OpenOptionsExt};
use std::path::Path;
use std::sync::{Arc, Mutex};
use std::task::{Context, Poll};
use std::time::{Duration, UNIX_EPOCH};

type Crf = http_serve::ChunkedReadFile<Bytes, BoxError>;

fn rt() -> tokio::runtime::Runtime {
    tokio::runtime::Builder::new_multi_thread()
        .worker_threads(2)
        .enable_all()
        .build()
        .unwrap()
}

fn write_file(p: &Path, size: u64) {
    std::fs::write(p, content(0..size)).unwrap();
}

#[derive(Clone, Debug, PartialEq, Eq)]
enum FOut {
    Chunk(u64, Vec<u8>),
    Eof,
    OtherErr(String),
    End,
    Panic,
}

/// Polls `get_range(a..b)` on a worker thread of a multi-thread runtime; before poll `k` the
/// file is truncated to `trunc[k]` if that is `Some`. Returns outcomes and the file size at
/// each poll.
fn poll_file(
    rt: &tokio::runtime::Runtime,
    path: &Path,
    crf: &Arc<Crf>,
    a: u64,
    b: u64,
    trunc: &[Option<u64>],
    max_polls: usize,
) -> (Vec<FOut>, Vec<u64>) {
    let path = path.to_path_buf();
    let crf = crf.clone();
    let trunc = trunc.to_vec();
    rt.block_on(async move {
        tokio::spawn(async move {
            let mut outs = vec![];
            let mut sizes = vec![];
            let r = std::panic::catch_unwind(std::panic::AssertUnwindSafe(|| {
                let mut s = crf.get_range(a..b);
                let waker = noop_waker();
                let mut cx = Context::from_waker(&waker);
                let mut pos = a;
                for k in 0..max_polls {
                    if let Some(Some(t)) = trunc.get(k) {
                        let f = std::fs::OpenOptions::new().write(true).open(&path).unwrap();
                        f.set_len(*t).unwrap();
                    }
                    sizes.push(std::fs::metadata(&path).unwrap().len());
                    match s.as_mut().poll_next(&mut cx) {
                        Poll::Ready(Some(Ok(d))) => {
                            outs.push(FOut::Chunk(pos, d.to_vec()));
                            pos += d.len() as u64;
                        }
                        Poll::Ready(Some(Err(e))) => {
                            let kind = e
                                .downcast_ref::<std::io::Error>()
                                .map(|e| e.kind());
                            if kind == Some(std::io::ErrorKind::UnexpectedEof) {
                                outs.push(FOut::Eof);
                            } else {
                                outs.push(FOut::OtherErr(e.to_string()));
                            }
                        }
                        Poll::Ready(None) => {
                            outs.push(FOut::End);
                            break;
                        }
                        Poll::Pending => outs.push(FOut::OtherErr("pending".into())),
                    }
                }
                std::mem::forget(s);
            }));
            if r.is_err() {
                outs.push(FOut::Panic);
            }
            (outs, sizes)
        })
        .await
        .unwrap()
    })
}

/// Several streams of ONE entity polled round-robin (what a multipart response over a file, or
/// two responses sharing an `Arc`ed entity, do): each must deliver exactly its own range.
fn poll_interleaved(rt: &tokio::runtime::Runtime, crf: &Arc<Crf>, ranges: &[(u64, u64)]) -> Result<(), String> {
    let crf = crf.clone();
    let ranges = ranges.to_vec();
    rt.block_on(async move {
        tokio::spawn(async move {
            std::panic::catch_unwind(std::panic::AssertUnwindSafe(|| {
                let waker = noop_waker();
                let mut cx = Context::from_waker(&waker);
                let mut streams: Vec<_> = ranges.iter().map(|&(a, b)| Some(crf.get_range(a..b))).collect();
                let mut got: Vec<Vec<u8>> = vec![vec![]; ranges.len()];
                for _round in 0..16 {
                    for (i, slot) in streams.iter_mut().enumerate() {
                        let Some(s) = slot else { continue };
                        match s.as_mut().poll_next(&mut cx) {
                            Poll::Ready(Some(Ok(d))) => got[i].extend_from_slice(&d),
                            Poll::Ready(Some(Err(e))) => return Err(format!("stream {} failed: {}", i, e)),
                            Poll::Ready(None) => *slot = None,
                            Poll::Pending => return Err(format!("stream {} pending", i)),
                        }
                    }
                }
                for (i, &(a, b)) in ranges.iter().enumerate() {
                    if streams[i].is_some() {
                        return Err(format!("stream {} ({}..{}) did not end", i, a, b));
                    }
                    if got[i] != content(a..b) {
                        return Err(format!("stream {} ({}..{}) delivered other bytes than its range", i, a, b));
                    }
                }
                Ok(())
            }))
            .unwrap_or_else(|_| Err("panic".into()))
        })
        .await
        .unwrap()
    })
}

/// Streams of ONE entity read truly in parallel: `threads` OS threads (each with its own small
/// runtime, so that the reads really overlap), each draining `rounds` ranges of at least three
/// reads. Every stream must deliver exactly its own range whatever the others do.
fn parallel_streams(crf: &Arc<Crf>, size: u64, threads: usize, rounds: usize) -> Result<(), String> {
    let errors: Arc<Mutex<Vec<String>>> = Default::default();
    let mut hs = vec![];
    for t in 0..threads {
        let crf = crf.clone();
        let errors = errors.clone();
        hs.push(std::thread::spawn(move || {
            let rt = tokio::runtime::Builder::new_multi_thread().worker_threads(1).enable_all().build().unwrap();
            for r in 0..rounds {
                let a = ((t * 7919 + r * 104_729) as u64) % (size / 2);
                let b = (a + 150_000 + (r as u64 % 3) * 17).min(size);
                let crf = crf.clone();
                let res: Result<(), String> = rt.block_on(async move {
                    tokio::spawn(async move {
                        let waker = noop_waker();
                        let mut cx = Context::from_waker(&waker);
                        let mut s = crf.get_range(a..b);
                        let mut got = vec![];
                        for _ in 0..16 {
                            match s.as_mut().poll_next(&mut cx) {
                                Poll::Ready(Some(Ok(d))) => got.extend_from_slice(&d),
                                Poll::Ready(Some(Err(e))) => return Err(format!("{}..{}: {}", a, b, e)),
                                Poll::Ready(None) => break,
                                Poll::Pending => return Err("pending".into()),
                            }
                        }
                        std::mem::forget(s);
                        if got == content(a..b) { Ok(()) } else { Err(format!("{}..{}: bytes of another position", a, b)) }
                    })
                    .await
                    .unwrap_or_else(|_| Err("panic".into()))
                });
                if let Err(e) = res {
                    errors.lock().unwrap().push(e);
                    return;
                }
            }
        }));
    }
    for h in hs {
        let _ = h.join();
    }
    let e = errors.lock().unwrap();
    if e.is_empty() { Ok(()) } else { Err(format!("{} of {} threads: {}", e.len(), threads, e[0])) }
}

/// The read size the file entity currently uses — an internal tuning knob (`CHUNK_SIZE`) that
/// the property says nothing depends on; the model takes it as a parameter (`cs=`), the theorems
/// hold for every read size. Measured once: the first chunk of a range over a sparse file of
/// 256 MiB (a read size of 256 MiB or more is reported as "everything available").
fn observed_read_size(rt: &tokio::runtime::Runtime) -> u64 {
    static CS: std::sync::OnceLock<u64> = std::sync::OnceLock::new();
    *CS.get_or_init(|| {
        const PROBE: u64 = 256 << 20;
        let tmp = tempfile::tempdir().unwrap();
        let path = tmp.path().join("probe");
        std::fs::File::create(&path).unwrap().set_len(PROBE).unwrap();
        let crf = Arc::new(Crf::new(std::fs::File::open(&path).unwrap(), HeaderMap::new()).unwrap());
        let (outs, _) = poll_file(rt, &path, &crf, 0, PROBE, &[], 1);
        match outs.first() {
            Some(FOut::Chunk(_, d)) if !d.is_empty() && (d.len() as u64) < PROBE => d.len() as u64,
            Some(FOut::Chunk(_, d)) if !d.is_empty() => u64::MAX / 4,
            // (no usable measurement: the pinned crate's value; the cases will tell)
            _ => 65536,
        }
    })
}

fn show_fouts(o: &[FOut]) -> String {
    o.iter()
        .map(|x| match x {
            FOut::Chunk(s, d) => format!("C{}+{}", s, d.len()),
            FOut::Eof => "EOF".into(),
            FOut::OtherErr(s) => format!("E?{}", hex(s.as_bytes())),
            FOut::End => "END".into(),
            FOut::Panic => "PANIC".into(),
        })
        .collect::<Vec<_>>()
        .join(" ")
}

fn etag_fields(m: &std::fs::Metadata) -> (u64, u64, u64, u32) {
    let d = m.modified().unwrap().duration_since(UNIX_EPOCH).unwrap();
    (m.ino(), m.len(), d.as_secs(), d.subsec_nanos())
}

fn valid_strong_tag(t: &[u8]) -> bool {
    t.len() >= 2
        && t[0] == b'"'
        && t[t.len() - 1] == b'"'
        && !t[1..t.len() - 1].contains(&b'"')
        && t[1..t.len() - 1]
            .iter()
            .all(|&c| c == 0x21 || (0x23..=0x7e).contains(&c) || c >= 0x80)
}

pub fn c18(em: &mut Emit, thorough: bool, _seed: u64) {
    file_outside_runtime(em);
    let rt = rt();
    let tmp = tempfile::tempdir().unwrap();
    let sizes: [u64; 7] = [0, 1, 65535, 65536, 65537, 131072, 200001];
    for &size in &sizes {
        let path = tmp.path().join(format!("f{}", size));
        write_file(&path, size);
        let mut marks: Vec<u64> = vec![0, 1, 65535, 65536, 65537, 131071, 131072, 131073];
        marks.push(size.saturating_sub(1));
        marks.push(size);
        marks.retain(|&m| m <= size);
        marks.sort();
        marks.dedup();
        for &a in &marks {
            for &b in &marks {
                if a > b {
                    continue;
                }
                // --- unchanged file
                let crf = Arc::new(Crf::new(std::fs::File::open(&path).unwrap(), HeaderMap::new()).unwrap());
                let (outs, fsizes) = poll_file(&rt, &path, &crf, a, b, &[], 8);
                let mut ok = true;
                let mut why = String::new();
                let mut got = vec![];
                for o in &outs {
                    match o {
                        FOut::Chunk(_, d) => {
                            // (non-empty; how large is the read size's business — the model
                            // comparison knows the current one, the property does not care)
                            if d.is_empty() {
                                ok = false;
                                why = "empty chunk".into();
                            }
                            got.extend_from_slice(d);
                        }
                        FOut::End => {}
                        other => {
                            ok = false;
                            why = format!("unexpected {:?}", other);
                        }
                    }
                }
                if ok && outs.last() != Some(&FOut::End) {
                    ok = false;
                    why = "stream did not end".into();
                }
                if ok && got != content(a..b) {
                    ok = false;
                    why = "bytes differ from the file".into();
                }
                if ok && (crf.len() != size) {
                    ok = false;
                    why = "len() is not the file's length".into();
                }
                em.case(
                    &format!(
                        "FILE start={} end={} sizes={} cs={}",
                        a,
                        b,
                        fsizes.iter().map(|s| s.to_string()).collect::<Vec<_>>().join(","),
                        observed_read_size(&rt)
                    ),
                    &show_fouts(&outs),
                    &pred(ok, || why.clone()),
                    &format!("plain:{}:{}", size, outs.len().min(5)),
                );
                // --- truncation between construction and each poll
                if a == b {
                    continue;
                }
                let mut targets = vec![0, a, a + 1, (a + b) / 2, b - 1];
                targets.retain(|&t| t < b);
                targets.sort();
                targets.dedup();
                let ks: &[usize] = if thorough { &[0, 1, 2, 3] } else { &[0, 1, 2] };
                for &t in &targets {
                    for &k in ks {
                        write_file(&path, size);
                        let crf = Arc::new(
                            Crf::new(std::fs::File::open(&path).unwrap(), HeaderMap::new()).unwrap(),
                        );
                        let mut trunc = vec![None; k + 1];
                        trunc[k] = Some(t);
                        let (outs, fsizes) = poll_file(&rt, &path, &crf, a, b, &trunc, 8);
                        // property: never a clean end short of the range; an error within a
                        // bounded number of polls; bytes delivered are file bytes
                        let mut ok = true;
                        let mut why = String::new();
                        let mut n = 0u64;
                        let mut errored = false;
                        for o in &outs {
                            match o {
                                FOut::Chunk(s, d) => {
                                    if *d != content(*s..*s + d.len() as u64) || d.is_empty() {
                                        ok = false;
                                        why = "chunk bytes are not the file's".into();
                                    }
                                    n += d.len() as u64;
                                }
                                FOut::Eof => errored = true,
                                // (an error of another type or kind is a failure signal too)
                                FOut::OtherErr(e) if e != "pending" => errored = true,
                                FOut::End => {
                                    if n != b - a {
                                        ok = false;
                                        why = format!("clean end after {} of {} bytes", n, b - a);
                                    }
                                }
                                other => {
                                    ok = false;
                                    why = format!("unexpected {:?}", other);
                                }
                            }
                        }
                        if ok && n < b - a && !errored {
                            ok = false;
                            why = "truncated file: neither all bytes nor an error within 8 polls".into();
                        }
                        em.case(
                            &format!(
                                "FILE start={} end={} sizes={} cs={}",
                                a,
                                b,
                                fsizes.iter().map(|s| s.to_string()).collect::<Vec<_>>().join(","),
                                observed_read_size(&rt)
                            ),
                            &show_fouts(&outs),
                            &pred(ok, || why.clone()),
                            &format!("trunc:{}:{}", k, if errored { "err" } else { "full" }),
                        );
                    }
                }
                write_file(&path, size);
            }
        }
        // --- several streams of one entity, interleaved
        if size >= 2 {
            let crf = Arc::new(Crf::new(std::fs::File::open(&path).unwrap(), HeaderMap::new()).unwrap());
            let m = size / 2;
            for ranges in [
                vec![(0, size), (0, size)],
                vec![(m, size), (0, m)],
                vec![(size - 1, size), (0, 1), (m, m + 1)],
                vec![(0, size.min(65537)), (size.saturating_sub(65537), size), (1, size)],
            ] {
                let r = poll_interleaved(&rt, &crf, &ranges);
                em.pred_only(
                    &format!("file of {} bytes, streams {:?} of one entity polled round-robin", size, ranges),
                    &match r { Ok(()) => "ok".to_string(), Err(e) => format!("FAIL:{}", e) },
                    "interleaved",
                );
            }
        }
        // --- streams of one entity read in parallel on several threads
        if size >= 200_000 {
            let crf = Arc::new(Crf::new(std::fs::File::open(&path).unwrap(), HeaderMap::new()).unwrap());
            let (threads, rounds) = if thorough { (12, 200) } else { (8, 60) };
            let r = parallel_streams(&crf, size, threads, rounds);
            em.pred_only(
                &format!("file of {} bytes: {} threads each draining {} ranges of one entity in parallel", size, threads, rounds),
                &match r { Ok(()) => "ok".to_string(), Err(e) => format!("FAIL:{}", e) },
                "parallel",
            );
        }
        // --- one instance, several streams one after the other, the file changed in between
        // (an entity kept in a cache and served again): what an earlier stream read must not
        // stand in for the file
        if size >= 65537 {
            // (first range, second range nested in it or overlapping it, truncate to / overwrite)
            let x = size - 5000;
            let plans: [((u64, u64), (u64, u64), Option<u64>, bool); 8] = [
                ((x + 10, x + 110), (x + 20, x + 100), Some(x + 50), false),
                ((x + 10, x + 110), (x + 10, x + 110), Some(x + 109), false),
                ((x, x + 4096), (x + 1, x + 4095), Some(x + 1), false),
                ((0, 100), (10, 90), Some(0), false),
                ((x + 10, x + 110), (x + 20, x + 100), None, true),
                ((0, 70_000), (65_530, 65_540), Some(65_536), false),
                ((0, 70_000), (65_530, 65_540), None, true),
                ((x + 10, x + 110), (x + 20, x + 100), None, false),
            ];
            for (r1, r2, trunc_to, overwrite) in plans {
                if r1.1 > size || r2.1 > size {
                    continue;
                }
                write_file(&path, size);
                let crf = Arc::new(Crf::new(std::fs::File::open(&path).unwrap(), HeaderMap::new()).unwrap());
                let (o1, _) = poll_file(&rt, &path, &crf, r1.0, r1.1, &[], 8);
                let first_ok = o1.last() == Some(&FOut::End)
                    && o1.iter().filter_map(|o| if let FOut::Chunk(_, d) = o { Some(d.clone()) } else { None }).flatten().collect::<Vec<u8>>() == content(r1.0..r1.1);
                // the change: in place, same inode (the entity holds the descriptor)
                let shift = 7u64;
                if overwrite {
                    std::fs::OpenOptions::new().write(true).open(&path).unwrap().write_all_at(&content(shift..size + shift), 0).unwrap();
                }
                let trunc = [trunc_to];
                let (o2, _) = poll_file(&rt, &path, &crf, r2.0, r2.1, if trunc_to.is_some() { &trunc[..] } else { &[] }, 8);
                let now_content = |a: u64, b: u64| if overwrite { content(a + shift..b + shift) } else { content(a..b) };
                let mut ok = first_ok;
                let mut why = if first_ok { String::new() } else { "the first stream did not deliver its range".to_string() };
                let mut n = 0u64;
                let mut errored = false;
                for o in &o2 {
                    match o {
                        FOut::Chunk(s, d) => {
                            if *d != now_content(*s, *s + d.len() as u64) || d.is_empty() {
                                ok = false;
                                why = "the second stream's bytes are not what the file holds now".into();
                            }
                            n += d.len() as u64;
                        }
                        FOut::Eof => errored = true,
                                // (an error of another type or kind is a failure signal too)
                                FOut::OtherErr(e) if e != "pending" => errored = true,
                        FOut::End => {
                            if n != r2.1 - r2.0 {
                                ok = false;
                                why = format!("clean end after {} of {} bytes", n, r2.1 - r2.0);
                            }
                        }
                        other => {
                            ok = false;
                            why = format!("unexpected {:?}", other);
                        }
                    }
                }
                if ok && matches!(trunc_to, Some(t) if t < r2.1) && !errored {
                    ok = false;
                    why = format!("file truncated to {} before the second stream over {}..{}: no error within 8 polls ({})", trunc_to.unwrap(), r2.0, r2.1, show_fouts(&o2));
                }
                if ok && trunc_to.is_none() && (n != r2.1 - r2.0 || errored) {
                    ok = false;
                    why = "second stream over an intact file failed".into();
                }
                em.pred_only(
                    &format!(
                        "file of {} bytes, one instance: stream {}..{} drained, then {}, then stream {}..{}",
                        size, r1.0, r1.1,
                        match (trunc_to, overwrite) { (Some(t), _) => format!("truncated to {}", t), (None, true) => "overwritten in place".to_string(), _ => "nothing".to_string() },
                        r2.0, r2.1
                    ),
                    &pred(ok, || why.clone()),
                    "reuse",
                );
            }
            // truncated, seen to be truncated by one stream, grown back, read again by another
            // stream of the SAME instance: what one stream learnt about the end of the file is
            // not a fact about the file
            {
                write_file(&path, size);
                let crf = Arc::new(Crf::new(std::fs::File::open(&path).unwrap(), HeaderMap::new()).unwrap());
                std::fs::OpenOptions::new().write(true).open(&path).unwrap().set_len(size / 2).unwrap();
                let (o1, _) = poll_file(&rt, &path, &crf, 0, size, &[], 8);
                let saw_eof = o1.iter().any(|o| matches!(o, FOut::Eof | FOut::OtherErr(_)));
                write_file(&path, size);
                let (o2, _) = poll_file(&rt, &path, &crf, 0, size, &[], 8);
                let got: Vec<u8> = o2.iter().filter_map(|o| if let FOut::Chunk(_, d) = o { Some(d.clone()) } else { None }).flatten().collect();
                let ok = saw_eof && o2.last() == Some(&FOut::End) && got == content(0..size);
                em.pred_only(
                    &format!("file of {} bytes, one instance: truncated to {} and read (fails), written back in full, read again", size, size / 2),
                    &pred(ok, || format!("first stream failed: {}; second stream: {}", saw_eof, show_fouts(&o2))),
                    "reuse-regrow",
                );
            }
            write_file(&path, size);
        }
        // --- ETag / metadata
        let f1 = Crf::new(std::fs::File::open(&path).unwrap(), HeaderMap::new()).unwrap();
        let f2 = Crf::new(std::fs::File::open(&path).unwrap(), HeaderMap::new()).unwrap();
        let m = std::fs::metadata(&path).unwrap();
        let (ino, len, secs, nanos) = etag_fields(&m);
        let t1 = f1.etag().unwrap().as_bytes().to_vec();
        let t2 = f2.etag().unwrap().as_bytes().to_vec();
        let mut ok = valid_strong_tag(&t1) && t1 == t2;
        let mut why = "etag invalid or unstable".to_string();
        if ok && (f1.len() != len || f1.last_modified() != Some(m.modified().unwrap())) {
            ok = false;
            why = "len/last_modified differ from fstat".into();
        }
        em.case(
            &format!("ETAG ino={} len={} secs={} nanos={}", ino, len, secs, nanos),
            &hex(&t1),
            &pred(ok, || why.clone()),
            "etag:base",
        );
        // operations that leave inode, length, modification time and bytes alone (they only move
        // the inode change time): every instance still reports the same tag
        {
            use std::os::unix::fs::PermissionsExt;
            let link = tmp.path().join(format!("link{}", size));
            let moved = tmp.path().join(format!("moved{}", size));
            let ops: [(&str, Box<dyn Fn()>); 4] = [
                ("hard_link", Box::new(|| std::fs::hard_link(&path, &link).unwrap())),
                ("unlink of the other name", Box::new(|| std::fs::remove_file(&link).unwrap())),
                ("chmod", Box::new(|| std::fs::set_permissions(&path, std::fs::Permissions::from_mode(0o640)).unwrap())),
                ("rename away and back", Box::new(|| {
                    std::fs::rename(&path, &moved).unwrap();
                    std::fs::rename(&moved, &path).unwrap();
                })),
            ];
            for (what, op) in &ops {
                std::thread::sleep(Duration::from_millis(12));
                op();
                let g = Crf::new(std::fs::File::open(&path).unwrap(), HeaderMap::new()).unwrap();
                let m = std::fs::metadata(&path).unwrap();
                let (ino, len, s, n) = etag_fields(&m);
                let t = g.etag().unwrap().as_bytes().to_vec();
                em.case(
                    &format!("ETAG ino={} len={} secs={} nanos={}", ino, len, s, n),
                    &hex(&t),
                    &pred(t == t1, || format!("etag of an unmodified file changed after {}", what)),
                    "etag:attr-only",
                );
            }
        }
        // change mtime, then length, then identity: the tag must change every time
        let f = std::fs::OpenOptions::new().write(true).open(&path).unwrap();
        for (what, nsecs, nnanos) in [("mtime-sec", secs + 1, nanos), ("mtime-nsec", secs + 1, 1), ("mtime-nsec2", secs + 1, 999_999_999)] {
            f.set_modified(UNIX_EPOCH + Duration::new(nsecs, nnanos)).unwrap();
            let g = Crf::new(std::fs::File::open(&path).unwrap(), HeaderMap::new()).unwrap();
            let m = std::fs::metadata(&path).unwrap();
            let (ino, len, s, n) = etag_fields(&m);
            let t = g.etag().unwrap().as_bytes().to_vec();
            em.case(
                &format!("ETAG ino={} len={} secs={} nanos={}", ino, len, s, n),
                &hex(&t),
                &pred(valid_strong_tag(&t) && t != t1, || format!("etag unchanged after {}", what)),
                &format!("etag:{}", what),
            );
        }
        // a modification time in the future (clock skew, a restored backup): still the file's
        // own time, and the same tag for every instance whenever it is opened
        {
            let now = std::time::SystemTime::now().duration_since(UNIX_EPOCH).unwrap().as_secs();
            let mut prev: Option<Vec<u8>> = None;
            for (what, at) in [("one day ahead", (now + 86_400, 123_456_789u32)), ("two days ahead", (now + 172_800, 5))] {
                f.set_modified(UNIX_EPOCH + Duration::new(at.0, at.1)).unwrap();
                let g1 = Crf::new(std::fs::File::open(&path).unwrap(), HeaderMap::new()).unwrap();
                std::thread::sleep(Duration::from_millis(15));
                let g2 = Crf::new(std::fs::File::open(&path).unwrap(), HeaderMap::new()).unwrap();
                let m = std::fs::metadata(&path).unwrap();
                let (ino, len, s, n) = etag_fields(&m);
                let (ta, tb) = (g1.etag().unwrap().as_bytes().to_vec(), g2.etag().unwrap().as_bytes().to_vec());
                let mut ok = true;
                let mut why = String::new();
                if ta != tb {
                    ok = false;
                    why = format!("file modified {}: two instances opened 15 ms apart have different tags", what);
                } else if g1.last_modified() != Some(m.modified().unwrap()) {
                    ok = false;
                    why = format!("file modified {}: last_modified() is not the file's modification time", what);
                } else if prev.as_ref() == Some(&ta) {
                    ok = false;
                    why = "tag unchanged after the (future) modification time changed".into();
                }
                prev = Some(ta.clone());
                em.case(&format!("ETAG ino={} len={} secs={} nanos={}", ino, len, s, n), &hex(&ta), &pred(ok, || why.clone()), "etag:future");
            }
        }
        // modification times before the epoch: a tag all the same, distinct from the mirrored time
        // after the epoch, and the entity is served
        for (what, back) in [("1ns", Duration::new(0, 1)), ("0.3s", Duration::new(0, 300_000_000)),
                             ("1s", Duration::new(1, 0)), ("10y", Duration::new(315_576_000, 7))] {
            // (a file system that cannot store such a time: nothing to check)
            if f.set_modified(UNIX_EPOCH - back).is_err()
                || std::fs::metadata(&path).unwrap().modified().map_or(true, |t| t >= UNIX_EPOCH)
            {
                em.note("c18", "this file system does not store modification times before 1970; cases skipped");
                continue;
            }
            let g = Crf::new(std::fs::File::open(&path).unwrap(), HeaderMap::new()).unwrap();
            let m = std::fs::metadata(&path).unwrap();
            let r = std::panic::catch_unwind(std::panic::AssertUnwindSafe(|| g.etag().unwrap().as_bytes().to_vec()));
            f.set_modified(UNIX_EPOCH + back).unwrap();
            let mirrored = Crf::new(std::fs::File::open(&path).unwrap(), HeaderMap::new())
                .unwrap()
                .etag()
                .unwrap()
                .as_bytes()
                .to_vec();
            f.set_modified(UNIX_EPOCH - back).unwrap();
            let served = std::panic::catch_unwind(std::panic::AssertUnwindSafe(|| {
                let g = Crf::new(std::fs::File::open(&path).unwrap(), HeaderMap::new()).unwrap();
                let req = http::Request::get("/").body(()).unwrap();
                http_serve::serve(g, &req).status().as_u16()
            }));
            let (out, p) = match (&r, &served) {
                (Ok(t), Ok(200)) => (
                    hex(t),
                    pred(valid_strong_tag(t) && *t != t1 && *t != mirrored && g.last_modified() == Some(m.modified().unwrap()),
                         || "etag of a pre-epoch file invalid, unchanged or equal to the mirrored time's".into()),
                ),
                _ => ("PANIC".to_string(), format!("FAIL:file modified {} before the epoch: etag panicked={} serve={:?}", what, r.is_err(), served.as_ref().ok())),
            };
            em.case(
                &format!("ETAG ino={} len={} secs=-{} nanos={}", m.ino(), m.len(), back.as_secs(), back.subsec_nanos()),
                &out,
                &p,
                "etag:pre-epoch",
            );
        }
        f.set_modified(UNIX_EPOCH + Duration::new(secs + 2, 5)).unwrap();
        {
            let before = Crf::new(std::fs::File::open(&path).unwrap(), HeaderMap::new())
                .unwrap()
                .etag()
                .unwrap();
            let m0 = std::fs::metadata(&path).unwrap();
            f.set_len(size + 1).unwrap();
            f.set_modified(m0.modified().unwrap()).unwrap();
            let g = Crf::new(std::fs::File::open(&path).unwrap(), HeaderMap::new()).unwrap();
            let m = std::fs::metadata(&path).unwrap();
            let (ino, len, s, n) = etag_fields(&m);
            let t = g.etag().unwrap();
            em.case(
                &format!("ETAG ino={} len={} secs={} nanos={}", ino, len, s, n),
                &hex(t.as_bytes()),
                &pred(t != before, || "etag unchanged after a length change".into()),
                "etag:len",
            );
            // identity: a different file with the same length and mtime
            let other = tmp.path().join(format!("g{}", size));
            write_file(&other, size + 1);
            let fo = std::fs::OpenOptions::new().write(true).open(&other).unwrap();
            fo.set_modified(m.modified().unwrap()).unwrap();
            let h = Crf::new(std::fs::File::open(&other).unwrap(), HeaderMap::new()).unwrap();
            let mo = std::fs::metadata(&other).unwrap();
            let (ino, len, s, n) = etag_fields(&mo);
            let t2 = h.etag().unwrap();
            em.case(
                &format!("ETAG ino={} len={} secs={} nanos={}", ino, len, s, n),
                &hex(t2.as_bytes()),
                &pred(t2 != t, || "etag equal for two different files".into()),
                "etag:identity",
            );
        }
        write_file(&path, size);
    }
    // --- a sparse file of more than 4 GiB: ranges whose length is around 2^31 and 2^32 (only the
    // first polls; the holes read as zeros)
    {
        let big = tmp.path().join("sparse");
        let size = (1u64 << 32) + 20;
        let f = std::fs::File::create(&big).unwrap();
        if f.set_len(size).is_ok() {
            for (a, b) in [
                (10u64, (1u64 << 32) + 10),
                (0, (1 << 32) + 5),
                (0, 1 << 32),
                (5, (1 << 32) + 5),
                (1, 1 << 31),
                (0, (1 << 31) + 1),
                ((1 << 32) - 1, (1 << 32) + 1),
                ((1 << 32) + 1, (1 << 32) + 20),
            ] {
                let crf = Arc::new(Crf::new(std::fs::File::open(&big).unwrap(), HeaderMap::new()).unwrap());
                let (outs, fsizes) = poll_file(&rt, &big, &crf, a, b, &[], 3);
                let mut ok = crf.len() == size;
                let mut why = "len() is not the file's length".to_string();
                let mut n = 0u64;
                for o in &outs {
                    match o {
                        FOut::Chunk(_, d) if !d.is_empty() && d.iter().all(|x| *x == 0) => n += d.len() as u64,
                        FOut::End if n == b - a => {}
                        other => {
                            ok = false;
                            why = format!("unexpected {} on an unmodified sparse file", show_fouts(std::slice::from_ref(other)));
                        }
                    }
                }
                if ok && n == 0 {
                    ok = false;
                    why = "nothing delivered".into();
                }
                em.case(
                    &format!("FILE start={} end={} sizes={} cs={}", a, b, fsizes.iter().map(|s| s.to_string()).collect::<Vec<_>>().join(","), observed_read_size(&rt)),
                    &show_fouts(&outs),
                    &pred(ok, || why.clone()),
                    "sparse-4g",
                );
            }
        } else {
            em.note("c18", "this file system cannot hold a 4 GiB sparse file; cases skipped");
        }
    }
    // --- non-regular files are refused
    {
        let d = std::fs::File::open(tmp.path()).unwrap();
        let r = Crf::new(d, HeaderMap::new()).is_err();
        em.case("FILENEW kind=directory", if r { "REFUSED" } else { "ACCEPTED" },
            &pred(r, || "directory accepted".into()), "kind:dir");
        let n = std::fs::File::open("/dev/null").unwrap();
        let r = Crf::new(n, HeaderMap::new()).is_err();
        em.case("FILENEW kind=chardev", if r { "REFUSED" } else { "ACCEPTED" },
            &pred(r, || "char device accepted".into()), "kind:chardev");
        let fifo = tmp.path().join("fifo");
        let c = std::ffi::CString::new(fifo.to_str().unwrap()).unwrap();
        if unsafe { libc::mkfifo(c.as_ptr(), 0o600) } == 0 {
            let f = std::fs::OpenOptions::new()
                .read(true)
                .custom_flags(libc::O_NONBLOCK)
                .open(&fifo)
                .unwrap();
            let r = Crf::new(f, HeaderMap::new()).is_err();
            em.case("FILENEW kind=fifo", if r { "REFUSED" } else { "ACCEPTED" },
                &pred(r, || "fifo accepted".into()), "kind:fifo");
        }
        let reg = tmp.path().join("f1");
        let r = Crf::new(std::fs::File::open(reg).unwrap(), HeaderMap::new()).is_ok();
        em.case("FILENEW kind=regular", if r { "ACCEPTED" } else { "REFUSED" },
            &pred(r, || "regular file refused".into()), "kind:regular");
    }
    serve_over_files(em);
}

/// One file entity shared by several responses (`serve` takes its entity by value).
#[derive(Clone)]
struct SharedFile(Arc<Crf>);

impl Entity for SharedFile {
    type Error = BoxError;
    type Data = Bytes;
    fn len(&self) -> u64 {
        self.0.len()
    }
    fn get_range(
        &self,
        range: std::ops::Range<u64>,
    ) -> std::pin::Pin<Box<dyn futures_core::Stream<Item = Result<Bytes, BoxError>> + Send + Sync>> {
        self.0.get_range(range)
    }
    fn add_headers(&self, h: &mut HeaderMap) {
        self.0.add_headers(h)
    }
    fn etag(&self) -> Option<HeaderValue> {
        self.0.etag()
    }
    fn last_modified(&self) -> Option<std::time::SystemTime> {
        self.0.last_modified()
    }
}

/// `serve` over real `ChunkedReadFile` entities with Range headers (also with the file truncated
/// after the response head => an aborted body): the response head against the model, the body
/// against the file. Part of C18's suite and, for the bytes-versus-headers clauses, of C02's.
/// C18 / C13 outside any tokio runtime: the file entity's stream, and a body `serve` makes over a
/// file, polled from a plain thread (a synchronous adapter, another executor, a helper thread a
/// stream was handed to). Exact bytes, the truncation error, no panic — as inside a runtime.
pub fn file_outside_runtime(em: &mut Emit) {
    use http_body::Body as _;
    let tmp = tempfile::tempdir().unwrap();
    let size = 200_001u64;
    let path = tmp.path().join("plain-thread");
    for (a, b, truncate_to) in [(0u64, size, None), (65_530, 131_080, None), (7, 7, None), (0, size, Some(70_000u64)), (100_000, 150_000, Some(0))] {
        write_file(&path, size);
        let crf = Crf::new(std::fs::File::open(&path).unwrap(), HeaderMap::new()).unwrap();
        let path2 = path.clone();
        // direct use of the stream, and through `serve`
        for through_serve in [false, true] {
            write_file(&path, size);
            let crf = if through_serve { Crf::new(std::fs::File::open(&path).unwrap(), HeaderMap::new()).unwrap() } else { Crf::new(std::fs::File::open(&path).unwrap(), HeaderMap::new()).unwrap() };
            let path3 = path2.clone();
            let r = std::thread::spawn(move || {
                std::panic::catch_unwind(std::panic::AssertUnwindSafe(|| {
                    let waker = noop_waker();
                    let mut cx = Context::from_waker(&waker);
                    let mut got: Vec<u8> = vec![];
                    let mut end = "no terminal event in 16 polls";
                    if through_serve {
                        let req = http::Request::get("/").header("range", format!("bytes={}-{}", a, b.max(a + 1) - 1)).body(()).unwrap();
                        let resp = http_serve::serve(crf, &req);
                        let mut body = Box::pin(resp.into_body());
                        for k in 0..16 {
                            if k == 1 {
                                if let Some(t) = truncate_to {
                                    std::fs::OpenOptions::new().write(true).open(&path3).unwrap().set_len(t).unwrap();
                                }
                            }
                            match body.as_mut().poll_frame(&mut cx) {
                                Poll::Ready(Some(Ok(f))) => got.extend_from_slice(&f.into_data().map(|d| d.to_vec()).unwrap_or_default()),
                                Poll::Ready(Some(Err(_))) => { end = "error"; break; }
                                Poll::Ready(None) => { end = "end"; break; }
                                Poll::Pending => {}
                            }
                        }
                    } else {
                        let mut s = crf.get_range(a..b);
                        for k in 0..16 {
                            if k == 1 {
                                if let Some(t) = truncate_to {
                                    std::fs::OpenOptions::new().write(true).open(&path3).unwrap().set_len(t).unwrap();
                                }
                            }
                            match s.as_mut().poll_next(&mut cx) {
                                Poll::Ready(Some(Ok(d))) => got.extend_from_slice(&d),
                                Poll::Ready(Some(Err(_))) => { end = "error"; break; }
                                Poll::Ready(None) => { end = "end"; break; }
                                Poll::Pending => {}
                            }
                        }
                        std::mem::forget(s);
                    }
                    (got, end)
                }))
            })
            .join();
            let (ok, why) = match r {
                Ok(Ok((got, end))) => {
                    let (ea, eb) = if through_serve && a == b { (a, a + 1) } else { (a, b) };
                    match truncate_to {
                        None if end == "end" && got == content(ea..eb) => (true, String::new()),
                        None => (false, format!("{} after {} of {} bytes (or other bytes than the file's)", end, got.len(), eb - ea)),
                        Some(_) if end == "error" && got == content(ea..ea + got.len() as u64) => (true, String::new()),
                        Some(_) if end == "end" && got == content(ea..eb) => (true, String::new()),
                        Some(t) => (false, format!("file truncated to {}: {} after {} bytes", t, end, got.len())),
                    }
                }
                _ => (false, "panic".to_string()),
            };
            em.pred_only(
                &format!("file of {} bytes, range {}..{}, {} polled on a plain thread with no tokio runtime entered{}", size, a, b, if through_serve { "body from serve" } else { "get_range stream" }, truncate_to.map_or(String::new(), |t| format!(", truncated to {} after the first poll", t))),
                &pred(ok, || why.clone()),
                "no-runtime",
            );
        }
        drop(crf);
    }
}

/// C20 over the crate's own file entity: a body served from a `ChunkedReadFile`, polled on after
/// its clean end and after a read error (the file truncated under it). The file's stream is
/// built on `stream::unfold`, which panics when polled after its end — the body must not pass a
/// poll through to a stream that has ended (F13).
pub fn file_bodies_stay_terminated(em: &mut Emit) {
    let rt = rt();
    let tmp = tempfile::tempdir().unwrap();
    for &size in &[0u64, 11, 65536, 65537, 200_001] {
        let path = tmp.path().join(format!("t{}", size));
        let ranges: Vec<Option<String>> = vec![
            None,
            Some("bytes=0-".into()),
            Some(format!("bytes={}-{}", size / 3, size.saturating_sub(2))),
            Some(format!("bytes=0-0, {}-{}", size / 2, size.saturating_sub(1))),
            Some("bytes=1-2, 4-5, 7-8".into()),
        ];
        for range in &ranges {
            // truncate_after: None = the file stays intact; Some(k) = truncated to a third of
            // its length after k polls
            for truncate_after in [None, Some(0usize), Some(1), Some(2)] {
                if truncate_after.is_some() && size < 65536 {
                    continue;
                }
                write_file(&path, size);
                let crf = Crf::new(std::fs::File::open(&path).unwrap(), HeaderMap::new()).unwrap();
                let path2 = path.clone();
                let range2 = range.clone();
                let recs: Vec<PollRec> = rt.block_on(async move {
                    tokio::spawn(async move {
                        let mut b = http::Request::get("/");
                        if let Some(r) = &range2 {
                            b = b.header("range", r.as_str());
                        }
                        let req = b.body(()).unwrap();
                        let resp = match std::panic::catch_unwind(std::panic::AssertUnwindSafe(|| http_serve::serve(crf, &req))) {
                            Ok(r) => r,
                            Err(_) => return vec![PollRec { lower: 0, upper: None, eos: false, out: Out::Panic }],
                        };
                        let body = resp.into_body();
                        match truncate_after {
                            None => drive(body, 14),
                            Some(k) => {
                                // `drive` takes the body by value: poll k times by hand first
                                let mut body = Box::pin(body);
                                let waker = noop_waker();
                                let mut cx = Context::from_waker(&waker);
                                let mut recs = vec![];
                                for i in 0..14 {
                                    if i == k {
                                        std::fs::OpenOptions::new().write(true).open(&path2).unwrap().set_len(size / 3).unwrap();
                                    }
                                    let r = std::panic::catch_unwind(std::panic::AssertUnwindSafe(|| {
                                        use http_body::Body as _;
                                        let h = body.size_hint();
                                        let eos = body.is_end_stream();
                                        let out = match body.as_mut().poll_frame(&mut cx) {
                                            Poll::Ready(Some(Ok(f))) => Out::Data(f.into_data().map(|d| d.to_vec()).unwrap_or_default()),
                                            Poll::Ready(Some(Err(e))) => classify_err(&e),
                                            Poll::Ready(None) => Out::End,
                                            Poll::Pending => Out::Pending,
                                        };
                                        PollRec { lower: h.lower(), upper: h.upper(), eos, out }
                                    }));
                                    match r {
                                        Ok(rec) => recs.push(rec),
                                        Err(_) => {
                                            recs.push(PollRec { lower: 0, upper: None, eos: false, out: Out::Panic });
                                            std::mem::forget(body);
                                            break;
                                        }
                                    }
                                }
                                recs
                            }
                        }
                    })
                    .await
                    .unwrap_or_else(|_| vec![PollRec { lower: 0, upper: None, eos: false, out: Out::Panic }])
                });
                // the property: after the first terminal event (end or error) no data, no panic
                let mut ok = true;
                let mut why = String::new();
                let first_term = recs.iter().position(|r| r.out.is_terminal());
                if recs.iter().any(|r| r.out == Out::Panic) {
                    ok = false;
                    let at = recs.iter().position(|r| r.out == Out::Panic).unwrap();
                    why = format!("poll {} panicked (first terminal event at poll {:?})", at, first_term);
                } else {
                    match first_term {
                        None => {
                            ok = false;
                            why = "no terminal event within 14 polls".into();
                        }
                        Some(t) => {
                            if recs[t + 1..].iter().any(|r| matches!(&r.out, Out::Data(d) if !d.is_empty())) {
                                ok = false;
                                why = format!("data after the terminal event at poll {}", t);
                            }
                            if recs.len() < t + 5 {
                                ok = false;
                                why = "fewer than 4 polls after the terminal event".into();
                            }
                            if truncate_after.is_none() && recs[t].out != Out::End {
                                ok = false;
                                why = format!("intact file: body failed: {:?}", recs[t].out);
                            }
                        }
                    }
                }
                em.pred_only(
                    &format!(
                        "file of {} bytes served with Range {:?}, {}: polled 4 more times after the terminal event",
                        size,
                        range,
                        match truncate_after { None => "intact".to_string(), Some(k) => format!("truncated to {} after {} polls", size / 3, k) }
                    ),
                    &pred(ok, || why.clone()),
                    &format!("file-body:{}:{}", range.is_some(), truncate_after.is_some()),
                );
            }
        }
    }
}

pub fn serve_over_files(em: &mut Emit) {
    let rt = rt();
    let tmp = tempfile::tempdir().unwrap();
    // --- single-range responses over ONE entity served in parallel on several threads
    {
        let size = 400_001u64;
        let path = tmp.path().join("parallel");
        write_file(&path, size);
        let crf = SharedFile(Arc::new(Crf::new(std::fs::File::open(&path).unwrap(), HeaderMap::new()).unwrap()));
        let errors: Arc<Mutex<Vec<String>>> = Default::default();
        let mut hs = vec![];
        for t in 0..8u64 {
            let crf = crf.clone();
            let errors = errors.clone();
            hs.push(std::thread::spawn(move || {
                let rt = tokio::runtime::Builder::new_multi_thread().worker_threads(1).enable_all().build().unwrap();
                for r in 0..40u64 {
                    let a = (t * 7919 + r * 104_729) % (size / 2);
                    let b = (a + 150_000 + r % 3).min(size);
                    let ent = crf.clone();
                    let res: Result<(), String> = rt.block_on(async move {
                        tokio::spawn(async move {
                            let req = http::Request::get("/")
                                .header("range", format!("bytes={}-{}", a, b - 1))
                                .body(())
                                .unwrap();
                            let resp = http_serve::serve(ent, &req);
                            let cr = resp.headers().get("content-range").map(|v| v.as_bytes().to_vec());
                            if resp.status() != 206 || cr != Some(format!("bytes {}-{}/{}", a, b - 1, size).into_bytes()) {
                                return Err(format!("{}..{}: status {} content-range {:?}", a, b, resp.status(), cr));
                            }
                            let recs = drive_to_end(resp.into_body(), 16);
                            let body: Vec<u8> = recs.iter().filter_map(|r| if let Out::Data(d) = &r.out { Some(d.clone()) } else { None }).flatten().collect();
                            if matches!(recs.last().map(|r| &r.out), Some(Out::End)) && body == content(a..b) {
                                Ok(())
                            } else {
                                Err(format!("{}..{}: body is not the file range", a, b))
                            }
                        })
                        .await
                        .unwrap_or_else(|_| Err("panic".into()))
                    });
                    if let Err(e) = res {
                        errors.lock().unwrap().push(e);
                        return;
                    }
                }
            }));
        }
        for h in hs {
            let _ = h.join();
        }
        let e = errors.lock().unwrap();
        em.pred_only(
            "file of 400001 bytes: 8 threads each serving 40 single ranges of one entity in parallel",
            &if e.is_empty() { "ok".to_string() } else { format!("FAIL:{} of 8 threads: {}", e.len(), e[0]) },
            "parallel-serve",
        );
    }
    for &size in &[65537u64, 200001] {
        let path = tmp.path().join(format!("f{}", size));
        for (range, a, b) in [
            ("bytes=0-", 0, size),
            ("bytes=65535-65536", 65535, 65537),
            ("bytes=-1", size - 1, size),
            ("bytes=1-131072", 1, (131073).min(size)),
            // longer than one read, not a multiple of the read size, ending before the end
            ("bytes=10-65555", 10, (65556).min(size)),
            ("bytes=100-65635", 100, (65636).min(size)),
        ] {
            for truncate in [false, true] {
                write_file(&path, size);
                // the headers the entity was constructed with (a repeated name included) are
                // passed on by `add_headers`
                let ent_headers: Vec<(String, Vec<u8>)> = if a % 2 == 0 {
                    vec![]
                } else {
                    vec![
                        ("x-ent-file".to_string(), b"one".to_vec()),
                        ("x-ent-file".to_string(), b"two".to_vec()),
                        ("cache-control".to_string(), b"max-age=1".to_vec()),
                    ]
                };
                let mut hm = HeaderMap::new();
                for (n, v) in &ent_headers {
                    hm.append(
                        http::header::HeaderName::from_bytes(n.as_bytes()).unwrap(),
                        HeaderValue::from_bytes(v).unwrap(),
                    );
                }
                let crf = Crf::new(std::fs::File::open(&path).unwrap(), hm).unwrap();
                let req = http::Request::get("/")
                    .header("range", HeaderValue::from_str(range).unwrap())
                    .body(())
                    .unwrap();
                let p2 = path.clone();
                let file_etag = crf.etag().map(|t| t.as_bytes().to_vec());
                let file_mtime = crf.last_modified();
                let (status, cr, recs, head) = rt.block_on(async move {
                    tokio::spawn(async move {
                        let resp = http_serve::serve(crf, &req);
                        let status = resp.status().as_u16();
                        let head = canon_headers(resp.headers());
                        let cr = resp
                            .headers()
                            .get("content-range")
                            .map(|v| v.as_bytes().to_vec());
                        if truncate {
                            let f = std::fs::OpenOptions::new().write(true).open(&p2).unwrap();
                            f.set_len(a + (b - a) / 2).unwrap();
                        }
                        // stop at the first terminal event (unfold must not be polled after end)
                        let mut body = Box::pin(resp.into_body());
                        let waker = noop_waker();
                        let mut cx = Context::from_waker(&waker);
                        let mut recs = vec![];
                        for _ in 0..16 {
                            use http_body::Body as _;
                            match body.as_mut().poll_frame(&mut cx) {
                                Poll::Ready(Some(Ok(f))) => {
                                    recs.push(Out::Data(f.into_data().unwrap().to_vec()))
                                }
                                Poll::Ready(Some(Err(e))) => {
                                    recs.push(Out::ErrOther(e.to_string()));
                                    break;
                                }
                                Poll::Ready(None) => {
                                    recs.push(Out::End);
                                    break;
                                }
                                Poll::Pending => recs.push(Out::Pending),
                            }
                        }
                        (status, cr, recs, head)
                    })
                    .await
                    .unwrap()
                });
                if !truncate {
                    // the response head of `serve` over the real file entity against the model
                    // given the file's metadata (len, ETag, mtime) as the entity
                    let mut q = HReq::get();
                    q.range = Some(range.as_bytes().to_vec());
                    let mut e = HEntity::new(size);
                    e.etag = file_etag.clone();
                    e.mtime = file_mtime;
                    e.headers = ent_headers.clone();
                    let (hdrs, now) = head;
                    em.case(
                        &format!("{} src=file", serve_line(&q, &e, now)),
                        &format!(
                            "{} hdrs={} plan=unknown:file calls=",
                            status,
                            hdrs.iter().map(|(n, v)| format!("{}={}", n, v)).collect::<Vec<_>>().join(",")
                        ),
                        "ok",
                        "serve-head",
                    );
                }
                let body: Vec<u8> = recs
                    .iter()
                    .filter_map(|r| if let Out::Data(d) = r { Some(d.clone()) } else { None })
                    .flatten()
                    .collect();
                let want_cr = format!("bytes {}-{}/{}", a, b - 1, size);
                let mut ok = status == 206 && cr.as_deref() == Some(want_cr.as_bytes());
                let mut why = format!("status {} content-range {:?}", status, cr.map(|c| String::from_utf8_lossy(&c).to_string()));
                if ok && !truncate && !(recs.last() == Some(&Out::End) && body == content(a..b)) {
                    ok = false;
                    why = "body is not the file range".into();
                }
                if ok && truncate && !matches!(recs.last(), Some(Out::ErrOther(_))) {
                    ok = false;
                    why = format!("truncated file but the body ended with {:?}", recs.last());
                }
                em.pred_only(
                    &format!("serve(file {} {} truncate={})", size, range, truncate),
                    &pred(ok, || why.clone()),
                    &format!("serve:{}", truncate),
                );
            }
        }
    }
}

// ---------------------------------------------------------------------------------------
// C19

struct Tree {
    _tmp: tempfile::TempDir,
    outer: std::path::PathBuf,
    base: std::path::PathBuf,
}

fn build_tree() -> Tree {
    let tmp = tempfile::tempdir().unwrap();
    let outer = tmp.path().join("outer");
    let base = outer.join("base");
    std::fs::create_dir_all(base.join("sub")).unwrap();
    std::fs::write(outer.join("secret"), b"top secret").unwrap();
    let long = "L".repeat(254);
    for (p, c) in [
        ("a", "plain a"),
        ("a.gz", "gz a"),
        ("e", "plain only"),
        ("f.gz", "gz only"),
        ("d", "plain d"),
        ("...", "three dots"),
        ("..a", "dotdot-a"),
        ("a..", "a-dotdot"),
        ("sub/a", "sub a"),
        ("sub/b", "sub b"),
        ("sub/c.gz", "sub c gz"),
        ("secret", "a decoy inside the base"),
        (long.as_str(), "long name"),
        // files whose whole name is the suffix: the `.gz` "sibling" of the directory path itself
        // (`""` + ".gz", `"sub/"` + ".gz"), and names that are nearly that
        (".gz", "just the suffix"),
        ("sub/.gz", "just the suffix, in sub"),
        ("..gz", "dot + suffix"),
        ("a.gz.gz", "gz of the gz"),
    ] {
        std::fs::write(base.join(p), c).unwrap();
    }
    std::fs::create_dir(base.join("d.gz")).unwrap();
    std::fs::create_dir(base.join("sub/b.gz")).unwrap();
    std::fs::create_dir(base.join("sub.gz")).unwrap();
    // entries that exist but cannot be opened: a symlink loop and a socket, as the `.gz`
    // sibling of a plain file and on their own
    for p in ["g", "h", "sub/g"] {
        std::fs::write(base.join(p), format!("plain {}", p)).unwrap();
    }
    std::os::unix::fs::symlink("g.gz", base.join("g.gz")).unwrap();
    std::os::unix::fs::symlink("g.gz", base.join("sub/g.gz")).unwrap();
    std::os::unix::fs::symlink("k.gz", base.join("k.gz")).unwrap();
    drop(std::os::unix::net::UnixListener::bind(base.join("h.gz")).unwrap());
    // a `.gz` sibling that opens fine and is neither a directory nor a regular file (a character
    // device behind a symlink): "exists and is not a directory" is all C19 asks of a sibling
    std::fs::write(base.join("n"), "plain n").unwrap();
    std::os::unix::fs::symlink("/dev/null", base.join("n.gz")).unwrap();
    std::os::unix::fs::symlink("/dev/null", base.join("sub/dev")).unwrap();
    // deep nesting: short names, but a path of more than 255 (and more than 1024) bytes in total
    let mut deep = base.join("deep");
    for i in 0..180 {
        deep = deep.join(format!("n{:03}", i));
        if i == 45 || i == 179 {
            std::fs::create_dir_all(&deep).unwrap();
            std::fs::write(deep.join("a"), format!("deep plain {}", i)).unwrap();
            std::fs::write(deep.join("a.gz"), format!("deep gz {}", i)).unwrap();
            std::fs::write(deep.join("p"), format!("deep plain only {}", i)).unwrap();
        }
    }
    Tree {
        _tmp: tmp,
        outer,
        base,
    }
}

fn tree_line(p: &Path, out: &mut Vec<String>) {
    let m = std::fs::symlink_metadata(p).unwrap();
    if m.is_dir() {
        let mut kids: Vec<_> = std::fs::read_dir(p).unwrap().map(|e| e.unwrap()).collect();
        kids.sort_by_key(|e| e.file_name());
        out.push("d".into());
        out.push(m.ino().to_string());
        out.push(kids.len().to_string());
        for k in kids {
            use std::os::unix::ffi::OsStrExt;
            out.push(hex(k.file_name().as_bytes()));
            tree_line(&k.path(), out);
        }
    } else if m.is_file() {
        out.push("f".into());
        out.push(m.ino().to_string());
    } else if let (true, Ok(t)) = (m.file_type().is_symlink(), std::fs::metadata(p)) {
        // a symlink that resolves (to a device, outside the tree): opens like a file, and is
        // what it points to
        if t.is_dir() {
            out.push("b".into());
            out.push(m.ino().to_string());
        } else {
            out.push("f".into());
            out.push(t.ino().to_string());
        }
    } else {
        // a symlink loop or a socket: exists, cannot be opened
        out.push("b".into());
        out.push(m.ino().to_string());
    }
}

fn classify_io(e: &std::io::Error) -> String {
    let msg = e.to_string();
    if e.kind() == std::io::ErrorKind::InvalidInput {
        return match msg.as_str() {
            "path contains NUL byte" => "INVALID:nul".into(),
            "path is absolute" => "INVALID:absolute".into(),
            "path contains .. segment" => "INVALID:dotdot".into(),
            _ => format!("INVALID:{}", hex(msg.as_bytes())),
        };
    }
    match e.raw_os_error() {
        Some(libc::ENOENT) => "ERR:notfound".into(),
        Some(libc::ENOTDIR) => "ERR:notdir".into(),
        Some(libc::ENAMETOOLONG) => "ERR:toolong".into(),
        Some(_) => "ERR:other".into(),
        // an error that carries a kind but no errno (a crate that maps errnos to kinds itself
        // still "fails the way opening that file fails")
        None => match e.kind() {
            std::io::ErrorKind::NotFound => "ERR:notfound".into(),
            std::io::ErrorKind::NotADirectory => "ERR:notdir".into(),
            std::io::ErrorKind::InvalidFilename => "ERR:toolong".into(),
            _ => "ERR:other".into(),
        },
    }
}

pub fn c19(em: &mut Emit, thorough: bool, seed: u64) {
    let mut rng = Rng::new(seed ^ 0xC19);
    let rt = rt();
    let t = build_tree();
    let mut toks = vec![];
    tree_line(&t.outer, &mut toks);
    em.case(&format!("TREE {}", toks.join(" ")), "TREE-OK", "ok", "tree");
    let secret_ino = std::fs::metadata(t.outer.join("secret")).unwrap().ino();
    let outer_ino = std::fs::metadata(&t.outer).unwrap().ino();
    let long = "L".repeat(254);
    // the absolute path of the decoy outside the base, written with backslashes
    let bs_abs = format!("{}\\secret", t.outer.display().to_string().replace('/', "\\"));
    let segs: Vec<&str> = vec![
        "a", "sub", "..", ".", "...", "..a", "a..", "", "secret", "b", "c", "d", "e", "f", "g", "h", "k", "g.gz", &long,
        ".gz", "..gz", "a.gz", "a.gz.gz", "n", "dev",
        // backslashes are ordinary name bytes, not separators
        "sub\\a", "..\\secret", "\\", "a\\..", &bs_abs,
    ];
    let depth = if thorough { 4 } else { 3 };
    let mut paths: Vec<String> = vec![String::new()];
    let mut cur: Vec<Vec<&str>> = vec![vec![]];
    for _ in 0..depth {
        let mut next = vec![];
        for p in &cur {
            for s in &segs {
                if *s == long.as_str() && !p.is_empty() {
                    continue;
                }
                let mut q = p.clone();
                q.push(*s);
                next.push(q);
            }
        }
        for q in &next {
            let j = q.join("/");
            paths.push(j.clone());
            if q.len() <= 2 || thorough {
                paths.push(format!("/{}", j));
                paths.push(format!("{}/", j));
            }
        }
        // keep the frontier manageable: beyond depth 2 only extend prefixes that resolve
        cur = if next.len() > 3000 {
            next.into_iter()
                .filter(|q| !q.contains(&long.as_str()))
                .filter(|q| {
                    let j = q.join("/");
                    !q.contains(&"..") && std::fs::metadata(format!("{}/{}", t.base.display(), j)).map_or(false, |m| m.is_dir())
                        || q.len() < 2
                })
                .collect()
        } else {
            next
        };
    }
    // deep paths (total length beyond NAME_MAX and beyond 1 KiB, every name short)
    for depth in [46usize, 180] {
        let dir: String = std::iter::once("deep".to_string()).chain((0..depth).map(|i| format!("n{:03}", i))).collect::<Vec<_>>().join("/");
        for leaf in ["a", "p", "a.gz", "missing", ""] {
            paths.push(format!("{}/{}", dir, leaf));
        }
    }
    // NUL injected at every position of a subset
    let mut with_nul = vec![];
    for p in paths.iter().filter(|p| p.len() <= 6).take(400) {
        for i in 0..=p.len() {
            let mut s = p.clone();
            s.insert(i, '\0');
            with_nul.push(s);
        }
    }
    paths.extend(with_nul);
    paths.sort();
    paths.dedup();
    let aes: [Option<&[u8]>; 4] = [None, Some(b"gzip"), Some(b"identity"), Some(b"gzip;q=0.5, identity")];
    let dirs = [
        http_serve::dir::FsDir::builder().auto_gzip(false).for_path(&t.base).unwrap(),
        http_serve::dir::FsDir::builder().for_path(&t.base).unwrap(),
    ];
    // FsDir::open's own argument checks
    for (what, path, want) in [
        ("NUL in the base path", format!("{}/a\0b", t.base.display()), "INVALID:"),
        ("base path of PATH_MAX bytes", format!("{}/{}", t.base.display(), "x/".repeat(2048)), "INVALID:"),
        ("missing base directory", format!("{}/nonexistent", t.base.display()), "ERR:notfound"),
        ("base path names a file", format!("{}/a", t.base.display()), "ERR:"),
    ] {
        let got = match http_serve::dir::FsDir::builder().for_path(&path) {
            Ok(_) => "OK".to_string(),
            Err(e) => classify_io(&e),
        };
        let pred = if got.starts_with(want) { "ok".to_string() } else { format!("FAIL:for_path gave {}", got) };
        em.pred_only(&format!("FsDir::for_path, {}", what), &pred, "for_path");
    }
    for p in &paths {
        for (auto, dir) in dirs.iter().enumerate() {
            // not the full product for every path: all four header values for short paths,
            // a random one otherwise
            let pick = rng.usize(4);
            for (ai, ae) in aes.iter().enumerate() {
                if p.len() > 8 && ai != pick && ai != 1 {
                    continue;
                }
                let mut h = HeaderMap::new();
                if let Some(v) = ae {
                    h.insert("accept-encoding", HeaderValue::from_bytes(v).unwrap());
                }
                let r = rt.block_on(Arc::clone(dir).get(p, &h));
                let sg = crate::suites_neg::call_should_gzip(*ae).unwrap_or(false);
                let (out, node_ino, gz) = match &r {
                    Err(e) => (classify_io(e), None, false),
                    Ok(node) => {
                        let mut hh = HeaderMap::new();
                        node.add_encoding_headers(&mut hh);
                        let ce = hh.get("content-encoding").map(|v| v.as_bytes()) == Some(b"gzip");
                        // (`encoding_varies` must say what the Vary header says)
                        let vary = (hh.get("vary").map(|v| v.as_bytes()) == Some(b"accept-encoding"))
                            && node.encoding_varies();
                        let gz = node.encoding() == Some("gzip");
                        (
                            format!(
                                "OK id={} gz={} ce={} vary={}",
                                node.metadata().ino(),
                                gz as u8,
                                ce as u8,
                                vary as u8
                            ),
                            Some((node.metadata().dev(), node.metadata().ino(), ce, vary)),
                            gz,
                        )
                    }
                };
                // ---- independent oracle
                let invalid = p.contains('\0')
                    || p.starts_with('/')
                    || p.split('/').any(|s| s == "..");
                let mut ok = true;
                let mut why = String::new();
                if invalid {
                    if !out.starts_with("INVALID:") {
                        ok = false;
                        why = format!("unsafe path accepted: {}", out);
                    }
                } else if out.starts_with("INVALID:") {
                    ok = false;
                    why = "safe path rejected as invalid".into();
                } else {
                    let full = format!("{}/{}", t.base.display(), p);
                    let plain = if p.is_empty() {
                        Err("ERR:notfound".to_string())
                    } else {
                        std::fs::File::open(&full)
                            .and_then(|f| f.metadata())
                            .map(|m| (m.dev(), m.ino()))
                            .map_err(|e| classify_io(&e))
                    };
                    // the `.gz` sibling counts only if it can be opened and is not a directory
                    // (for the empty path, and a path ending in `/`, `<path>.gz` is the file
                    // whose whole name is `.gz` in that directory)
                    let sibling = std::fs::File::open(format!("{}.gz", full))
                        .and_then(|f| f.metadata())
                        .ok()
                        .filter(|m| !m.is_dir())
                        .map(|m| (m.dev(), m.ino()));
                    let want_gz = auto == 1 && sg && sibling.is_some();
                    match (&node_ino, want_gz) {
                        (Some((dev, ino, ce, vary)), true) => {
                            if Some((*dev, *ino)) != sibling || !gz || !*ce {
                                ok = false;
                                why = "expected the .gz sibling, reported as gzip".into();
                            }
                            if *vary != (auto == 1) {
                                ok = false;
                                why = "Vary wrong".into();
                            }
                        }
                        (Some((dev, ino, ce, vary)), false) => {
                            if plain != Ok((*dev, *ino)) || gz || *ce {
                                ok = false;
                                why = format!("expected exactly the named file (plain={:?})", plain);
                            }
                            if *vary != (auto == 1) {
                                ok = false;
                                why = "Vary wrong".into();
                            }
                        }
                        (None, true) => {
                            ok = false;
                            why = format!("existing .gz sibling not served: {}", out);
                        }
                        (None, false) => {
                            if plain != Err(out.clone()) {
                                ok = false;
                                why = format!("failed with {} but opening the file gives {:?}", out, plain);
                            }
                        }
                    }
                    if let Some((_, ino, ..)) = node_ino {
                        if ino == secret_ino || ino == outer_ino {
                            ok = false;
                            why = "escaped the base directory".into();
                        }
                    }
                }
                let class = format!(
                    "{}:{}:{}",
                    out.split(' ').next().unwrap_or("").split("id=").next().unwrap_or(""),
                    auto,
                    if gz { "gz" } else { "plain" }
                );
                em.case(
                    &format!(
                        "DIR path={} auto={} ae={}",
                        if p.is_empty() { "".to_string() } else { hex(p.as_bytes()) },
                        auto,
                        opt_hex(*ae)
                    ),
                    &out,
                    &pred(ok, || format!("{} (path {:?})", why, p)),
                    &class,
                );
                // the documented use of a node: node -> file entity -> `serve`
                if p.len() <= 8 {
                    if let Ok(node) = r {
                        let is_file = node.metadata().is_file();
                        let want_len = node.metadata().len();
                        let mut hh = HeaderMap::new();
                        node.add_encoding_headers(&mut hh);
                        let full = format!("{}/{}{}", t.base.display(), p, if gz { ".gz" } else { "" });
                        let verdict: Result<(), String> = match node.into_file_entity::<Bytes, BoxError>(hh.clone()) {
                            Err(_) if is_file => Err("a regular file was refused as an entity".into()),
                            Err(_) => Ok(()),
                            Ok(_) if !is_file => Err("something that is not a regular file became an entity".into()),
                            Ok(ent) => {
                                use http_serve::Entity as _;
                                if ent.len() != want_len {
                                    Err(format!("entity length {} but the node's metadata says {}", ent.len(), want_len))
                                } else {
                                    let want = std::fs::read(&full).unwrap_or_default();
                                    let hh2 = hh.clone();
                                    rt.block_on(async move {
                                        tokio::spawn(async move {
                                            let req = http::Request::get("/").body(()).unwrap();
                                            let resp = http_serve::serve(ent, &req);
                                            if resp.status() != 200 {
                                                return Err(format!("status {}", resp.status()));
                                            }
                                            for (k, v) in hh2.iter() {
                                                if !resp.headers().get_all(k).iter().any(|x| x == v) {
                                                    return Err(format!("header {} lost", k));
                                                }
                                            }
                                            let body: Vec<u8> = drive_to_end(resp.into_body(), 64)
                                                .into_iter()
                                                .filter_map(|r| if let Out::Data(d) = r.out { Some(d) } else { None })
                                                .flatten()
                                                .collect();
                                            if body == want { Ok(()) } else { Err("served bytes are not the file's".into()) }
                                        })
                                        .await
                                        .unwrap()
                                    })
                                }
                            }
                        };
                        em.pred_only(
                            &format!("Node::into_file_entity + serve, path {:?} auto_gzip={} ae={:?}", p, auto, ae.map(|a| String::from_utf8_lossy(a).to_string())),
                            &match verdict { Ok(()) => "ok".to_string(), Err(e) => format!("FAIL:{}", e) },
                            "into-entity",
                        );
                    }
                }
            }
        }
    }
}
